"""C18 — DOF-set partitions and index look-ups (DESIGN.md section 6/C18).

Tie
  * translator harness/translate/c18_usetmask.py: n2p.mkusetmask (Python ast, not executed) ->
    lean/PyYetiVerif/Generated/UsetMask.lean; the lattice theorems of Props/C18.lean are `decide`d
    on that table, the specification (documented membership) is hand-written there;
  * exact correspondence between the Lean models (Model/Uset.lean, Model/Locate.lean, run through
    Drivers/C18.lean) and the real n2p.mkusetmask / mksetpv / expanddof / mkdofpv / make_uset and
    locate.find_duplicates / flippv / index2bool / index2slice / mat_intersect / list_intersect /
    merge_lists / find_subseq on integer data (index vectors and exception kinds compared exactly);
    n2p.make_uset with coordinates, n2p.upasetpv / upqsetpv on generated nas2cam-like dictionaries
    (harness/props/c18_nas.py) and on the nas2cam files of pyYeti's own tests;
    n2p.formtran / formulvs / formdrm / addulvs on those dictionaries completed with small integer got / goq / gm /
    pha / phg matrices (harness/props/c18_tran.py: matrices, output DOF and exception kinds compared exactly), and
    the table n2p.usetprt returns.
Oracle (model-free): the set identities, look-up contract and defining equations restated on the
public API with the documented membership table written out by hand below.
"""
import itertools
import json
import os
import sys

import numpy as np

from runner import Infra, TieBroken

ID = "C18"
LEAN_MODULES = ["PyYetiVerif.Props.C18", "PyYetiVerif.Props.C18Up", "PyYetiVerif.Props.C18Idx", "PyYetiVerif.Props.C18Xyz",
                "PyYetiVerif.Props.C18Tran", "PyYetiVerif.Props.C18Ulvs", "PyYetiVerif.Props.C18Prt", "PyYetiVerif.Props.C18Cyc",
                "PyYetiVerif.Props.C18Tran0", "PyYetiVerif.Props.C18TranM", "PyYetiVerif.Props.C18Assoc", "PyYetiVerif.Props.C18Shapes",
                "PyYetiVerif.Audit.C18"]
AUDIT_FILE = "PyYetiVerif/Audit/C18.lean"
THEOREMS = [
    "PyYetiVerif.C18." + n
    for n in (
        "base_sets_disjoint superset_is_union superset_is_union_bitwise user_sets_separate inSet_subword table_partition mksetpv_refuses_iff mksetpv_spec mksetpv_named expanddof_digits expanddof2_spec lookup_sound lookup_complete mkdofpv_strict_iff mkdofpv_spec mkdofpv_positions mkdofpv_set mat_intersect_spec find_subseq_spec list_intersect_spec flippv_spec index2bool_spec normIndex_spec find_vals_spec find_rows_spec find_unique_spec find_duplicates_spec index2slice_cases index2slice_spec merge_lists_spec merge_lists_inserts mkusetmask_plus mksetpv_plus make_uset_sets make_uset_accepts make_uset_sets_partial make_uset_split_rows make_uset_ids make_uset_coords_partial upasetpv_spec scatter_spec upqsetpv_length upqsetpv_one_upstream qupOwn_spec "
        "upqsetpv_fuel_stable upqsetpv_fuel_suffices upqsetpv_cycle_diverges cyclic_not_acyclic QConn_iff upqsetpv_spec canFlag_of_flagged separate_of_check upqIdx_eq_upasetpv upasetpv_perm mat_intersect_order mat_intersect_keep1 mat_intersect_keep2 mat_intersect_keep0 mat_intersect_keep_other findse_spec findse_find? nodeIds_spec nodeIds_make xyz_triple_exact find_xyz_triples_exact "
        "formtran_partition_identity formtran_aset_identity formtran_columns_are_target_set ulvsPath_spec ulvsLoop_chain formulvs_chain_is_product formulvs_noshortcut formulvs_cases formdrm_is_rows_of_formtran formdrm_same_se addulvs_consistent memberCol_spec usetprt_table_is_partition_listing mask_expression_is_union mask_expression_members mask_expression_append mask_expression_absorbs mkdofpv_expression find_subseq_mem_iff find_subseq_errors find_rows_other_length mat_intersect_duplicates index_helpers_refuse_together upqsetpv_never_returns_of_progress upqsetpv_cyclic_diverges formtran0_gset formtran0_phg formtran0_pha formtran_mset_composition dotChain_append ulvsPath_mono ulvsPath_split"
        " iddofG_eq_iddofOf iddofG_is_gset_rows"
        " dot_assoc_rect dotChain_one_append ShapesAgree_rect ShapesAgree_chain_ok formulvs_path_composes ulvsLevels_complete"
        " ulvsLevels_sound formulvs_path_composes_of_test"
        " formulvs_path_composes_rect WF_iff_wfB formtranUpWith_rect formtran0With_rect formtran_rect ulvsLevel_rect"
        " formulvs_path_composes_wf"
    ).split()
]
TRUSTED = [
    "translator harness/translate/c18_usetmask.py (ast only; cross-checked against executing n2p.mkusetmask())",
    "correspondence harness harness/props/c18.py (exact comparison of index vectors and exception kinds)",
    "np.argsort / np.searchsorted / np.correlate / pandas boolean .loc / .iloc slice assignment / Index.isin / numpy "
    "fancy and boolean index assignment (broadcast of one value, later entry wins on a repeated index) are modelled "
    "(merge sort on (value, index), count of smaller entries, sliding dot product, mask of equal length, list set) and "
    "correspondence-checked, not verified",
    "library argsort is not stable: when several haystack rows are equal the reported row is canonicalised to the "
    "first equal row before comparison (mat_intersect); USET tables have distinct (id, dof) keys",
    "Lean `LinearOrder (List Int)` (Mathlib, lexicographic) is used to instantiate the row theorems; the byte-string "
    "order used by mat_intersect is another linear order and the theorems are order-independent",
    "make_uset with xyz and a component list split over rows (undocumented): the pandas exception for an x y z block "
    "of another height is TypeError or ValueError depending on the shapes; the model says TypeError and the "
    "correspondence accepts either there",
    "pySlice (Model/Locate.lean) is a hand model of CPython's PySlice_AdjustIndices / slice length; it is "
    "correspondence-checked against list(range(n))[slice(a, b, c)] (stream pyslice), not derived from CPython",
    "harness/props/c18_nas.py builds nas2cam-like dictionaries from a known superelement tree; the expected "
    "upasetpv / upqsetpv vectors used by the oracle come from that construction",
    "find_xyz_triples: np.linalg.cond / inv / norm, np.allclose are modelled by exact rational inequalities (squared "
    "where a square root occurs); the model reports `borderline` when two sides are within 1e-9 (relative) and those "
    "inputs are skipped; a non-singular block on the grid 1/16 with entries up to 128 has cond < 1e12, so `cond > 1/eps` "
    "is `det = 0` there",
    "formtran / formulvs / formdrm / addulvs: numpy fancy-index assignment (`tran[rows, cols] = block`, later column "
    "wins), `np.ix_` on boolean vectors (= their nonzero() indices), `np.dot` with the scalar 1.0, `np.any(gmo, 0)`, "
    "pandas `.iloc[rows, :0].reset_index()` are modelled (setCols / takeIdx / dotU / anyCols) and correspondence-checked; "
    "matrix entries are small integers so that every float64 product is exact; RuntimeWarnings (got / goq absent) are "
    "not compared; on the nas2cam files of pyYeti's tests the matrices are floats: the driver runs the same model over "
    "exact rationals (entries sent as n/2^k) and the result is compared to 1e-9 of its largest entry; "
    "harness/props/c18_tran.py computes the oracle's reference displacements from the defining relations "
    "u_o = GOT u_t + GOQ u_q, u_m = GM u_n, u_s = 0 level by level (never through formtran or the Lean model)",
    "the `[id, dof]` rows compared by locate.mat_intersect inside formtran are two-element integer lists in the driver "
    "(lexicographic order); the theorems are stated for every linearly ordered row type",
    "n2p._findse / n2p._get_node_ids are private helpers: they are compared directly while they exist (a refactoring "
    "that removes them skips those two streams; upasetpv / upqsetpv, which use them, stay compared)",
]
RULE = (
    "USET tables are built with n2p.make_uset from distinct ids (grids with one set per grid or one set per DOF, "
    "scalar points, component lists split over rows, 1-D ids, with and without coordinates), set words drawn from "
    "base-set masks, Nastran-style words carrying superset bits, and random 32-bit words; major/minor are named "
    "sets, '+' combinations and integer masks; requests are 1-D ids or 2-D [id, component-list] rows with present "
    "and absent DOF, strict and non-strict; nas2cam-like dictionaries are generated from a random superelement tree "
    "(1-7 upstream SEs, depth <= 4, up to 3 upstream SEs per SE, every tenth with a forced chain of depth 3 or 4; "
    "CSUPER-type ids, SECONCT-type internal ids through upids, reordering maps at every level, maps that skip DOF, SEs "
    "without q-set, boundary grids shared by two upstream SEs), each also with one inconsistency (16 kinds: missing "
    "entries, out-of-range / negative / short / permuted maps, scale != 1, dropped / extra / repeated dnids, short "
    "upids, selist rows dropped / repeated, a cyclic selist), the two dictionaries of the Lean examples, plus the three "
    "nas2cam files of pyYeti's own tests; the same generated dictionaries completed with integer got / goq / gm (also "
    "absent got / goq, gm independent of the o-set) and phg or pha (+ gm) for the residual: formtran on the residual "
    "(gset / phg / pha) and on 1-2 upstream SEs with requests of 1-D ids, component lists, a-set-only DOF, repeated and "
    "missing DOF; formulvs from every upstream SE to the residual and to an intermediate SE with random keepcset / "
    "shortcut / gset; formdrm; addulvs with and without an `ulvs` entry already stored; usetprt(0, uset, printsets) with "
    "'*', the default, and random lists (upper case, blanks, repeated and unknown names); selists with repeated / absent SEs for _findse, tables with rows removed for "
    "_get_node_ids; mat_intersect with keep 0/1/2/3/5 on distinct rows in shuffled and descending order; rigid-body "
    "matrices for find_xyz_triples on the grid 1/16 (1-4 nodes at quarter coordinates, signed-permutation / sheared / "
    "non-orthogonal local systems, scales 1 2 3 4 10, rotation rows, deleted rows, perturbed rotation entries, tol 0.01 "
    "and 0.3, the two docstring examples; 15% consist of exact triples only); locate inputs are short integer "
    "vectors/matrices over small alphabets (to force repeats), index vectors with negative and out-of-range "
    "entries, arithmetic progressions (ascending, descending, ending at index 0) and near-progressions, fixed edge "
    "cases (empty, single, all-equal, chains, a difference exactly tol). A case is one call compared exactly; "
    "non-trivial = the call reaches a non-default outcome (a refusal, a dropped DOF, a repeated value, a non-empty "
    "intersection, a slice result, an insertion, a flagged row); distinct by the canonical request line"
)
ASSUMPTIONS = [
    "nasset words and ids are non-negative integers below 2^63 (int64 column); (id, dof) keys of a table are distinct",
    "locate inputs are integers or dyadic floats k/4 (also float32 / int32 / mixed dtypes), so every float comparison is exact",
    "upqsetpv recurses without a bound, the model with fuel len(selist)+1: proved equal on an acyclic selist "
    "(upqsetpv_fuel_suffices); on a cyclic selist the model's `.recursion` is compared with Python's RecursionError "
    "(a call chain longer than len(selist)+1 repeats an SE, and the routine is a function of the SE id alone); maps hold "
    "integer-valued floats; make_uset coordinates are copied, not computed (integer-valued xyz in the correspondence)",
    "formtran / formulvs / formdrm / addulvs: the stored matrices have the shapes of their sets (got |o| x |t|, goq "
    "|o| x |q|, gm |m| x |n|, pha |a| x k, phg |g| x k) and hold integers; the selist path from seup reaches sedn "
    "(otherwise the real `while True` loop ends in a KeyError or never ends: the model's fuel selist.length+1, reply "
    "`fuel`, is never compared); formtran_partition_identity assumes that no DOF is in the t-set and the q-set at once "
    "(hdis; true for every table of base-set words)",
    "upqsetpv_spec: the dictionary has separate connections (Separate; decidable test separateB, evaluated by the "
    "driver on every generated dictionary and on the nas2cam files of pyYeti's tests)",
]
PARTIAL = (
    "make_uset coordinates (xyz) are proved only for the documented request forms (make_uset_coords_partial): the xyz "
    "loop keeps its three-way branch, so for an (undocumented) component list split over several rows, e.g. "
    "[[1,123],[1,456]], the code writes the xyz row of each request row into ONE table row (rows 1 and 2 of the grid) "
    "and leaves the other rows NaN, and a row [id,1] takes the next six xyz rows (ValueError when fewer remain) - "
    "modelled and correspondence-checked (branch make_uset-xyz:unset-rows), no property is claimed there; the nasset "
    "column is proved at full strength (make_uset_sets) since fix a37d9b6. upqsetpv is proved at every depth, for "
    "several upstream SEs and all maps forms (upqsetpv_spec: flag = connected to an upstream q-set DOF) on dictionaries "
    "with separate connections (Separate: the places of a connection are distinct and as many as the upstream a-set, "
    "places shared by two upstream SEs are flagged alike; decidable test separateB, true on every generated dictionary "
    "and on the three nas2cam files); outside it - a later upstream SE overwriting the flag of an earlier one at a "
    "shared place (counterexample overlapNas: the hypothesis is necessary), numpy broadcasting of a one-element flag "
    "vector - the routine is modelled and correspondence-checked, nothing is claimed. Recursion: proved that the fuel "
    "selist.length+1 is never used up on an acyclic selist, and (upqsetpv_cyclic_diverges, pigeonhole) that a model run "
    "which uses up that fuel returns a value at no fuel at all - the unbounded recursion of the real code cannot "
    "return; that Python then ends it with RecursionError (rather than by a look-up error first) is tied by the "
    "recursion-error branch. n2p.find_xyz_triples is modelled with exact rational decisions and proved on exact data "
    "(find_xyz_triples_exact: a matrix made of x, y, z triples of nodes in orthogonal local systems at any scale - every "
    "row is marked, with the node's location and scale); on inexact data (entries within the tolerances, rotation rows, "
    "missing rows - the documented way the routine can be tricked) it is tied by the correspondence only, inputs with a "
    "comparison within 1e-9 of its threshold or with a singular window of equal column norms are skipped and counted, "
    "and cond(T1) > 1/eps is modelled as det T1 = 0. Matrix routines: formtran is proved row by row - se != 0: t-, q-, o-, "
    "s-set rows for any ring-like entry type (formtran_partition_identity, formtran_aset_identity), m-set rows in closed "
    "form over a semiring (formtran_mset_composition: GM composed with the n-set rows, the np.any(gmo, 0) pruning "
    "shown irrelevant) under the hypotheses that no DOF is in the t- and the q-set at once and that got / goq rows have "
    "their declared width; residual: formtran0_gset (every request, also with repeated DOF: the code since fix "
    "061ccd9), formtran0_phg, "
    "formtran0_pha (a-set rows = pha rows, s-set rows zero, m-set rows only located in `gm[:, a_n] @ pha`, not expanded). "
    "The DOF are looked up in `iddof`, the [id, dof] table of the g-set rows (iddofG_is_gset_rows: entry p is the table row at the "
    "p-th g-set position, the numbering of mksetpv(uset, 'g', x) and mkdofpv(uset, 'g', ...); iddofG_eq_iddofOf: the whole table "
    "when it has no extra points) - the code since fix e74e9b9 of finding F69 (formtran-se0-pha-extra-point-rows: before it the "
    "g-set positions indexed the WHOLE table, and an extra point in front of / between the DOF gave RuntimeError or, without any "
    "exception, the rows of other DOF; regression guards in the oracle, extra points in the generated tables of the formtran "
    "stream); a DOF named twice with gset=True "
    "gave a zero row before fix 061ccd9 (F68, repaired: formtran0_gset now holds for every request; regression family "
    "formtran-se0-gset-repeated-dof). formulvs / formdrm / addulvs are proved as products / rows / stored entries of "
    "formtran levels (formulvs_chain_is_product: left-to-right product along the tree path; the product is associative on rectangular "
    "matrices - dot_assoc_rect, dotChain_one_append: equalities of values, the ValueError of unequal inner dimensions "
    "included - and ULVS composes along a tree path, formulvs_path_composes_wf: ULVS(a->c) = ULVS(a->b) ULVS(b->c) for an SE b "
    "strictly between, for every dictionary whose stored phg / pha are rectangular arrays (WF: a decidable predicate on "
    "the input, = the driver test wfB run on every generated case, WF_iff_wfB) - no hypothesis on formtran's output: "
    "formtran_rect (the matrix formtran returns is a rectangular array: se != 0 whatever got / goq / gm hold, residual "
    "under WF) and ulvsLevel_rect (every level, any keepcset / gset) are proved; that the column count of a level equals "
    "the row count of the next one is NOT proved as a theorem about the dictionary - it is not needed: the theorems are "
    "equalities of values in which both sides raise the ValueError of np.dot alike - and is tested per case by the "
    "stream formulvs-shapes (ShapesAgree of the model's levels, shapes compared with the real one-level calls). usetprt: the returned "
    "table is proved (usetprt_table_is_partition_listing), the printed text is not modelled. On the nas2cam files of "
    "pyYeti's tests (non-integer matrices) the matrix routines are compared numerically (model over exact rationals, "
    "1e-9 of the largest entry), not exactly. Float / mixed int-float inputs are "
    "dyadic (k/4) and modelled over scaled Int; non-dyadic floats (rounding in tol*max, correlate, abs(diff) <= tol) "
    "are outside the exact model"
)
MANIFEST = {
    "level_text": "proof: lattice theorems decided on the table generated from the source; mksetpv (also with '+' "
    "combinations), mkdofpv, expanddof, make_uset (set words for every accepted request incl. component lists split over "
    "rows; coordinates for the documented request forms), upasetpv and all "
    "locate helpers (mat_intersect, find_subseq, list_intersect, flippv, index2bool, find_vals, find_rows, find_unique, "
    "find_duplicates, index2slice against a model of CPython slicing, merge_lists incl. where new items are inserted) "
    "proved against their defining relations for all inputs; mat_intersect for every keep value with the looped side in "
    "its original order; upqsetpv up the whole superelement tree (several upstream SEs, any depth, maps re-ordering: "
    "flag = connected to an upstream q-set DOF, by induction on the recursion) for dictionaries with separate "
    "connections, termination of its recursion exactly on acyclic selists, the places of its connections = upasetpv, "
    "upasetpv with a permutation map is a permutation of the boundary rows; _findse, _get_node_ids; find_xyz_triples "
    "finds every node of a matrix of exact triples (location and scale); formtran (se != 0): one row per requested "
    "DOF in request order, unit vector at the a-set column for t- and q-set DOF, stored got / goq row scattered to the "
    "t- and q-columns for o-set DOF, zero for s-set DOF, GM composed with the n-set rows for m-set DOF (semiring), "
    "columns = the a-set (any linear order of the [id, dof] rows); residual: g-set selection / phg rows / pha recovery; formulvs = left-to-right product of the per-level formtran matrices along the tree path for "
    "any depth and any keepcset / shortcut / gset, the product associative on rectangular matrices and ULVS(a->c) = "
    "ULVS(a->b) ULVS(b->c) along a tree path for dictionaries with rectangular phg / pha (formtran proved to return "
    "rectangular arrays); formdrm = rows of formtran times ULVS; addulvs stores exactly "
    "formulvs; the table of usetprt is the listing of the requested sets (each DOF once, table order, numbered per "
    "set); mkusetmask expressions are unions (idempotent, commutative, associative), mkdofpv on expressions; "
    "find_subseq membership form without wrap / clip; upqsetpv on a cyclic selist never returns (pigeonhole); exact "
    "correspondence",
    "level_note": "library kernels (argsort, searchsorted, correlate, pandas / numpy indexing and index assignment, "
    "CPython slicing) are modelled and correspondence-checked; upqsetpv outside `Separate` (a later upstream SE "
    "overwriting an earlier flag at a shared place, broadcasting) is tied (correspondence + construction oracle) but "
    "nothing is claimed; make_uset coordinates with split component lists (undocumented) are only modelled; "
    "find_xyz_triples on inexact data (tolerance rule) is tied numerically (exact pv, coordinates / scales to 1e-9) but "
    "not proved; the m-set rows of the residual's pha branch are located, not expanded; that the inner dimensions of neighbouring "
    "formulvs levels agree is tested by the driver on every generated case (stream formulvs-shapes), not proved (not "
    "needed by formulvs_path_composes_wf: a mismatch is the same ValueError on both sides); the printed text of usetprt is not "
    "modelled; on the (non-integer) nas2cam test files the matrix routines are compared to 1e-9, not exactly",
    "technique": "Lean 4 proof about executable models + ast translator for mkusetmask + exact differential "
    "correspondence + model-free oracle",
}

sys.path.insert(0, os.path.join(os.path.dirname(os.path.dirname(os.path.abspath(__file__))), "translate"))

# ---------------------------------------------------------------------------------------
# documented membership (docstring diagram of mkusetmask / mksetpv), written out by hand
BASE = ["m", "s", "o", "q", "r", "c", "b", "e"]
MEMBERS = {
    "l": "cb",
    "t": "rcb",
    "a": "qrcb",
    "f": "oqrcb",
    "n": "soqrcb",
    "g": "msoqrcb",
    "p": "msoqrcbe",
    "d": "qrcbe",
    "fe": "oqrcbe",
    "ne": "soqrcbe",
}
for _b in BASE:
    MEMBERS[_b] = _b
NAMED = BASE + ["l", "t", "a", "f", "n", "g", "p", "fe", "d", "ne"]
USER = ["u1", "u2", "u3", "u4", "u5", "u6"]


def translate(ctx):
    import c18_usetmask as tr

    try:
        names, table = tr.run(ctx.repo, ctx.lean)
    except tr.Unparsable as e:
        raise TieBroken("mkusetmask no longer fits the translator's grammar: %s" % e)
    except (OSError, SyntaxError) as e:
        raise TieBroken("cannot read mkusetmask: %s" % e)
    ctx.extra["generated_keys"] = [k for k, _ in table]
    return names


# ---------------------------------------------------------------------------------------
# helpers


def _kind(e):
    if isinstance(e, KeyError):
        return "key-error"
    if isinstance(e, IndexError):
        return "index-error"
    if isinstance(e, ValueError):
        return "value-error"
    if isinstance(e, TypeError):
        return "type-error"
    if isinstance(e, RecursionError):
        return "recursion-error"
    if isinstance(e, RuntimeError):
        return "runtime-error"
    return "other:" + type(e).__name__


def _call(fn, *a, **k):
    try:
        return ("ok", fn(*a, **k))
    except Exception as e:  # noqa: BLE001 - the kind is the datum
        return (_kind(e), None)


def _il(x):
    return [int(v) for v in np.asarray(x).ravel().tolist()]


def _s(l):
    return " ".join(str(int(v)) for v in np.asarray(l).ravel().tolist())


def _spec_token(spec):
    return "#%d" % spec if isinstance(spec, int) else spec


def _mods():
    from pyyeti.nastran import n2p
    from pyyeti import locate

    return n2p, locate


class Cases:
    """request lines for the driver + the canonical implementation reply for each"""

    def __init__(self, ctx):
        self.ctx = ctx
        self.items = []  # (stream, line, impl_reply, input_obj, nontrivial, branch)

    def add(self, stream, line, impl, inp, nontrivial=True, branch=None):
        self.items.append((stream, line, impl, inp, nontrivial, branch))


# ---------------------------------------------------------------------------------------
# table generators


def _realistic_word(masks, base):
    """Nastran-style word: one bit of the base set plus the own bits of every superset."""
    own = {"a": 7, "l": 8, "t": 23, "f": 6, "n": 5, "g": 4, "p": 12, "fe": 14, "d": 15, "ne": 13}
    bits = [i for i in range(32) if masks[base] >> i & 1]
    w = 1 << bits[-1]
    for s_, bit in own.items():
        if base in MEMBERS[s_]:
            w |= 1 << bit
    return w


def _gen_table(ctx, masks, style=None):
    """returns (make_uset rows, nasset list) with distinct ids"""
    rng = ctx.rng
    style = style or rng.choice(["base", "base", "perdof", "realistic", "random", "mixed"])
    npts = rng.randint(1, 5)
    ids = rng.sample(range(1, 40), npts)
    rows, nas = [], []

    def word(kind):
        if kind == "base":
            return masks[rng.choice(BASE)]
        if kind == "realistic":
            return _realistic_word(masks, rng.choice(BASE))
        if kind == "random":
            return rng.getrandbits(32) if rng.random() < 0.8 else 0
        if kind == "user":
            return masks[rng.choice(USER)] | (masks[rng.choice(BASE)] if rng.random() < 0.5 else 0)
        return word(rng.choice(["base", "realistic", "random", "user"]))

    for i in ids:
        if rng.random() < 0.3:
            rows.append([i, 0])
            nas.append(word("base" if style == "perdof" else style))
        elif style in ("perdof", "mixed", "random") and rng.random() < 0.6:
            for d in range(1, 7):
                rows.append([i, d])
                nas.append(word("base" if style == "perdof" else style))
        else:
            rows.append([i, 123456])
            nas.append(word("base" if style == "perdof" else style))
    return rows, nas, style


def _gen_spec(ctx, masks):
    rng = ctx.rng
    r = rng.random()
    if r < 0.55:
        return rng.choice(NAMED + USER[:2])
    if r < 0.8:
        return "+".join(rng.sample(NAMED + USER, rng.randint(2, 3)))
    if r < 0.9:
        return int(masks[rng.choice(NAMED)] if rng.random() < 0.5 else rng.getrandbits(32))
    return rng.choice(["a+zz", "", "A", "b+"])  # unknown keys


# ---------------------------------------------------------------------------------------
# correspondence


def _uset_streams(ctx, cs):
    n2p, locate = _mods()
    rng = ctx.rng
    full = _call(n2p.mkusetmask)
    if full[0] != "ok" or not isinstance(full[1], dict):
        cs.add("mask", "mask p", full[0], {"call": "mkusetmask()"})
        return None
    masks = {k: int(v) for k, v in full[1].items()}
    # generated table == executing the function, key by key
    gen_keys = ctx.extra.get("generated_keys")
    if gen_keys is not None and list(masks) != list(gen_keys):
        ctx.disagree("mask-keys", {"call": "mkusetmask()"}, list(masks), list(gen_keys))
    for k in masks:
        cs.add("mask", "mask " + k, "ok %d" % masks[k], {"nasset": k}, branch="mask:key")
    for _ in range(ctx.pick(60, 300)):
        spec = _gen_spec(ctx, masks)
        if isinstance(spec, int):
            continue
        r = _call(n2p.mkusetmask, spec)
        cs.add("mask", "mask " + (spec if spec else "+"), "ok %d" % r[1] if r[0] == "ok" else r[0],
               {"nasset": spec}, branch="mask:" + ("combo" if r[0] == "ok" else r[0]))
    # repeated names, members contained in other members, regrouping: the expression is a union
    for spec in ["b+b", "a+b", "b+a", "a+b+a", "t+b+r", "l+c", "f+a", "g+m", "d+e", "q+b", "b+q", "u1+u1+b", "p+p"]:
        r = _call(n2p.mkusetmask, spec)
        cs.add("mask", "mask " + spec, "ok %d" % r[1] if r[0] == "ok" else r[0], {"nasset": spec},
               branch="mask:repeated-or-overlapping")
    if not all(k in masks for k in NAMED + USER):
        return masks  # the table lost a documented key: the mask stream / build already shows it

    # ---- mksetpv -------------------------------------------------------------------------
    def setpv_case(uset, words, major, minor, stream="mksetpv"):
        r = _call(n2p.mksetpv, uset, major, minor)
        impl = "ok " + _s(r[1]) if r[0] == "ok" else r[0]
        br = "mksetpv:" + ("ok" if r[0] == "ok" else r[0])
        if r[0] == "ok" and 0 < int(np.sum(r[1])) < len(r[1]):
            br = "mksetpv:proper-subset"
        cs.add(stream, "setpv %s %s | %s" % (_spec_token(major), _spec_token(minor), _s(words)), impl.strip(),
               {"words": words, "major": major, "minor": minor}, nontrivial=br != "mksetpv:ok", branch=br)

    tables = []
    for _ in range(ctx.pick(250, 2500)):
        rows, nas, style = _gen_table(ctx, masks)
        r = _call(n2p.make_uset, rows, nas)
        if r[0] != "ok":
            ctx.disagree("make_uset-generator", {"rows": rows, "nasset": nas}, r[0], "ok")
            continue
        uset = r[1]
        words = _il(uset["nasset"].values)
        tables.append((uset, rows, nas, style))
        for _ in range(4):
            major, minor = _gen_spec(ctx, masks), _gen_spec(ctx, masks)
            if rng.random() < 0.5 and isinstance(major, str) and major in MEMBERS:
                minor = rng.choice([k for k in NAMED if set(MEMBERS[k]) <= set(MEMBERS[major])])
            if major == "":
                major = "zz"
            if minor == "":
                minor = "zz"
            setpv_case(uset, words, major, minor)

    # exhaustive small tables: 2 grids + 1 scalar point, every assignment of the 8 base sets
    # (thorough: all 512; quick: a seeded sample) x all major/minor pairs among the 18 named sets
    assigns = list(itertools.product(BASE, repeat=3))
    if not ctx.thorough:
        assigns = rng.sample(assigns, 40)
    for a in assigns:
        uset = n2p.make_uset([[1, 123456], [2, 123456], [3, 0]], list(a))
        words = _il(uset["nasset"].values)
        for major in NAMED:
            for minor in NAMED:
                setpv_case(uset, words, major, minor, stream="mksetpv-exhaustive")
    # per-DOF 6-letter strings on one grid (+ one scalar point)
    six = [rng.choices(BASE, k=6) for _ in range(ctx.pick(6, 120))]
    for lets in six:
        uset = n2p.make_uset([[7, d] for d in range(1, 7)] + [[9, 0]], list(lets) + [rng.choice(BASE)])
        words = _il(uset["nasset"].values)
        for major in NAMED:
            for minor in NAMED:
                setpv_case(uset, words, major, minor, stream="mksetpv-exhaustive")
    ctx.extra["exhaustive_set"] = (
        "mksetpv on 2 grids + 1 scalar point, %s assignments of the 8 base sets, all 18x18 named major/minor pairs"
        % ("all 512" if ctx.thorough else "40 sampled")
    )

    # ---- expanddof -------------------------------------------------------------------------
    def gen_request(ids_present):
        pool = list(ids_present) + [rng.randint(1, 60)]
        if rng.random() < 0.3:
            ids = [rng.choice(pool) for _ in range(rng.randint(0, 4))]
            g = rng.random() < 0.6
            form = rng.choice(["flat", "col"]) if ids else "flat"
            py = ids if form == "flat" else [[i] for i in ids]
            return py, "1 %d" % g, _s(ids), {"grids_only": g}
        rows = []
        for _ in range(rng.randint(0, 5)):
            r = rng.random()
            if r < 0.25:
                arg = 0
            elif r < 0.5:
                arg = rng.randint(1, 6)
            elif r < 0.9:
                arg = int("".join(str(d) for d in rng.sample(range(1, 7), rng.randint(1, 6))))
            else:
                arg = rng.choice([7, 170, 1234567, 19, 100, 66, 8])
            rows.append([rng.choice(pool), arg])
        return rows, "2", _s([v for r_ in rows for v in r_]), {}

    for _ in range(ctx.pick(300, 3000)):
        py, kind, sec, kw = gen_request(range(1, 6))
        r = _call(n2p.expanddof, py, **kw)
        impl = ("ok " + _s(r[1])).strip() if r[0] == "ok" else r[0]
        cs.add("expanddof", "expand %s | %s" % (kind, sec), impl, {"dof": py, **kw},
               nontrivial=kind == "2", branch="expanddof:" + (("1d" if kind != "2" else "2d") if r[0] == "ok" else r[0]))

    # ---- mkdofpv ---------------------------------------------------------------------------
    for uset, rows, nas, style in tables:
        ids = sorted({int(i) for i in uset.index.get_level_values("id")})
        tbl = []
        for (i, d), w in zip(uset.index.tolist(), uset["nasset"].values.tolist()):
            tbl += [int(i), int(d), int(w)]
        for _ in range(3):
            py, kind, sec, kw = gen_request(ids)
            strict = rng.random() < 0.4
            r0 = rng.random()
            if r0 < 0.2:
                spec, tok = "p", "P"
            else:
                spec = _gen_spec(ctx, masks)
                if rng.random() < 0.6:
                    spec = rng.choice(["a", "b", "q", "g", "f", "b+q", "o", "m", "p+u1"])
                if spec == "":
                    spec = "zz"
                tok = "P" if spec == "p" else _spec_token(spec)  # the code special-cases the literal 'p'
            r = _call(n2p.mkdofpv, uset, spec, py, strict=strict, **kw)
            if r[0] == "ok":
                pv, od = r[1]
                impl = "ok %s | %s" % (_s(pv), _s(np.asarray(od).ravel()))
                br = "mkdofpv:" + ("found-all" if len(pv) == len(n2p.expanddof(py, **kw)) else "dropped-some")
                if len(pv) == 0:
                    br = "mkdofpv:empty-result"
            else:
                impl, br = r[0], "mkdofpv:" + r[0]
            cs.add("mkdofpv", "dofpv %d %s %s | %s | %s" % (strict, tok, kind, _s(tbl), sec), impl,
                   {"rows": rows, "nasset": nas, "set": spec, "dof": py, "strict": strict, **kw},
                   nontrivial=br != "mkdofpv:found-all", branch=br)
        # ndarray form of the table (nasset must be 'p')
        if rng.random() < 0.3:
            arr = np.array([[i, d] for (i, d) in uset.index.tolist()], dtype=np.int64)
            py, kind, sec, kw = gen_request(ids)
            strict = rng.random() < 0.4
            r = _call(n2p.mkdofpv, arr, "p", py, strict=strict, **kw)
            tb0 = []
            for (i, d) in uset.index.tolist():
                tb0 += [int(i), int(d), 0]
            impl = "ok %s | %s" % (_s(r[1][0]), _s(np.asarray(r[1][1]).ravel())) if r[0] == "ok" else r[0]
            cs.add("mkdofpv-ndarray", "dofpv %d P %s | %s | %s" % (strict, kind, _s(tb0), sec), impl,
                   {"array": arr.tolist(), "dof": py, "strict": strict, **kw}, branch="mkdofpv:ndarray")
    # the empty set (fix fb0155f) and the strict/non-strict pair on the same request
    u = n2p.make_uset([[1, 123456]], "b")
    tb = _s([v for d in range(1, 7) for v in (1, d, masks["b"])])
    for strict in (False, True):
        r = _call(n2p.mkdofpv, u, "o", [[1, 1]], strict=strict)
        impl = "ok %s | %s" % (_s(r[1][0]), _s(np.asarray(r[1][1]).ravel())) if r[0] == "ok" else r[0]
        cs.add("mkdofpv", "dofpv %d o 2 | %s | 1 1" % (strict, tb), impl,
               {"rows": [[1, 123456]], "nasset": ["b"], "set": "o", "dof": [[1, 1]], "strict": strict},
               branch="mkdofpv:empty-set")

    # ---- make_uset -------------------------------------------------------------------------
    for _ in range(ctx.pick(250, 2500)):
        rows, nas, style = _gen_table(ctx, masks)
        mode = rng.random()
        kind = "2"
        py = rows
        if mode < 0.15:
            nas = nas[:1]
        elif mode < 0.3:  # 1-D ids
            py = [r_[0] for r_ in rows]
            kind = "1"
            nas = nas[: len(py)] if len(nas) >= len(py) else nas[:1]
        elif mode < 0.45 and rows:  # damage it
            k = rng.randrange(len(rows))
            what = rng.choice(["arg", "drop", "nas", "split"])
            rows = [list(r_) for r_ in rows]
            if what == "arg":
                rows[k][1] = rng.choice([12345, 123457, 23456, 7, 123, 1])
            elif what == "drop":
                del rows[k]
            elif what == "nas":
                nas = nas + [1]
            elif rows[k][1] == 123456:
                rows[k : k + 1] = [[rows[k][0], 123], [rows[k][0], 456]]
                nas[k : k + 1] = [nas[k], nas[k] + 1]
            py = rows
        sec = _s(py) if kind == "1" else _s([v for r_ in py for v in r_])
        r = _call(n2p.make_uset, py, nas)
        if r[0] == "ok":
            u_ = r[1]
            flat = []
            for (i, d), w in zip(u_.index.tolist(), u_["nasset"].values.tolist()):
                flat += [int(i), int(d), int(w)]
            impl = ("ok " + _s(flat)).strip()
            br = "make_uset:ok"
        else:
            impl, br = r[0], "make_uset:" + r[0]
        cs.add("make_uset", "makeuset %s | %s | %s" % (kind, sec, _s(nas)), impl,
               {"dof": py, "nasset": nas}, nontrivial=len(nas) > 1, branch=br)
    return masks


def _fmt_xyz(u_):
    out = []
    for (i, d), w, xyz in zip(u_.index.tolist(), u_["nasset"].values.tolist(), u_[["x", "y", "z"]].values.tolist()):
        out += [str(int(i)), str(int(d)), str(int(w))]
        out += ["nan" if v != v else str(int(v)) for v in xyz]
    return " ".join(out)


def _makeuset_xyz_stream(ctx, cs, masks):
    """make_uset with coordinates: scalar / per-grid / per-DOF rows, 1-D ids, split component lists"""
    n2p, _ = _mods()
    rng = ctx.rng
    fixed = [
        ([[7, 1], [7, 23456]], [8, 9], [[-1, 5, -5], [-4, -3, 4]]),  # x y z block of 2 rows for 6: TypeError
        ([[20, 123456], [32, 1], [32, 23456], [15, 123456]], [4, 8, 9, 16],
         [[4, 7, -1], [0, 9, 8], [9, -8, -4], [7, -1, 8]]),  # block of 3 rows for 6: ValueError in pandas
        ([[1, 123], [1, 456], [2, 0]], [2097154, 4194304, 4], [[1, 2, 3], [4, 5, 6], [7, 8, 9]]),
        ([[7, 1], [7, 23456], [9, 0], [10, 0], [11, 0], [12, 0]], [1, 2, 3, 4, 5, 6], [[i, i, i] for i in range(6)]),
    ]
    for it in range(ctx.pick(200, 2000)):
        rows, nas, style = _gen_table(ctx, masks)
        kind, py = "2", rows
        r0 = rng.random()
        if it < len(fixed):
            rows, nas, r0 = [list(r_) for r_ in fixed[it][0]], list(fixed[it][1]), 1.0
            py = rows
            ctx.count("make_uset-xyz:split-fixed")
        if r0 < 0.15:
            py = [r_[0] for r_ in rows]
            kind = "1"
        elif r0 < 0.35 and rows:
            k = rng.randrange(len(rows))
            rows = [list(r_) for r_ in rows]
            if rows[k][1] == 123456:
                cut = rng.choice([1, 2, 3, 4, 5])
                a_, b_ = "123456"[:cut], "123456"[cut:]
                rows[k:k + 1] = [[rows[k][0], int(a_)], [rows[k][0], int(b_)]]
                nas[k:k + 1] = [nas[k], nas[k] ^ 1]
            py = rows
        if rng.random() < 0.2:
            nas = nas[:1]
        nrow = len(py)
        xyz = [[rng.randint(-9, 9) for _ in range(3)] for _ in range(nrow if rng.random() < 0.93 else nrow + 1)]
        if it < len(fixed):
            nas, xyz = list(fixed[it][1]), [list(t) for t in fixed[it][2]]
        sec = _s(py) if kind == "1" else _s([v for r_ in py for v in r_])
        r = _call(n2p.make_uset, py, nas, xyz)
        if r[0] == "ok":
            impl, br = "ok " + _fmt_xyz(r[1]), "make_uset-xyz:ok"
            if any(v != v for v in r[1]["x"].values.tolist()):
                br = "make_uset-xyz:unset-rows"
        else:
            impl, br = r[0], "make_uset-xyz:" + r[0]
        cs.add("make_uset-xyz", "makeusetx %s | %s | %s | %s" % (kind, sec, _s(nas), _s([v for t in xyz for v in t])),
               impl, {"dof": py, "nasset": nas, "xyz": xyz}, nontrivial=True, branch=br)


def _nas_reply(r, boolean):
    if r[0] != "ok":
        return r[0]
    v = np.asarray(r[1])
    return ("ok " + _s(v.astype(int))).strip()


def _nas_streams(ctx, cs):
    """upasetpv / upqsetpv on generated nas2cam-like dictionaries (consistent ones, damaged ones) and on the
    dictionaries of pyYeti's own test data"""
    from props import c18_nas as N

    n2p, _ = _mods()
    rng = ctx.rng

    def both(nas, tag, ses_a, ses_q, known=None):
        secs = N.serialize(nas)
        plain = N.to_plain(nas)
        for c in ses_a:
            r = _call(n2p.upasetpv, nas, c)
            br = "upasetpv:" + (r[0] if r[0] != "ok" else "ok")
            if known is not None and c in known["upa"]:  # labelled by the input, not by the outcome
                m = nas["maps"].get(c, [])
                br = "upasetpv:" + ("maps" if len(m) else "upids" if known["kind"].get(c) == "seconct" else "direct")
            inp = {"nas": plain, "seup": c}
            if known is not None and c in known["upa"]:
                inp.update(expected=known["upa"][c], style=known["style"])
            cs.add("upasetpv" + tag, "upa %d | %s" % (c, secs), _nas_reply(r, False), inp,
                   nontrivial=r[0] == "ok" and len(r[1]) > 0, branch=br)
        for s_ in ses_q:
            r = _call(n2p.upqsetpv, nas, s_)
            br = "upqsetpv:" + (r[0] if r[0] != "ok" else ("some" if np.any(r[1]) else "none"))
            inp = {"nas": plain, "sedn": s_}
            if known is not None and s_ in known["upq"]:
                inp.update(expected=known["upq"][s_], style=known["style"])
                br = "upqsetpv:" + ("some" if any(known["upq"][s_]) else "none")
            cs.add("upqsetpv" + tag, "upq %d | %s" % (s_, secs), _nas_reply(r, True), inp,
                   nontrivial=r[0] == "ok" and bool(np.any(r[1])), branch=br)

    # the dictionary of Props/C18Up.lean `overlapNas`: a later upstream SE overwrites the flag an earlier one set at a
    # shared place (outside `Separate`; index assignment, the later entry wins) - and the tree of `treeNas`
    q, b, o = 4194304, 2, 4
    overlap = N.from_plain({"selist": [[10, 0], [20, 0], [0, 0]],
                            "uset": {"10": [[91, 0, q]], "20": [[91, 0, b], [92, 0, q]], "0": [[91, 0, b], [92, 0, b]]},
                            "dnids": {"10": [91], "20": [91, 92]}, "maps": {"10": [], "20": [], "0": []}, "upids": {}})
    both(overlap, "-fixed", [10, 20], [0])
    cs.add("upqsetpv-separate", "sep | %s" % N.serialize(overlap), "ok 0", {"nas": N.to_plain(overlap)},
           nontrivial=True, branch="upqsetpv:later-upstream-overwrites")
    g = lambda i, w: [[i, d, w] for d in range(1, 7)]
    tree = N.from_plain({
        "selist": [[30, 10], [10, 0], [20, 0], [0, 0]],
        "uset": {"30": g(1, b) + [[91, 0, q]], "10": [[91, 0, b]] + g(5, b) + g(2, o) + [[92, 0, q]],
                 "20": g(7, b) + [[93, 0, b]],
                 "0": g(7, b) + [[91, 0, b]] + g(5, b) + [[93, 0, b], [92, 0, b], [50, 0, o]]},
        "dnids": {"30": [5, 91], "10": [91, 5, 92], "20": [7, 93]},
        "maps": {"30": [[1, 1], [2, 1], [3, 1], [4, 1], [5, 1], [6, 1], [0, 1]], "10": [], "20": [], "0": []},
        "upids": {}})
    both(tree, "-fixed", [30, 10, 20], [0, 10],
         {"kind": {}, "upa": {30: [1, 2, 3, 4, 5, 6, 0]}, "style": "lean-example",
          "upq": {0: [0, 0, 0, 0, 0, 0, 1, 0, 0, 0, 0, 0, 0, 1, 1, 0]}})
    ctx.count("upqsetpv:lean-examples")
    # SECONCT type connection whose downstream `upids` is EMPTY: pandas answers the empty boolean indexer with a
    # ValueError (an indexer of any other wrong length is an IndexError)
    emp = N.from_plain({"selist": [[0, 0], [40, 0]], "uset": {"0": [[30, 0, b]], "40": [[30, 0, q], [42, 0, o]]},
                        "dnids": {"40": [2000000002]}, "maps": {"40": []}, "upids": {"0": [], "40": [0, 0]}})
    both(emp, "-fixed", [40], [0])
    ctx.count("nas-damage:upids-empty")
    nsep = 0
    for it in range(ctx.pick(150, 1500)):
        # every tenth dictionary has a forced chain of depth 3 or 4 below the residual
        nas, info = N.gen_nas(rng, deep=(3 + it // 10 % 2) if it % 10 == 0 else None)
        ses = info["order"]
        kind = {}
        for c in ses:
            dn = set(np.asarray(nas["dnids"][c]).tolist())
            kind[c] = "seconct" if any(v > N.INTERNAL for v in dn) else "csuper"
        both(nas, "", ses + [rng.choice([0, 999])], [0] + ses + ([999] if rng.random() < 0.2 else []),
             {"kind": kind, "upa": info["expected_upa"], "upq": info["expected_upq"], "style": info["style"]})
        # the hypothesis of upqsetpv_spec (separate connections) holds on every consistent generated dictionary
        cs.add("upqsetpv-separate", "sep | %s" % N.serialize(nas), "ok 1", {"nas": N.to_plain(nas)},
               nontrivial=len(ses) > 1, branch="upqsetpv:separate")
        nsep += 1
        depth2 = any(info["parent"][c] != 0 for c in ses)
        if depth2:
            ctx.count("upqsetpv:recursive")
        if info["depth"] >= 3:
            ctx.count("upqsetpv:depth-3")
        if info["depth"] >= 4:
            ctx.count("upqsetpv:depth-4")
        if any(len(v) >= 2 for v in info["children"].values()):
            ctx.count("upqsetpv:several-upstream")
        if any(len(v) >= 2 for k_, v in info["children"].items() if k_ != 0):
            ctx.count("upqsetpv:several-upstream-above-residual")
        flagged = lambda c: any(info["expected_upq"].get(info["parent"][c], []))
        if any(flagged(c) for c in info["reordered"]):
            ctx.count("upqsetpv:maps-reordered")
        if any(flagged(c) and info["parent"][c] != 0 for c in info["reordered"]):
            ctx.count("upqsetpv:maps-reordered-above-residual")
        if info["shared"]:
            ctx.count("upqsetpv:shared-boundary")
        if info["style"] == "noq":
            ctx.count("upqsetpv:spoint-rule")
        if any(info["skipped"].values()):
            ctx.count("upasetpv:maps-skip")
        if it < 3 * len(N.DAMAGES) or rng.random() < 0.6:
            bad, what, cbad = N.damage(rng, nas, N.DAMAGES[it % len(N.DAMAGES)] if it < 3 * len(N.DAMAGES) else None)
            both(bad, "-damaged", sorted({cbad} | {c for c in ses if rng.random() < 0.5}),
                 [0] + ([cbad] if what == "selist-cycle" else []) + [c for c in ses if rng.random() < 0.3])
            ctx.count("nas-damage:" + what)
    for name, nas in N.real_dictionaries(ctx.repo):
        sl = np.asarray(nas["selist"]).tolist()
        both(nas, "-real", sorted({r_[0] for r_ in sl}), sorted({r_[1] for r_ in sl} | {r_[0] for r_ in sl}))
        ctx.count("nas-real-dictionary")
        # the hypothesis of upqsetpv_spec holds on the nas2cam files of pyYeti's own tests (two upstream SEs of the
        # csuper / extseout models are attached to the same boundary grids: those places cannot carry a flag)
        cs.add("upqsetpv-separate-real", "sep | %s" % N.serialize(nas), "ok 1", {"file": name}, nontrivial=True,
               branch="upqsetpv:separate-real")
    ctx.extra["upqsetpv_spec_hypothesis"] = (
        "Separate (driver op `sep`) holds on all %d consistent generated dictionaries of this run" % nsep)


def _tran_reply(r, with_dof=True):
    from props import c18_tran as T

    if r[0] != "ok":
        return r[0]
    if with_dof:
        m, od = r[1]
        return "ok %s | %s" % (T.show_mat(m), _s(np.asarray(od).ravel()))
    return "ok " + T.show_mat(r[1])


def _copy_nas(nas):
    out = dict(nas)
    if "ulvs" in nas:
        out["ulvs"] = dict(nas["ulvs"])
    return out


def _tran_streams(ctx, cs, masks):
    """n2p.formtran / formulvs / formdrm / addulvs on toy nas2cam dictionaries with small integer matrices
    (harness/props/c18_tran.py): exact comparison of the matrices, the output DOF and the exception kinds"""
    import warnings
    from props import c18_nas as N, c18_tran as T

    n2p, _ = _mods()
    rng = ctx.rng
    nmask = {k: int(v) for k, v in n2p.mkusetmask().items()}
    for it in range(ctx.pick(140, 1400)):
        res_o = it % 3 != 0
        nas, info = N.gen_nas(rng, deep=(3 + it // 10 % 2) if it % 10 == 0 else None, res_o=res_o)
        variant = ["phg", "pha", "phg", "pha", "none", "phg"][it % 6] if it < 60 else None
        tags = T.add_matrices(rng, nas, nmask, variant)
        for t_ in tags:
            ctx.count("tran-input:" + t_)
        secs = N.serialize(nas) + " | " + T.mats_sections(nas)
        plain = {"nas": N.to_plain(nas), "mats": T.plain_mats(nas), "parent": {str(k): v for k, v in info["parent"].items()},
                 "expected_upa": {str(k): v for k, v in info["expected_upa"].items()}}
        ses = info["order"]
        # formtran only: the same dictionary with extra points (e-set rows: in the p-set, not in the g-set) in front of,
        # between and behind the DOF of about half of the tables (finding F69, fixed by e74e9b9: `iddof` = the g-set rows)
        nas_x, with_e = T.with_extra_points(rng, nas, nmask, share=0.5 if it % 2 else 0.0)
        secs_x = N.serialize(nas_x) + " | " + T.mats_sections(nas_x)
        plain_x = dict(plain, nas=N.to_plain(nas_x))
        with warnings.catch_warnings():
            warnings.simplefilter("ignore")
            # ---- formtran ----
            for se in [0] + rng.sample(ses, min(len(ses), 2)):
                for _ in range(2):
                    py, kind, sec, rt = T.gen_request(rng, nas_x["uset"][se], nmask)
                    gset = se == 0 and rng.random() < 0.35
                    r = _call(n2p.formtran, nas_x, se, py, gset)
                    impl = _tran_reply(r)
                    if r[0] == "ok":
                        if se == 0:
                            br = "formtran0:" + ("gset" if gset else "phg" if 0 in nas["phg"] else "pha")
                        else:
                            br = "formtran:" + ("all-a-set" if "a-only" in rt else "general")
                    else:
                        br = ("formtran0:" if se == 0 else "formtran:") + r[0]
                    if r[0] == "ok" and se != 0:
                        L = T._letters(nas_x["uset"][se], nmask)
                        keys = [tuple(k) for k in nas_x["uset"][se].index.tolist()]
                        for d_ in T.expand(py):
                            if d_ in keys:
                                ctx.count("formtran-row:" + L[keys.index(d_)])
                        if any(L[keys.index(d_)] not in "qrcb" for d_ in T.expand(py) if d_ in keys):
                            br = "formtran:general"
                        else:
                            br = "formtran:all-a-set"
                    if "repeated" in rt and r[0] == "ok":
                        ctx.count("formtran:repeated-dof")
                    if se in with_e and r[0] == "ok" and not (se == 0 and (gset or 0 in nas["phg"])):
                        ctx.count("formtran:extra-points" + (":residual-pha" if se == 0 else ":upstream-se"))
                    cs.add("formtran", "ftran %d %d %s | %s | %s" % (se, gset, kind, secs_x, sec), impl,
                           dict(plain_x, what="formtran", se=se, dof=py, gset=gset), nontrivial=r[0] == "ok", branch=br)
            # ---- formulvs ----
            for c in ses:
                path = [c]
                while path[-1] != 0:
                    path.append(info["parent"][path[-1]])
                for sedn in ([0] + ([rng.choice(path[1:])] if len(path) > 2 else [])):
                    kc, sc = rng.random() < 0.6, rng.random() < 0.5
                    gset = sedn == 0 and rng.random() < 0.3
                    r = _call(n2p.formulvs, nas, c, sedn, kc, sc, gset)
                    impl = _tran_reply(r, False)
                    depth = path.index(sedn)
                    br = "formulvs:" + (r[0] if r[0] != "ok" else "depth-%d" % min(depth, 3))
                    if r[0] == "ok" and not kc:
                        ctx.count("formulvs:keepcset-false")
                    if r[0] == "ok" and gset:
                        ctx.count("formulvs:gset")
                    if r[0] == "ok" and sedn != 0:
                        ctx.count("formulvs:to-upstream-se")
                    cs.add("formulvs", "fulvs %d %d %d %d %d | %s | none" % (c, sedn, kc, sc, gset, secs), impl,
                           dict(plain, what="formulvs", seup=c, sedn=sedn, keepcset=kc, gset=gset),
                           nontrivial=r[0] == "ok" and depth > 1, branch=br)
                    # the shape hypothesis of formulvs_path_composes (driver: shapesTest): the levels the model multiplies
                    # pass ShapesAgree and have the shapes of the real one-level matrices formulvs(s, parent(s))
                    if r[0] == "ok" and np.ndim(r[1]) == 2 and not (sc and sedn == 0 and not gset and c in nas.get("ulvs", {})):
                        shp = []
                        for a_, b_ in zip(path[:depth], path[1:depth + 1]):
                            r1 = _call(n2p.formulvs, nas, a_, b_, kc, False, gset)
                            if r1[0] != "ok" or np.ndim(r1[1]) != 2:
                                shp = None
                                break
                            shp.append("%d %d" % np.asarray(r1[1]).shape)
                        if shp is not None:
                            cs.add("formulvs-shapes", "fshapes %d %d %d %d | %s" % (c, sedn, kc, gset, secs),
                                   "ok 1 | " + " ; ".join(shp) + " | wf 1",
                                   dict(plain, what="formulvs-shapes", seup=c, sedn=sedn, keepcset=kc, gset=gset),
                                   nontrivial=depth > 1, branch="formulvs-shapes:depth-%d" % min(depth, 3))
            # seup == sedn, an SE that is not in selist
            c = rng.choice(ses)
            for a_, b_ in ((c, c), (0, 0), (999, 0)):
                r = _call(n2p.formulvs, nas, a_, b_)
                cs.add("formulvs", "fulvs %d %d 1 1 0 | %s | none" % (a_, b_, secs), _tran_reply(r, False),
                       dict(plain, what="formulvs-trivial", seup=a_, sedn=b_), nontrivial=False,
                       branch="formulvs:" + ("one" if r[0] == "ok" and np.ndim(r[1]) == 0 else r[0]))
            # ---- formdrm ----
            for c in rng.sample(ses, min(len(ses), 2)):
                path = [c]
                while path[-1] != 0:
                    path.append(info["parent"][path[-1]])
                sedn = rng.choice(path)
                py, kind, sec, rt = T.gen_request(rng, nas["uset"][c], nmask)
                gset = sedn == 0 and rng.random() < 0.3
                n3, usec3 = nas, "none"
                if sedn == 0 and rng.random() < 0.4:
                    # an `ulvs` entry already stored (formdrm asks formulvs with shortcut=True): twice the true matrix
                    r0_ = _call(n2p.formulvs, nas, c, 0, True, False, False)
                    if r0_[0] == "ok" and np.ndim(r0_[1]) == 2:
                        n3 = _copy_nas(nas)
                        n3["ulvs"] = {c: 2.0 * np.asarray(r0_[1])}
                        usec3 = T.ulvs_section(n3)
                        ctx.count("formdrm:stored-ulvs")
                r = _call(n2p.formdrm, n3, c, py, sedn, gset)
                impl = _tran_reply(r)
                br = "formdrm:" + (r[0] if r[0] != "ok" else ("same-se" if sedn == c else "downstream"))
                cs.add("formdrm", "fdrm %d %d %d %s | %s | %s | %s" % (c, sedn, gset, kind, secs, usec3, sec), impl,
                       dict(plain, what="formdrm", seup=c, sedn=sedn, dof=py, gset=gset), nontrivial=r[0] == "ok", branch=br)
            # ---- addulvs (on a copy: it changes the dictionary), with and without an `ulvs` entry already there ----
            pick = rng.sample(ses, rng.randint(1, min(3, len(ses))))
            if rng.random() < 0.3:
                pick.append(pick[0])
            n2 = _copy_nas(nas)
            pre = rng.random() < 0.4
            if pre:
                n2["ulvs"] = {pick[-1]: np.array([[float(rng.randint(-3, 3)) for _ in range(2)] for _ in range(2)])}
            usec = T.ulvs_section(n2)
            kc, sc = rng.random() < 0.7, rng.random() < 0.6
            r = _call(n2p.addulvs, n2, *pick, keepcset=kc, shortcut=sc)
            if r[0] == "ok":
                impl = ("ok " + " ; ".join("%d : %s" % (int(k), T.show_mat(v)) for k, v in n2["ulvs"].items())).strip()
            else:
                impl = r[0]
            br = "addulvs:" + (r[0] if r[0] != "ok" else ("existing-entry" if pre else "new"))
            cs.add("addulvs", "addulvs 0 %d %d 0 | %s | %s | %s" % (kc, sc, secs, usec, _s(pick)), impl,
                   dict(plain, what="addulvs", ses=pick, keepcset=kc), nontrivial=r[0] == "ok", branch=br)
            if pre and sc and r[0] == "ok":
                ctx.count("addulvs:shortcut-keeps-stored")
    # ---- usetprt: the returned table ----
    allsets = "m,s,o,q,r,c,b,e,l,t,a,d,f,fe,n,ne,g,p,u1,u2,u3,u4,u5,u6".split(",")
    for it in range(ctx.pick(150, 1500)):
        rows, nas_, style = _gen_table(ctx, masks)
        r = _call(n2p.make_uset, rows, nas_)
        if r[0] != "ok":
            continue
        uset = r[1]
        tbl = []
        for (i, d), w in zip(uset.index.tolist(), uset["nasset"].values.tolist()):
            tbl += [int(i), int(d), int(w)]
        r0 = rng.random()
        if r0 < 0.2:
            ps, names = "*", "*"
        elif r0 < 0.35:
            ps, names = None, "m s o q r c b e l t a f n g"
        else:
            pick = [rng.choice(allsets + ["zz"]) for _ in range(rng.randint(1, 6))]
            names = " ".join(pick)
            ps = ",".join((" " if rng.random() < 0.3 else "") + (x.upper() if rng.random() < 0.2 else x) for x in pick)
        r = _call(n2p.usetprt, 0, uset, ps) if ps is not None else _call(n2p.usetprt, 0, uset)
        if r[0] != "ok":
            impl, br = r[0], "usetprt:" + r[0]
        elif r[1] is None:
            impl, br = "ok none", "usetprt:none"
        else:
            t = r[1]
            body = " ; ".join(_s(list(ix) + list(vals)) for ix, vals in zip(t.index.tolist(), t.values.tolist()))
            impl = "ok %s | %s" % (" ".join(t.columns.tolist()), body)
            br = "usetprt:" + ("all-rows" if t.shape[0] == uset.shape[0] else "rows-dropped")
        cs.add("usetprt", "usetprt | %s | %s" % (_s(tbl), names), impl,
               {"rows": rows, "nasset": nas_, "printsets": ps}, nontrivial=r[0] == "ok" and r[1] is not None, branch=br)


def _tran_real_stream(ctx, cs):
    """formtran / formulvs / formdrm on the nas2cam files of pyYeti's own tests (non-integer matrices: the model runs
    over exact rationals, the matrices are compared to 1e-9 of their largest entry, shapes / output DOF / exception
    kinds exactly)"""
    import warnings
    from props import c18_nas as N, c18_tran as T

    n2p, _ = _mods()
    rng = ctx.rng
    nmask = {k: int(v) for k, v in n2p.mkusetmask().items()}
    for name, nas0 in N.real_dictionaries(ctx.repo, matrices=True):
        nas = {k: v for k, v in nas0.items() if k != "ulvs"}
        secs = N.serialize(nas) + " | " + T.mats_sections_q(nas)
        ses = sorted({int(r_[0]) for r_ in np.asarray(nas["selist"]).tolist()})
        with warnings.catch_warnings():
            warnings.simplefilter("ignore")
            for se in ses:
                u = nas["uset"][se]
                keys = [(int(i), int(d)) for (i, d) in u.index.tolist()]
                words = [int(w) for w in u["nasset"].values.tolist()]
                for want in ("m", "o", "a", "s", "any"):
                    pool = [k for k, w in zip(keys, words) if want == "any" or (w & nmask[want])]
                    pool = [k for k, w in zip(keys, words) if k in pool and (w & nmask["g"])]
                    if not pool:
                        continue
                    rows_ = [list(rng.choice(pool)) for _ in range(rng.randint(1, 3))]
                    if want == "any":
                        rows_.append(list(rng.choice(keys)))
                    sec = " ".join(str(v) for r_ in rows_ for v in r_)
                    gset = se == 0 and rng.random() < 0.3
                    r = _call(n2p.formtran, nas, se, rows_, gset)
                    cs.add("formtran-real", "qftran %d %d 2 | %s | %s" % (se, gset, secs, sec), r,
                           {"file": name, "se": se, "dof": rows_, "gset": gset}, nontrivial=r[0] == "ok",
                           branch="formtran-real:" + (("set-" + want) if r[0] == "ok" else r[0]))
                if se != 0:
                    for kc in (True, False):
                        r = _call(n2p.formulvs, nas, se, 0, kc, False, False)
                        cs.add("formulvs-real", "qfulvs %d 0 %d 0 0 | %s" % (se, kc, secs), r,
                               {"file": name, "seup": se, "keepcset": kc}, nontrivial=r[0] == "ok",
                               branch="formulvs-real:" + r[0])
                    rows_ = [list(rng.choice(keys)) for _ in range(2)]
                    sec = " ".join(str(v) for r_ in rows_ for v in r_)
                    r = _call(n2p.formdrm, nas, se, rows_, 0, False)
                    cs.add("formdrm-real", "qfdrm %d 0 0 2 | %s | %s" % (se, secs, sec), r,
                           {"file": name, "seup": se, "dof": rows_}, nontrivial=r[0] == "ok", branch="formdrm-real:" + r[0])
        ctx.count("tran-real-dictionary")


def _canon_slice(r):
    if r[0] != "ok":
        return r[0]
    v = r[1]
    if isinstance(v, slice):
        f = lambda x: "None" if x is None else str(int(x))
        return "ok slice %s %s %s" % (f(v.start), f(v.stop), f(v.step))
    return ("ok pv " + _s(v)).strip()


def _first_rows(hay, idx):
    """canonicalise: replace each reported haystack row by the first row equal to it"""
    hay = [tuple(r) for r in hay]
    first = {}
    for k, r in enumerate(hay):
        first.setdefault(r, k)
    return [first[hay[i]] for i in idx]


def _gen_intlist(rng, lo, hi, nmax, nmin=0):
    return [rng.randint(lo, hi) for _ in range(rng.randint(nmin, nmax))]


def _locate_streams(ctx, cs):
    n2p, locate = _mods()
    rng = ctx.rng
    N = ctx.pick(400, 4000)
    # find_duplicates (explicit edge cases first: empty, single, all equal, chains, a difference exactly tol)
    fixed_dups = [([], 0), ([5], 0), ([5], 3), ([3, 3, 3, 3], 0), ([2, 0, 1], 1), ([0, 2, 4], 1), ([0, 2, 4], 2),
                  ([4, 0, 2], 2), ([7, -7], 14), ([7, -7], 13), ([1, 1, 5, 9, 9], 0), ([0, 3, 5, 8, 10], 2)]
    for k in range(N):
        v = _gen_intlist(rng, -4, 6, rng.choice([0, 1, 2, 3, 6, 12, 30]))
        if rng.random() < 0.2:
            v = [x * 1000 for x in v]
        tol = rng.choice([0, 0, 0, 1, 2, 1000])
        if k < len(fixed_dups):
            v, tol = list(fixed_dups[k][0]), fixed_dups[k][1]
        sv = sorted(v)
        if tol > 0 and any(b - a == tol for a, b in zip(sv, sv[1:])):
            ctx.count("dups:at-tol")
        if len(v) > 2 and len(set(v)) == 1:
            ctx.count("dups:all-equal")
        r = _call(locate.find_duplicates, v, tol) if tol or rng.random() < 0.5 else _call(locate.find_duplicates, v)
        impl = ("ok " + _s(r[1])).strip() if r[0] == "ok" else r[0]
        br = "dups:" + ("short" if len(v) < 2 else ("some" if r[0] == "ok" and any(r[1]) else "none" if r[0] == "ok" else r[0]))
        cs.add("find_duplicates", "dups %d | %s" % (tol, _s(v)), impl, {"v": v, "tol": tol},
               nontrivial=br == "dups:some", branch=br)
    # flippv / index2bool
    for k in range(N):
        n = rng.randint(0, 9)
        pv = _gen_intlist(rng, -n - 1 if rng.random() < 0.15 else -n, n if rng.random() < 0.15 else n - 1, 6) if n else \
            _gen_intlist(rng, -1, 1, 1)
        for name, op, fn in (("flippv", "flippv", locate.flippv), ("index2bool", "i2b", locate.index2bool)):
            r = _call(fn, np.array(pv, dtype=np.int64), n)
            impl = ("ok " + _s(r[1])).strip() if r[0] == "ok" else r[0]
            cs.add(name, "%s %d | %s" % (op, n, _s(pv)), impl, {"pv": pv, "n": n},
                   nontrivial=bool(pv), branch=name + ":" + ("ok" if r[0] == "ok" else r[0]))
    # index2slice + the Python slice semantics used to state its theorem
    for k in range(N):
        r0 = rng.random()
        if r0 < 0.5:
            a, d, L = rng.randint(-3, 12), rng.choice([-3, -2, -1, 1, 1, 2, 3, 0]), rng.randint(0, 6)
            if d < 0 and L and rng.random() < 0.4:
                a = -d * (L - 1) + rng.randint(0, -d)  # a descending progression that ends at index 0 .. -d
            pv = [a + d * i for i in range(L)]
            if rng.random() < 0.25 and pv:
                pv[rng.randrange(len(pv))] += rng.choice([-1, 1])
        else:
            pv = _gen_intlist(rng, -3, 9, 4)
        strict = rng.random() < 0.4
        r = _call(locate.index2slice, pv, strict)
        impl = _canon_slice(r)
        br = "index2slice:" + ("slice" if impl.startswith("ok slice") else "pv" if impl.startswith("ok pv") else impl)
        if r[0] == "ok" and isinstance(r[1], slice) and r[1].step is not None and r[1].step < 0:
            ctx.count("index2slice:stop-none" if r[1].stop is None else "index2slice:neg-step")
        if r[0] == "ok" and isinstance(r[1], slice) and len(pv) == 1 and pv[0] < 0:
            ctx.count("index2slice:single-negative")
        cs.add("index2slice", "i2s %d | %s" % (strict, _s(pv)), impl, {"pv": pv, "strict": strict},
               nontrivial=len(pv) > 1, branch=br)
    for k in range(N):
        n = rng.randint(0, 8)
        f = lambda: None if rng.random() < 0.25 else rng.randint(-n - 2, n + 2)
        a, b, c = f(), f(), rng.choice([None, 1, 1, 2, 3, -1, -2, -3])
        want = list(range(n))[slice(a, b, c)]
        t = lambda x: "None" if x is None else str(x)
        cs.add("pyslice", "pyslice %d %s %s %s" % (n, t(a), t(b), t(c)), ("ok " + _s(want)).strip(),
               {"n": n, "slice": [a, b, c]}, nontrivial=bool(want), branch="pyslice")
    # mat_intersect
    for k in range(N):
        keep = rng.choice([0, 1, 2])
        form = rng.random()
        if form < 0.4:
            d1, d2 = _gen_intlist(rng, -2, 5, 7), _gen_intlist(rng, -2, 5, 7)
            D1, D2 = [[x] for x in d1], [[x] for x in d2]
            c1 = c2 = 1
            a1, a2 = d1, d2
        else:
            c1 = rng.randint(1, 3)
            c2 = c1 if rng.random() < 0.9 else rng.randint(1, 3)
            D1 = [[rng.randint(0, 2) for _ in range(c1)] for _ in range(rng.randint(1, 7))]
            D2 = [[rng.randint(0, 2) for _ in range(c2)] for _ in range(rng.randint(1, 7))]
            a1, a2 = D1, D2
        r = _call(locate.mat_intersect, a1, a2, keep)
        if r[0] == "ok":
            pv1, pv2 = _il(r[1][0]), _il(r[1][1])
            if c1 == c2:
                sw = not ((keep == 0 and len(D1) <= len(D2)) or keep == 1)
                if sw:
                    pv1 = _first_rows(D1, pv1)
                else:
                    pv2 = _first_rows(D2, pv2)
            impl = "ok %s | %s" % (_s(pv1), _s(pv2))
            br = "mat_intersect:" + ("empty" if not pv1 else "some")
        else:
            impl, br = r[0], "mat_intersect:" + r[0]
        fm = lambda D: " ; ".join(_s(r_) for r_ in D)
        cs.add("mat_intersect", "matint %d %d %d | %s | %s" % (keep, c1, c2, fm(D1), fm(D2)), impl,
               {"D1": a1, "D2": a2, "keep": keep}, nontrivial=br.endswith("some"), branch=br)
    # list_intersect / merge_lists / find_subseq
    for k in range(N):
        l1, l2 = _gen_intlist(rng, 0, 7, 7), _gen_intlist(rng, 0, 7, 7)
        r = _call(locate.list_intersect, list(l1), list(l2))
        impl = "ok %s | %s" % (_s(r[1][0]), _s(r[1][1])) if r[0] == "ok" else r[0]
        cs.add("list_intersect", "lint | %s | %s" % (_s(l1), _s(l2)), impl, {"L1": l1, "L2": l2},
               nontrivial=r[0] == "ok" and len(r[1][0]) > 0, branch="list_intersect")
        if rng.random() < 0.5:
            l1 = list(dict.fromkeys(l1))
            l2 = list(dict.fromkeys(l2))
        r = _call(locate.merge_lists, list(l1), list(l2))
        impl = "ok %s | %s | %s" % (_s(r[1][0]), _s(r[1][1]), _s(r[1][2])) if r[0] == "ok" else r[0]
        if r[0] == "ok" and r[1][0] != l1 + [x for x in l2 if x not in l1]:
            ctx.count("merge_lists:inserted-inside")
        if len(set(l1)) < len(l1) or len(set(l2)) < len(l2):
            ctx.count("merge_lists:repeats")
        cs.add("merge_lists", "merge | %s | %s" % (_s(l1), _s(l2)), impl, {"list1": l1, "list2": l2},
               nontrivial=r[0] == "ok" and r[1][0] != l1 + [x for x in l2 if x not in l1], branch="merge_lists")
        seq = _gen_intlist(rng, 0, 2, 12)
        sub = _gen_intlist(rng, 0, 2, 3) if rng.random() < 0.8 else _gen_intlist(rng, 0, 2, 14)
        r = _call(locate.find_subseq, seq, sub)
        impl = ("ok " + _s(r[1])).strip() if r[0] == "ok" else r[0]
        br = "find_subseq:" + ("longer" if len(sub) > len(seq) else ("found" if r[0] == "ok" and len(r[1]) else "none" if r[0] == "ok" else r[0]))
        cs.add("find_subseq", "subseq | %s | %s" % (_s(seq), _s(sub)), impl, {"seq": seq, "subseq": sub},
               nontrivial=br.endswith("found"), branch=br)


# ---- float and mixed int/float inputs (dyadic k/4: every comparison is exact) ---------------
SCALE = 4
_DTYPES_F = ["float64", "float64", "float32"]
_DTYPES_I = ["int64", "int64", "int32"]


def _arr(scaled, dtype):
    """numpy array with the given dtype from values scaled by 4 (int dtypes get multiples of 4)"""
    a = np.array(scaled, dtype=np.float64) / SCALE
    if dtype.startswith("int"):
        return a.astype(dtype)
    a = a.astype(dtype)
    if a.size and dtype == "float64":
        a = np.where(a == 0, -0.0, a) if a.ndim and np.random.default_rng(len(scaled)).random() < 0.3 else a
    return a


def _gen_scaled(rng, kind, shape, lo=-2, hi=3):
    """values*4; kind 'i' = integers only, 'f' = quarters"""
    n = int(np.prod(shape)) if shape else 0
    if kind == "i":
        flat = [SCALE * rng.randint(lo, hi) for _ in range(n)]
    else:
        flat = [rng.randint(SCALE * lo, SCALE * hi) if rng.random() < 0.7 else SCALE * rng.randint(lo, hi) for _ in range(n)]
    if len(shape) == 1:
        return flat
    return [flat[i * shape[1]:(i + 1) * shape[1]] for i in range(shape[0])]


def _float_streams(ctx, cs):
    n2p, locate = _mods()
    rng = ctx.rng
    N = ctx.pick(500, 5000)
    fm = lambda D: " ; ".join(_s(r_) for r_ in D)
    for k in range(N):
        # mat_intersect: int vs float, float vs float, 1-D and 2-D, keep 0/1/2
        keep = rng.choice([0, 1, 2])
        k1, k2 = rng.choice(["if", "fi", "ff", "if", "fi"])
        dt1 = rng.choice(_DTYPES_I if k1 == "i" else _DTYPES_F)
        dt2 = rng.choice(_DTYPES_I if k2 == "i" else _DTYPES_F)
        if rng.random() < 0.45:
            s1, s2 = _gen_scaled(rng, k1, (rng.randint(0, 7),)), _gen_scaled(rng, k2, (rng.randint(0, 7),))
            R1, R2, c = [[x] for x in s1], [[x] for x in s2], 1
        else:
            c = rng.randint(1, 3)
            s1 = _gen_scaled(rng, k1, (rng.randint(1, 7), c), 0, 2)
            s2 = _gen_scaled(rng, k2, (rng.randint(1, 7), c), 0, 2)
            R1, R2 = s1, s2
        a1, a2 = _arr(s1, dt1), _arr(s2, dt2)
        r = _call(locate.mat_intersect, a1, a2, keep)
        if r[0] == "ok":
            pv1, pv2 = _il(r[1][0]), _il(r[1][1])
            sw = not ((keep == 0 and len(R1) <= len(R2)) or keep == 1)
            bad_index = any(not 0 <= i < len(R1) for i in pv1) or any(not 0 <= i < len(R2) for i in pv2)
            if not bad_index:
                if sw:
                    pv1 = _first_rows(R1, pv1)
                else:
                    pv2 = _first_rows(R2, pv2)
            impl = "ok %s | %s" % (_s(pv1), _s(pv2))
            br = "mat_intersect-mixed:" + ("empty" if not pv1 else "some")
        else:
            impl, br = r[0], "mat_intersect-mixed:" + r[0]
        cs.add("mat_intersect-mixed", "matint %d %d %d | %s | %s" % (keep, c, c, fm(R1), fm(R2)), impl,
               {"D1": s1, "D2": s2, "dt1": dt1, "dt2": dt2, "keep": keep, "scaled_by": SCALE},
               nontrivial=br.endswith("some"), branch=br)
        if k1 != k2:
            ctx.count("mat_intersect-mixed:int-vs-float")
        # find_duplicates on floats with float tol
        v = _gen_scaled(rng, rng.choice("if"), (rng.choice([0, 1, 2, 3, 6, 12]),), -3, 4)
        tol = rng.choice([0, 0, 1, 2, 4])  # scaled: 0, .25, .5, 1
        dt = rng.choice(_DTYPES_F)
        r = _call(locate.find_duplicates, _arr(v, dt), tol / SCALE)
        impl = ("ok " + _s(r[1])).strip() if r[0] == "ok" else r[0]
        cs.add("find_duplicates-float", "dups %d | %s" % (tol, _s(v)), impl,
               {"v": v, "tol": tol, "dt": dt, "scaled_by": SCALE}, nontrivial=r[0] == "ok" and any(r[1]),
               branch="dups-float:" + ("some" if r[0] == "ok" and any(r[1]) else "none" if r[0] == "ok" else r[0]))
        # find_subseq on floats / mixed
        ks, kb = rng.choice(["ff", "if", "fi"])
        seq = [SCALE * x // 2 * (1 if ks == "f" else 2) for x in _gen_intlist(rng, 0, 2, 12)]
        sub = [SCALE * x // 2 * (1 if kb == "f" else 2) for x in _gen_intlist(rng, 0, 2, 3)]
        r = _call(locate.find_subseq, _arr(seq, "int64" if ks == "i" else "float64"), _arr(sub, "int64" if kb == "i" else "float64"))
        impl = ("ok " + _s(r[1])).strip() if r[0] == "ok" else r[0]
        cs.add("find_subseq-float", "subseq | %s | %s" % (_s(seq), _s(sub)), impl,
               {"seq": seq, "subseq": sub, "dts": ks + kb, "scaled_by": SCALE},
               nontrivial=r[0] == "ok" and len(r[1]) > 0, branch="find_subseq-float")
        # list_intersect on mixed Python numbers (2 == 2.0 is one item)
        def pylist(sc):
            return [(x // SCALE if x % SCALE == 0 and rng.random() < 0.5 else x / SCALE) for x in sc]
        l1, l2 = _gen_scaled(rng, "f", (rng.randint(0, 6),), 0, 2), _gen_scaled(rng, "f", (rng.randint(0, 6),), 0, 2)
        r = _call(locate.list_intersect, pylist(l1), pylist(l2))
        impl = "ok %s | %s" % (_s(r[1][0]), _s(r[1][1])) if r[0] == "ok" else r[0]
        cs.add("list_intersect-mixed", "lint | %s | %s" % (_s(l1), _s(l2)), impl,
               {"L1": l1, "L2": l2, "scaled_by": SCALE}, nontrivial=r[0] == "ok" and len(r[1][0]) > 0,
               branch="list_intersect-mixed")
        # find_vals / find_rows / find_unique
        c = rng.randint(1, 3)
        km = rng.choice("if")
        M = _gen_scaled(rng, km, (rng.randint(1, 5), c), 0, 2)
        vv = _gen_scaled(rng, rng.choice("if"), (rng.randint(0, 3),), 0, 2)
        dtm = "int64" if km == "i" else "float64"
        r = _call(locate.find_vals, _arr(M, dtm), _arr(vv, "float64"))
        impl = ("ok " + _s(r[1])).strip() if r[0] == "ok" else r[0]
        cs.add("find_vals", "fvals | %s | %s" % (fm(M), _s(vv)), impl, {"m": M, "v": vv, "scaled_by": SCALE},
               nontrivial=r[0] == "ok" and any(r[1]), branch="find_vals")
        row = list(rng.choice(M)) if rng.random() < 0.6 else _gen_scaled(rng, "f", (c if rng.random() < 0.85 else c + 1,), 0, 2)
        r = _call(locate.find_rows, _arr(M, dtm), _arr(row, "float64"))
        impl = ("ok " + _s(r[1])).strip() if r[0] == "ok" else r[0]
        cs.add("find_rows", "frows %d | %s | %s" % (c, fm(M), _s(row)), impl, {"matrix": M, "row": row, "scaled_by": SCALE},
               nontrivial=r[0] == "ok" and len(r[1]) and any(r[1]),
               branch="find_rows:" + ("other-length" if len(row) != c else "ok"))
        ky = rng.choice("if")
        y = _gen_scaled(rng, ky, (rng.choice([0, 1, 2, 3, 5, 8]),), -2, 3)
        if rng.random() < 0.3:
            y = [y[0]] * len(y) if y else y
        tn, td = rng.choice([(1, 1000000), (1, 1000000), (0, 1), (1, 4), (1, 2), (1, 1)])
        args = (_arr(y, "int64" if ky == "i" and rng.random() < 0.5 else "float64"),) + (() if (tn, td) == (1, 1000000) and rng.random() < 0.5 else (tn / td,))
        r = _call(locate.find_unique, *args)
        impl = ("ok " + _s(r[1])).strip() if r[0] == "ok" else r[0]
        cs.add("find_unique", "funique %d %d | %s" % (tn, td, _s(y)), impl, {"y": y, "tol": [tn, td], "scaled_by": SCALE},
               nontrivial=r[0] == "ok" and not all(r[1]),
               branch="find_unique:" + ("ok" if r[0] == "ok" else r[0]))


# ---- n2p.find_xyz_triples on dyadic rigid-body matrices -----------------------------------------
XDEN = 16


def _skew(p):
    x, y, z = p
    return [[0, z, -y], [-z, 0, x], [y, -x, 0]]


def _gen_rb(rng):
    """rows (6 Fractions each, multiples of 1/16, |.| <= 128) of a rigid-body matrix: nodes at quarter coordinates in
    signed-permutation / slightly sheared / clearly non-orthogonal local systems, scaled, with rotation rows, deleted
    rows, perturbed rotation columns; returns (rows, tol as (tn, td), tags)"""
    from fractions import Fraction as F

    tags = set()
    rows = []
    exact = rng.random() < 0.15  # only exact triples: the domain of find_xyz_triples_exact
    if exact:
        tags.add("exact-only")
    for _ in range(rng.randint(1, 4)):
        p = [F(rng.randint(-32, 32), 4) for _ in range(3)]
        if rng.random() < 0.15:
            p = [F(0)] * 3
        perm = rng.sample(range(3), 3)
        T = [[F(0)] * 3 for _ in range(3)]
        for i, j in enumerate(perm):
            T[i][j] = F(rng.choice([1, 1, -1]))
        r0 = 1.0 if exact else rng.random()
        if r0 < 0.12:
            T[0][(perm[0] + 1) % 3] = F(1, 4)  # slightly sheared: within tol = 0.3 only
            p = [F(int(v)) for v in p]
            tags.add("sheared")
        elif r0 < 0.2:
            T[rng.randrange(3)] = [v * 2 for v in T[rng.randrange(3)]]  # unequal axes / repeated direction
            tags.add("non-orthogonal")
        sc = F(rng.choice([1, 1, 1, 2, 4, 10, 3]))
        base = [[F(int(i == j)) for j in range(3)] + [F(v) for v in _skew(p)[i]] for i in range(3)]
        blk = [[sc * sum(T[i][k] * base[k][j] for k in range(3)) for j in range(6)] for i in range(3)]
        if not exact and rng.random() < 0.3:
            i, j = rng.randrange(3), 3 + rng.randrange(3)
            blk[i][j] += F(rng.choice([1, 2, 4, 8, 16, 32]), 16) * rng.choice([1, -1])
            tags.add("perturbed")
        if not exact and rng.random() < 0.15:
            del blk[rng.randrange(3)]
            tags.add("row-deleted")
        rows += blk
        if not exact and rng.random() < 0.4:
            rows += [[F(0)] * 3 + [sc * T[i][j] for j in range(3)] for i in range(3)]
            tags.add("rotation-rows")
    tol = (1, 100) if rng.random() < 0.8 else (3, 10)
    return rows, tol, tags


def _xyz_singular_window(rows, tol):
    """a window whose translation block is exactly singular but has three equal column norms (the only place where the
    outcome would hang on the numerical condition number / a LinAlgError of inv): outside the domain"""
    from fractions import Fraction as F

    d = F(tol[0], tol[1]) + F(1, 100000)
    for j in range(len(rows) - 2):
        A = [r[:3] for r in rows[j:j + 3]]
        det = (A[0][0] * (A[1][1] * A[2][2] - A[1][2] * A[2][1]) - A[0][1] * (A[1][0] * A[2][2] - A[1][2] * A[2][0])
               + A[0][2] * (A[1][0] * A[2][1] - A[1][1] * A[2][0]))
        if det != 0:
            continue
        s2 = sum(v * v for r in A for v in r) / 3
        if s2 == 0:
            continue
        cols = [sum(A[i][j_] ** 2 for i in range(3)) for j_ in range(3)]
        if all((1 - d) ** 2 * s2 <= c <= (1 + d) ** 2 * s2 for c in cols):
            return True
    return False


def _xyz_impl(rows, tol):
    n2p, _ = _mods()
    a = np.array([[float(v) for v in r] for r in rows], dtype=float).reshape(-1, 6)
    r = _call(n2p.find_xyz_triples, a, tol=tol[0] / tol[1])
    if r[0] != "ok":
        return r[0]
    t = r[1]
    return {"pv": [int(v) for v in t.pv], "coords": np.asarray(t.coords).tolist(),
            "scales": np.asarray(t.scales).tolist(), "model_scale": float(t.model_scale)}


def _xyz_match(impl, got):
    """exact pv, numeric coordinates / scales / model scale (1e-9 relative)"""
    from fractions import Fraction as F

    if not isinstance(impl, dict) or not got.startswith("ok"):
        return False
    secs = [x.strip() for x in got[2:].split("|")]
    if len(secs) != 4:
        return False
    pv = [int(v) for v in secs[0].split()]
    if pv != impl["pv"]:
        return False
    close = lambda a, b: abs(a - b) <= 1e-9 * max(1.0, abs(a), abs(b))
    cz = [x.strip() for x in secs[1].split(";")] if secs[1] else []
    if len(cz) != len(pv) or len(secs[2].split()) != len(pv):
        return False
    for c, s2, ci, si in zip(cz, secs[2].split(), impl["coords"], impl["scales"]):
        if c == "nan":
            if not (all(v != v for v in ci) and si != si and s2 == "nan"):
                return False
            continue
        if any(v != v for v in ci) or si != si:
            return False
        if not all(close(float(F(q)), v) for q, v in zip(c.split(), ci)):
            return False
        if not close(float(F(s2)) ** 0.5, si):
            return False
    return close(float(F(secs[3])), impl["model_scale"])


def _xyz_stream(ctx, cs):
    rng = ctx.rng
    from fractions import Fraction as F

    doc1 = [[1, 0, 0, 0, 15, -10], [0, 1, 0, -15, 0, 5], [0, 0, 1, 10, -5, 0], [0, 0, 0, 1, 0, 0], [0, 0, 0, 0, 1, 0],
            [0, 0, 0, 0, 0, 1], [10, 0, 0, 0, 150, -100], [0, 10, 0, -150, 0, 50], [0, 0, 10, 100, -50, 0]]
    doc2 = [[0, 1, 0, 0, 0, 2], [0, 0, 1, 0, -2, 0], [1, 0, 0, 0, 0, 0], [0, 1, 0, 0, 0, 5], [0, 0, 1, 0, -5, 0]]
    fixed = [([[F(v) for v in r] for r in m], (1, 100), {"docstring"}) for m in (doc1, doc2)]
    for it in range(ctx.pick(250, 2500)):
        rows, tol, tags = fixed[it] if it < len(fixed) else _gen_rb(rng)
        if _xyz_singular_window(rows, tol):
            ctx.skip("find_xyz_triples: a singular window with equal column norms (decided by cond / inv numerics)")
            continue
        impl = _xyz_impl(rows, tol)
        line = "xyz %d %d %d | %s" % (XDEN, tol[0], tol[1], " ; ".join(" ".join(str(int(v * XDEN)) for v in r) for r in rows))
        if isinstance(impl, dict):
            k = sum(impl["pv"])
            br = "xyz:" + ("none" if k == 0 else "all-rows" if k == len(rows) else "some-rows")
        else:
            br = "xyz:" + impl
        for t in tags:
            ctx.count("xyz-input:" + t)
        cs.add("find_xyz_triples", line, impl, {"rows": [[str(v) for v in r] for r in rows], "tol": list(tol)},
               nontrivial=isinstance(impl, dict) and sum(impl["pv"]) > 0, branch=br)


def _index_streams(ctx, cs):
    """n2p._findse / n2p._get_node_ids (private helpers of upasetpv / upqsetpv; skipped when a refactoring removed
    them), mat_intersect with every value of keep on data whose matching rows are not in sorted order"""
    n2p, locate = _mods()
    rng = ctx.rng
    findse = getattr(n2p, "_findse", None)
    nodeids = getattr(n2p, "_get_node_ids", None)
    ctx.extra["private_helpers_present"] = {"_findse": findse is not None, "_get_node_ids": nodeids is not None}
    for _ in range(ctx.pick(150, 1500)):
        if findse is None:
            ctx.skip("n2p._findse is gone (private helper)")
            break
        n = rng.randint(0, 6)
        sl = [[rng.choice([0, 10, 20, 30, 101]), rng.choice([0, 0, 10, 20])] for _ in range(n)]
        se = rng.choice([0, 10, 20, 30, 101, 7])
        r = _call(findse, {"selist": np.array(sl, dtype=np.int64).reshape(-1, 2)}, se)
        impl = "ok %d" % int(r[1]) if r[0] == "ok" else r[0]
        first = [k for k, row in enumerate(sl) if row[0] == se]
        br = "findse:" + ("absent" if not first else "repeated" if len(first) > 1 else "once")
        cs.add("findse", "findse %d | %s" % (se, _s([v for row in sl for v in row])), impl,
               {"selist": sl, "se": se}, nontrivial=bool(first), branch=br)
    masks = {k: int(v) for k, v in n2p.mkusetmask().items()}
    for _ in range(ctx.pick(100, 1000)):
        if nodeids is None:
            ctx.skip("n2p._get_node_ids is gone (private helper)")
            break
        rows, nas, style = _gen_table(ctx, masks)
        if rng.random() < 0.3 and rows:  # a grid given DOF by DOF, or only some of its DOF listed (dof 1 missing)
            k = rng.randrange(len(rows))
            if rows[k][1] == 123456:
                rows = [list(x) for x in rows]
                nas = list(nas)
                rows[k:k + 1] = [[rows[k][0], d] for d in range(1, 7)]
                nas[k:k + 1] = [nas[k]] * 6
        r = _call(n2p.make_uset, rows, nas)
        if r[0] != "ok":
            continue
        uset = r[1]
        if rng.random() < 0.3 and uset.shape[0] > 2:  # drop some rows: a node without its first DOF has no id
            keep = sorted(rng.sample(range(uset.shape[0]), rng.randint(1, uset.shape[0] - 1)))
            uset = uset.iloc[keep]
        tbl = []
        for (i, d), w in zip(uset.index.tolist(), uset["nasset"].values.tolist()):
            tbl += [int(i), int(d), int(w)]
        r = _call(nodeids, uset)
        impl = ("ok " + _s(np.asarray(r[1]))).strip() if r[0] == "ok" else r[0]
        nodes = len({int(i) for i in uset.index.get_level_values("id")})
        br = "nodeids:" + ("one-per-node" if r[0] == "ok" and len(r[1]) == nodes else "fewer")
        cs.add("nodeids", "nodeids | %s" % _s(tbl), impl, {"table": tbl}, nontrivial=True, branch=br)
    # mat_intersect: the looped side reports its matching rows in their original order (descending / shuffled values)
    fm = lambda D: " ; ".join(_s(r_) for r_ in D)
    for _ in range(ctx.pick(300, 3000)):
        keep = rng.choice([0, 1, 2, 2, 3, 5])
        c = rng.choice([1, 1, 2])
        pool = [[rng.randint(0, 9) for _ in range(c)] for _ in range(8)]
        pool = [list(t) for t in dict.fromkeys(tuple(x) for x in pool)]
        D1 = rng.sample(pool, rng.randint(1, len(pool)))
        D2 = rng.sample(pool, rng.randint(1, len(pool)))
        if rng.random() < 0.3:
            D2 = sorted(D2, reverse=True)
        a1, a2 = ([x[0] for x in D1], [x[0] for x in D2]) if c == 1 and rng.random() < 0.5 else (D1, D2)
        r = _call(locate.mat_intersect, a1, a2, keep)
        if r[0] == "ok":
            pv1, pv2 = _il(r[1][0]), _il(r[1][1])
            impl = "ok %s | %s" % (_s(pv1), _s(pv2))
            sw = not ((keep == 0 and len(D1) <= len(D2)) or keep == 1)
            looped, pvl = (D2, pv2) if sw else (D1, pv1)
            vals = [looped[i] for i in pvl if 0 <= i < len(looped)]
            br = "mat_intersect-order:" + ("unsorted-values" if vals != sorted(vals) else "sorted-values")
            if vals != sorted(vals):
                ctx.count("mat_intersect-order:keep%s" % (keep if keep < 3 else "-other"))
        else:
            impl, br = r[0], "mat_intersect-order:" + r[0]
        cs.add("mat_intersect-order", "matint %d %d %d | %s | %s" % (keep, c, c, fm(D1), fm(D2)), impl,
               {"D1": a1, "D2": a2, "keep": keep}, nontrivial=True, branch=br)


def correspondence(ctx):
    cs = Cases(ctx)
    masks = _uset_streams(ctx, cs)
    if masks and all(k in masks for k in NAMED + USER):
        _makeuset_xyz_stream(ctx, cs, masks)
        _nas_streams(ctx, cs)
        _tran_streams(ctx, cs, masks)
        _tran_real_stream(ctx, cs)
    _locate_streams(ctx, cs)
    _index_streams(ctx, cs)
    _xyz_stream(ctx, cs)
    _float_streams(ctx, cs)
    rep = ctx.driver("C18").ask([it[1] for it in cs.items])
    for (stream, line, impl, inp, nontriv, branch), got in zip(cs.items, rep):
        if stream == "find_xyz_triples":
            got_c = " ".join(got.split())
            if got_c == "borderline":  # a floating-point comparison within 1e-9 of its threshold: outside the domain
                ctx.skip("find_xyz_triples: a comparison is within 1e-9 (relative) of its threshold")
                continue
            ctx.case(line, nontrivial=nontriv, branch=branch)
            ctx.count("stream:" + stream)
            if not _xyz_match(impl, got_c):
                ctx.disagree(stream, inp, impl, got_c[:600])
            continue
        if stream in ("formtran-real", "formulvs-real", "formdrm-real"):
            from props import c18_tran as T_

            ctx.case(line[:300] + str(len(line)), nontrivial=nontriv, branch=branch)
            ctx.count("stream:" + stream)
            if not T_.match_q(impl, got, with_dof=stream != "formulvs-real"):
                ctx.disagree(stream, inp, impl[0] if impl[0] != "ok" else "a matrix (float64)", " ".join(got.split())[:300])
            continue
        ctx.case(line, nontrivial=nontriv, branch=branch)
        ctx.count("stream:" + stream)
        if stream == "upqsetpv-separate-real":
            ctx.extra.setdefault("separate_on_real_files", []).append([inp.get("file"), " ".join(got.split())])
        want = " ".join(impl.split())
        got_c = " ".join(got.split())
        if stream == "make_uset-xyz" and got_c == "type-error" and want == "value-error":
            # the x y z block of a [id, 1] row with fewer than six xyz rows left (only reachable with component lists
            # split over rows): pandas raises TypeError or ValueError depending on the block shapes - not distinguished
            want = got_c
        if got_c != want:
            ctx.disagree(stream, inp, want, got_c)
        if ctx.evaluations % 9973 == 0:
            ctx.sample({"stream": stream, "request": line[:200], "reply": got_c[:200]})
    ctx.exhaustive = False  # exhaustive only over the finite set named in extra.exhaustive_set (thorough tier)
    if ctx.thorough:
        ctx.extra["exhaustive_note"] = "exhaustive: true for extra.exhaustive_set only"
    if ctx.disagreements:
        return  # the tie is broken already; branch labels taken from the implementation's outcome may be missing
    ctx.require_branches([
        "mask:key", "mask:combo", "mask:key-error", "mask:repeated-or-overlapping",
        "mksetpv:ok", "mksetpv:proper-subset", "mksetpv:value-error", "mksetpv:key-error",
        "expanddof:1d", "expanddof:2d", "expanddof:value-error",
        "mkdofpv:found-all", "mkdofpv:dropped-some", "mkdofpv:value-error", "mkdofpv:empty-set",
        "mkdofpv:ndarray", "mkdofpv:index-error",
        "make_uset:ok", "make_uset:value-error",
        "dups:short", "dups:some", "dups:none",
        "flippv:ok", "flippv:index-error", "index2bool:ok",
        "index2slice:slice", "index2slice:pv", "index2slice:value-error",
        "mat_intersect:some", "mat_intersect:empty",
        "find_subseq:found", "find_subseq:longer", "find_subseq:value-error",
        "mat_intersect-mixed:some", "mat_intersect-mixed:empty", "mat_intersect-mixed:int-vs-float",
        "dups-float:some", "find_subseq-float", "list_intersect-mixed", "find_vals",
        "find_rows:ok", "find_rows:other-length", "find_unique:ok", "find_unique:value-error",
        "dups:at-tol", "dups:all-equal", "index2slice:neg-step", "index2slice:stop-none", "index2slice:single-negative",
        "pyslice", "merge_lists", "merge_lists:inserted-inside", "merge_lists:repeats", "list_intersect",
        "make_uset-xyz:ok", "make_uset-xyz:unset-rows", "make_uset-xyz:value-error", "make_uset-xyz:split-fixed",
        "upasetpv:direct", "upasetpv:upids", "upasetpv:maps", "upasetpv:maps-skip", "upasetpv:value-error",
        "upasetpv:key-error", "upasetpv:index-error",
        "upqsetpv:some", "upqsetpv:none", "upqsetpv:recursive", "upqsetpv:spoint-rule", "upqsetpv:value-error",
        "upqsetpv:key-error", "nas-real-dictionary",
        "upqsetpv:separate", "upqsetpv:separate-real", "upqsetpv:depth-3", "upqsetpv:depth-4",
        "upqsetpv:several-upstream", "upqsetpv:several-upstream-above-residual", "upqsetpv:maps-reordered",
        "upqsetpv:maps-reordered-above-residual", "upqsetpv:recursion-error", "upqsetpv:shared-boundary", "upqsetpv:later-upstream-overwrites", "upqsetpv:lean-examples", "nas-damage:upids-empty",
        "xyz:all-rows", "xyz:some-rows", "xyz:none", "xyz-input:docstring", "xyz-input:rotation-rows",
        "xyz-input:sheared", "xyz-input:perturbed", "xyz-input:exact-only", "xyz-input:row-deleted", "xyz-input:non-orthogonal",
        "mat_intersect-order:unsorted-values", "mat_intersect-order:keep0", "mat_intersect-order:keep1",
        "mat_intersect-order:keep2", "mat_intersect-order:keep-other",
        "formtran:general", "formtran:all-a-set", "formtran:value-error", "formtran:repeated-dof",
        "formtran-row:b", "formtran-row:o", "formtran-row:m", "formtran-row:q", "formtran-row:s", "formtran-row:c",
        "formtran-row:r", "formtran0:gset", "formtran0:phg", "formtran0:pha", "formtran0:runtime-error",
        "formtran0:value-error", "formtran:extra-points:residual-pha", "formtran:extra-points:upstream-se",
        "tran-input:goq-absent", "tran-input:got-absent", "tran-input:gm-no-o",
        "formulvs:depth-1", "formulvs:depth-2", "formulvs:depth-3", "formulvs:one", "formulvs:value-error",
        "formulvs:keepcset-false", "formulvs:gset", "formulvs:to-upstream-se", "formulvs:runtime-error",
        "formulvs:index-error", "formulvs-shapes:depth-1", "formulvs-shapes:depth-2", "formulvs-shapes:depth-3", "formdrm:same-se", "formdrm:downstream", "formdrm:value-error", "formdrm:stored-ulvs",
        "addulvs:new", "addulvs:existing-entry", "addulvs:shortcut-keeps-stored",
        "usetprt:all-rows", "usetprt:rows-dropped", "usetprt:none",
        "tran-real-dictionary", "formtran-real:set-m", "formtran-real:set-o", "formtran-real:set-a",
        "formulvs-real:ok", "formdrm-real:ok",
    ] + (["findse:absent", "findse:once", "findse:repeated"] if ctx.extra["private_helpers_present"]["_findse"] else [])
      + (["nodeids:one-per-node", "nodeids:fewer"] if ctx.extra["private_helpers_present"]["_get_node_ids"] else [])
      + ["nas-damage:" + w for w in __import__("props.c18_nas", fromlist=["DAMAGES"]).DAMAGES])


# ---------------------------------------------------------------------------------------
# model-free oracle


def _member(base, setspec):
    """documented membership of a base set in a named set / '+' combination"""
    return any(base in MEMBERS[s_] for s_ in setspec.split("+") if s_ in MEMBERS)


def _oracle_sets(ctx, lets_by_row, rows, specs):
    """`rows` for make_uset, one base-set letter per expanded DOF in `lets_by_row`."""
    n2p, _ = _mods()
    nas = [l if isinstance(l, str) else list(l) for l in lets_by_row]
    flat_nas, flat_rows = [], []
    for r_, l in zip(rows, nas):
        if r_[1] == 123456 and not isinstance(l, str):
            for d, x in zip(range(1, 7), l):
                flat_rows.append([r_[0], d])
                flat_nas.append(x)
        else:
            flat_rows.append(r_)
            flat_nas.append(l)
    inp0 = {"kind": "sets", "rows": flat_rows, "nasset": flat_nas}
    try:
        uset = n2p.make_uset(flat_rows, flat_nas)
    except Exception as e:  # noqa: BLE001
        ctx.fail("make-uset-refuses-valid-table", "make_uset raises on a valid table", inp0, _kind(e), "a table")
        return
    base = []
    for r_, l in zip(flat_rows, flat_nas):
        base += [l] * (6 if r_[1] == 123456 else 1)
    if len(base) != uset.shape[0]:
        ctx.fail("make-uset-row-count", "make_uset returns the wrong number of rows", inp0, uset.shape[0], len(base))
        return
    # every DOF in exactly one base set
    cnt = np.zeros(len(base), int)
    for b in BASE:
        r = _call(n2p.mksetpv, uset, "p", b)
        want = [x == b for x in base]
        if r[0] != "ok" or _il(r[1]) != [int(v) for v in want]:
            ctx.fail("base-set-%s-membership" % b, "mksetpv(uset,'p','%s') is not the %s-set DOF" % (b, b),
                     dict(inp0, major="p", minor=b), r[0] if r[0] != "ok" else _il(r[1]), [int(v) for v in want])
            cnt = None
            break
        cnt += np.asarray(r[1], int)
    if cnt is not None and not np.all(cnt == 1):
        ctx.fail("base-sets-not-a-partition", "a DOF is in %s base sets" % cnt.tolist(), inp0, cnt.tolist(), "all 1")
    for major, minor in specs:
        inM = [_member(x, major) for x in base]
        inm = [_member(x, minor) for x in base]
        r = _call(n2p.mksetpv, uset, major, minor)
        outside = sorted({x for x, a, b in zip(base, inM, inm) if b and not a})
        inp = dict(inp0, major=major, minor=minor)
        if outside:
            if r[0] != "value-error":
                ctx.fail("mksetpv-%s-%s-not-refused" % (major, minor),
                         "minor set has %s-set DOF outside the major set but the request is not refused" % outside,
                         inp, r[0] if r[0] != "ok" else _il(r[1]), "ValueError")
            continue
        want = [int(b) for a, b in zip(inM, inm) if a]
        if r[0] != "ok":
            missing = sorted({x for x, b in zip(base, inm) if b})
            ctx.fail("mksetpv-%s-%s-refused-members-%s" % (major, minor, "".join(missing)),
                     "minor set is contained in the major set (documented hierarchy) but the request is refused",
                     inp, r[0], want)
        elif _il(r[1]) != want:
            ctx.fail("mksetpv-%s-%s-wrong-selection" % (major, minor),
                     "partition vector is not (length = |major|, True exactly at the minor-set DOF, table order)",
                     inp, _il(r[1]), want)


def _replay_sets(ctx, inp):
    rows, nas = inp["rows"], inp["nasset"]
    specs = [(inp["major"], inp["minor"])] if "major" in inp else [(a, b) for a in NAMED for b in NAMED]
    _oracle_sets(ctx, nas, rows, specs)


def _oracle_words(ctx, words, major, minor):
    """arbitrary words and integer masks: the bit-and contract"""
    n2p, _ = _mods()
    import pandas as pd

    ind = pd.MultiIndex.from_arrays([np.arange(1, len(words) + 1), np.zeros(len(words), int)], names=["id", "dof"])
    uset = pd.DataFrame({"nasset": np.array(words, dtype=np.int64)}, index=ind)
    r = _call(n2p.mksetpv, uset, major, minor)
    bad = any((w & minor) and not (w & major) for w in words)
    want = [int(bool(w & minor)) for w in words if w & major]
    inp = {"kind": "words", "words": words, "major": major, "minor": minor}
    if bad:
        if r[0] != "value-error":
            ctx.fail("mksetpv-intmask-not-refused", "minor not contained in major but not refused", inp,
                     r[0] if r[0] != "ok" else _il(r[1]), "ValueError")
    elif r[0] != "ok" or _il(r[1]) != want:
        ctx.fail("mksetpv-intmask-wrong-selection", "wrong partition vector for integer masks", inp,
                 r[0] if r[0] != "ok" else _il(r[1]), want)


def _oracle_dofpv(ctx, rows, nas, setspec, dof, strict, grids_only=True):
    n2p, _ = _mods()
    inp = {"kind": "dofpv", "rows": rows, "nasset": nas, "set": setspec, "dof": dof, "strict": strict,
           "grids_only": grids_only}
    uset = n2p.make_uset(rows, nas)
    base = []
    for r_, l in zip(rows, nas):
        base += [l] * (6 if r_[1] == 123456 else 1)
    keys = [k for k, b in zip(uset.index.tolist(), base) if _member(b, setspec)]
    pos = {(int(i), int(d)): n for n, (i, d) in enumerate(keys)}
    # expanded request, by the documented rule
    req = []
    if dof and not isinstance(dof[0], list):
        for i in dof:
            req += [(i, d) for d in (range(1, 7) if grids_only else range(7))]
    else:
        for i, arg in dof:
            req += [(i, int(ch)) for ch in str(arg)]
    present = [q for q in req if q in pos]
    r = _call(n2p.mkdofpv, uset, setspec, dof, strict=strict, grids_only=grids_only)
    empty_set = len(keys) == 0 and len(req) > 0
    fam_tail = "empty-set-nonempty-request" if empty_set else ("strict" if strict else "nonstrict")
    if strict and len(present) != len(req):
        if r[0] != "value-error":
            ctx.fail("mkdofpv-" + fam_tail, "strict look-up with missing DOF must raise ValueError", inp,
                     r[0] if r[0] != "ok" else [_il(r[1][0])], "ValueError")
        return
    if r[0] != "ok":
        ctx.fail("mkdofpv-" + fam_tail, "look-up raises %s; required: positions of the present DOF" % r[0], inp,
                 r[0], [pos[q] for q in present])
        return
    pv, od = _il(r[1][0]), [tuple(int(v) for v in x) for x in np.asarray(r[1][1]).reshape(-1, 2).tolist()]
    if pv != [pos[q] for q in present] or od != present:
        ctx.fail("mkdofpv-" + fam_tail + "-wrong-positions",
                 "positions / outdof are not exactly the requested present DOF in request order", inp,
                 [pv, od], [[pos[q] for q in present], present])


def _oracle_expand(ctx, dof):
    """2-column expanddof: [id, arg] -> [id, d] for the decimal digits d of arg; ValueError iff a digit > 6"""
    n2p, _ = _mods()
    want = [[i, int(ch)] for i, arg in dof for ch in str(arg)]
    bad = any(d > 6 for _, d in want)
    r = _call(n2p.expanddof, dof)
    inp = {"kind": "expand", "dof": dof}
    if bad:
        if r[0] != "value-error":
            ctx.fail("expanddof-component-above-6-accepted", "a component digit > 6 must raise ValueError", inp,
                     r[0] if r[0] != "ok" else np.asarray(r[1]).tolist(), "ValueError")
    elif r[0] != "ok" or np.asarray(r[1]).reshape(-1, 2).tolist() != want:
        ctx.fail("expanddof-wrong-expansion", "rows are not [id, digit] for the digits of each component list", inp,
                 r[0] if r[0] != "ok" else np.asarray(r[1]).tolist(), want)


def _oracle_nas(ctx, inp):
    """upasetpv / upqsetpv on a dictionary whose expected vector is known by construction (c18_nas.gen_nas)"""
    from props import c18_nas as N

    n2p, _ = _mods()
    nas = N.from_plain(inp["nas"])
    style = inp.get("style", "generated")
    if "seup" in inp:
        c = inp["seup"]
        r = _call(n2p.upasetpv, nas, c)
        m = nas["maps"].get(c, [])
        fam = "upasetpv-%s%s" % (style, "-maps" if len(m) else "")
        if r[0] != "ok" or _il(r[1]) != list(inp["expected"]):
            ctx.fail(fam + ("-raises" if r[0] != "ok" else "-wrong-rows"),
                     "upasetpv(nas, %d) must list, in the order of the a-set DOF of SE %d, their rows in the table of "
                     "the downstream SE" % (c, c), dict(inp, kind="nas"), r[0] if r[0] != "ok" else _il(r[1]),
                     list(inp["expected"]))
    else:
        s_ = inp["sedn"]
        r = _call(n2p.upqsetpv, nas, s_)
        depth = any(row[1] != s_ and any(x[1] == row[0] for x in inp["nas"]["selist"]) for row in inp["nas"]["selist"]
                    if row[1] == s_ and row[0] != s_)
        fam = "upqsetpv-%s%s" % (style, "-multilevel" if depth else "")
        if r[0] != "ok" or [int(v) for v in np.asarray(r[1]).tolist()] != list(inp["expected"]):
            ctx.fail(fam + ("-raises" if r[0] != "ok" else "-wrong-flags"),
                     "upqsetpv(nas, %d) must flag exactly the rows of SE %d's table that are q-set DOF of an upstream SE "
                     "(any level; an SE without q-set: its a-set scalar points)" % (s_, s_), dict(inp, kind="nas"),
                     r[0] if r[0] != "ok" else [int(v) for v in np.asarray(r[1]).tolist()], list(inp["expected"]))


_BASIC = [[0, 1, 0], [0, 0, 0], [1, 0, 0], [0, 1, 0], [0, 0, 1]]


def _oracle_makeuset(ctx, inp):
    """make_uset(dof, nasset[, xyz]): every DOF named by a request row carries that row's set word; coordinates by
    the documented rule.  Requests: 2-column rows whose non-zero component digits run 1..6 grid after grid."""
    n2p, _ = _mods()
    dof, nas, xyz = inp["dof"], list(inp["nasset"]), inp.get("xyz")
    if not dof or not isinstance(dof[0], list):
        rows = [[i, 123456] for i in dof]
    else:
        rows = [list(r_) for r_ in dof]
    digs = [[int(ch) for ch in str(a)] for _, a in rows]
    flat = [d for ds in digs for d in ds if d > 0]
    valid = all(0 <= d <= 6 for ds in digs for d in ds) and len(flat) % 6 == 0 and \
        flat == [1, 2, 3, 4, 5, 6] * (len(flat) // 6) and all(len(ds) == 1 or 0 not in ds for ds in digs)
    if not valid or len(nas) not in (1, len(rows)) or (xyz is not None and len(xyz) != len(rows)):
        return
    split = any(len(ds) > 1 and ds != [1, 2, 3, 4, 5, 6] for ds in digs)
    words = nas * len(rows) if len(nas) == 1 else nas
    want = [[i, d, int(w)] for (i, _), ds, w in zip(rows, digs, words) for d in ds]
    if split:
        xyz = None  # coordinates for a component list split over rows are undocumented: only the set words are checked
    r = _call(n2p.make_uset, dof, nas, xyz) if xyz is not None else _call(n2p.make_uset, dof, nas)
    fam = "make-uset-split-component-rows" if split else "make-uset-documented-forms"
    if r[0] != "ok":
        ctx.fail(fam if split else fam + "-refused",
                 "make_uset raises %s on a request whose grids have all six DOF" % r[0],
                 dict(inp, kind="makeuset"), r[0], want)
        return
    u = r[1]
    got = [[int(i), int(d), int(w)] for (i, d), w in zip(u.index.tolist(), u["nasset"].values.tolist())]
    if got != want:
        ctx.fail(fam if split else fam + "-wrong-sets", "every DOF named by a request row must carry that row's "
                 "set word (rows [id, dof, word])", dict(inp, kind="makeuset"), got, want)
        return
    if xyz is not None and not split:
        wc = []
        for (i, a), ds, c in zip(rows, digs, xyz):
            wc += [list(c)] + _BASIC if ds == [1, 2, 3, 4, 5, 6] else [list(c)]
        gc = [[None if v != v else (int(v) if float(v).is_integer() else float(v)) for v in row]
              for row in u[["x", "y", "z"]].values.tolist()]
        if gc != wc:
            ctx.fail("make-uset-wrong-coordinates", "x y z: location row + the five rows of the basic system for a "
                     "grid given by one request row, the given row otherwise", dict(inp, kind="makeuset"), gc, wc)


def _oracle_maskplus(ctx, spec):
    n2p, _ = _mods()
    parts = spec.split("+")
    r = _call(n2p.mkusetmask, spec)
    want = 0
    for p_ in parts:
        want |= int(n2p.mkusetmask(p_))
    if r[0] != "ok" or int(r[1]) != want:
        ctx.fail("mkusetmask-plus-not-the-union", "mkusetmask('x+y') must be mkusetmask('x') | mkusetmask('y')",
                 {"kind": "maskplus", "spec": spec}, r[0] if r[0] != "ok" else int(r[1]), want)


def _oracle_xyz(ctx, nodes, tol, perturb=0.0):
    """find_xyz_triples on a matrix of exact triples: node = (signed permutation as list of (column, sign), scale,
    location); every row must be marked, coordinates = the location, scale = the scale.  With `perturb` = a fraction
    (< 1) of the documented tolerance `tol * (largest model dimension)`, one rotation entry of the LAST node (which is in
    the basic system at unit scale) is off by that much: it must still be found ("accept up to 1% errors")."""
    n2p, _ = _mods()
    rows, want_c, want_s = [], [], []
    if perturb:
        nodes = list(nodes[:-1]) + [([(0, 1), (1, 1), (2, 1)], 1, nodes[-1][2])]
    for perm, sc, p in nodes:
        T = np.zeros((3, 3))
        for i, (j, sg) in enumerate(perm):
            T[i, j] = sg
        blk = sc * T @ np.hstack([np.eye(3), np.array(_skew(p), dtype=float)])
        rows += blk.tolist()
        want_c += [list(map(float, p))] * 3
        want_s += [float(sc)] * 3
    inp = {"kind": "xyz", "nodes": [[list(map(list, perm)), sc, list(p)] for perm, sc, p in nodes], "tol": tol,
           "perturb": perturb}
    delta = 0.0
    if perturb:
        big = max(abs(v) for _, _, p in nodes for v in p)
        delta = perturb * tol * big
        rows[-3][4] += delta  # entry (x row, ry column) of the last node
    r = _call(n2p.find_xyz_triples, np.array(rows), tol=tol)
    if r[0] != "ok":
        ctx.fail("find-xyz-triples-exact-raises", "find_xyz_triples raises on a matrix of exact triples", inp, r[0], "all rows")
        return
    t = r[1]
    ok = bool(np.all(t.pv)) and np.allclose(t.coords, want_c, rtol=0, atol=1e-9 + delta) and \
        np.allclose(t.scales, want_s, rtol=1e-12, atol=0)
    if not ok:
        kind_ = "within-tolerance" if perturb else "exact"
        ctx.fail("find-xyz-triples-%s-node-missed" % kind_ if not np.all(t.pv) else "find-xyz-triples-%s-wrong-location" % kind_,
                 "every exact x, y, z triple must be marked, with its location and scale", inp,
                 {"pv": [int(v) for v in t.pv], "coords": np.asarray(t.coords).tolist(), "scales": np.asarray(t.scales).tolist()},
                 {"pv": "all", "coords": want_c, "scales": want_s})


def _oracle_findse(ctx, selist, se):
    """n2p._findse (private; used by upasetpv to find the downstream SE): the first row whose first column is `se`"""
    n2p, _ = _mods()
    fn = getattr(n2p, "_findse", None)
    if fn is None:
        return
    r = _call(fn, {"selist": np.array(selist, dtype=np.int64).reshape(-1, 2)}, se)
    first = [k for k, row in enumerate(selist) if row[0] == se]
    inp = {"kind": "findse", "selist": selist, "se": se}
    if not first:
        if r[0] != "value-error":
            ctx.fail("findse-absent-se-not-refused", "an SE that is in no row of selist must raise ValueError", inp,
                     r[0] if r[0] != "ok" else int(r[1]), "ValueError")
    elif r[0] != "ok" or int(r[1]) != first[0]:
        ctx.fail("findse-wrong-row", "the row of the FIRST selist entry of the SE", inp,
                 r[0] if r[0] != "ok" else int(r[1]), first[0])


def _oracle_locate(ctx, kind, inp):
    _, locate = _mods()
    if kind == "dups":
        v, tol = inp["v"], inp["tol"]
        if "scaled_by" in inp:
            r = _call(locate.find_duplicates, _arr(v, inp.get("dt", "float64")), tol / inp["scaled_by"])
        else:
            r = _call(locate.find_duplicates, v, tol)
        want = [int(any(j != i and abs(v[j] - v[i]) <= tol for j in range(len(v)))) for i in range(len(v))]
        if r[0] != "ok" or _il(r[1]) != want:
            fam = "find-duplicates-fewer-than-two-values" if len(v) < 2 else "find-duplicates-wrong-flags"
            ctx.fail(fam, "dups[i] must be True iff another value lies within tol", dict(inp, kind=kind),
                     r[0] if r[0] != "ok" else _il(r[1]), want)
    elif kind == "matint":
        D1, D2, keep = inp["D1"], inp["D2"], inp["keep"]
        if "scaled_by" in inp:  # dyadic float / mixed-dtype input, stored scaled
            c1, c2 = _arr(D1, inp["dt1"]), _arr(D2, inp["dt2"])
        else:
            c1, c2 = D1, D2
        r = _call(locate.mat_intersect, c1, c2, keep)
        A1 = np.atleast_2d(np.array(D1)).T if np.ndim(D1) == 1 == np.ndim(D2) else np.atleast_2d(np.array(D1))
        A2 = np.atleast_2d(np.array(D2)).T if np.ndim(D1) == 1 == np.ndim(D2) else np.atleast_2d(np.array(D2))
        r1, r2 = [tuple(x) for x in A1.tolist()], [tuple(x) for x in A2.tolist()]
        sw = not ((keep == 0 and len(r1) <= len(r2)) or keep == 1)
        needles, hay = (r2, r1) if sw else (r1, r2)
        same_cols = A1.shape[1] == A2.shape[1]
        wantN = [k for k, x in enumerate(needles) if same_cols and x in hay]
        empty_hay = len(hay) == 0 and len(needles) > 0
        fam = "mat-intersect-empty-haystack" if empty_hay else "mat-intersect-keep%d" % keep
        if "scaled_by" in inp and not empty_hay:
            kinds = "".join("i" if inp[k].startswith("int") else "f" for k in ("dt1", "dt2"))
            fam = "mat-intersect-%s-keep%d" % ({"if": "int-vs-float", "fi": "float-vs-int", "ff": "float", "ii": "int"}[kinds], keep)
        if r[0] != "ok":
            ctx.fail(fam, "mat_intersect raises %s" % r[0], dict(inp, kind=kind), r[0], "two index vectors")
            return
        pv1, pv2 = _il(r[1][0]), _il(r[1][1])
        def good(sw_):
            nd, hy = (r2, r1) if sw_ else (r1, r2)
            pN, pH = (pv2, pv1) if sw_ else (pv1, pv2)
            wN = [k for k, x in enumerate(nd) if same_cols and x in hy]
            return pN == wN and len(pH) == len(pN) and all(0 <= h < len(hy) and hy[h] == nd[n_] for n_, h in zip(pN, pH))

        # keep=0 with equally many rows: "the smaller one" is either
        ok = good(sw) or (keep == 0 and len(r1) == len(r2) and good(not sw))
        if not ok:
            ctx.fail(fam + "-defining-equation", "D1[pv1] == D2[pv2] with every matching row of the looped side, in order",
                     dict(inp, kind=kind), [pv1, pv2], {"looped-side indices": wantN})
    elif kind == "subseq":
        seq, sub = inp["seq"], inp["subseq"]
        if not seq or not sub:
            if len(sub) > len(seq):
                pass
            else:
                return
        if "scaled_by" in inp:
            dts = inp.get("dts", "ff")
            r = _call(locate.find_subseq, _arr(seq, "int64" if dts[0] == "i" else "float64"),
                      _arr(sub, "int64" if dts[1] == "i" else "float64"))
        else:
            r = _call(locate.find_subseq, seq, sub)
        want = [k for k in range(len(seq) - len(sub) + 1) if seq[k : k + len(sub)] == sub] if sub else []
        if r[0] != "ok" or _il(r[1]) != want:
            fam = "find-subseq-longer-than-seq" if len(sub) > len(seq) else "find-subseq-wrong-positions"
            ctx.fail(fam, "find_subseq must return every start of subseq in seq", dict(inp, kind=kind),
                     r[0] if r[0] != "ok" else _il(r[1]), want)
    elif kind == "flip":
        pv, n = inp["pv"], inp["n"]
        if any(not (-n <= p < n) for p in pv):
            return
        norm = {p % n for p in pv} if n else set()
        for name, fn, want in (("flippv", locate.flippv, [i for i in range(n) if i not in norm]),
                               ("index2bool", locate.index2bool, [int(i in norm) for i in range(n)])):
            r = _call(fn, np.array(pv, dtype=np.int64), n)
            if r[0] != "ok" or _il(r[1]) != want:
                ctx.fail(name + "-wrong", name + " is not the complement / indicator of pv", dict(inp, kind=kind),
                         r[0] if r[0] != "ok" else _il(r[1]), want)
    elif kind == "i2s":
        pv, strict = inp["pv"], inp["strict"]
        r = _call(locate.index2slice, pv, strict)
        if r[0] == "ok" and isinstance(r[1], slice):
            n = max([abs(p) for p in pv] + [0]) + 1
            got = list(range(n))[r[1]]
            want = [p % n for p in pv]
            if got != want:
                ctx.fail("index2slice-slice-selects-other-items", "range(n)[slice] != pv", dict(inp, kind=kind),
                         [str(r[1]), got], want)
        elif r[0] == "ok":
            d = np.diff(pv)
            if _il(r[1]) != list(pv) or (len(pv) >= 2 and d[0] != 0 and np.all(d == d[0]) and min(pv) >= 0):
                ctx.fail("index2slice-progression-not-converted", "a non-negative arithmetic progression must become a slice",
                         dict(inp, kind=kind), _il(r[1]), "slice")
        elif not (r[0] == "value-error" and strict):
            ctx.fail("index2slice-raises", "unexpected exception", dict(inp, kind=kind), r[0], "slice or pv")
    elif kind == "lint":
        L1, L2 = inp["L1"], inp["L2"]
        r = _call(locate.list_intersect, list(L1), list(L2))
        common = [x for x in dict.fromkeys(L1) if x in L2]
        want = [[L1.index(x) for x in common], [L2.index(x) for x in common]]
        if r[0] != "ok" or [_il(r[1][0]), _il(r[1][1])] != want:
            ctx.fail("list-intersect-wrong", "[L1[i] for i in pv1] == [L2[i] for i in pv2], every common item once, L1 order",
                     dict(inp, kind=kind), r[0] if r[0] != "ok" else [_il(r[1][0]), _il(r[1][1])], want)
    elif kind == "fvals":
        M, v = inp["m"], inp["v"]
        r = _call(locate.find_vals, _arr(M, "float64"), _arr(v, "float64"))
        flat = [M[i][j] for j in range(len(M[0])) for i in range(len(M))]
        want = [int(x in v) for x in flat]
        if r[0] != "ok" or _il(r[1]) != want:
            ctx.fail("find-vals-wrong", "pv must mark (column-major) the entries of m that occur in v", dict(inp, kind=kind),
                     r[0] if r[0] != "ok" else _il(r[1]), want)
    elif kind == "frows":
        M, row = inp["matrix"], inp["row"]
        r = _call(locate.find_rows, _arr(M, "float64"), _arr(row, "float64"))
        want = [int(list(x) == list(row)) for x in M] if len(row) == len(M[0]) else []
        if r[0] != "ok" or _il(r[1]) != want:
            ctx.fail("find-rows-wrong", "pv must mark exactly the rows equal to `row`", dict(inp, kind=kind),
                     r[0] if r[0] != "ok" else _il(r[1]), want)
    elif kind == "funique":
        y, (tn, td) = inp["y"], inp["tol"]
        if len(y) < 2:
            return  # fewer than two values: max() of an empty difference vector (outside the documented use)
        r = _call(locate.find_unique, _arr(y, "float64"), tn / td)
        d = [abs(b - a) for a, b in zip(y, y[1:])]
        want = [1] + [int(x * td > tn * max(d)) for x in d]
        if r[0] != "ok" or _il(r[1]) != want:
            ctx.fail("find-unique-wrong", "pv[0] = True, pv[i] = |y[i]-y[i-1]| > tol*max|diff|", dict(inp, kind=kind),
                     r[0] if r[0] != "ok" else _il(r[1]), want)
    elif kind == "merge":
        l1, l2 = inp["list1"], inp["list2"]
        r = _call(locate.merge_lists, list(l1), list(l2))
        if r[0] != "ok":
            ctx.fail("merge-lists-raises", "merge_lists raises", dict(inp, kind=kind), r[0], "merged list")
            return
        m, p1, p2 = r[1]
        ok = [m[i] for i in p1] == l1 and [m[i] for i in p2] == l2 and set(m) == set(l1) | set(l2)
        it = iter(m)
        ok = ok and all(any(x == y for y in it) for x in l1)  # list1 is a subsequence of merged
        if len(set(l1)) == len(l1) and len(set(l2)) == len(l2):
            ok = ok and len(m) == len(set(l1) | set(l2)) and all(a < b for a, b in zip(p1, p1[1:]))
            # list2's order is kept whenever it does not conflict with list1
            c = [x for x in l2 if x in l1]
            if [x for x in l1 if x in l2] == c:
                ok = ok and all(a < b for a, b in zip(p2, p2[1:]))
            # a new item of list2 stands immediately in front of its successor in list2; a new last item is last
            for k, x in enumerate(l2):
                if x not in l1:
                    j = m.index(x)
                    ok = ok and (m[j + 1:j + 2] == [l2[k + 1]] if k + 1 < len(l2) else j == len(m) - 1)
        if not ok:
            ctx.fail("merge-lists-wrong", "merged list / partition vectors violate the documented relations",
                     dict(inp, kind=kind), [m, p1, p2], "list1 == [m[i] for i in pv1], list2 == [m[i] for i in pv2], orders kept")


# found by this check while the matrix routines were modelled
FIXED_F68 = "formtran-se0-gset-repeated-dof"  # repaired in /repo (fix: commit 061ccd9); kept as a regression guard
# repaired in /repo (fix: commit e74e9b9: `iddof` built from the g-set rows in _proc_mset, _formtran_0, formtran); kept as a
# regression guard: a table with extra points in front of / between its DOF - RuntimeError, or rows of OTHER DOF without any exception
FIXED_F69 = "formtran-se0-pha-extra-point-rows"


def _oracle_tran(ctx, inp):
    """formtran / formulvs / formdrm / addulvs restated on the API against the defining relations of the stored
    matrices (c18_tran.full_from_aset / chain_avec: u_o = GOT u_t + GOQ u_q, u_m = GM u_n, u_s = 0, level by level)"""
    import warnings
    from props import c18_tran as T

    n2p, _ = _mods()
    masks = {k: int(v) for k, v in n2p.mkusetmask().items()}
    nas = T.from_plain(inp["nas"], inp["mats"])
    parent = {int(k): v for k, v in inp["parent"].items()}
    upa = {int(k): v for k, v in inp["expected_upa"].items()}
    what = inp["what"]
    rs = np.random.default_rng(12345)
    full_inp = dict(inp, kind="tran")

    def xvec(n):
        return rs.integers(-3, 4, (n, 2)).astype(float)

    def nset(se, letters):
        return sum(1 for t in T._letters(nas["uset"][se], masks) if t in letters)

    with warnings.catch_warnings():
        warnings.simplefilter("ignore")
        if what in ("formtran", "formdrm"):
            se = inp["se"] if what == "formtran" else inp["seup"]
            sedn = se if what == "formtran" else inp["sedn"]
            gset = bool(inp.get("gset"))
            dof = inp["dof"]
            u = nas["uset"][se]
            keys = [tuple(int(v) for v in k) for k in u.index.tolist()]
            L = T._letters(u, masks)
            req = T.expand(dof)
            missing = [d for d in req if d not in keys or L[keys.index(d)] == "e"]
            r = _call(n2p.formtran, nas, se, dof, gset) if what == "formtran" else \
                _call(n2p.formdrm, nas, se, dof, sedn, gset)
            tag = "%s-%s" % (what, "residual" if se == 0 else "upstream-se")
            if missing:
                if r[0] != "value-error":
                    ctx.fail(tag + "-missing-dof-accepted", "a requested DOF that is not in the g-set must raise ValueError",
                             full_inp, r[0] if r[0] != "ok" else "a matrix", "ValueError")
                return
            # the a-set displacements of `se` for two random load cases at `sedn`
            if sedn == 0:
                if gset:
                    x = xvec(nset(0, "msoqrcb"))
                elif 0 in nas["phg"]:
                    x = xvec(nas["phg"][0].shape[1])
                elif 0 in nas["pha"]:
                    x = xvec(nas["pha"][0].shape[1])
                else:
                    return  # nothing defines the residual's motion: the routine must refuse (correspondence)
            else:
                x = xvec(nset(sedn, "qrcb"))
            try:
                if se == sedn:
                    if se == 0:
                        if gset:
                            full = np.zeros((len(L), 2))
                            full[[i for i, t in enumerate(L) if t in "msoqrcb"]] = x
                        else:
                            full = T.residual_full(nas, masks, x)
                            if 0 not in nas["phg"]:
                                if any(L[keys.index(d)] == "o" for d in req):
                                    return  # documented: "Routine not set up for this"
                                ocols = [j for j, t in enumerate([t for t in L if t in "soqrcb"]) if t == "o"]
                                if "m" in L and any(L[keys.index(d)] == "m" for d in req) and np.any(nas["gm"][0][:, ocols]):
                                    return
                    else:
                        full = T.full_from_aset(nas, se, masks, x)
                else:
                    xa = T.chain_avec(nas, masks, parent, upa, se, sedn, x, gset)
                    if xa is None:
                        return
                    full = T.full_from_aset(nas, se, masks, xa)
            except KeyError:
                return  # a stored matrix the relations need is missing
            want = full[[keys.index(d) for d in req]]
            fam = tag + "-wrong-rows"
            if len(set(req)) < len(req) and se == 0 and gset:
                fam = FIXED_F68
            # the branches that look DOF up in `iddof`: the residual through pha, and every upstream SE
            extra_pt = what == "formtran" and "e" in L and not (se == 0 and (gset or 0 in nas["phg"]))
            if r[0] != "ok":
                ctx.fail(FIXED_F69 if extra_pt else tag + "-raises",
                         "%s raises %s on a request whose DOF are all recoverable" % (what, r[0]),
                         full_inp, r[0], "a matrix with one row per requested DOF")
                return
            if extra_pt:
                fam = FIXED_F69
            tran, od = r[1]
            if np.ndim(tran) and np.asarray(tran).shape[1] != x.shape[0]:
                ctx.fail(tag + "-wrong-columns", "the columns of the result must be the a-set (modal / g-set) DOF of the SE",
                         full_inp, list(np.asarray(tran).shape), [len(req), int(x.shape[0])])
                return
            got = np.asarray(tran) @ x if np.ndim(tran) else x * tran
            if [tuple(int(v) for v in k) for k in np.asarray(od).reshape(-1, 2).tolist()] != req or \
                    got.shape != want.shape or not np.array_equal(got, want):
                ctx.fail(fam, "{DOF} = Tran * {a-set / modal / g-set DOF}: row k of the result must recover requested "
                         "DOF k from the defining relations (identity on the a-set, GOT/GOQ on the o-set, GM on the "
                         "m-set, 0 on the s-set)", full_inp, np.asarray(got).tolist(), want.tolist())
        elif what == "formulvs":
            c, sedn, kc, gset = inp["seup"], inp["sedn"], bool(inp["keepcset"]), bool(inp.get("gset"))
            r = _call(n2p.formulvs, nas, c, sedn, kc, False, gset)
            if r[0] != "ok" and kc and c != sedn:
                # a refusal where the defining relations give the answer
                x0 = None
                if sedn != 0:
                    x0 = xvec(nset(sedn, "qrcb"))
                elif gset:
                    x0 = xvec(nset(0, "msoqrcb"))
                elif 0 in nas["phg"]:
                    x0 = xvec(nas["phg"][0].shape[1])
                elif 0 in nas["pha"]:
                    x0 = xvec(nas["pha"][0].shape[1])
                try:
                    xa0 = None if x0 is None else T.chain_avec(nas, masks, parent, upa, c, sedn, x0, gset)
                except KeyError:
                    xa0 = None
                if xa0 is not None:
                    ctx.fail("formulvs-raises", "formulvs raises %s although every level is defined" % r[0], full_inp,
                             r[0], "the transformation to the a-set of the upstream SE")
                return
            if r[0] != "ok" or np.ndim(r[1]) == 0:
                return  # other refusals are compared by the correspondence; nothing to restate
            ul = np.asarray(r[1])
            # (1) the chain: ULVS(c -> sedn) = ULVS(c -> p) @ ULVS(p -> sedn) for the SE p just below c
            p_ = parent.get(c)
            if p_ is not None and p_ != sedn:
                r1 = _call(n2p.formulvs, nas, c, p_, kc, False, gset)
                r2 = _call(n2p.formulvs, nas, p_, sedn, kc, False, gset)
                if r1[0] == "ok" and r2[0] == "ok":
                    m1_, m2_ = np.asarray(r1[1]), np.asarray(r2[1])
                    if m1_.ndim == 2 and m2_.ndim == 2 and m1_.shape[1] != m2_.shape[0]:
                        ctx.fail("formulvs-chain-not-the-product", "ULVS(seup -> sedn) must be ULVS(seup -> p) @ ULVS(p -> sedn): "
                                 "the inner dimensions of the two factors differ", full_inp, list(ul.shape),
                                 [list(m1_.shape), list(m2_.shape)])
                        return
                    prod = m1_ @ m2_ if m1_.ndim and m2_.ndim else m1_ * m2_
                    if prod.shape != ul.shape or not np.array_equal(prod, ul):
                        ctx.fail("formulvs-chain-not-the-product", "ULVS(seup -> sedn) must be ULVS(seup -> p) @ ULVS(p -> sedn)",
                                 full_inp, ul.tolist(), prod.tolist())
                        return
            # (1b) keepcset=False: the product of the single-level matrices (each verified by (2) when it is asked for
            #      with keepcset=True) after the c-set rows (upstream SE) and columns (downstream SE, not the residual)
            #      are struck out - by the documented membership, not by mksetpv
            if not kc:
                path = [c]
                while path[-1] != sedn and path[-1] in parent:
                    path.append(parent[path[-1]])
                prod, okp = None, path[-1] == sedn
                for a_, b_ in zip(path, path[1:]):
                    r1 = _call(n2p.formulvs, nas, a_, b_, True, False, gset)
                    if r1[0] != "ok" or np.ndim(r1[1]) != 2:
                        okp = False
                        break
                    La = [t for t in T._letters(nas["uset"][a_], masks) if t in "qrcb"]
                    Lb = [t for t in T._letters(nas["uset"][b_], masks) if t in "qrcb"]
                    m1 = np.asarray(r1[1])
                    if m1.shape[0] != len(La) or (b_ != 0 and m1.shape[1] != len(Lb)):
                        okp = False  # skipped boundary DOF (maps shorter than the a-set): the masks do not fit
                        break
                    m1 = m1[[i for i, t in enumerate(La) if t != "c"]]
                    if b_ != 0:
                        m1 = m1[:, [i for i, t in enumerate(Lb) if t != "c"]]
                    prod = m1 if prod is None else prod @ m1
                if okp and prod is not None and (prod.shape != ul.shape or not np.array_equal(prod, ul)):
                    ctx.fail("formulvs-keepcset-false-wrong", "with keepcset=False the c-set rows of the upstream SE and the "
                             "c-set columns of the downstream SE are struck out of every level before multiplying",
                             full_inp, ul.tolist(), prod.tolist())
                    return
            # (2) the physical relation (all sets kept)
            if kc:
                if sedn == 0:
                    if gset:
                        x = xvec(nset(0, "msoqrcb"))
                    elif 0 in nas["phg"]:
                        x = xvec(nas["phg"][0].shape[1])
                    elif 0 in nas["pha"]:
                        x = xvec(nas["pha"][0].shape[1])
                    else:
                        return
                else:
                    x = xvec(nset(sedn, "qrcb"))
                try:
                    xa = T.chain_avec(nas, masks, parent, upa, c, sedn, x, gset)
                except KeyError:
                    return
                if xa is None:
                    return
                got = ul @ x
                if got.shape != xa.shape or not np.array_equal(got, xa):
                    ctx.fail("formulvs-wrong-recovery", "{upstream T & Q} = ULVS * {downstream DOF}: the a-set displacements of "
                             "the upstream SE, recovered level by level from the defining relations", full_inp,
                             got.tolist(), xa.tolist())
        elif what == "addulvs":
            ses, kc = inp["ses"], bool(inp["keepcset"])
            n2 = dict(nas)
            r = _call(n2p.addulvs, n2, *ses, keepcset=kc)
            if r[0] != "ok":
                return
            for se in ses:
                r1 = _call(n2p.formulvs, nas, se, 0, kc, False)
                if r1[0] != "ok" or se not in n2.get("ulvs", {}) or not np.array_equal(np.asarray(n2["ulvs"][se]), np.asarray(r1[1])):
                    ctx.fail("addulvs-stored-is-not-formulvs", "nas['ulvs'][se] must be formulvs(nas, se) for every listed SE",
                             full_inp, "entry of SE %d" % se, "formulvs(nas, %d)" % se)
                    return
            r2 = _call(n2p.formulvs, n2, ses[0], 0, kc, True)
            if r2[0] != "ok" or not np.array_equal(np.asarray(r2[1]), np.asarray(n2["ulvs"][ses[0]])):
                ctx.fail("addulvs-shortcut-differs", "formulvs(shortcut=True) after addulvs must return the stored matrix",
                         full_inp, r2[0], "the stored matrix")


def _oracle_usetprt(ctx, inp):
    """the table usetprt returns: one column per requested set (in the documented order), one row per DOF that is in
    at least one requested set, in table order; an entry is the DOF's number within the set (from 1) or 0"""
    n2p, _ = _mods()
    rows, nas_, ps = inp["rows"], inp["nasset"], inp["printsets"]
    uset = n2p.make_uset(rows, nas_)
    base = []
    for r_, l in zip(rows, nas_):
        base += [l] * (6 if r_[1] == 123456 else 1)
    order = "m,s,o,q,r,c,b,e,l,t,a,d,f,fe,n,ne,g,p,u1,u2,u3,u4,u5,u6".split(",")
    if ps == "*":
        req = order
    else:
        want_names = [x.strip().lower() for x in (ps or "m,s,o,q,r,c,b,e,l,t,a,f,n,g").split(",")]
        req = [x for x in order if x in want_names]
    cols = {}
    for x in req:
        k, col = 0, []
        for b in base:
            if x in MEMBERS and b in MEMBERS[x]:
                k += 1
                col.append(k)
            else:
                col.append(0)
        cols[x] = col
    want = [[int(i), int(d), n + 1] + [cols[x][n] for x in req]
            for n, (i, d) in enumerate(uset.index.tolist()) if any(cols[x][n] for x in req)]
    r = _call(n2p.usetprt, 0, uset, ps) if ps is not None else _call(n2p.usetprt, 0, uset)
    finp = dict(inp, kind="usetprt")
    if r[0] != "ok":
        ctx.fail("usetprt-raises", "usetprt raises", finp, r[0], want)
        return
    t = r[1]
    got = [] if t is None else [list(map(int, ix)) + list(map(int, v)) for ix, v in zip(t.index.tolist(), t.values.tolist())]
    names = [] if t is None else t.columns.tolist()
    if got != want or (t is not None and names != req):
        ctx.fail("usetprt-table-not-the-partition-listing", "every DOF of the requested sets exactly once, in table order, "
                 "numbered within each set; columns in the documented order", finp, [names, got], [req, want])


def _probe_findings(ctx):
    """the inputs of the two findings made while the matrix routines were modelled: F68 (repaired in /repo by 061ccd9:
    the rule is kept as a regression guard and passes on the repaired tree) and F69 (repaired by e74e9b9: regression guards
    for both faces of the defect - the RuntimeError and the silently wrong rows)"""
    from props import c18_tran as T
    from props import c18_nas as N

    n2p, _ = _mods()
    masks = {k: int(v) for k, v in n2p.mkusetmask().items()}
    b, q, e = masks["b"], masks["q"], masks["e"]
    # (1) F68, fixed: formtran(nas, 0, dof, gset=True) with a DOF named twice - before the fix the first of the two rows
    #     was all zero (`tran[:, pvdof] = np.eye(len(pvdof))`: the later column assignment wins)
    nas = {"selist": [[0, 0]], "uset": {"0": [[1, d, b] for d in range(1, 7)] + [[2, 0, q]]}, "dnids": {}, "maps": {}, "upids": {}}
    plain = {"nas": nas, "mats": {}, "parent": {}, "expected_upa": {}}
    _oracle_tran(ctx, dict(plain, what="formtran", se=0, dof=[[1, 12], [1, 2], [2, 0]], gset=True))
    # (2) F69, fixed: _formtran_0 through nas['pha'] with an extra point (e-set) in front of a-set DOF: before the fix
    #     positions within the g-set were used as rows of the whole table (`iddof[a]`) and the request was answered with
    #     RuntimeError
    nas = {"selist": [[0, 0]], "uset": {"0": [[1, 0, e]] + [[2, d, b] for d in range(1, 7)] + [[3, 0, q]]},
           "dnids": {}, "maps": {}, "upids": {}}
    pha = {"0": {"shape": [7, 2], "data": [float(v) for v in range(14)]}}
    plain = {"nas": nas, "mats": {"pha": pha}, "parent": {}, "expected_upa": {}}
    _oracle_tran(ctx, dict(plain, what="formtran", se=0, dof=[[2, 1], [3, 0]], gset=False))
    # (3) F69, fixed, the silent face: formtran for an upstream SE, table e b o b, GOT = [[2, 3]], the o-set DOF requested:
    #     before the fix the row of ANOTHER DOF came back ([[0, 1]] instead of [[2, 3]]: u_o = GOT u_t), no exception; and
    #     the residual with an extra point BETWEEN the DOF and an m-set DOF recovered through GM
    o, m, s_ = masks["o"], masks["m"], masks["s"]
    nas = {"selist": [[1, 0], [0, 0]], "uset": {"1": [[1, 0, e], [2, 0, b], [3, 0, o], [4, 0, b]]}, "dnids": {}, "maps": {}, "upids": {}}
    got = {"1": {"shape": [1, 2], "data": [2.0, 3.0]}}
    plain = {"nas": nas, "mats": {"got": got}, "parent": {"1": 0}, "expected_upa": {}}
    for dof in ([[3, 0]], [[2, 0], [3, 0]], [[4, 0], [3, 0], [2, 0]]):
        _oracle_tran(ctx, dict(plain, what="formtran", se=1, dof=dof, gset=False))
    nas = {"selist": [[0, 0]], "uset": {"0": [[1, 0, e], [5, 0, b], [6, 0, m], [8, 0, e], [7, 0, q], [9, 0, s_]]},
           "dnids": {}, "maps": {}, "upids": {}}
    mats = {"pha": {"0": {"shape": [2, 1], "data": [1.0, 10.0]}}, "gm": {"0": {"shape": [1, 3], "data": [2.0, 3.0, 0.0]}}}
    plain = {"nas": nas, "mats": mats, "parent": {}, "expected_upa": {}}
    _oracle_tran(ctx, dict(plain, what="formtran", se=0, dof=[[7, 0], [6, 0], [9, 0]], gset=False))
    ctx.count("oracle:finding-probes", 6)


def _corpus(ctx):
    path = os.path.join(ctx.verif, "corpus", "c18.json")
    return json.load(open(path)) if os.path.exists(path) else []


def _run_one(ctx, inp):
    k = inp.get("kind")
    if k == "sets":
        _replay_sets(ctx, inp)
    elif k == "words":
        _oracle_words(ctx, inp["words"], inp["major"], inp["minor"])
    elif k == "dofpv":
        _oracle_dofpv(ctx, inp["rows"], inp["nasset"], inp["set"], inp["dof"], inp["strict"], inp.get("grids_only", True))
    elif k == "expand":
        _oracle_expand(ctx, inp["dof"])
    elif k in ("dups", "matint", "subseq", "flip", "i2s", "lint", "merge", "fvals", "frows", "funique"):
        _oracle_locate(ctx, k, inp)
    elif k == "nas":
        _oracle_nas(ctx, inp)
    elif k == "makeuset":
        _oracle_makeuset(ctx, inp)
    elif k == "maskplus":
        _oracle_maskplus(ctx, inp["spec"])
    elif k == "findse":
        _oracle_findse(ctx, inp["selist"], inp["se"])
    elif k == "tran":
        _oracle_tran(ctx, inp)
    elif k == "usetprt":
        _oracle_usetprt(ctx, inp)
    elif k == "xyz":
        _oracle_xyz(ctx, [([tuple(x) for x in perm], sc, tuple(p)) for perm, sc, p in inp["nodes"]], inp["tol"],
                    inp.get("perturb", 0.0))


def _hint_to_input(h):
    """turn a correspondence disagreement into an oracle input where the shapes allow it"""
    s, i = h["stream"], h["input"]
    try:
        if s == "expanddof" and i["dof"] and isinstance(i["dof"][0], list) and len(i["dof"][0]) == 2:
            return {"kind": "expand", "dof": i["dof"]}
        if s in ("find_duplicates", "find_duplicates-float"):
            return dict(i, kind="dups")
        if s.startswith(("upasetpv", "upqsetpv")):
            return dict(i, kind="nas") if "expected" in i else None
        if s in ("make_uset", "make_uset-xyz"):
            return dict(i, kind="makeuset")
        if s == "mask" and isinstance(i.get("nasset"), str) and "+" in i["nasset"]:
            return {"kind": "maskplus", "spec": i["nasset"]} if all(p_ in NAMED + USER for p_ in i["nasset"].split("+")) else None
        if s == "mat_intersect-mixed":
            return dict(i, kind="matint")
        if s == "find_subseq-float":
            return dict(i, kind="subseq")
        if s == "find_vals":
            return dict(i, kind="fvals")
        if s == "find_rows":
            return dict(i, kind="frows")
        if s == "find_unique":
            return dict(i, kind="funique")
        if s == "list_intersect-mixed":
            return dict(i, kind="lint")
        if s in ("mat_intersect", "mat_intersect-order"):
            return dict(i, kind="matint") if i["keep"] in (0, 1, 2) else None  # other values are undocumented
        if s == "findse":
            return dict(i, kind="findse")
        if s in ("formtran", "formulvs", "formdrm", "addulvs"):
            return dict(i, kind="tran") if i.get("what") in ("formtran", "formulvs", "formdrm", "addulvs") else None
        if s == "usetprt":
            return dict(i, kind="usetprt") if all(isinstance(x, str) and x in BASE for x in i["nasset"]) else None
        if s == "find_subseq":
            return dict(i, kind="subseq")
        if s in ("flippv", "index2bool"):
            return dict(i, kind="flip")
        if s == "index2slice":
            return dict(i, kind="i2s")
        if s == "list_intersect":
            return dict(i, kind="lint")
        if s == "merge_lists":
            return dict(i, kind="merge")
        if s.startswith("mksetpv") and isinstance(i["major"], int) and isinstance(i["minor"], int):
            return dict(i, kind="words")
    except Exception:  # noqa: BLE001
        return None
    return None


def search(ctx, hints):
    n2p, locate = _mods()
    rng = ctx.rng
    todo = [x for x in (_hint_to_input(h) for h in hints[:200]) if x]
    todo += _corpus(ctx)
    for inp in todo:
        try:
            _run_one(ctx, inp)
        except Exception as e:  # noqa: BLE001
            ctx.fail("oracle-crash-" + str(inp.get("kind")), "oracle input crashes: %r" % e, inp, _kind(e), "a result")
        ctx.count("oracle:hint-or-corpus")
    # base stream 1: set identities on small tables, all 18x18 pairs
    allpairs = [(a, b) for a in NAMED for b in NAMED]
    assigns = rng.sample(list(itertools.product(BASE, repeat=3)), ctx.pick(12, 120))
    for a in assigns:
        _oracle_sets(ctx, list(a), [[1, 123456], [2, 123456], [3, 0]], allpairs)
        ctx.count("oracle:sets", len(allpairs))
    _oracle_sets(ctx, list(BASE), [[k + 1, 0] for k in range(8)], allpairs)  # every base set present once
    for _ in range(ctx.pick(10, 100)):
        lets = [rng.choices(BASE, k=6), rng.choice(BASE)]
        combos = [("+".join(rng.sample(NAMED, 2)), rng.choice(NAMED)) for _ in range(20)] + \
                 [(rng.choice(NAMED), "+".join(rng.sample(BASE, 2))) for _ in range(20)]
        _oracle_sets(ctx, lets, [[7, 123456], [9, 0]], combos)
        ctx.count("oracle:sets", len(combos))
    for _ in range(ctx.pick(300, 3000)):
        words = [rng.getrandbits(32) if rng.random() < 0.7 else 0 for _ in range(rng.randint(0, 8))]
        M = rng.getrandbits(32) | (rng.getrandbits(32) if rng.random() < 0.5 else 0)
        mnr = (M & rng.getrandbits(32)) if rng.random() < 0.6 else rng.getrandbits(rng.choice([3, 32]))
        _oracle_words(ctx, words, M, mnr)
        ctx.count("oracle:words")
    # base stream 2: look-ups
    for _ in range(ctx.pick(300, 3000)):
        npts = rng.randint(1, 4)
        ids = rng.sample(range(1, 30), npts)
        rows = [[i, rng.choice([0, 123456])] for i in ids]
        nas = [rng.choice(BASE) for _ in rows]
        setspec = rng.choice(["p", "a", "b", "q", "o", "g", "b+q", "f", "m"])
        pool = ids + [rng.randint(1, 40)]
        if rng.random() < 0.3:
            dof = [rng.choice(pool) for _ in range(rng.randint(0, 3))]
        else:
            dof = [[rng.choice(pool), rng.choice([0, 1, 3, 6, 12, 123, 246, 123456, 35])] for _ in range(rng.randint(0, 4))]
        _oracle_dofpv(ctx, rows, nas, setspec, dof, rng.random() < 0.4, rng.random() < 0.7)
        ctx.count("oracle:dofpv")
        dof = [[rng.randint(1, 50), rng.choice([0, 5, 6, 7, 8, 16, 17, 123456, 1234567, 246, 70, 9, 66, 77])]
               for _ in range(rng.randint(1, 4))]
        _oracle_expand(ctx, dof)
        ctx.count("oracle:expanddof")
    # base stream 2b: make_uset (documented forms, and component lists split over rows), '+' masks
    masks_ = {k: int(v) for k, v in n2p.mkusetmask().items()}
    for _ in range(ctx.pick(150, 1500)):
        rows, nas, _style = _gen_table(ctx, masks_)
        inp = {"dof": rows, "nasset": nas}
        r0 = rng.random()
        if r0 < 0.15:
            inp = {"dof": [r_[0] for r_ in rows], "nasset": nas}
            rows = [[i, 123456] for i in inp["dof"]]
        elif r0 < 0.3:
            k = rng.randrange(len(rows))
            if rows[k][1] == 123456:
                cut = rng.randint(1, 5)
                rows = rows[:k] + [[rows[k][0], int("123456"[:cut])], [rows[k][0], int("123456"[cut:])]] + rows[k + 1:]
                nas = nas[:k] + [nas[k], nas[k] ^ 1] + nas[k + 1:]
                inp = {"dof": rows, "nasset": nas}
        if rng.random() < 0.2:
            inp["nasset"] = inp["nasset"][:1]
        if rng.random() < 0.5:
            inp["xyz"] = [[rng.randint(-9, 9) for _ in range(3)] for _ in range(len(inp["dof"]))]
        _oracle_makeuset(ctx, inp)
        ctx.count("oracle:make_uset")
        _oracle_maskplus(ctx, "+".join(rng.sample(NAMED + USER, rng.randint(2, 4))))
        _oracle_maskplus(ctx, "+".join(rng.choice(NAMED + USER) for _ in range(rng.randint(2, 4))))  # with repeats
        ctx.count("oracle:maskplus", 2)
    # base stream 2c: upasetpv / upqsetpv on generated dictionaries (expected vectors known by construction)
    from props import c18_nas as N
    for it in range(ctx.pick(120, 1200)):
        nas, info = N.gen_nas(rng, deep=(3 + it // 8 % 2) if it % 8 == 0 else None)
        plain = N.to_plain(nas)
        if info["depth"] >= 3:
            ctx.count("oracle:upqsetpv-depth-3-or-4")
        sl = [[rng.choice([0, 10, 20, 30]), rng.choice([0, 10])] for _ in range(rng.randint(0, 5))]
        _oracle_findse(ctx, sl, rng.choice([0, 10, 20, 30, 7]))
        ctx.count("oracle:findse")
        nodes = []
        for _ in range(rng.randint(1, 4)):
            cols = rng.sample(range(3), 3)
            nodes.append(([(j, rng.choice([1, -1])) for j in cols], rng.choice([1, 1, 2, 0.5, 10, 3, 0.00259]),
                          tuple(rng.randint(-32, 32) / 4 for _ in range(3))))
        _oracle_xyz(ctx, nodes, rng.choice([0.01, 0.01, 0.001, 0.1]))
        if len(nodes) > 1 and max(abs(v) for _, _, p in nodes for v in p) >= 2:
            _oracle_xyz(ctx, nodes, rng.choice([0.01, 0.05]), perturb=rng.choice([0.25, 0.5, 0.75]))
            ctx.count("oracle:find_xyz_triples-within-tolerance")
        ctx.count("oracle:find_xyz_triples")
        for c, exp in info["expected_upa"].items():
            _oracle_nas(ctx, {"nas": plain, "seup": c, "expected": exp, "style": info["style"]})
            ctx.count("oracle:upasetpv")
        for s_, exp in info["expected_upq"].items():
            _oracle_nas(ctx, {"nas": plain, "sedn": s_, "expected": exp, "style": info["style"]})
            ctx.count("oracle:upqsetpv")
    # base stream 2d: formtran / formulvs / formdrm / addulvs against the defining relations of the stored matrices,
    # usetprt against the documented membership
    from props import c18_tran as T
    for it in range(ctx.pick(50, 500)):
        nas, info = N.gen_nas(rng, deep=(3 + it // 8 % 2) if it % 8 == 0 else None, res_o=it % 3 != 0)
        T.add_matrices(rng, nas, masks_, ["phg", "pha", "phg"][it % 3])
        plain = {"nas": N.to_plain(nas), "mats": T.plain_mats(nas), "parent": {str(k): v for k, v in info["parent"].items()},
                 "expected_upa": {str(k): v for k, v in info["expected_upa"].items()}}
        ses = info["order"]
        nas_x, with_e = T.with_extra_points(rng, nas, masks_, share=0.5)
        plain_x = dict(plain, nas=N.to_plain(nas_x))
        for se in [0] + rng.sample(ses, min(2, len(ses))):
            py, _k, _sec, rt = T.gen_request(rng, nas_x["uset"][se], masks_)
            _oracle_tran(ctx, dict(plain_x, what="formtran", se=se, dof=py, gset=se == 0 and rng.random() < 0.4))
            ctx.count("oracle:formtran")
            if se in with_e:
                ctx.count("oracle:formtran:extra-points")
        for c in ses:
            path = [c]
            while path[-1] != 0:
                path.append(info["parent"][path[-1]])
            sedn = rng.choice(path[1:])
            _oracle_tran(ctx, dict(plain, what="formulvs", seup=c, sedn=sedn, keepcset=rng.random() < 0.7,
                                   gset=sedn == 0 and rng.random() < 0.3))
            ctx.count("oracle:formulvs")
            if len(path) > 2:
                ctx.count("oracle:formulvs-multilevel")
        c = rng.choice(ses)
        path = [c]
        while path[-1] != 0:
            path.append(info["parent"][path[-1]])
        py, _k, _sec, rt = T.gen_request(rng, nas["uset"][c], masks_)
        sedn = rng.choice(path)
        _oracle_tran(ctx, dict(plain, what="formdrm", seup=c, sedn=sedn, dof=py, gset=sedn == 0 and rng.random() < 0.3))
        ctx.count("oracle:formdrm")
        _oracle_tran(ctx, dict(plain, what="addulvs", ses=rng.sample(ses, rng.randint(1, min(3, len(ses)))), keepcset=True))
        ctx.count("oracle:addulvs")
    for _ in range(ctx.pick(100, 1000)):
        npts = rng.randint(1, 4)
        ids = rng.sample(range(1, 30), npts)
        rows = [[i, rng.choice([0, 123456])] for i in ids]
        nas_ = [rng.choice(BASE) for _ in rows]
        r0 = rng.random()
        ps = "*" if r0 < 0.2 else None if r0 < 0.3 else ",".join(
            (" " if rng.random() < 0.3 else "") + (x.upper() if rng.random() < 0.2 else x)
            for x in [rng.choice(NAMED + USER + ["zz"]) for _ in range(rng.randint(1, 5))])
        _oracle_usetprt(ctx, {"rows": rows, "nasset": nas_, "printsets": ps})
        ctx.count("oracle:usetprt")
    _probe_findings(ctx)
    # base stream 3: locate helpers
    for _ in range(ctx.pick(400, 4000)):
        _oracle_locate(ctx, "dups", {"v": _gen_intlist(rng, -3, 5, rng.choice([0, 1, 2, 5, 12])), "tol": rng.choice([0, 0, 1, 2])})
        if rng.random() < 0.5:
            d1, d2 = _gen_intlist(rng, -2, 5, 6), _gen_intlist(rng, -2, 5, 6)
        else:
            c = rng.randint(1, 3)
            d1 = [[rng.randint(0, 2) for _ in range(c)] for _ in range(rng.randint(1, 6))]
            d2 = [[rng.randint(0, 2) for _ in range(c)] for _ in range(rng.randint(1, 6))]
        _oracle_locate(ctx, "matint", {"D1": d1, "D2": d2, "keep": rng.choice([0, 1, 2, 2])})
        _oracle_locate(ctx, "subseq", {"seq": _gen_intlist(rng, 0, 2, 10, 1), "subseq": _gen_intlist(rng, 0, 2, 3, 1)
                                       if rng.random() < 0.8 else _gen_intlist(rng, 0, 1, 12, 1)})
        n = rng.randint(0, 8)
        _oracle_locate(ctx, "flip", {"pv": _gen_intlist(rng, -n, n - 1, 5) if n else [], "n": n})
        a, d, L = rng.randint(0, 9), rng.choice([-3, -2, -1, 1, 2, 3]), rng.randint(0, 5)
        pv = [a + d * i for i in range(L)] if rng.random() < 0.6 else _gen_intlist(rng, -3, 9, 4)
        _oracle_locate(ctx, "i2s", {"pv": pv, "strict": False})
        l1, l2 = _gen_intlist(rng, 0, 7, 7), _gen_intlist(rng, 0, 7, 7)
        _oracle_locate(ctx, "lint", {"L1": l1, "L2": l2})
        if rng.random() < 0.6:
            l1, l2 = list(dict.fromkeys(l1)), list(dict.fromkeys(l2))
        _oracle_locate(ctx, "merge", {"list1": l1, "list2": l2})
        ctx.count("oracle:locate", 7)
        # float / mixed-dtype inputs (dyadic, stored scaled by 4)
        k1, k2 = rng.choice(["if", "fi", "ff"])
        if rng.random() < 0.5:
            s1, s2 = _gen_scaled(rng, k1, (rng.randint(0, 6),)), _gen_scaled(rng, k2, (rng.randint(0, 6),))
        else:
            c = rng.randint(1, 3)
            s1, s2 = _gen_scaled(rng, k1, (rng.randint(1, 6), c), 0, 2), _gen_scaled(rng, k2, (rng.randint(1, 6), c), 0, 2)
        _oracle_locate(ctx, "matint", {"D1": s1, "D2": s2, "keep": rng.choice([0, 1, 2]), "scaled_by": SCALE,
                                       "dt1": rng.choice(_DTYPES_I if k1 == "i" else _DTYPES_F),
                                       "dt2": rng.choice(_DTYPES_I if k2 == "i" else _DTYPES_F)})
        _oracle_locate(ctx, "dups", {"v": _gen_scaled(rng, "f", (rng.choice([0, 1, 2, 5, 9]),), -2, 3),
                                     "tol": rng.choice([0, 1, 2, 4]), "scaled_by": SCALE, "dt": "float64"})
        dts = rng.choice(["ff", "if", "fi"])
        _oracle_locate(ctx, "subseq", {"seq": [(4 if dts[0] == "i" else 2) * x for x in _gen_intlist(rng, 0, 2, 10, 1)],
                                       "subseq": [(4 if dts[1] == "i" else 2) * x for x in _gen_intlist(rng, 0, 2, 3, 1)],
                                       "scaled_by": SCALE, "dts": dts})
        c = rng.randint(1, 3)
        M = _gen_scaled(rng, "f", (rng.randint(1, 5), c), 0, 2)
        _oracle_locate(ctx, "fvals", {"m": M, "v": _gen_scaled(rng, "f", (rng.randint(0, 3),), 0, 2), "scaled_by": SCALE})
        _oracle_locate(ctx, "frows", {"matrix": M, "row": list(rng.choice(M)) if rng.random() < 0.6 else
                                      _gen_scaled(rng, "f", (c,), 0, 2), "scaled_by": SCALE})
        _oracle_locate(ctx, "funique", {"y": _gen_scaled(rng, "f", (rng.randint(2, 8),), -2, 3),
                                        "tol": list(rng.choice([(1, 1000000), (0, 1), (1, 4), (1, 2)])), "scaled_by": SCALE})
        ctx.count("oracle:locate-float", 6)
        if len(ctx.failures) > 40:
            break
    # one representative per family is enough for the report
    seen, keep = set(), []
    for f in ctx.failures:
        if f["family"] not in seen:
            seen.add(f["family"])
            keep.append(f)
    if len(keep) > 5:  # a broken mask/test shows up under hundreds of (major, minor) names
        ctx.extra["further_failing_families"] = [f["family"] for f in keep[5:]][:50]
        keep = keep[:5]
    ctx.failures[:] = keep


def replay(ctx, data):
    f = data.get("failure")
    if not f:
        return None
    _run_one(ctx, f["input"])
    return ctx.failures[0] if ctx.failures else None
