"""C14 — coordinate systems and rigid-body geometry are mutually consistent (DESIGN.md 6/C14).

Tie: correspondence between the Lean models lean/PyYetiVerif/Model/{Coord,CoordRbe3,CoordChain}.lean (run at Float
through Drivers/C14.lean, doubles transported as bit patterns) and pyyeti.nastran.n2p.
Numeric streams (|impl - model| <= 1e-9 * scale, angles compared modulo 360 degrees):
  cs    build_coords / mkusetcoordinfo / mkcordcardinfo     (A-B-C construction, chaining)
  loc   addgrid (+ make_uset for scalar points), uset rows   (forward maps)
  get   getcoordinates by grid id and by xyz                 (inverse maps, |sin|>|cos| branch; azimuths exactly
                                                              on 0, +-90, 180, 270, +-45, +-135 in rotated frames)
  rb    rbgeom_uset (ref = grid id or xyz)                   (local frames, zero rows)
  rbg   rbgeom (ref = row index or xyz)
  mv    rbmove          rbc   rbcoords
  rbe3  formrbe3: weights, component selections (also non-ascending digits), Ind_List not in uset order, and the
        UM_List kinds indep / dep / mixed / first-ind / first-dep / wrong size (shape and ValueError compared exactly)
  rbe3w formrbe3 from its own arguments: the model `formrbe3W` (Model/CoordRbe3Wrap.lean) gets GRID_dep, DOF_dep, the
        Ind_List groups (component number, optional weight, scalar / list ids in every accepted Python form) and the
        UM_List pairs as they are, plus the ids of the table rows (tables with scalar points, q-set grids and grids that
        take no part); kinds: plain, the UM_List kinds, DOF that are not rows of the table (dropped), a scalar point as
        independent DOF / a digit > 6 / a wrong m-set size (raise), a digit 0 in DOF_dep (Python's index -1)
  rep   replace_basic_cs (both call forms)
  axis worlds (signed-permutation transforms, integer points; tolerance 1e-12 * scale, angles compared, nothing
        skipped): grids exactly on the polar axis of a cylindrical / spherical system, at its origin, and at azimuths
        of exactly 0 / 90 / 180 / 270 degrees, through loc / get / rb / mv / rbc / rep
Exact streams (ids, levels, error kind and payload, key order; numbers of the resolved systems to 1e-9):
  bc    build_coords on shuffled cards: valid trees, chains 3..8 deep whose ids decrease / increase / alternate along
        the chain, 17..24 cards, equal / unequal duplicates, missing (also under a deep chain) / self / circular references
  mk    mkusetcoordinfo(card, None, coordref) card by card with one dictionary (known id, new id, ValueError)
on random worlds: chains of up to 5 CORD2R/C/S systems of all type mixes, grids entered in any system with any
output system, scalar points and q-set grids mixed in.

Translator: harness/translate/c14_coordconsts.py reads the fix-up thresholds (1e-8), the characteristic-length
threshold (1e-12), the degree conversions (180) and the largest component (6) from n2p.py with `ast` and regenerates
lean/PyYetiVerif/Generated/CoordConsts.lean, which the model uses.

The oracle (`search`) restates the property on the public API only, with its own numpy geometry (and exact rational
arithmetic for the rows at quarter turns / on the polar axis).
"""
import json
import math
import os
import random
import struct
import warnings

import numpy as np

from runner import Infra, TieBroken

ID = "C14"
LEAN_MODULES = ["PyYetiVerif.Props.C14", "PyYetiVerif.Audit.C14"]
AUDIT_FILE = "PyYetiVerif/Audit/C14.lean"
THEOREMS = [
    "PyYetiVerif.C14." + n
    for n in (
        "abc_orthonormal mkCoord_orthonormal chain_orthonormal "
        "cyl_roundtrip cyl_roundtrip_inv sph_roundtrip "
        "chain_consistent_point chain_consistent_rect chain_consistent_cyl chain_compose "
        "rb_is_rigid local_frame_orthonormal rb_matches_geometry rbmove_consistent rbmove_rows "
        "rbcoords_recovers replace_basic_rigid "
        "sph_roundtrip_inv chain_consistent_sph sph_branch_safe sph_branch_abs_needed rbcoords_recovers_all "
        "rbe3_normal_invertible rbe3_alg_reproduces rbe3_reproduces_rb rbe3_rigid_motion rbe3_rows_are_rbgeom_uset "
        "rbe3_fullrank_three_grids rbe3_reproduces_rb_three_grids "
        "rbe3_um_indep rbe3_um_mixed rbe3_um_dep um_plan_branch um_plan_indep um_plan_dep "
        "rbe3_um_any rbe3_um_any_grids "
        "chain_order_irrelevant chain_circular_refused chain_dup_unequal_refused chain_resolved "
        "build_coords_resolves_iff build_coords_unresolved_error build_coords_levels_are_depths "
        "build_coords_order_is_topological build_coords_independent_of_card_order build_coords_duplicates "
        "build_coords_dup_error_cid "
        "formrbe3_is_rbe3Grid_on_sorted_lists formrbe3_sorted_is_perm formrbe3_row_order formrbe3_group_order "
        "formrbe3_um_order formrbe3_weights_scale_invariant formrbe3_rigid_body_exact "
        "cyl_roundtrip_everywhere sph_roundtrip_everywhere cyl_axis_convention sph_axis_convention "
        "chain_consistent_point_everywhere rb_axis_convention rbgeom_uset_axis_angles_exact"
    ).split()
]
TRUSTED = [
    "correspondence harness harness/props/c14.py (numeric comparison 1e-9*scale; angles modulo 360 deg)",
    "libm sin/cos/atan2/sqrt, numpy matmul/cross/norm, scipy.linalg.lstsq/solve: modelled by Lean Float "
    "operations and a Gaussian elimination (`gaussTab`); agreement to 1e-9 is measured, not proved; the theorems "
    "about formrbe3 hold for every exact solver (`ExactSolve`)",
    "ℝ instance of TransOps: atan2 y x := Complex.arg (x + i y); theorems are over ℝ (the formrbe3 algebra over any "
    "field), not over doubles",
    "uset set/DOF bookkeeping (mksetpv, mkdofpv) is property C18's subject; in the rbe3 stream DOF are identified by "
    "their uset row (computed by the harness), in the rbe3w stream the model does the expansion (`expandDof`), the row "
    "look-up (`rowOf`) and the sorting (`sortByRow`) itself; mat_intersect / index2bool / flippv are modelled by "
    "`positions` / `umPlan`",
    "translator harness/translate/c14_coordconsts.py (Python ast; thresholds must be negative powers of ten)",
]
RULE = (
    "a case is one (world, operation): world = chain of 0..5 CORD2R/C/S systems (random reference structure, "
    "depth <= 5, all type mixes) + 2..8 uset entries (grids entered in any system with any output system, "
    "scalar points, q-set grids, per-DOF set strings), operation in cs/loc/get/rb/mv/rbc/rbe3/rbe3w/rep (rbe3w: the "
    "table also holds scalar points, q-set grids and grids that take no part; axis worlds: signed-permutation "
    "transforms, integer points, grids exactly on the polar axis / at the origin / at azimuths k*90 deg); or one set of "
    "cards for bc/mk (1..24 cards: random trees, chains 3..8 deep with decreasing / increasing / alternating ids, "
    "duplicates / missing / circular references, shuffled); non-trivial = "
    "the world has at least one cylindrical or spherical system or a chain of depth >= 2 involved in the "
    "operation (every rbe3, rbe3w, bc, mk case counts); distinct by the world's numbers and the operation's parameters"
)
ASSUMPTIONS = [
    "grids are kept away from the polar singularities (rho >= 0.1 in every cylindrical/spherical system they are "
    "expressed in) except in the axis worlds, where a grid is exactly on the axis (rho == 0 in exact arithmetic: "
    "signed-permutation transforms, integer points) or at least 1 away from it; A-B-C points are non-collinear (sin of "
    "the angle > 0.2)",
    "the independent DOF named by Ind_List are distinct and the m-set DOF named by UM_List are distinct (of equal "
    "rows numpy's unstable argsort decides which copy stays; the model keeps the first)",
    "formrbe3 cases have cond(rb' W rb) <= 1e6 (<= 1e4 with a UM_List, and the block formrbe3 inverts for the "
    "UM_List has cond <= 1e2); worse-conditioned ones are skipped and counted",
    "coordinate-system ids are positive (a card with id 0 would redefine the basic system; the real loop need not "
    "terminate then and the model answers `diverges`)",
]
PARTIAL = (
    "partial: the rbe3 theorems assume an exact linear solver and, for a UM_List, that the block the taken branch "
    "inverts is invertible; formrbe3_weights_scale_invariant / formrbe3_rigid_body_exact need positive weights and "
    "independent rows of full column rank; the packaging theorems (formrbe3_row_order, formrbe3_sorted_is_perm) need "
    "distinct independent DOF (duplicates are outside the modelled domain); build_coords theorems assume positive "
    "ids (a card with id 0 redefines the basic system: the model answers `diverges`) and say nothing about the order "
    "of the dictionary *within* one level (numpy's argsort is not stable above 16 cards; the correspondence compares "
    "the level order only); all geometry theorems are over the reals: at the polar axis the real atan2(0, 0) = 0 while "
    "the floating-point atan2 of two signed zeros answers 0 or +-180 depending on the signs (the same point; which sign "
    "a zero sum gets depends on the library's summation order, so these undefined angles are compared modulo 180 in "
    "the axis worlds, everything else there to 1e-12), "
    "and the exact values at azimuths k*90 deg are reproduced by the code to 1e-12 (measured), not bit for bit; "
    "round-off in general is measured by the correspondence, never proved"
)
MANIFEST = {
    "level_text": "Proof (Lean 4, Mathlib, standard axioms) about polymorphic models of n2p's coordinate and "
    "rigid-body geometry: the A-B-C construction gives an orthonormal right-handed triad for non-collinear points "
    "and every resolved chain has an orthogonal transform; cylindrical and spherical forward∘inverse maps are the "
    "identity off the polar axis and inverse∘forward in the principal range (the |sin φ| > |cos φ| choice always "
    "divides by a number of magnitude ≥ 1/√2; without the absolute values it divides by 0 at φ = 180°); a point "
    "entered in a system and queried back is itself; rbgeom_uset rows are R_gridᵀ·[I, −(p−ref)×; 0, I] with R_grid "
    "the unit tangent frame of the coordinate curves at the grid; rbmove is reference-point consistent; rbcoords "
    "recovers p − ref in every branch; replace_basic_cs preserves distances and relative orientations; formrbe3's "
    "matrix times the rigid-body rows of the independent DOF (relative to any point) is the rigid-body rows of the "
    "dependent DOF for positive weights and full column rank (which three non-collinear grids with their "
    "translations guarantee), for every exact solver, and for every admissible UM_List (m-set duplicate-free, inside the dependent and "
    "independent DOF, as large as the dependent set) the returned matrix — branch choice, re-partition and final "
    "row / column reordering together — maps the rigid-body rows of the remaining DOF to those of the m-set DOF "
    "(rbe3_um_any; the branch is determined by where the m-set DOF lie, as repaired by 959e8e9); build_coords "
    "does not depend on the order of the cards, refuses reference cycles / undefined references / unequal "
    "duplicates, and every entry of its dictionary is the A-B-C construction of its card relative to the entry of "
    "the card's reference; build_coords as a whole (id sort, duplicate handling, the level loop with ref_ids = the "
    "systems resolved in the last pass, argsort by level): it returns a dictionary iff equal-id cards are equal and "
    "every reference chain ends in 0 (positive ids), otherwise the named error (the 'Could not resolve' message "
    "carries the ids of the deepest level that did resolve); the level of a card is the length of its reference "
    "chain; every card is handed to mkusetcoordinfo after the card of its reference system for any ids and depth; "
    "the result depends only on the set of cards (equal duplicates) and, for every input including the refused ones, "
    "not on their order (an unequal duplicate is reported with the smallest id that two different cards share); "
    "formrbe3's list packaging (expanddof on "
    "Ind_List / UM_List / DOF_dep, look-up of uset rows, DOF outside the table dropped, sort into uset order, "
    "partition of the table): without UM_List the result is rbe3Grid on the strictly row-sorted permutation of the "
    "named independent DOF with rows in DOF_dep digit order; the result does not depend on the order in which "
    "Ind_List (groups, ids) and UM_List name the DOF; a common positive factor on all weights changes nothing; the "
    "returned matrix times the rbgeom_uset rows of the independent DOF (any reference point) is the rows of the "
    "dependent DOF; forward∘inverse of cylindrical / spherical coordinates is the identity at every point including "
    "the polar axis and the origin (getcoordinates reports azimuth 0 there, polar angle 0 | 180), so querying a point "
    "in a system and entering it again gives the same point everywhere; on the axis rbgeom_uset uses the frame of "
    "those reported angles; at azimuths of exactly 0 / 90 / 180 / 270 deg the rbgeom_uset rows are (Q·Tᵀ)·[I, "
    "−(p−ref)×; 0, I] with Q a signed permutation matrix. The thresholds (1e-8, 1e-12), the degree conversion and the "
    "component range are read from n2p.py by a translator on every run. The same definitions run at Float and are compared (numbers to 1e-9, ids / levels / "
    "errors / shapes exactly) with addgrid, getcoordinates, build_coords, mkusetcoordinfo, mkcordcardinfo, "
    "rbgeom_uset, rbgeom, rbmove, rbcoords, formrbe3 (all UM_List kinds; also from its raw arguments in every accepted "
    "Python form, with DOF outside the table, scalar points, wrong digits, wrong m-set size) and replace_basic_cs on "
    "random chains of all type mixes with scalar points and q-set grids, including azimuths exactly on the branch "
    "boundaries, grids exactly on the polar axis (1e-12) and card sets up to 24 with chains 8 deep.",
    "level_note": "Trusted: Lean kernel; propext, Classical.choice, Quot.sound; the Python harness; libm/LAPACK "
    "agreement with the Float model is measured. Exact solver / invertible UM block / full column rank / distinct "
    "DOF / positive ids are hypotheses. Floating-point behaviour at the polar axis (atan2 of signed zeros: the undefined azimuth is "
    "compared modulo 180) and the 1e-12 agreement with the exact quarter-turn values are measured by the axis worlds, "
    "not proved.",
    "technique": "Lean 4 proof over ℝ / any field of polymorphic executable models + numeric and exact differential "
    "correspondence at Float + ast translator for the constants",
}

TOL = 1e-9
TOL_AXIS = 1e-12


def translate(ctx):
    """the thresholds / unit constants of n2p.py the model depends on -> Generated/CoordConsts.lean"""
    import sys

    tdir = os.path.join(ctx.verif, "harness", "translate")
    if tdir not in sys.path:
        sys.path.insert(0, tdir)
    import c14_coordconsts as tr

    try:
        names, consts = tr.run(ctx.repo, ctx.lean)
    except tr.Unparsable as e:
        raise TieBroken("the constants of n2p.py no longer fit the translator's grammar: %s" % e)
    except (OSError, SyntaxError) as e:
        raise TieBroken("cannot read n2p.py: %s" % e)
    ctx.extra["generated_constants"] = {k: v for k, v in consts.items()}
    return names


# ---------------------------------------------------------------------------------------
# transport


def f2b(x):
    return str(struct.unpack("<Q", struct.pack("<d", float(x)))[0])


def b2f(s):
    return struct.unpack("<d", struct.pack("<Q", int(s)))[0]


def _fl(v):
    return " ".join(f2b(x) for x in v)


# ---------------------------------------------------------------------------------------
# independent numpy geometry (used for domain filtering and by the oracle; never the Lean model)


def _to_rect(typ, a):
    a = np.asarray(a, float)
    if typ == 1:
        return a.copy()
    d = math.pi / 180.0
    if typ == 2:
        return np.array([a[0] * math.cos(a[1] * d), a[0] * math.sin(a[1] * d), a[2]])
    st = math.sin(a[1] * d)
    return a[0] * np.array([st * math.cos(a[2] * d), st * math.sin(a[2] * d), math.cos(a[1] * d)])


def _ref_resolve(cs):
    """-> list of (typ, origin, T), entry 0 = basic"""
    infos = [(1, np.zeros(3), np.eye(3))]
    for s in cs:
        rt, ro, rT = infos[s["ref"]]
        a, b, c = (_to_rect(rt, s[k]) for k in "ABC")
        z = (b - a) / np.linalg.norm(b - a)
        y = np.cross(z, c - a)
        y /= np.linalg.norm(y)
        x = np.cross(y, z)
        infos.append((s["typ"], ro + rT @ a, rT @ np.column_stack([x, y, z])))
    return infos


def _local_frame(typ, origin, T, p):
    """R_grid: columns = unit tangent vectors of the coordinate curves at p, in basic."""
    if typ == 1:
        return T
    g = T.T @ (p - origin)
    rho = math.hypot(g[0], g[1])
    er = np.array([g[0] / rho, g[1] / rho, 0.0])
    ephi = np.array([-g[1] / rho, g[0] / rho, 0.0])
    ez = np.array([0.0, 0.0, 1.0])
    if typ == 2:
        E = np.column_stack([er, ephi, ez])
    else:
        R = np.linalg.norm(g)
        eR = g / R
        eth = (g[2] / R) * er - (rho / R) * ez
        E = np.column_stack([eR, eth, ephi])
    return T @ E


def _rigid6(d):
    m = np.eye(6)
    m[:3, 3:] = np.array([[0, d[2], -d[1]], [-d[2], 0, d[0]], [d[1], -d[0], 0]])
    return m


def _rho(typ, origin, T, p):
    g = T.T @ (np.asarray(p) - origin)
    return math.hypot(g[0], g[1])


# ---------------------------------------------------------------------------------------
# world generation

_SETS = ["b", "b", "b", "c", "r", "o", "s", "m"]


def _rnd(rng, lo, hi):
    if rng.random() < 0.12:
        return float(rng.randint(int(math.ceil(lo)), int(math.floor(hi))))
    return rng.uniform(lo, hi)


def _rand_point(rng, typ):
    if typ == 1:
        return [_rnd(rng, -20, 20) for _ in range(3)]
    if typ == 2:
        u = rng.random()
        th = rng.choice([0.0, 90.0, -90.0, 45.0, 180.0]) if u < 0.1 else \
            (rng.choice([-1, 1]) * rng.uniform(0.02, 0.3) if u < 0.16 else rng.uniform(-179, 179))
        return [_rnd(rng, 0.5, 20), th, _rnd(rng, -20, 20)]
    ph = rng.choice([0.0, 90.0, -90.0, 45.0, 135.0]) if rng.random() < 0.1 else rng.uniform(-179, 179)
    th = rng.choice([90.0, 45.0, 30.0]) if rng.random() < 0.1 else rng.uniform(5, 175)
    return [_rnd(rng, 0.5, 20), th, ph]


def _misaligned_abc(rng, A):
    ang = math.radians(rng.uniform(0.02, 0.3))
    ax = np.array([rng.gauss(0, 1) for _ in range(3)])
    ax /= np.linalg.norm(ax)
    Kx = np.array([[0, -ax[2], ax[1]], [ax[2], 0, -ax[0]], [-ax[1], ax[0], 0]])
    R = np.eye(3) + math.sin(ang) * Kx + (1 - math.cos(ang)) * Kx @ Kx
    L = rng.uniform(1.0, 10.0)
    return A, (np.array(A) + R @ np.array([0.0, 0.0, L])).tolist(), (np.array(A) + R @ np.array([L, 0.0, 0.0])).tolist()


def _gen_cs(rng, N):
    cs = []
    ids = rng.sample(range(1, 1000), N)
    for i in range(N):
        ref = i if (i > 0 and rng.random() < 0.6) else rng.randint(0, i)
        typ = rng.choice([1, 2, 3])
        reftyp = 1 if ref == 0 else cs[ref - 1]["typ"]
        while True:
            A, B, C = (_rand_point(rng, reftyp) for _ in range(3))
            if reftyp == 1 and rng.random() < 0.15:
                # an "as-built misalignment" system: rotated from its reference by a small, non-zero angle (0.02 .. 0.3
                # degrees) - its transform has a diagonal within 1e-5 of 1 and is NOT the identity
                A, B, C = _misaligned_abc(rng, A)
            a, b, c = (_to_rect(reftyp, P) for P in (A, B, C))
            ab, ac = b - a, c - a
            nab, nac = np.linalg.norm(ab), np.linalg.norm(ac)
            if nab > 0.5 and nac > 0.5 and np.linalg.norm(np.cross(ab, ac)) / (nab * nac) > 0.2:
                break
        cs.append({"id": ids[i], "typ": typ, "ref": ref, "A": A, "B": B, "C": C})
    return cs


def _depth(cs, k):
    d = 0
    while k:
        d += 1
        k = cs[k - 1]["ref"]
    return d


def _gen_world(rng, N=None, G=None, plain=False):
    """plain: only ordinary (non-q) grids, no scalar points (used for rbe3 worlds)."""
    N = rng.randint(0, 5) if N is None else N
    G = rng.randint(2, 8) if G is None else G
    cs = _gen_cs(rng, N)
    infos = _ref_resolve(cs)
    gids = rng.sample(range(1, 5000), G)
    entries = []
    ngrid = 0
    for j in range(G):
        last_chance = j == G - 1 and ngrid == 0
        if not plain and not last_chance and rng.random() < 0.15:
            entries.append({"kind": "sp", "id": gids[j], "nasset": rng.choice(["q", "b", "s"])})
            continue
        r = rng.random()
        if plain or last_chance or r < 0.7:
            nas = rng.choice(_SETS)
        elif r < 0.85:
            nas = "q"
        else:
            nas = "".join(rng.choice("bqcs") for _ in range(6))
        cin = rng.randint(0, N)
        cout = rng.randint(0, N)
        for _ in range(200):
            xyz = _rand_point(rng, infos[cin][0])
            p = infos[cin][1] + infos[cin][2] @ _to_rect(infos[cin][0], xyz)
            ct, co, cT = infos[cout]
            if ct == 1 or _rho(ct, co, cT, p) >= 0.5:
                break
        else:
            cout = 0
        entries.append({"kind": "grid", "id": gids[j], "nasset": nas, "cin": cin, "xyz": xyz, "cout": cout})
        if nas[0] != "q":
            ngrid += 1
    return {"cs": cs, "entries": entries}


def _isq(e):
    return e["nasset"][0] == "q"


def _world_line(w):
    parts = [str(len(w["cs"]))]
    for s in w["cs"]:
        parts += [str(s["ref"]), str(s["typ"]), _fl(s["A"]), _fl(s["B"]), _fl(s["C"])]
    parts.append(str(len(w["entries"])))
    for e in w["entries"]:
        if e["kind"] == "sp":
            parts.append("0")
        else:
            parts += ["1", "1" if _isq(e) else "0", str(e["cin"]), _fl(e["xyz"]), str(e["cout"])]
    return " ".join(parts)


def _nontrivial(w):
    return any(s["typ"] != 1 for s in w["cs"]) or any(_depth(w["cs"], k + 1) >= 2 for k in range(len(w["cs"])))


# ---------------------------------------------------------------------------------------
# building the uset table with the real code


def _card(s, cs):
    refid = 0 if s["ref"] == 0 else cs[s["ref"] - 1]["id"]
    return np.array([[s["id"], s["typ"], refid], s["A"], s["B"], s["C"]], dtype=float)


def _cid(cs, k):
    return 0 if k == 0 else cs[k - 1]["id"]


def _build(w, style, rng=None):
    """-> (uset, coordref).  style 0: build_coords on shuffled cards, then one addgrid call per run of
    grids with integer ids; style 1: mkusetcoordinfo card by card, addgrid one grid at a time with
    4x3 matrices where the system is not yet known to the table."""
    import pandas as pd
    from pyyeti.nastran import n2p

    cs = w["cs"]
    cards = [_card(s, cs) for s in cs]
    if style == 0:
        rows = [c.ravel() for c in cards]
        if rng is not None:
            rng.shuffle(rows)
            if rows and rng.random() < 0.3:
                rows.append(rows[0].copy())  # equal duplicates are quietly ignored
        try:
            coordref = _guard(lambda: n2p.build_coords(np.array(rows))) if rows else {}
        except _Hang:
            raise RuntimeError("build_coords was still running after the time limit")
    else:
        coordref = {}
        for c in cards:
            n2p.mkusetcoordinfo(c, None, coordref)
    uset = None
    ents = w["entries"]
    i = 0
    while i < len(ents):
        e = ents[i]
        if e["kind"] == "sp":
            sp = n2p.make_uset([[e["id"], 0]], e["nasset"], [[0.0, 0.0, 0.0]])
            uset = sp if uset is None else pd.concat([uset, sp], axis=0)
            i += 1
            continue
        j = i
        if style == 0:
            while j + 1 < len(ents) and ents[j + 1]["kind"] == "grid":
                j += 1
        run = ents[i : j + 1]
        if style == 0:
            if len(run) == 1:
                r = run[0]
                uset = n2p.addgrid(uset, r["id"], r["nasset"], _cid(cs, r["cin"]), r["xyz"],
                                   _cid(cs, r["cout"]), coordref)
            else:
                uset = n2p.addgrid(uset, [r["id"] for r in run], [r["nasset"] for r in run],
                                   [_cid(cs, r["cin"]) for r in run], [r["xyz"] for r in run],
                                   [_cid(cs, r["cout"]) for r in run], coordref)
        else:
            r = run[0]
            cin = cards[r["cin"] - 1] if r["cin"] else 0
            cout = cards[r["cout"] - 1] if r["cout"] else 0
            uset = n2p.addgrid(uset, r["id"], r["nasset"], cin, r["xyz"], cout, coordref)
        i = j + 1
    return uset, coordref


def _grid_entries(w):
    return [e for e in w["entries"] if e["kind"] == "grid"]


def _grows(uset):
    return uset.index.get_level_values("dof").values > 0


# ---------------------------------------------------------------------------------------
# comparison helpers


def _angdiff(a, b):
    return (a - b + 180.0) % 360.0 - 180.0


def _close(impl, model, scale, angle_cols=None):
    impl = np.asarray(impl, float)
    model = np.asarray(model, float)
    if impl.shape != model.shape:
        return False, "shape %s vs %s" % (impl.shape, model.shape)
    if not (np.all(np.isfinite(impl)) and np.all(np.isfinite(model))):
        return False, "non-finite"
    d = impl - model
    if angle_cols is not None:
        d = d.copy()
        d[..., angle_cols] = _angdiff(impl[..., angle_cols], model[..., angle_cols])
    err = float(np.max(np.abs(d))) if d.size else 0.0
    return err <= TOL * scale, err


def _scale(w):
    m = 1.0
    for s in w["cs"]:
        for k in "ABC":
            m = max(m, abs(s[k][0]), abs(s[k][2]) if s["typ"] != 3 else 0)
    for e in _grid_entries(w):
        m = max(m, abs(e["xyz"][0]))
    # chains add offsets: bound by the sum of radii
    return m * (1 + len(w["cs"]))


def _floats(rep):
    if rep == "bad-op":
        return None
    return np.array([b2f(t) for t in rep.split()], float)


# ---------------------------------------------------------------------------------------
# request planning: each plan item = (stream, world, request-line, impl thunk, post)


def _plan_world(ctx, rng, w, items):
    """append (stream, input-dict, line, impl-fn, shape, angle_cols, branch, skipmask-fn)"""
    from pyyeti.nastran import n2p

    cs = w["cs"]
    W = _world_line(w)
    infos = _ref_resolve(cs)
    gents = _grid_entries(w)
    style = rng.randint(0, 1)
    built = {}

    def uset_cr():
        if "u" not in built:
            try:
                built["u"] = _build(w, style, rng)
            except Exception as e:  # every operation on this world reports the same refusal
                built["u"] = e
        if isinstance(built["u"], Exception):
            raise built["u"]
        return built["u"]

    inp0 = {"world": w, "style": style}
    N = len(cs)

    # --- cs: build_coords / mkusetcoordinfo / mkcordcardinfo
    if N:
        def impl_cs():
            uset, cr = uset_cr()
            out = []
            for k, s in enumerate(cs, 1):
                ci = np.asarray(cr[s["id"]], float)
                if ci.shape != (5, 3) or ci[0, 0] != s["id"] or ci[0, 1] != s["typ"] or ci[0, 2] != 0:
                    return "bad coordinfo header %r" % (ci[0].tolist(),)
                # card: from the uset table when a grid has this output system, else from coordinfo itself
                if any(e["cout"] == k for e in gents):
                    name, card = n2p.mkcordcardinfo(uset, s["id"])
                    if name != ["CORD2R", "CORD2C", "CORD2S"][s["typ"] - 1] or list(card[0]) != [s["id"], s["typ"], 0]:
                        return "bad card header %r %r" % (name, card[0].tolist())
                    cardv = card[1:].ravel()
                else:
                    A = ci[1]
                    cardv = np.hstack([A, A + ci[2:, 2], A + ci[2:, 0]])
                out.append(np.hstack([ci[1], ci[2:].ravel(), cardv]))
            return np.array(out)

        items.append(("cs", dict(inp0, op="cs"), "cs " + W, impl_cs, (N, 21), None,
                      "cs:depth%d" % max(_depth(cs, k + 1) for k in range(N)), None))

    if not gents:
        return
    G = len(gents)

    # --- loc: uset rows
    def impl_loc():
        uset, cr = uset_cr()
        g = uset[_grows(uset)]
        x = g.loc[:, "x":"z"].values.reshape(-1, 6, 3)
        for e, blk in zip(gents, x):
            ct, co, cT = infos[e["cout"]]
            if blk[1, 0] != _cid(cs, e["cout"]) or blk[1, 1] != ct or blk[1, 2] != 0:
                return "bad uset header row %r" % (blk[1].tolist(),)
        ids = [e["id"] for e in gents]
        p2 = np.atleast_2d(n2p.getcoordinates(uset, ids, 0))
        if not np.array_equal(p2, x[:, 0]):
            return "getcoordinates(uset, ids, 0) differs from the uset rows"
        return x[:, 0]

    for e in gents:
        ctx.count("loc:cin-typ%d" % infos[e["cin"]][0])
    items.append(("loc", dict(inp0, op="loc"), "loc " + W, impl_loc, (G, 3), None, None, None))

    # --- get: coordinates of every grid in system k
    plocs = [infos[e["cin"]][1] + infos[e["cin"]][2] @ _to_rect(infos[e["cin"]][0], e["xyz"]) for e in gents]
    for k in range(1, N + 1):
        kt, ko, kT = infos[k]
        byxyz = rng.random() < 0.4
        form = rng.randint(0, 2)

        def impl_get(k=k, byxyz=byxyz, form=form):
            uset, cr = uset_cr()
            ids = [e["id"] for e in gents]
            if form == 0:
                csys, cr2 = cs[k - 1]["id"], cr
            elif form == 1:
                csys, cr2 = _card(cs[k - 1], cs), dict(cr)
            else:
                # look the system up in the uset table when a grid carries it, else through coordref
                csys = cs[k - 1]["id"]
                cr2 = None if any(e["cout"] == k for e in gents) else cr
            if byxyz:
                xyzb = uset[_grows(uset)].loc[:, "x":"z"].values[::6]
                return np.atleast_2d(n2p.getcoordinates(uset, xyzb, csys, cr2))
            if len(ids) == 1 and rng.random() < 0.5:
                return np.atleast_2d(n2p.getcoordinates(uset, ids[0], csys, cr2))
            return np.atleast_2d(n2p.getcoordinates(uset, ids, csys, cr2))

        def skip_get(kt=kt, ko=ko, kT=kT):
            if w.get("axis"):
                # exact geometry: a grid is either exactly on the axis (compared, angles included) or well off it
                return np.array([kt != 1 and 0.0 < _rho(kt, ko, kT, p) < 0.1 for p in plocs])
            return np.array([kt != 1 and _rho(kt, ko, kT, p) < 0.1 for p in plocs])

        if w.get("axis") and kt != 1:
            for e, p in zip(gents, plocs):
                if _rho(kt, ko, kT, p) == 0.0:
                    ctx.count("get:%s-exactly-on-axis" % ("cyl" if kt == 2 else "sph"))

            def undefined_angles(kt=kt, ko=ko, kT=kT):
                """(row, column) of the angles that have no meaning: the azimuth of a point exactly on the polar
                axis, and the polar angle too at the origin of a spherical system.  There the code takes atan2 of two
                zeros, whose answer (0 or +-180) depends on the signs of the zeros, i.e. on whether the library sums
                a dot product from +0 (BLAS) or from its first term (the model): compared modulo 180."""
                out = []
                for r, p in enumerate(plocs):
                    if _rho(kt, ko, kT, p) == 0.0:
                        out.append((r, 1 if kt == 2 else 2))
                        if kt == 3 and np.all(kT.T @ (p - ko) == 0.0):
                            out.append((r, 1))
                return out

            skip_get.undefined_angles = undefined_angles

        ang = None if kt == 1 else ([1] if kt == 2 else [1, 2])
        br = "get:typ%d" % kt
        if kt == 3:
            for p in plocs:
                g = kT.T @ (p - ko)
                phi = math.atan2(g[1], g[0])
                ctx.count("get:sph-theta-via-sin" if abs(math.sin(phi)) > abs(math.cos(phi)) else "get:sph-theta-via-cos")
                if math.hypot(g[0], g[1]) >= 0.1:
                    deg = phi * 180 / math.pi
                    if abs(abs(deg) - 180) < 1e-6:
                        ctx.count("get:sph-azimuth-180")
                    elif abs(deg + 90) < 1e-6:
                        ctx.count("get:sph-azimuth-minus-90")
                    elif abs(deg) < 1e-6 or abs(deg - 90) < 1e-6:
                        ctx.count("get:sph-azimuth-0-or-90")
                    elif abs(abs(deg) % 90 - 45) < 1e-6:
                        ctx.count("get:sph-azimuth-diagonal")
        items.append(("get", dict(inp0, op="get", k=k, byxyz=byxyz, form=form), "get %s %d" % (W, k),
                      impl_get, (G, 3), ang, br, skip_get))

    # --- rb / mv / rbc
    nonq = [i for i, e in enumerate(w["entries"]) if e["kind"] == "grid" and not _isq(e)]
    if not nonq:
        return
    for rep_ in range(2):
        if rng.random() < 0.5:
            ri = rng.choice(nonq)
            ref = ("g", ri)
            reftxt = "g %d" % ri
        else:
            v = [_rnd(rng, -20, 20) for _ in range(3)] if rng.random() < 0.8 else [0.0, 0.0, 0.0]
            ref = ("x", v)
            reftxt = "x " + _fl(v)

        def refarg(ref=ref):
            return w["entries"][ref[1]]["id"] if ref[0] == "g" else np.array(ref[1])

        def refloc(uset, ref=ref):
            if ref[0] == "x":
                return np.array(ref[1])
            return uset.loc[(w["entries"][ref[1]]["id"], 1), "x":"z"].values.astype(float)

        nrows = sum(1 if e["kind"] == "sp" else 6 for e in w["entries"])

        def impl_rb(refarg=refarg):
            uset, _ = uset_cr()
            return n2p.rbgeom_uset(uset, refarg())

        for e in gents:
            if not _isq(e):
                ctx.count("rb:cout-typ%d" % infos[e["cout"]][0])
            else:
                ctx.count("rb:qset-grid")
            if "ax" in e and e["ax"][0] != "free":
                ctx.count("rb:%s-%s" % ("cyl" if infos[e["cout"]][0] == 2 else "sph",
                                         e["ax"][0] if len(e["ax"]) == 1 else "quarter%d" % e["ax"][1]))
        if any(e["kind"] == "sp" for e in w["entries"]):
            ctx.count("rb:with-spoint")
        items.append(("rb", dict(inp0, op="rb", ref=list(ref)), "rb %s %s" % (W, reftxt), impl_rb,
                      (nrows, 6), None, "rb:ref-" + ref[0], None))

        new = [_rnd(rng, -20, 20) for _ in range(3)]

        def impl_mv(refarg=refarg, refloc=refloc, new=new):
            uset, _ = uset_cr()
            rb = n2p.rbgeom_uset(uset, refarg())
            return n2p.rbmove(rb, refloc(uset), np.array(new))

        items.append(("mv", dict(inp0, op="mv", ref=list(ref), new=new), "mv %s %s %s" % (W, reftxt, _fl(new)),
                      impl_mv, (nrows, 6), None, None, None))

        def impl_rbc(refarg=refarg):
            uset, _ = uset_cr()
            rb = n2p.rbgeom_uset(uset, refarg())
            c, maxdev, maxerr = n2p.rbcoords(rb[_grows(uset)], verbose=0)
            if not maxdev < 1e-6:
                return "rbcoords maxdev = %r" % (maxdev,)
            return c

        items.append(("rbc", dict(inp0, op="rbc", ref=list(ref)), "rbc %s %s" % (W, reftxt), impl_rbc,
                      (G, 3), None, None, None))

    # --- rbg: rbgeom on the basic locations = the model's rows for an all-basic table of the same grids
    w0 = {"cs": cs, "entries": [dict(e, cout=0, nasset="b") for e in gents]}
    gi = rng.randrange(G)
    byidx = rng.random() < 0.5
    v0 = [_rnd(rng, -20, 20) for _ in range(3)] if rng.random() < 0.7 else [0.0, 0.0, 0.0]

    def impl_rbg():
        uset, _ = uset_cr()
        P = uset[_grows(uset)].loc[:, "x":"z"].values[::6]
        return n2p.rbgeom(P, gi if byidx else np.array(v0))

    items.append(("rbg", {"world": w0, "style": style, "op": "rb", "ref": ["g", gi] if byidx else ["x", v0]},
                  "rb %s %s" % (_world_line(w0), "g %d" % gi if byidx else "x " + _fl(v0)), impl_rbg,
                  (6 * G, 6), None, "rbg:ref-index" if byidx else "rbg:ref-xyz", None))

    # --- rep: replace_basic_cs
    while True:
        A, B, C = (np.array(_rand_point(rng, 1)) for _ in range(3))
        ab, ac = B - A, C - A
        if np.linalg.norm(np.cross(ab, ac)) / (np.linalg.norm(ab) * np.linalg.norm(ac) + 1e-30) > 0.2:
            break
    newid = 1000 + rng.randint(0, 50)
    form4 = rng.random() < 0.5

    def impl_rep():
        uset, _ = uset_cr()
        if form4:
            un = n2p.replace_basic_cs(uset, np.vstack([[newid, 1, 0], A, B, C]))
        else:
            un = n2p.replace_basic_cs(uset, newid, np.vstack([A, B, C]))
        if not un.index.equals(uset.index) or not np.array_equal(un["nasset"].values, uset["nasset"].values):
            return "index or nasset changed"
        sp = ~_grows(uset)
        if sp.any() and not np.array_equal(un[sp].values, uset[sp].values):
            return "scalar-point rows changed"
        x0 = uset[_grows(uset)].loc[:, "x":"z"].values.reshape(-1, 6, 3)
        x1 = un[_grows(un)].loc[:, "x":"z"].values.reshape(-1, 6, 3)
        for a0, a1 in zip(x0, x1):
            want = [newid if a0[1, 0] == 0 else a0[1, 0], a0[1, 1], a0[1, 2]]
            if list(a1[1]) != want:
                return "header row %r, expected %r" % (a1[1].tolist(), want)
        return np.hstack([x1[:, 0], x1[:, 2], x1[:, 3:].reshape(-1, 9)])

    items.append(("rep", dict(inp0, op="rep", A=A.tolist(), B=B.tolist(), C=C.tolist(), newid=newid, form4=form4),
                  "rep %s %s %s %s" % (W, _fl(A), _fl(B), _fl(C)), impl_rep, (G, 15), None,
                  "rep:form4x3" if form4 else "rep:id+3x3", None))


def _dof_key(w, i, d):
    """uset row of component d (1..6) of entry i"""
    row = 0
    for e in w["entries"][:i]:
        row += 1 if e["kind"] == "sp" else 6
    return row + d - 1


def _nuset(w):
    return sum(1 if e["kind"] == "sp" else 6 for e in w["entries"])


def _rbe3_case(rng, w, idx=None):
    """choose dependent / independent DOF for a plain world (Ind_List order is not the uset order); -> dict"""
    ents = w["entries"]
    idx = list(range(len(ents))) if idx is None else list(idx)
    dep = rng.choice(idx)
    others = [i for i in idx if i != dep]
    rng.shuffle(others)
    nind = rng.randint(3, len(others))
    ind = others[:nind]
    groups = []  # (dofint, weight or None, [entry idx])
    k = rng.randint(1, 2)
    split = [ind] if k == 1 else [ind[: len(ind) // 2 + 1], ind[len(ind) // 2 + 1 :]]
    choices = [123, 123, 123456, 123456, 12346, 1235, 123, 312, 654321]
    for gi, grp in enumerate(split):
        if not grp:
            continue
        d = 123 if gi == 0 and rng.random() < 0.6 else rng.choice(choices)
        wt = None if rng.random() < 0.4 else round(rng.uniform(0.2, 5.0), 3)
        groups.append((d, wt, grp))
    dd = rng.choice([123456, 123456, 123456, 123, 456, 1246, 35, 2, 53, 6421])
    return {"dep": dep, "ddof": dd, "groups": groups}


def _digits(n):
    return [int(c) for c in str(n)]


def _rbe3_ref(w, case):
    """Independent numpy statement of formrbe3 (no UM_List) from the world's geometry: used to keep the cases
    inside the conditioning domain and by the oracle; never the Lean model."""
    ents = w["entries"]
    infos = _ref_resolve(w["cs"])
    locs = [infos[e["cin"]][1] + infos[e["cin"]][2] @ _to_rect(infos[e["cin"]][0], e["xyz"])
            if e["kind"] == "grid" else None for e in ents]
    pdep = locs[case["dep"]]
    indlist = []  # Ind_List order
    for d, wt, grp in case["groups"]:
        for i in grp:
            for c in _digits(d):
                indlist.append((i, c, 1.0 if wt is None else float(wt)))
    part = sorted({i for i, _, _ in indlist} | {case["dep"]})
    idof = sorted(indlist, key=lambda t: _dof_key(w, t[0], t[1]))
    Lc = sum(np.linalg.norm(locs[i] - pdep) for i in part) / (len(part) - 1)

    def block(i, ref):
        ct, co, cT = infos[ents[i]["cout"]]
        R = _local_frame(ct, co, cT, locs[i])
        return np.kron(np.eye(2), R.T) @ _rigid6(locs[i] - ref)

    rb = np.array([block(i, pdep)[c - 1] for i, c, _ in idof])
    wts = np.array([wt * Lc * Lc if (c > 3 and Lc > 1e-12) else wt for _, c, wt in idof])
    A = (rb.T * wts) @ rb
    cond = np.linalg.cond(A)
    ddof = [(case["dep"], c) for c in _digits(case["ddof"])]
    R0 = None
    if np.isfinite(cond) and cond <= 1e8:
        R0 = block(case["dep"], pdep)[[c - 1 for _, c in ddof]] @ np.linalg.solve(A, rb.T * wts)
    return {"part": part, "indlist": indlist, "idof": [(i, c) for i, c, _ in idof], "ddof": ddof,
            "cond": cond, "R0": R0, "locs": locs, "block": block}


UM_KINDS = ("indep", "dep", "mixed", "first-ind", "first-dep", "size")


def _um_list(rng, dofs):
    """[(entry, comp)] -> [(entry, dofint)] in a random UM_List order (digits of one grid in random order)"""
    per = {}
    for i, c in dofs:
        per.setdefault(i, []).append(c)
    out = []
    for i in per:
        ds = per[i][:]
        rng.shuffle(ds)
        out.append((i, int("".join(map(str, ds)))))
    rng.shuffle(out)
    return out


def _um_mdof(um):
    return [(i, c) for i, d in um for c in _digits(d)]


def _um_split(ref, mdof):
    """-> (dm, dn, im, inn): positions in ddof / idof of the m-set and the rest"""
    ms = set(mdof)
    dm = [k for k, t in enumerate(ref["ddof"]) if t in ms]
    dn = [k for k, t in enumerate(ref["ddof"]) if t not in ms]
    im = [k for k, t in enumerate(ref["idof"]) if t in ms]
    inn = [k for k, t in enumerate(ref["idof"]) if t not in ms]
    return dm, dn, im, inn


def _um_block_cond(ref, mdof):
    """condition number of the matrix formrbe3 has to invert for this m-set (1.0 if none)"""
    dm, dn, im, inn = _um_split(ref, mdof)
    if not im:
        return 1.0
    C = ref["R0"][np.ix_(dn, im)]
    if C.shape[0] != C.shape[1]:
        return float("inf")
    return float(np.linalg.cond(C))


def _add_um(rng, w, case, ref, kind, condmax=1e2):
    """attach a UM_List of the given kind to `case`; False if none with a well-conditioned block was found"""
    nd = len(ref["ddof"])
    ni = len(ref["idof"])
    for _ in range(40):
        if kind == "indep":
            if ni < nd:
                return False
            dofs = rng.sample(ref["idof"], nd)
        elif kind == "dep":
            dofs = list(ref["ddof"])
        elif kind == "mixed":
            if nd < 2 or ni < 2:
                return False
            r = rng.randint(1, nd - 1)
            drows = rng.sample(range(nd), r)
            icols = rng.sample(range(ni), nd - r) if ni >= nd - r else None
            if icols is None:
                continue
            dofs = [ref["ddof"][k] for k in drows] + [ref["idof"][k] for k in icols]
        elif kind == "first-ind":
            if nd < 2:
                return False
            dofs = [ref["idof"][0]] + rng.sample(ref["ddof"], nd - 1)
        elif kind == "first-dep":
            if ni < nd - 1:
                return False
            dofs = [ref["ddof"][0]] + rng.sample(ref["idof"], nd - 1)
        else:  # wrong size
            pool = ref["idof"] + ref["ddof"]
            n = nd + rng.choice([-1, 1])
            if n < 1 or n > len(pool):
                continue
            dofs = rng.sample(pool, n)
        if kind != "size" and not _um_block_cond(ref, dofs) <= condmax:
            continue
        case["um"] = {"kind": kind, "list": _um_list(rng, dofs)}
        return True
    return False


def _plan_rbe3(ctx, rng, w, items, kind=None):
    from pyyeti.nastran import n2p

    case = _rbe3_case(rng, w)
    ents = w["entries"]
    ref = _rbe3_ref(w, case)
    condmax = 1e6 if kind is None else 1e4
    if not ref["cond"] <= condmax:
        ctx.skip("rbe3: cond(rb'Wrb) > %g" % condmax)
        return
    if kind is not None and not _add_um(rng, w, case, ref, kind):
        ctx.skip("rbe3: no well-conditioned UM_List of kind %s" % kind)
        return
    part, indlist = ref["part"], ref["indlist"]
    ddig = _digits(case["ddof"])
    Ind_List = []
    for d, wt, grp in case["groups"]:
        Ind_List += [d if wt is None else [d, wt], [ents[i]["id"] for i in grp] if len(grp) > 1 or rng.random() < 0.5 else ents[grp[0]]["id"]]
    um = case.get("um")
    UM_List = None
    if um:
        UM_List = []
        for i, d in um["list"]:
            UM_List += [ents[i]["id"], d]
    style = rng.randint(0, 1)

    def impl():
        uset, _ = _build(w, style, rng)
        with warnings.catch_warnings():
            warnings.simplefilter("error", RuntimeWarning)
            try:
                return n2p.formrbe3(uset, ents[case["dep"]]["id"], case["ddof"], Ind_List, UM_List)
            except ValueError as e:
                return ("raise", "ValueError: %s" % str(e)[:80])

    line = "rbe3 %s %d %d %s %d %s %d %s %d %s" % (
        _world_line(w), case["dep"], len(ddig),
        " ".join("%d %d" % (c, _dof_key(w, case["dep"], c)) for c in ddig), len(part),
        " ".join(map(str, part)), len(indlist),
        " ".join("%d %d %d %s" % (_dof_key(w, i, c), i, c, f2b(wt)) for i, c, wt in indlist), _nuset(w),
        "0" if not um else "1 %d %s" % (len(_um_mdof(um["list"])),
                                        " ".join(str(_dof_key(w, i, c)) for i, c in _um_mdof(um["list"]))))
    rot = any(c > 3 for _, c, _ in indlist)
    branch = "rbe3:ind-%s" % ("with-rot" if rot else "trans-only") if not um else "rbe3:um-" + um["kind"]
    if sorted(indlist, key=lambda t: _dof_key(w, t[0], t[1])) != indlist:
        ctx.count("rbe3:ind-list-not-in-uset-order")
    if ddig != sorted(ddig):
        ctx.count("rbe3:dep-digits-not-ascending")
    items.append(("rbe3", {"world": w, "style": style, "op": "rbe3", "case": case}, line, impl,
                  None, None, branch, None))


def _cmp_rbe3(rep, got, inp):
    """reply `raise` | `r c bits…` against ndarray | ("raise", msg)"""
    if rep == "bad-op":
        raise Infra("C14 driver answered bad-op for an rbe3 request")
    if rep == "raise":
        if isinstance(got, tuple):
            return None
        return (np.asarray(got).tolist() if not isinstance(got, str) else got, "raise")
    t = rep.split()
    r, c = int(t[0]), int(t[1])
    model = np.array([b2f(x) for x in t[2:]], float).reshape(r, c)
    if isinstance(got, (tuple, str)):
        return (got if isinstance(got, str) else got[1], model.tolist())
    got = np.asarray(got, float)
    if got.shape != model.shape:
        return ("shape %s" % (got.shape,), "shape %s" % (model.shape,))
    sc = max(1.0, float(np.max(np.abs(model))) if model.size else 1.0) * 10
    ok, err = _close(got, model, sc)
    return None if ok else (got.tolist(), model.tolist())


W_KINDS = ("plain", "um-indep", "um-dep", "um-mixed", "um-first-ind", "um-first-dep", "um-size",
           "ind-not-in-table", "spoint-ind", "digit-gt-6", "dep-digit-0", "um-not-in-table", "single-grid")


def _with_bystanders(rng, w):
    """insert scalar points, q-set grids and ordinary grids that take no part in the element at random places of
    the table (they shift the uset rows and must be dropped by the partition); -> (world, participant indices)"""
    ents = [dict(e, part=True) for e in w["entries"]]
    used = {e["id"] for e in ents}
    N = len(w["cs"])
    for _ in range(rng.randint(1, 4)):
        while True:
            gid = rng.randint(1, 5000)
            if gid not in used:
                used.add(gid)
                break
        r = rng.random()
        if r < 0.4:
            e = {"kind": "sp", "id": gid, "nasset": rng.choice(["q", "b", "s"])}
        else:
            e = {"kind": "grid", "id": gid, "nasset": "q" if r < 0.6 else "b", "cin": 0,
                 "xyz": [_rnd(rng, -20, 20) for _ in range(3)], "cout": rng.randint(0, N) if r >= 0.6 else 0}
            if e["cout"]:
                infos = _ref_resolve(w["cs"])
                ct, co, cT = infos[e["cout"]]
                if ct != 1 and _rho(ct, co, cT, np.array(e["xyz"])) < 0.5:
                    e["cout"] = 0
        ents.insert(rng.randint(0, len(ents)), e)
    part = [i for i, e in enumerate(ents) if e.pop("part", False)]
    return {"cs": w["cs"], "entries": ents}, part


def _pyform_ind(rng, d, wt, ids):
    """one `DOF_Ind, GRIDS_Ind` pair in one of the accepted Python forms"""
    if wt is None:
        dof = rng.choice([d, [d], (d,), np.array([d])])
    else:
        dof = rng.choice([[d, wt], (d, wt), np.array([d, wt])])
    if len(ids) == 1 and rng.random() < 0.6:
        g = rng.choice([ids[0], np.int64(ids[0])])
    else:
        g = rng.choice([list(ids), tuple(ids), np.array(ids)])
    return dof, g


def _plan_rbe3w(ctx, rng, items, kind):
    """formrbe3 from its own arguments: the Lean model `formrbe3W` gets GRID_dep, DOF_dep, the Ind_List groups
    (component number, optional weight, ids) and the UM_List pairs as they are, plus the ids of the table rows;
    the harness does no DOF expansion, no row look-up and no sorting of its own for this stream."""
    from pyyeti.nastran import n2p

    w0 = _gen_world(rng, N=rng.randint(0, 3), G=rng.randint(4, 6), plain=True)
    w, part = _with_bystanders(rng, w0)
    ents = w["entries"]
    case = _rbe3_case(rng, w, part)
    if kind == "dep-digit-0":
        case["ddof"] = rng.choice([10, 120, 1203, 30, 406])
    if kind == "single-grid":
        # one independent grid with all six components (statically determinate; the call mk_net_drms makes for a
        # single boundary grid), optionally with a UM_List that swaps dependent and independent grid
        g0 = rng.choice([i for i in part if i != case["dep"]])
        case["groups"] = [(rng.choice([123456, 123456, 654321, 142536]), rng.choice([None, 2.5]), [g0])]
        case["ddof"] = rng.choice([123456, 123456, 135, 6, 246])
    ref = _rbe3_ref(w, case)
    um_kind = kind[3:] if kind.startswith("um-") and kind != "um-not-in-table" else None
    condmax = 1e6 if um_kind is None else 1e4
    if not ref["cond"] <= condmax:
        ctx.skip("rbe3w: cond(rb'Wrb) > %g" % condmax)
        return
    if um_kind is not None and not _add_um(rng, w, case, ref, um_kind):
        ctx.skip("rbe3w: no well-conditioned UM_List of kind %s" % um_kind)
        return
    if kind == "single-grid" and case["ddof"] == 123456 and rng.random() < 0.5:
        _add_um(rng, w, case, ref, "indep")
    groups = [(d, wt, [ents[i]["id"] for i in grp]) for d, wt, grp in case["groups"]]
    used = {e["id"] for e in ents}
    sp_ids = [e["id"] for e in ents if e["kind"] == "sp"]
    if kind == "ind-not-in-table":
        ghost = max(used) + rng.randint(1, 50)
        if rng.random() < 0.5:
            groups.append((rng.choice([123, 123456, 3]), None, [ghost]))
        else:
            j = rng.randrange(len(groups))
            ids = groups[j][2][:]
            ids.insert(rng.randint(0, len(ids)), ghost)
            groups[j] = (groups[j][0], groups[j][1], ids)
        if sp_ids and rng.random() < 0.5:
            groups.append((123, 2.0, [rng.choice(sp_ids)]))  # components 1-3 of a scalar point: no such rows
    elif kind == "spoint-ind":
        if not sp_ids:
            ctx.skip("rbe3w: no scalar point in the table")
            return
        groups.append((0, None, [rng.choice(sp_ids)]))  # dof 0 of a scalar point is a row of the table
    elif kind == "digit-gt-6":
        groups.append((rng.choice([127, 8, 1239, 70]), None, [groups[0][2][0]]))
    rng.shuffle(groups)
    um_pairs = None
    if case.get("um"):
        um_pairs = [(ents[i]["id"], d) for i, d in case["um"]["list"]]
    elif kind == "um-not-in-table":
        # as many m-set DOF as dependent DOF, one of them not a row of the table
        nd = len(ref["ddof"])
        dofs = list(ref["ddof"])[: nd - 1]
        um_pairs = [(ents[i]["id"], c) for i, c in dofs] + [(max(used) + 7, rng.randint(1, 6))]
        rng.shuffle(um_pairs)
    Ind_List = []
    for d, wt, ids in groups:
        Ind_List += list(_pyform_ind(rng, d, wt, ids))
    UM_List = None
    if um_pairs is not None:
        UM_List = [x for pr in um_pairs for x in pr]
        if rng.random() < 0.3:
            UM_List = np.array(UM_List)
    style = rng.randint(0, 1)

    def impl():
        uset, _ = _build(w, style, rng)
        with warnings.catch_warnings():
            warnings.simplefilter("ignore", RuntimeWarning)
            try:
                return n2p.formrbe3(uset, ents[case["dep"]]["id"], case["ddof"], Ind_List, UM_List)
            except (ValueError, IndexError, np.linalg.LinAlgError) as e:
                return ("raise", "%s: %s" % (type(e).__name__, str(e)[:80]))

    line = "rbe3w %s %s %d %d %d %s %s" % (
        _world_line(w), " ".join(str(e["id"]) for e in ents), ents[case["dep"]]["id"], case["ddof"], len(groups),
        " ".join("%d %d %s %d %s" % (d, 0 if wt is None else 1, f2b(1.0 if wt is None else wt), len(ids),
                                     " ".join(map(str, ids))) for d, wt, ids in groups),
        "0" if um_pairs is None else "1 %d %s" % (len(um_pairs), " ".join("%d %d" % pr for pr in um_pairs)))
    ctx.count("rbe3w:kind-" + kind)
    if any(e["kind"] == "sp" for e in ents):
        ctx.count("rbe3w:table-with-spoint")
    if any(e["kind"] == "grid" and _isq(e) for e in ents):
        ctx.count("rbe3w:table-with-qset-grid")
    if any(wt is not None for _, wt, _ in groups):
        ctx.count("rbe3w:weighted-group")
    if any(len(ids) == 1 for _, _, ids in groups):
        ctx.count("rbe3w:single-id-group")
    items.append(("rbe3w", {"world": w, "style": style, "op": "rbe3w", "case": case, "kind": kind,
                            "groups": [[d, wt, ids] for d, wt, ids in groups], "um_pairs": um_pairs},
                  line, impl, None, None, None, None))


class _Hang(BaseException):
    pass


_HANGS = [0]


def _guard(fn, secs=None):
    """run fn(); raise _Hang if it is still running after `secs` (a changed loop may not terminate); the limit
    shrinks after a few hangs so that a tree in which the loop never ends is still checked in bounded time"""
    import signal

    if secs is None:
        secs = 5.0 if _HANGS[0] < 3 else 0.25

    def handler(sig, frame):
        _HANGS[0] += 1
        raise _Hang()

    old = signal.signal(signal.SIGALRM, handler)
    signal.setitimer(signal.ITIMER_REAL, secs)
    try:
        return fn()
    finally:
        signal.setitimer(signal.ITIMER_REAL, 0)
        signal.signal(signal.SIGALRM, old)


def _gen_cards(rng):
    """-> (scenario, rows): rows = [cid, typ, refcid, A(3), B(3), C(3)] in the order given to build_coords"""
    scen = rng.choice(["valid"] * 4 + ["deep-decreasing", "deep-decreasing", "deep-increasing", "deep-zigzag", "large",
                                        "dup-equal", "dup-equal3", "dup-unequal", "dup-unequal2", "missing-ref",
                                        "missing-ref-deep", "self-ref", "cycle2", "cycle3", "empty", "single"])
    if scen == "empty":
        return scen, []
    if scen.startswith("deep-") or scen in ("large", "missing-ref-deep"):
        return scen, _gen_deep_cards(rng, scen)
    N = 1 if scen == "single" else rng.randint(2, 7)
    cs = _gen_cs(rng, N)
    rows = [[s["id"], s["typ"], _cid(cs, s["ref"])] + list(s["A"]) + list(s["B"]) + list(s["C"]) for s in cs]
    used = {r[0] for r in rows} | {0}

    def fresh():
        while True:
            k = rng.randint(1, 1200)
            if k not in used:
                used.add(k)
                return k

    def anycard(cid, ref):
        return [cid, rng.choice([1, 2, 3]), ref] + [float(rng.randint(-5, 5)) for _ in range(9)]

    if scen in ("dup-equal", "dup-equal3"):
        r = rng.choice(rows)
        rows.append(list(r))
        if scen == "dup-equal3":
            rows.append(list(r))
    elif scen in ("dup-unequal", "dup-unequal2"):
        for r in rng.sample(rows, min(len(rows), 1 if scen == "dup-unequal" else 2)):
            r2 = list(r)
            j = rng.choice([1, 2, 5, 11])
            r2[j] = (r2[j] % 3) + 1 if j == 1 else (fresh() if j == 2 else r2[j] + 1.0)
            rows.append(r2)
            if rng.random() < 0.3:
                rows.append(list(r))
    elif scen == "missing-ref":
        r = rng.choice(rows)
        r[2] = fresh()
    elif scen == "self-ref":
        k = fresh()
        rows.append(anycard(k, k))
    elif scen == "cycle2":
        k1, k2 = fresh(), fresh()
        rows += [anycard(k1, k2), anycard(k2, k1)]
        if rng.random() < 0.5:
            rows.append(anycard(fresh(), k1))  # a tail hanging off the cycle
    elif scen == "cycle3":
        k1, k2, k3 = fresh(), fresh(), fresh()
        rows += [anycard(k1, k2), anycard(k2, k3), anycard(k3, k1)]
    rng.shuffle(rows)
    return scen, [[float(v) for v in r] for r in rows]


def _gen_deep_cards(rng, scen):
    """one reference chain 3..8 deep (plus side branches) whose ids decrease / increase / alternate along the
    chain from the root outwards; `large`: 17..24 cards (numpy's argsort is no longer an insertion sort);
    `missing-ref-deep`: the chain hangs on an id nobody defines.  Rectangular systems only on the chain, so any
    axis-parallel A, B, C are valid whatever the reference."""
    depth = rng.randint(3, 8)
    n = depth + rng.randint(0, 3) if scen != "large" else rng.randint(17, 24)
    pool = sorted(rng.sample(range(1, 3000), n))
    if scen == "deep-decreasing":
        chain = pool[-depth:][::-1]          # root has the largest id, every child a smaller one
    elif scen == "deep-increasing":
        chain = pool[:depth]
    elif scen == "deep-zigzag":
        lo, hi = pool[:], []
        chain = []
        while len(chain) < depth:
            chain.append(lo.pop() if len(chain) % 2 == 0 else lo.pop(0))
    else:
        chain = rng.sample(pool, depth)
    rest = [x for x in pool if x not in chain]
    rows = []
    parent = {}
    for i, cid in enumerate(chain):
        parent[cid] = 0 if i == 0 else chain[i - 1]
    for cid in rest:
        parent[cid] = rng.choice([0] + chain + [x for x in rest if x in parent])
    if scen == "missing-ref-deep":
        parent[chain[0]] = 3000 + rng.randint(1, 50)
    for cid in chain + rest:
        A = [float(rng.randint(-9, 9)) for _ in range(3)]
        i, j = rng.sample(range(3), 2)
        B = A[:]
        B[i] += rng.choice([-3.0, -1.0, 1.0, 2.0])
        C = A[:]
        C[j] += rng.choice([-2.0, -1.0, 1.0, 4.0])
        typ = 1 if cid in chain[:-1] or any(parent[x] == cid for x in parent) else rng.choice([1, 2, 3])
        rows.append([cid, typ, parent[cid]] + A + B + C)
    rng.shuffle(rows)
    return [[float(v) for v in r] for r in rows]


def _cards_line(op, rows):
    return "%s %d %s" % (op, len(rows), " ".join(
        "%d %d %d %s" % (int(r[0]), int(r[2]), int(r[1]), _fl(r[3:])) for r in rows))


def _parse_dict(t):
    """tokens after `D`: n (cid typ o3 T9)×n -> [(cid, typ, 12 floats)]"""
    n = int(t[0])
    out = []
    for k in range(n):
        q = t[1 + 14 * k : 1 + 14 * (k + 1)]
        out.append((int(q[0]), int(q[1]), np.array([b2f(x) for x in q[2:]], float)))
    return out


def _dict_diff(cr, mdict, rows):
    """compare a coordref dictionary with the model's (numbers to TOL); None if equal"""
    keys = [int(k) for k in cr]
    mk = [c for c, _, _ in mdict]
    if sorted(set(keys) | {0}) != sorted(set(mk)):
        return ("keys %s" % keys, "keys %s" % mk)
    sc = 1.0 + max([abs(v) for r in rows for v in r[3:]] + [1.0]) * (1 + len(rows))
    for cid, typ, v in mdict:
        if cid == 0 and 0 not in keys:
            continue
        ci = np.asarray(cr[cid], float)
        if ci.shape != (5, 3) or list(ci[0]) != [cid, typ, 0]:
            return ("coordinfo of %d: header %s" % (cid, ci[0].tolist()), [cid, typ, 0])
        ok, err = _close(ci[1:].ravel(), v, sc)
        if not ok:
            return ("coordinfo of %d: %s" % (cid, ci[1:].ravel().tolist()), v.tolist())
    return None


def _plan_bc(ctx, rng, items):
    import re

    from pyyeti.nastran import n2p

    scen, rows = _gen_cards(rng)

    def impl():
        arr = np.array(rows, float) if rows else np.zeros((0, 12))
        try:
            return _guard(lambda: n2p.build_coords(arr))
        except _Hang:
            return ("err", "does-not-terminate", [])
        except RuntimeError as e:
            msg = str(e)
            if "duplicate but unequal" in msg:
                return ("err", "dup", [int(float(msg.split("cid =")[1]))])
            if "Could not resolve" in msg:
                return ("err", "unresolved", [int(float(x)) for x in re.findall(r"-?\d+\.?\d*", msg.split("cards:")[1])])
            return ("err", "other", msg[:100])

    def cmp(rep, got, inp):
        t = rep.split()
        if t[0] == "bad-op":
            raise Infra("C14 driver answered bad-op for a bc request")
        if t[0] == "err":
            model = ("err", t[1], [int(x) for x in (t[3:] if t[1] == "unresolved" else t[2:3])])
            ctx.count("bc:err-" + t[1])
            if isinstance(got, str):
                return (got, model)
            if not isinstance(got, tuple) or (got[0], got[1], list(got[2])) != model:
                return (got if isinstance(got, tuple) else "dictionary with keys %s" % [int(k) for k in got], model)
            return None
        L = int(t[2])
        lev = {int(t[3 + 2 * k]): int(t[4 + 2 * k]) for k in range(L)}
        d = t[3 + 2 * L :]
        if d[0] != "D":
            raise Infra("C14 driver: malformed bc reply")
        mdict = _parse_dict(d[1:])
        if lev and max(lev.values()) > 1:
            ctx.count("bc:levels>=2")
        if lev and max(lev.values()) >= 4:
            ctx.count("bc:levels>=4")
        if isinstance(got, (tuple, str)):
            return (got, rep[:80])
        if not rows:
            return None if len(got) == 0 and not mdict else ("keys %s" % list(got), "empty")
        keys = [int(k) for k in got]
        if keys[:1] != [0]:
            return ("first key %s" % keys[:1], "0 (basic) first")
        # reference order: the dictionary is filled level by level
        lv = [lev.get(k) for k in keys[1:]]
        if None in lv or lv != sorted(lv):
            return ("key order %s" % keys, "levels %s" % lev)
        return _dict_diff(got, mdict, rows)

    ctx.count("bc:scen-" + scen)
    items.append(("bc", {"op": "bc", "scenario": scen, "rows": rows}, _cards_line("bc", rows), impl, cmp, None, None, None))


def _plan_mk(ctx, rng, items):
    from pyyeti.nastran import n2p

    N = rng.randint(1, 6)
    cs = _gen_cs(rng, N)
    rows = [[s["id"], s["typ"], _cid(cs, s["ref"])] + list(s["A"]) + list(s["B"]) + list(s["C"]) for s in cs]
    mode = rng.choice(["in-order", "shuffled", "redefine", "unknown-ref"])
    if mode == "shuffled":
        rng.shuffle(rows)
    elif mode == "redefine":
        r = list(rng.choice(rows))
        r[1] = r[1] % 3 + 1
        r[5] += 2.0
        rows.insert(rng.randint(0, len(rows)), r)  # the first definition of an id wins
    elif mode == "unknown-ref":
        rng.choice(rows)[2] = 4000 + rng.randint(0, 9)
        rng.shuffle(rows)
    rows = [[float(v) for v in r] for r in rows]

    def impl():
        cr = {}
        st = "S"
        for r in rows:
            card = np.array(r).reshape(4, 3)
            known = any(int(k) == int(r[0]) for k in cr)
            before = len([k for k in cr if int(k) != 0])
            try:
                ci = n2p.mkusetcoordinfo(card, None, cr)
            except ValueError:
                st += "e"
                continue
            if not np.array_equal(ci, cr[int(r[0])]):
                return "returned value is not the stored one for id %d" % int(r[0])
            after = len([k for k in cr if int(k) != 0])
            st += "k" if known else "n"
            if (after != before) == known:
                return "dictionary size %d -> %d for id %d (known=%s)" % (before, after, int(r[0]), known)
        return (st, cr)

    def cmp(rep, got, inp):
        t = rep.split()
        if t[0] == "bad-op" or len(t) < 2 or t[1] != "D":
            raise Infra("C14 driver: malformed mk reply %r" % rep[:60])
        for ch in t[0][1:]:
            ctx.count("mk:status-" + ch)
        if isinstance(got, str):
            return (got, t[0])
        st, cr = got
        if st != t[0]:
            return (st, t[0])
        return _dict_diff({int(k): v for k, v in cr.items()}, _parse_dict(t[2:]), rows)

    ctx.count("mk:mode-" + mode)
    items.append(("mk", {"op": "mk", "mode": mode, "rows": rows}, _cards_line("mk", rows), impl, cmp, None, None, None))


def _perm_frame(rng):
    """integer points A, B, C (relative to A) whose A-B-C triad is a signed permutation matrix: B - A along one
    axis, C - A along another -> (dB, dC)"""
    i, j = rng.sample(range(3), 2)
    dB = [0, 0, 0]
    dC = [0, 0, 0]
    dB[i] = rng.choice([-3, -1, 1, 2])
    dC[j] = rng.choice([-2, -1, 1, 4])
    return dB, dC


def _axis_world(rng, i=None):
    """exact geometry at the singular places: systems whose transform is a signed permutation matrix and whose
    origin is an integer point (one rectangular system optionally in between), grids exactly on the polar axis of
    a cylindrical / spherical system (entered in that system, or in basic at the integer point) and grids at
    azimuths of exactly 0 / 90 / 180 / 270 degrees.  Every entry is tagged `ax`:
    ["axis"] | ["origin"] | ["quarter", k] | ["quarter-in", k] | ["free"]."""
    cs = []
    ids = rng.sample(range(1, 1000), 3)
    if rng.random() < 0.5:
        A = [rng.randint(-9, 9) for _ in range(3)]
        dB, dC = _perm_frame(rng)
        cs.append({"id": ids[0], "typ": 1, "ref": 0, "A": A, "B": [a + d for a, d in zip(A, dB)],
                   "C": [a + d for a, d in zip(A, dC)]})
    for typ in (rng.sample([2, 3], rng.randint(1, 2)) if i is None else rng.sample([2, 3], 2)):
        ref = len(cs) if cs and cs[-1]["typ"] == 1 and rng.random() < 0.6 else 0
        if ref and cs[ref - 1]["typ"] != 1:
            ref = 0
        A = [rng.randint(-9, 9) for _ in range(3)]
        dB, dC = _perm_frame(rng)
        cs.append({"id": ids[len(cs)], "typ": typ, "ref": ref, "A": A, "B": [a + d for a, d in zip(A, dB)],
                   "C": [a + d for a, d in zip(A, dC)]})
    cs = [dict(c, A=[float(v) for v in c["A"]], B=[float(v) for v in c["B"]], C=[float(v) for v in c["C"]]) for c in cs]
    infos = _ref_resolve(cs)
    polar = [k for k in range(1, len(cs) + 1) if cs[k - 1]["typ"] != 1]
    gids = rng.sample(range(1, 5000), 9)
    entries = []
    kinds = ["axis-in", "axis-basic", "quarter-basic", "quarter-in", "axis-basic", "quarter-basic", "origin", "free"]
    if i is None:
        rng.shuffle(kinds)
        kinds = kinds[: rng.randint(5, 8)]
    for j, kind in enumerate(kinds):
        # with a world number every (system type, kind, quarter) combination comes round deterministically
        k = rng.choice(polar) if i is None else polar[(i + j + j // 4) % 2]
        typ, o, T = infos[k]
        Ti = np.rint(T)
        r = float(rng.randint(1, 12))
        z = float(rng.choice([-7, -2, 3, 5, 11]))
        q = rng.randrange(4) if i is None else (i // 2 + j) % 4
        cq, sq = [(1, 0), (0, 1), (-1, 0), (0, -1)][q]
        e = {"kind": "grid", "id": gids[j], "nasset": "b", "cout": k}
        if kind == "axis-in":
            e.update(cin=k, ax=["axis"],
                     xyz=[0.0, rng.choice([0.0, 37.5, 90.0, 180.0, -120.0]), z] if typ == 2
                     else [abs(z), 0.0, rng.choice([0.0, 45.0, 90.0, -135.0, 180.0])])
        elif kind == "axis-basic":
            e.update(cin=0, ax=["axis"], xyz=(o + Ti @ np.array([0.0, 0.0, z])).tolist())
        elif kind == "origin":
            e.update(cin=0, ax=["origin"], xyz=o.tolist())
        elif kind == "quarter-basic":
            zz = z if typ == 2 else 0.0
            e.update(cin=0, ax=["quarter", q], xyz=(o + Ti @ np.array([r * cq, r * sq, zz])).tolist())
        elif kind == "quarter-in":
            ang = [0.0, 90.0, 180.0, rng.choice([270.0, -90.0])][q]
            e.update(cin=k, ax=["quarter-in", q], xyz=[r, ang, z] if typ == 2 else [r, 90.0, ang])
        else:
            e.update(cin=0, ax=["free"], cout=rng.randint(0, len(cs)),
                     xyz=[float(rng.randint(-9, 9)) + 0.5 for _ in range(3)])
            ct, co, cT = infos[e["cout"]]
            if ct != 1 and _rho(ct, co, cT, np.array(e["xyz"])) < 0.5:
                e["cout"] = 0
        entries.append(e)
    return {"cs": cs, "entries": entries, "axis": True}


def _boundary_world(rng):
    """a spherical (and a cylindrical) system in a rotated frame with grids entered at azimuths exactly on the
    branch boundaries of getcoordinates: after the rotation to basic and back the small component is round-off"""
    cs = _gen_cs(rng, rng.randint(1, 3))
    cs[-1]["typ"] = 3
    if len(cs) > 1:
        cs[0]["typ"] = rng.choice([2, 3])
        # the points of the later cards were drawn for the old type of their reference: redraw
        cs = cs[:1] + _regen_after(rng, cs)
    infos = _ref_resolve(cs)
    entries = []
    gids = rng.sample(range(1, 5000), 8)
    az = [0.0, 90.0, -90.0, 180.0, 270.0, 45.0, 135.0, -135.0, -45.0, 360.0]
    rng.shuffle(az)
    for j in range(6):
        k = len(cs) if j < 4 else rng.randint(1, len(cs))
        typ = cs[k - 1]["typ"]
        r = _rnd(rng, 1, 20)
        if typ == 3:
            xyz = [r, rng.choice([90.0, 45.0, 30.0, 150.0, rng.uniform(20, 160)]), az[j]]
        elif typ == 2:
            xyz = [r, az[j], _rnd(rng, -20, 20)]
        else:
            xyz = [_rnd(rng, -20, 20) for _ in range(3)]
        entries.append({"kind": "grid", "id": gids[j], "nasset": "b", "cin": k, "xyz": xyz, "cout": k})
    return {"cs": cs, "entries": entries}


def _regen_after(rng, cs):
    """redraw the A, B, C points of cards 2.. so that they fit the (changed) type of their reference"""
    out = []
    for i in range(1, len(cs)):
        s = dict(cs[i])
        reftyp = 1 if s["ref"] == 0 else (cs[:1] + out)[s["ref"] - 1]["typ"]
        while True:
            A, B, C = (_rand_point(rng, reftyp) for _ in range(3))
            if reftyp == 1 and rng.random() < 0.15:
                # an "as-built misalignment" system: rotated from its reference by a small, non-zero angle (0.02 .. 0.3
                # degrees) - its transform has a diagonal within 1e-5 of 1 and is NOT the identity
                A, B, C = _misaligned_abc(rng, A)
            a, b, c = (_to_rect(reftyp, P) for P in (A, B, C))
            ab, ac = b - a, c - a
            nab, nac = np.linalg.norm(ab), np.linalg.norm(ac)
            if nab > 0.5 and nac > 0.5 and np.linalg.norm(np.cross(ab, ac)) / (nab * nac) > 0.2:
                break
        s.update(A=A, B=B, C=C)
        out.append(s)
    return out


def _corpus(ctx):
    path = os.path.join(ctx.verif, "corpus", "c14.json")
    if os.path.exists(path):
        return json.load(open(path))
    return []


def _fixed_worlds():
    """hand-picked boundary worlds: the docstring examples and exact right angles."""
    cyl = {"id": 1, "typ": 2, "ref": 0, "A": [0, 0, 0], "B": [1, 0, 0], "C": [0, 1, 0]}
    sph = {"id": 2, "typ": 3, "ref": 0, "A": [0, 0, 0], "B": [0, 1, 0], "C": [0, 0, 1]}
    w1 = {"cs": [cyl, sph], "entries": [
        {"kind": "grid", "id": 100, "nasset": "b", "cin": 0, "xyz": [5, 10, 15], "cout": 0},
        {"kind": "grid", "id": 200, "nasset": "b", "cin": 1, "xyz": [32, 90, 10], "cout": 1},
        {"kind": "grid", "id": 300, "nasset": "b", "cin": 2, "xyz": [50, 45, 90], "cout": 2}]}
    c501 = {"id": 501, "typ": 1, "ref": 0, "A": [1234.567, 0, 0], "B": [1234.567, 10, 0], "C": [2000, 0, 0]}
    c601 = {"id": 601, "typ": 2, "ref": 1, "A": [10, 20, 30], "B": [100, 20, 30], "C": [10, 1, 1]}
    c701 = {"id": 701, "typ": 3, "ref": 2, "A": [35, 15, -10], "B": [55, 15, -10], "C": [45, 30, 1]}
    w2 = {"cs": [c501, c601, c701], "entries": [
        {"kind": "grid", "id": 1001, "nasset": "b", "cin": 1, "xyz": [0, 0, 0], "cout": 1},
        {"kind": "sp", "id": 5, "nasset": "q"},
        {"kind": "grid", "id": 1002, "nasset": "b", "cin": 2, "xyz": [2, 90, 5], "cout": 2},
        {"kind": "grid", "id": 1003, "nasset": "q", "cin": 3, "xyz": [12, 40, 45], "cout": 3},
        {"kind": "grid", "id": 1004, "nasset": "bbqbbb", "cin": 3, "xyz": [12, 40, 45], "cout": 3}]}
    return [w1, w2]


def _floatify(w):
    for s in w["cs"]:
        for k in "ABC":
            s[k] = [float(v) for v in s[k]]
    for e in w["entries"]:
        if e["kind"] == "grid":
            e["xyz"] = [float(v) for v in e["xyz"]]
    return w


def correspondence(ctx):
    rng = ctx.rng
    items = []
    worlds = [_floatify(w) for w in _corpus(ctx)] + [_floatify(w) for w in _fixed_worlds()]
    nw = ctx.pick(200, 2400)
    for i in range(nw):
        if i % 5 == 4:
            worlds.append(_gen_world(rng, N=5))  # deep chains
        else:
            worlds.append(_gen_world(rng))
    for i in range(ctx.pick(30, 300)):
        worlds.append(_floatify(_boundary_world(rng)))
    for i in range(ctx.pick(24, 240)):
        worlds.append(_floatify(_axis_world(rng, i)))
    for w in worlds:
        _plan_world(ctx, rng, w, items)
    for i in range(ctx.pick(90, 1000)):
        w = _gen_world(rng, N=rng.randint(0, 4), G=rng.randint(4, 7), plain=True)
        _plan_rbe3(ctx, rng, w, items)
    for i in range(ctx.pick(150, 1500)):
        w = _gen_world(rng, N=rng.randint(0, 4), G=rng.randint(4, 7), plain=True)
        _plan_rbe3(ctx, rng, w, items, kind=UM_KINDS[i % len(UM_KINDS)])
    for kind in W_KINDS:
        # a fixed number of cases per kind (cases outside the conditioning domain are skipped, counted and redrawn)
        want, tries = ctx.pick(11, 110), 0
        while want > 0 and tries < 40 * ctx.pick(11, 110):
            n0 = len(items)
            _plan_rbe3w(ctx, rng, items, kind)
            want -= len(items) - n0
            tries += 1
    for i in range(ctx.pick(250, 2500)):
        _plan_bc(ctx, rng, items)
    for i in range(ctx.pick(120, 1200)):
        _plan_mk(ctx, rng, items)

    drv = ctx.driver("C14")
    reps = drv.ask([it[2] for it in items])
    with warnings.catch_warnings():
        warnings.simplefilter("ignore", FutureWarning)
        for it, rep in zip(items, reps):
            stream, inp, line, impl, shape, ang, branch, skipf = it
            key = (stream, line)
            if callable(shape) or shape is None:
                # custom comparison (rbe3: shape / exception; bc, mk: exact bookkeeping + numbers)
                try:
                    got = impl()
                except Exception as e:
                    got = "exception %s: %s" % (type(e).__name__, e)
                w = inp.get("world")
                ctx.case(key, nontrivial=True if w is None else (_nontrivial(w) or stream in ("rbe3", "rbe3w")),
                         branch=branch)
                ctx.count("stream:" + stream)
                bad = (_cmp_rbe3 if shape is None else shape)(rep, got, inp)
                if bad is not None:
                    ctx.disagree(stream, inp, bad[0], bad[1])
                elif stream in ("rbe3", "rbe3w") and ctx.hist.get("sampled:" + stream) is None and not isinstance(got, tuple):
                    ctx.count("sampled:" + stream)
                    ctx.sample({"stream": stream, "request_head": line[:80],
                                "impl_head": np.asarray(got).ravel()[:6].tolist()})
                continue
            w = inp["world"]
            model = _floats(rep)
            if model is None or model.size != shape[0] * shape[1]:
                raise Infra("C14 driver answered %r for a %s request" % (rep[:60], stream))
            model = model.reshape(shape)
            try:
                got = impl()
            except Exception as e:  # the real code refused a valid input
                got = "exception %s: %s" % (type(e).__name__, e)
            ctx.case(key, nontrivial=_nontrivial(w), branch=branch)
            ctx.count("stream:" + stream)
            if isinstance(got, str):
                ctx.disagree(stream, inp, got, model.tolist())
                continue
            got = np.asarray(got, float)
            if got.shape != tuple(shape):
                ctx.disagree(stream, inp, "shape %s" % (got.shape,), model.tolist())
                continue
            if skipf is not None:
                sk = skipf()
                if sk.any():
                    ctx.skip("get: grid within 0.1 of the polar axis of the query system", int(sk.sum()))
                    got = got[~sk]
                    model = model[~sk]
            sc = _scale(w)
            if skipf is not None and hasattr(skipf, "undefined_angles"):
                keep = np.nonzero(~skipf())[0].tolist()
                for r, c in skipf.undefined_angles():
                    if r in keep:
                        rr = keep.index(r)
                        got[rr, c] = min(got[rr, c] % 180.0, 180.0 - got[rr, c] % 180.0)
                        model[rr, c] = min(model[rr, c] % 180.0, 180.0 - model[rr, c] % 180.0)
                        ctx.count("get:undefined-angle-compared-mod-180")
            if w.get("axis"):
                sc *= TOL_AXIS / TOL  # exact geometry (signed-permutation transforms, integer points): 1e-12
            ok, err = _close(got, model, sc, ang)
            if not ok:
                ctx.disagree(stream, inp, got.tolist(), model.tolist())
            elif len(ctx.samples) < 6 and stream in ("get", "rb", "rep", "cs", "mv") and ctx.hist.get("sampled:" + stream) is None:
                ctx.count("sampled:" + stream)
                ctx.sample({"stream": stream, "request_head": line[:80], "impl_head": got.ravel()[:6].tolist(),
                            "max_abs_diff": err})
    for k in [k for k in ctx.hist if k.startswith("sampled:")]:
        del ctx.hist[k]
    ctx.require_branches(
        ["stream:" + s for s in ("cs", "loc", "get", "rb", "rbg", "mv", "rbc", "rbe3", "rbe3w", "rep", "bc", "mk")]
        + ["rbe3w:kind-" + k for k in W_KINDS]
        + ["rbe3w:table-with-spoint", "rbe3w:table-with-qset-grid", "rbe3w:weighted-group", "rbe3w:single-id-group",
           "get:cyl-exactly-on-axis", "get:sph-exactly-on-axis", "rb:cyl-axis", "rb:sph-axis", "rb:cyl-origin",
           "rb:sph-origin"]
        + ["rb:%s-quarter%d" % (t, k) for t in ("cyl", "sph") for k in range(4)]
        + ["bc:scen-deep-decreasing", "bc:scen-deep-increasing", "bc:scen-deep-zigzag", "bc:scen-large",
           "bc:scen-missing-ref-deep", "bc:scen-dup-unequal", "bc:scen-cycle3"]
        + ["get:typ1", "get:typ2", "get:typ3", "get:sph-theta-via-sin", "get:sph-theta-via-cos",
           "get:sph-azimuth-180", "get:sph-azimuth-minus-90", "get:sph-azimuth-0-or-90", "get:sph-azimuth-diagonal",
           "rb:cout-typ1", "rb:cout-typ2", "rb:cout-typ3", "rb:qset-grid", "rb:with-spoint", "rb:ref-g", "rb:ref-x",
           "rbe3:ind-with-rot", "rbe3:ind-trans-only", "rbe3:ind-list-not-in-uset-order",
           "rbe3:dep-digits-not-ascending"]
        + ["rbe3:um-" + k for k in UM_KINDS]
        + ["rep:form4x3", "rep:id+3x3", "cs:depth5", "loc:cin-typ1", "loc:cin-typ2", "loc:cin-typ3",
           "bc:err-dup", "bc:err-unresolved", "bc:levels>=2", "bc:levels>=4",
           "bc:scen-valid", "bc:scen-dup-equal", "bc:scen-cycle2", "bc:scen-self-ref", "bc:scen-missing-ref",
           "bc:scen-empty", "mk:status-n", "mk:status-k", "mk:status-e"]
    )


# ---------------------------------------------------------------------------------------
# model-free oracle


def _exact_rows(typ, x, refl, ax):
    """exact rows of rbgeom_uset for a grid of an axis world, in rational arithmetic: x = the grid's six uset
    rows (location; id/type; origin; T, a signed permutation matrix), refl = reference point"""
    from fractions import Fraction as F

    T = [[F(int(round(v))) for v in row] for row in x[3:]]
    g = [sum(T[r][c] * (F(float(x[0][r])) - F(float(x[2][r]))) for r in range(3)) for c in range(3)]  # Tt (p - o)
    d = [F(float(x[0][i])) - F(float(refl[i])) for i in range(3)]
    if ax[0] in ("quarter", "quarter-in"):
        c, sn = [(1, 0), (0, 1), (-1, 0), (0, -1)][ax[1]]
        Q = [[c, sn, 0], [-sn, c, 0], [0, 0, 1]] if typ == 2 else [[c, sn, 0], [0, 0, -1], [-sn, c, 0]]
    elif typ == 2:
        Q = [[1, 0, 0], [0, 1, 0], [0, 0, 1]]
    else:
        # on the polar axis: theta = atan2(0, z) = 0 | 180 -> [[s, 0, c], [c, 0, -s], [0, 1, 0]] with s = 0, c = +-1
        c = -1 if g[2] < 0 else 1
        Q = [[0, 0, c], [c, 0, 0], [0, 1, 0]]
    QT = [[sum(F(Q[i][k]) * T[j][k] for k in range(3)) for j in range(3)] for i in range(3)]  # Q Tt
    S = [[F(0), d[2], -d[1]], [-d[2], F(0), d[0]], [d[1], -d[0], F(0)]]
    top = [QT[i] + [sum(QT[i][k] * S[k][j] for k in range(3)) for j in range(3)] for i in range(3)]
    bot = [[F(0)] * 3 + QT[i] for i in range(3)]
    return np.array([[float(v) for v in row] for row in top + bot])


def _tname(t):
    return {1: "rect", 2: "cyl", 3: "sph"}[int(t)]


def _coords_close(a, b, typ, tol):
    a = np.asarray(a, float)
    b = np.asarray(b, float)
    d = a - b
    if typ == 2:
        d[1] = _angdiff(a[1], b[1])
    elif typ == 3:
        d[1] = _angdiff(a[1], b[1])
        d[2] = _angdiff(a[2], b[2])
    return float(np.max(np.abs(d))) <= tol


def _oracle_world(ctx, w, style=0, rbe3_case=None, rep=None, seed=0):
    """Every clause of the property on the public API.  Failures are reported with ctx.fail."""
    import random

    from pyyeti.nastran import n2p

    rng = random.Random(seed)
    cs = w["cs"]
    ents = w["entries"]
    gents = _grid_entries(w)
    base = {"world": w, "style": style}
    sc = _scale(w)
    tol = 1e-8 * sc

    def fail(family, what, extra, observed, required):
        inp = dict(base)
        inp.update(extra)
        ctx.fail(family, what, inp, observed, required)

    try:
        uset, cr = _build(w, style, rng)
    except Exception as e:
        dmax = max([_depth(cs, k + 1) for k in range(len(cs))] + [0])
        dec = any(s_["ref"] and s_["id"] < cs[s_["ref"] - 1]["id"] for s_ in cs)
        fail("build-raises-%s-chain-depth-%s%s" % (type(e).__name__, dmax if dmax < 3 else "3+",
                                                  "-ids-decreasing-along-chain" if dec else ""),
             "addgrid/build_coords raised on a valid chain: %s" % e, {"check": "build"}, repr(e), "a uset table")
        return
    if not gents:
        return
    g = uset[_grows(uset)]
    X = g.loc[:, "x":"z"].values.reshape(-1, 6, 3)
    P = X[:, 0]

    # (a) A-B-C definition: T orthonormal, right-handed; A is the origin, B on +z, C in the +x half of the xz plane
    for k, s in enumerate(cs, 1):
        ci = np.asarray(cr[s["id"]], float)
        T, o = ci[2:], ci[1]
        dpt = _depth(cs, k)
        fam = "abc-%s-ref-%s" % (_tname(s["typ"]), _tname(1 if s["ref"] == 0 else cs[s["ref"] - 1]["typ"]))
        if np.max(np.abs(T.T @ T - np.eye(3))) > 1e-10 or abs(np.linalg.det(T) - 1) > 1e-10:
            fail(fam + "-not-orthonormal", "transform of a resolved system is not a right-handed orthonormal triad",
                 {"check": "abc", "k": k, "depth": dpt}, T.tolist(), "T'T = I, det T = 1")
            continue
        # put A, B, C down as grids entered in the reference system and look at them in the new axes
        refid = _cid(cs, s["ref"])
        try:
            ua = n2p.addgrid(None, [1, 2, 3], "b", refid, [s["A"], s["B"], s["C"]], 0, dict(cr))
        except Exception as e:
            fail(fam + "-raises", "addgrid raised: %s" % e, {"check": "abc", "k": k}, repr(e), "locations")
            continue
        pa, pb, pc = ua.loc[:, "x":"z"].values[::6]
        la, lb, lc = (T.T @ (p - o) for p in (pa, pb, pc))
        ok = (np.max(np.abs(la)) <= tol and abs(lb[0]) <= tol and abs(lb[1]) <= tol and lb[2] > 0
              and abs(lc[1]) <= tol and lc[0] > 0)
        if not ok:
            fail(fam + "-axes", "A is not the origin / B not on +z / C not in the +x half of the xz-plane",
                 {"check": "abc", "k": k, "depth": dpt}, [la.tolist(), lb.tolist(), lc.tolist()],
                 "[0,0,0], [0,0,+], [+,0,*]")

    # (b) entered in s, queried back in s; via basic into another system and back
    for e, p in zip(gents, P):
        kin = e["cin"]
        ityp = 1 if kin == 0 else cs[kin - 1]["typ"]
        try:
            back = n2p.getcoordinates(uset, e["id"], _cid(cs, kin), cr)
        except Exception as ex:
            fail("roundtrip-%s-raises-%s" % (_tname(ityp), type(ex).__name__), "getcoordinates raised: %s" % ex,
                 {"check": "roundtrip", "gid": e["id"]}, repr(ex), e["xyz"])
            continue
        onaxis = ityp != 1 and _rho(ityp, np.zeros(3), np.eye(3), _to_rect(ityp, e["xyz"])) < 1e-9 * sc
        if onaxis:
            # on the polar axis the azimuth (and at the origin the polar angle) is not defined: the same *point* is
            # required, in the coordinates the code chooses there (checked under "axis-convention")
            same = np.max(np.abs(_to_rect(ityp, back) - _to_rect(ityp, e["xyz"]))) <= tol
        else:
            same = _coords_close(back, e["xyz"], ityp, tol)
        if not same:
            fail("roundtrip-same-system-%s" % _tname(ityp),
                 "a location entered in a system and queried back in it is a different point",
                 {"check": "roundtrip", "gid": e["id"], "depth": _depth(cs, kin)}, np.asarray(back).tolist(), e["xyz"])
        for k in range(0, len(cs) + 1):
            kt = 1 if k == 0 else cs[k - 1]["typ"]
            try:
                q = np.asarray(n2p.getcoordinates(uset, p[None, :], _cid(cs, k), cr), float)
                if kt != 1:
                    ci = np.asarray(cr[cs[k - 1]["id"]], float)
                    rho = _rho(kt, ci[1], ci[2:], p)
                    if rho < 0.1 and not (w.get("axis") and rho == 0.0):
                        continue
                    if rho == 0.0:
                        # exactly on the polar axis: the azimuth has no meaning, the code reports a multiple of 180
                        # (atan2 of two zeros; 0 over the reals), R = 0 (cylindrical) resp. theta = 0 | 180
                        ctx.count("oracle:on-axis-%s" % _tname(kt))
                        okc = (q[0] == 0.0 and q[1] % 180.0 == 0.0) if kt == 2 else (
                            q[1] % 180.0 == 0.0 and q[2] % 180.0 == 0.0)
                        if not okc:
                            fail("axis-convention-%s" % _tname(kt),
                                 "getcoordinates of a point exactly on the polar axis: R / angles not the axis values",
                                 {"check": "via", "gid": e["id"], "k": k}, q.tolist(),
                                 "[0, 0|180, z]" if kt == 2 else "[|z|, 0|180, 0|180]")
                            continue
                u2 = n2p.addgrid(None, 1, "b", _cid(cs, k), q, 0, dict(cr))
            except Exception as ex:
                fail("roundtrip-via-%s-raises-%s" % (_tname(kt), type(ex).__name__), "raised: %s" % ex,
                     {"check": "via", "gid": e["id"], "k": k}, repr(ex), p.tolist())
                continue
            p2 = u2.loc[(1, 1), "x":"z"].values.astype(float)
            if np.max(np.abs(p2 - p)) > tol:
                fail("roundtrip-via-other-system-%s" % _tname(kt),
                     "basic -> system -> basic moves the point", {"check": "via", "gid": e["id"], "k": k,
                                                                 "depth": _depth(cs, k)}, p2.tolist(), p.tolist())

    # (c) rigid-body modes
    nonq = [e for e in gents if not _isq(e)]
    grows = _grows(uset)
    if nonq:
        refs = [nonq[rng.randrange(len(nonq))]["id"], np.array([_rnd(rng, -20, 20) for _ in range(3)])]
        rbs = []
        for ref in refs:
            refl = uset.loc[(ref, 1), "x":"z"].values.astype(float) if np.size(ref) == 1 else ref
            reft = "grid" if np.size(ref) == 1 else "xyz"
            try:
                rb = n2p.rbgeom_uset(uset, ref)
            except Exception as ex:
                fail("rbgeom-uset-raises-%s" % type(ex).__name__, "rbgeom_uset raised: %s" % ex,
                     {"check": "rb", "ref": np.asarray(ref).tolist()}, repr(ex), "rigid-body modes")
                continue
            rbs.append((refl, rb))
            if rb.shape != (uset.shape[0], 6):
                fail("rbgeom-uset-shape", "wrong shape", {"check": "rb"}, list(rb.shape), [uset.shape[0], 6])
                continue
            if np.any(rb[~grows] != 0):
                fail("rbgeom-uset-spoint-rows", "scalar-point rows are not zero", {"check": "rb"},
                     rb[~grows].tolist(), "zeros")
            rbg = rb[grows].reshape(-1, 6, 6)
            geo = n2p.rbgeom(P, refl).reshape(-1, 6, 6)
            for e, blk, x, gblk in zip(gents, rbg, X, geo):
                if _isq(e):
                    if np.any(blk != 0):
                        fail("rbgeom-uset-qset-grid-rows", "q-set grid rows are not zero",
                             {"check": "rb", "gid": e["id"]}, blk.tolist(), "zeros")
                    continue
                typ = int(x[1, 1])
                if w.get("axis") and e.get("ax", ["free"])[0] != "free" and typ != 1:
                    exact = _exact_rows(typ, x, refl, e["ax"])
                    ctx.count("oracle:exact-rows-%s-%s" % (_tname(typ), e["ax"][0]))
                    if np.max(np.abs(blk - exact)) > 1e-12 * max(1.0, float(np.max(np.abs(x[0] - refl)))):
                        fail("rb-exact-%s-%s-ref-%s" % (_tname(typ), "-".join(map(str, e["ax"])).replace("-in", ""), reft),
                             "rbgeom_uset rows of a grid on the polar axis / at an azimuth of k*90 degrees differ from "
                             "the exact value (Q Tt [I, -(p-ref)x; 0, I], Q a signed permutation)",
                             {"check": "rb", "gid": e["id"], "ref": np.asarray(ref).tolist()}, blk.tolist(),
                             exact.tolist())
                    if e["ax"][0] in ("axis", "origin"):
                        continue
                R = _local_frame(typ, x[2], x[3:], x[0])
                want = np.kron(np.eye(2), R.T) @ _rigid6(x[0] - refl)
                if np.max(np.abs(blk - want)) > tol:
                    fail("rb-local-frame-%s-output-ref-%s" % (_tname(typ), reft),
                         "rbgeom_uset rows differ from R_grid' [I, -(p-ref)x; 0, I]",
                         {"check": "rb", "gid": e["id"], "ref": np.asarray(ref).tolist()}, blk.tolist(), want.tolist())
                elif np.max(np.abs(np.kron(np.eye(2), R) @ blk - gblk)) > tol:
                    fail("rb-vs-rbgeom-%s" % _tname(typ), "modes transformed to basic differ from geometry-only rbgeom",
                         {"check": "rb", "gid": e["id"]}, (np.kron(np.eye(2), R) @ blk).tolist(), gblk.tolist())
            # rbcoords recovers p - ref
            try:
                c, maxdev, maxerr = n2p.rbcoords(rb[grows], verbose=0)
                wantc = np.array([np.zeros(3) if _isq(e) else x[0] - refl for e, x in zip(gents, X)])
                if np.max(np.abs(c - wantc)) > tol or maxdev > tol:
                    fail("rbcoords-recover-ref-%s" % reft, "rbcoords does not recover the grid locations",
                         {"check": "rbcoords", "ref": np.asarray(ref).tolist()}, c.tolist(), wantc.tolist())
            except Exception as ex:
                fail("rbcoords-raises-%s" % type(ex).__name__, "rbcoords raised: %s" % ex, {"check": "rbcoords"},
                     repr(ex), "coordinates")
        if len(rbs) == 2:
            (r1, rb1), (r2, rb2) = rbs
            mv = n2p.rbmove(rb1, r1, r2)
            if np.max(np.abs(mv - rb2)) > tol:
                fail("rbmove-reference-point", "rbmove(rb(ref1), ref1, ref2) differs from rb(ref2)",
                     {"check": "rbmove", "ref1": r1.tolist(), "ref2": r2.tolist()}, mv.tolist(), rb2.tolist())

    # (d) replace_basic_cs
    if rep is None:
        while True:
            A, B, C = (np.array(_rand_point(rng, 1)) for _ in range(3))
            if np.linalg.norm(np.cross(B - A, C - A)) / (np.linalg.norm(B - A) * np.linalg.norm(C - A) + 1e-30) > 0.2:
                break
        rep = {"A": A.tolist(), "B": B.tolist(), "C": C.tolist(), "newid": 1000 + rng.randint(0, 50),
               "form4": rng.random() < 0.5}
    A, B, C = (np.array(rep[k], float) for k in "ABC")
    newid = rep["newid"]
    ex_in = {"check": "replace", "rep": rep}
    try:
        if rep["form4"]:
            un = n2p.replace_basic_cs(uset, np.vstack([[newid, 1, 0], A, B, C]))
        else:
            un = n2p.replace_basic_cs(uset, newid, np.vstack([A, B, C]))
    except Exception as ex:
        msg = str(ex)
        fam = "replace-basic-cs-read-only" if "read-only" in msg else "replace-basic-cs-raises-" + type(ex).__name__
        fail(fam, "replace_basic_cs raised on a valid table: %s" % msg, ex_in, repr(ex), "the moved table")
        un = None
    if un is not None:
        X1 = un[_grows(un)].loc[:, "x":"z"].values.reshape(-1, 6, 3)
        P1 = X1[:, 0]
        D0 = np.linalg.norm(P[:, None] - P[None], axis=2)
        D1 = np.linalg.norm(P1[:, None] - P1[None], axis=2)
        if not un.index.equals(uset.index) or np.any(un[~grows].values != uset[~grows].values):
            fail("replace-basic-cs-bookkeeping", "index or scalar-point rows changed", ex_in, "changed", "unchanged")
        elif np.max(np.abs(D0 - D1)) > tol:
            fail("replace-basic-cs-distances", "inter-grid distances changed", ex_in, D1.tolist(), D0.tolist())
        else:
            bad = None
            for i in range(len(X)):
                for j in range(len(X)):
                    r0 = X[i, 3:].T @ X[j, 3:]
                    r1 = X1[i, 3:].T @ X1[j, 3:]
                    if np.max(np.abs(r0 - r1)) > 1e-9:
                        bad = (i, j, r1.tolist(), r0.tolist())
            if bad:
                fail("replace-basic-cs-orientation", "relative local-frame orientation changed", ex_in, bad[2], bad[3])
            else:
                # every grid keeps its coordinates in its own (moved) output system, the new system is where A, B, C
                # say, and a grid's offset from its system origin turns with the system
                z = (B - A) / np.linalg.norm(B - A)
                y = np.cross(z, C - A)
                y /= np.linalg.norm(y)
                Tn = np.column_stack([np.cross(y, z), y, z])
                for e, x0, x1 in zip(gents, X, X1):
                    wantid = newid if x0[1, 0] == 0 else x0[1, 0]
                    if list(x1[1]) != [wantid, x0[1, 1], 0]:
                        fail("replace-basic-cs-ids", "coordinate-system id row wrong", ex_in, x1[1].tolist(),
                             [wantid, x0[1, 1], 0])
                        break
                    if (np.max(np.abs(x1[0] - (Tn @ x0[0] + A))) > tol or np.max(np.abs(x1[2] - (Tn @ x0[2] + A))) > tol
                            or np.max(np.abs(x1[3:] - Tn @ x0[3:])) > 1e-9):
                        fail("replace-basic-cs-placement", "grid / origin / transform not moved by new = T old + A",
                             ex_in, x1.tolist(), "T old + A")
                        break
                    c0 = n2p.getcoordinates(uset, e["id"], int(x0[1, 0]))
                    c1 = n2p.getcoordinates(un, e["id"], int(wantid))
                    ot = int(x0[1, 1])
                    if ot != 1 and _rho(ot, x0[2], x0[3:], x0[0]) < 0.1:
                        # (next to) the polar axis: compare as points of the local rectangular frame
                        okl = np.max(np.abs(_to_rect(ot, c1) - _to_rect(ot, c0))) <= tol
                    else:
                        okl = _coords_close(c1, c0, ot, tol)
                    if not okl:
                        fail("replace-basic-cs-local-coordinates",
                             "coordinates of a grid in its own output system changed", ex_in,
                             np.asarray(c1).tolist(), np.asarray(c0).tolist())
                        break

    # (e) mkcordcardinfo cards rebuild the same systems
    try:
        CI = n2p.mkcordcardinfo(uset)
        for cid, (name, card) in CI.items():
            ci0 = n2p.mkusetcoordinfo(int(cid), uset, {})
            ci1 = n2p.mkusetcoordinfo(card, None, {})
            if np.max(np.abs(np.asarray(ci0, float) - np.asarray(ci1, float))) > tol:
                fail("cordcard-rebuild-%s" % name.lower(), "card from mkcordcardinfo does not rebuild the system",
                     {"check": "card", "cid": int(cid)}, np.asarray(ci1).tolist(), np.asarray(ci0).tolist())
    except Exception as ex:
        fail("cordcard-raises-%s" % type(ex).__name__, "mkcordcardinfo raised: %s" % ex, {"check": "card"}, repr(ex), "cards")

    # (f) formrbe3 reproduces rigid-body motion
    if rbe3_case is not None:
        _oracle_rbe3(ctx, w, uset, X, rbe3_case, fail, rng)


def _um_family(ref, mdof, default):
    """family of a UM_List failure from the input's own characteristics: the m-set holds exactly the first
    dependent / the first independent DOF (index vector [0]: the inputs repaired by 959e8e9), else by kind"""
    dm, dn, im, inn = _um_split(ref, mdof)
    if dm == [0]:
        return "rbe3-um-mset-holds-only-the-first-dependent-dof"
    if im == [0] and dm:
        return "rbe3-um-mset-holds-only-the-first-independent-dof"
    return default


def _oracle_rbe3(ctx, w, uset, X, case, fail, rng):
    """formrbe3 (and its UM_List variants) reproduces rigid-body motion: stated on the API with the oracle's own
    geometry; rigid-body modes are taken relative to an arbitrary point, not the dependent grid."""
    from pyyeti.nastran import n2p

    ents = w["entries"]
    gents = _grid_entries(w)
    pos = {e["id"]: i for i, e in enumerate(gents)}
    dep = ents[case["dep"]]
    ref0 = _rbe3_ref(w, case)
    point = np.array([_rnd(rng, -20, 20) for _ in range(3)])
    blocks = {}
    for k, e in enumerate(ents):
        if e["kind"] != "grid":
            continue
        x = X[pos[e["id"]]]
        R = _local_frame(int(x[1, 1]), x[2], x[3:], x[0])
        blocks[k] = np.kron(np.eye(2), R.T) @ _rigid6(x[0] - point)
    Ind_List = []
    for d, wt, grp in case["groups"]:
        Ind_List += [d if wt is None else [d, wt], [ents[i]["id"] for i in grp]]
    idof = ref0["idof"]
    ddof = ref0["ddof"]
    rot = any(c > 3 for _, c in idof)
    ex_in = {"check": "rbe3", "case": case}
    tag = "with-rot" if rot else "trans-only"
    try:
        with warnings.catch_warnings():
            warnings.simplefilter("ignore")
            r = n2p.formrbe3(uset, dep["id"], case["ddof"], Ind_List)
    except Exception as ex:
        fail("rbe3-raises-%s" % type(ex).__name__, "formrbe3 raised: %s" % ex, ex_in, repr(ex), "matrix")
        return
    rbi = np.array([blocks[i][c - 1] for i, c in idof])
    rbd = np.array([blocks[i][c - 1] for i, c in ddof])
    sc = max(1.0, np.max(np.abs(rbd)), np.max(np.abs(r)) * np.max(np.abs(rbi)))
    if r.shape != (len(ddof), len(idof)) or np.max(np.abs(r @ rbi - rbd)) > 1e-7 * sc:
        fail("rbe3-rigid-motion-%s-dep-%s" % (tag, _tname(int(X[pos[dep["id"]], 1, 1]))),
             "rbe3 @ (rigid motion of the independent DOF) != rigid motion of the dependent DOF",
             ex_in, (r @ rbi).tolist() if r.shape == (len(ddof), len(idof)) else list(r.shape), rbd.tolist())
        return
    um = case.get("um")
    if not um:
        return
    kind = um["kind"]
    UM_List = []
    for i, d in um["list"]:
        UM_List += [ents[i]["id"], d]
    key = lambda t: _dof_key(w, t[0], t[1])
    mdof = sorted(set(_um_mdof(um["list"])), key=key)
    mset = set(mdof)
    rest = sorted([t for t in set(ddof) | set(idof) if t not in mset], key=key)
    um_in = dict(ex_in, UM_List=UM_List)
    try:
        with warnings.catch_warnings():
            warnings.simplefilter("ignore")
            ru = n2p.formrbe3(uset, dep["id"], case["ddof"], Ind_List, UM_List)
    except Exception as ex:
        if kind == "size":
            if not isinstance(ex, ValueError):
                fail("rbe3-um-wrong-size-raises-%s" % type(ex).__name__, "expected ValueError: %s" % ex, um_in,
                     repr(ex), "ValueError")
            return
        if ref0["R0"] is not None and _um_block_cond(ref0, mdof) <= 1e4:
            fail(_um_family(ref0, mdof, "rbe3-um-%s-raises-%s" % (kind, type(ex).__name__)),
                 "formrbe3 with a valid UM_List (non-singular partition, cond <= 1e4) raised %s: %s"
                 % (type(ex).__name__, str(ex)[:120]), um_in, repr(ex),
                 "a %d x %d matrix" % (len(mdof), len(rest)))
        else:
            ctx.skip("oracle rbe3: UM_List choice singular/ill-conditioned")
        return
    if kind == "size":
        fail("rbe3-um-wrong-size-accepted", "UM_List with %d DOF accepted for %d dependent DOF" % (len(mdof), len(ddof)),
             um_in, list(ru.shape), "ValueError")
        return
    if ref0["R0"] is None or not _um_block_cond(ref0, mdof) <= 1e4:
        ctx.skip("oracle rbe3: UM_List choice singular/ill-conditioned")
        return
    rm = np.array([blocks[i][c - 1] for i, c in mdof])
    rr = np.array([blocks[i][c - 1] for i, c in rest])
    if ru.shape != (len(mdof), len(rest)):
        fail(_um_family(ref0, mdof, "rbe3-um-shape-%s" % kind),
             "formrbe3 with UM_List returned a %s matrix for %d m-set DOF and %d remaining DOF"
             % (ru.shape, len(mdof), len(rest)), um_in, list(ru.shape), [len(mdof), len(rest)])
        return
    scu = max(1.0, np.max(np.abs(rm)), np.max(np.abs(ru)) * np.max(np.abs(rr)))
    if np.max(np.abs(ru @ rr - rm)) > 1e-6 * scu:
        fail(_um_family(ref0, mdof, "rbe3-um-rigid-motion-%s-%s" % (kind, tag)),
             "rbe3 with UM_List does not reproduce rigid motion at the m-set", um_in, (ru @ rr).tolist(), rm.tolist())


def _oracle_wrapper(ctx, rng, seed):
    """formrbe3's list handling on the API: the result does not depend on the order / Python form in which
    Ind_List and UM_List name the DOF, nor on a common factor on the weights; the rows follow the digits of
    DOF_dep; bystanders in the table (scalar points, q-set grids, other grids) change nothing."""
    from pyyeti.nastran import n2p

    w0 = _gen_world(rng, N=rng.randint(0, 3), G=rng.randint(4, 6), plain=True)
    w, part = _with_bystanders(rng, w0)
    case = _rbe3_case(rng, w, part)
    ref = _rbe3_ref(w, case)
    withum = rng.random() < 0.4
    if not ref["cond"] <= (1e4 if withum else 1e6):
        ctx.skip("oracle wrapper: cond(rb'Wrb) too large")
        return
    if withum and not _add_um(rng, w, case, ref, rng.choice(["indep", "dep", "mixed"])):
        ctx.skip("oracle wrapper: no well-conditioned UM_List")
        return
    _oracle_wrapper_on(ctx, rng, w, case, seed)


def _oracle_wrapper_on(ctx, rng, w, case, seed):
    from pyyeti.nastran import n2p

    ents = w["entries"]
    part = sorted({case["dep"]} | {i for _, _, grp in case["groups"] for i in grp})
    base = {"world": w, "style": 0, "check": "rbe3w", "case": case}

    def fail(family, what, extra, observed, required):
        ctx.fail(family, what, dict(base, **extra), observed, required)

    try:
        uset, _ = _build(w, 0, rng)
        uset0, _ = _build({"cs": w["cs"], "entries": [ents[i] for i in part]}, 0, rng)
    except Exception as e:
        fail("build-raises-" + type(e).__name__, "addgrid/build_coords raised: %s" % e, {}, repr(e), "uset")
        return
    groups = [(d, wt, [ents[i]["id"] for i in grp]) for d, wt, grp in case["groups"]]
    um = case.get("um")
    um_pairs = [(ents[i]["id"], d) for i, d in um["list"]] if um else None
    dep = ents[case["dep"]]["id"]

    def call(us, grps, ddof, ump, forms=False):
        il = []
        for d, wt, ids in grps:
            il += list(_pyform_ind(rng, d, wt, ids)) if forms else [d if wt is None else [d, wt], list(ids)]
        ul = None if ump is None else [v for pr in ump for v in pr]
        with warnings.catch_warnings():
            warnings.simplefilter("ignore")
            return np.asarray(n2p.formrbe3(us, dep, ddof, il, ul), float)

    tag = "with-um-" + um["kind"] if um else "no-um"
    try:
        r0 = call(uset, groups, case["ddof"], um_pairs)
        # 1. order and Python form of the lists
        g2 = []
        for d, wt, ids in groups:
            ids = ids[:]
            rng.shuffle(ids)
            if len(ids) >= 2 and rng.random() < 0.5:
                cut = rng.randint(1, len(ids) - 1)
                g2 += [(d, wt, ids[:cut]), (d, wt, ids[cut:])]
            else:
                g2.append((d, wt, ids))
        rng.shuffle(g2)
        u2 = None
        if um_pairs is not None:
            u2 = [(i, int("".join(rng.sample(str(d), len(str(d)))))) for i, d in um_pairs]
            rng.shuffle(u2)
        r1 = call(uset, g2, case["ddof"], u2, forms=True)
        sc = max(1.0, float(np.max(np.abs(r0))))
        if r1.shape != r0.shape or np.max(np.abs(r1 - r0)) > 1e-9 * sc:
            fail("rbe3-depends-on-list-order-" + tag, "formrbe3 gives a different matrix when Ind_List / UM_List name "
                 "the same DOF in another order or Python form", {"groups2": [[d, wt, ids] for d, wt, ids in g2],
                                                                 "um2": u2}, r1.tolist(), r0.tolist())
            return
        # 2. a common factor on all weights
        c = rng.choice([0.25, 3.0, 10.0, 1e3])
        g3 = [(d, c * (1.0 if wt is None else wt), ids) for d, wt, ids in groups]
        r2 = call(uset, g3, case["ddof"], um_pairs)
        if r2.shape != r0.shape or np.max(np.abs(r2 - r0)) > 1e-7 * sc:
            fail("rbe3-weights-not-scale-invariant-" + tag, "multiplying every weight by %g changes the matrix" % c,
                 {"factor": c}, r2.tolist(), r0.tolist())
            return
        # 3. bystanders in the table change nothing
        r3 = call(uset0, groups, case["ddof"], um_pairs)
        if r3.shape != r0.shape or np.max(np.abs(r3 - r0)) > 1e-9 * sc:
            fail("rbe3-depends-on-other-table-rows-" + tag, "scalar points / grids that take no part in the element "
                 "change the matrix", {}, r0.tolist(), r3.tolist())
            return
        # 4. rows follow the digits of DOF_dep (no UM_List)
        if um_pairs is None and len(str(case["ddof"])) > 1:
            dg = list(str(case["ddof"]))
            perm = list(range(len(dg)))
            rng.shuffle(perm)
            r4 = call(uset, groups, int("".join(dg[i] for i in perm)), None)
            if r4.shape != r0.shape or np.max(np.abs(r4 - r0[perm])) > 1e-9 * sc:
                fail("rbe3-dependent-row-order", "the rows do not follow the digits of DOF_dep",
                     {"perm": perm}, r4.tolist(), r0[perm].tolist())
                return
    except Exception as ex:
        fail("rbe3-wrapper-raises-%s-%s" % (type(ex).__name__, tag), "formrbe3 raised: %s" % str(ex)[:120], {},
             repr(ex), "a matrix")
        return
    # 5. rigid-body motion is reproduced with the columns in uset order (table with bystanders)
    X = uset[_grows(uset)].loc[:, "x":"z"].values.reshape(-1, 6, 3)
    _oracle_rbe3(ctx, w, uset, X, case, lambda fam, what, extra, obs, req: fail(fam, what, extra, obs, req),
                 random.Random(seed))


def _docstring_world():
    """the uset of formrbe3's docstring: four grids on the unit circle, the dependent one at the origin"""
    locs = [[1, 0, 0], [0, 1, 0], [-1, 0, 0], [0, -1, 0], [0, 0, 0]]
    return _floatify({"cs": [], "entries": [
        {"kind": "grid", "id": 100 * (k + 1), "nasset": "b", "cin": 0, "xyz": locs[k], "cout": 0} for k in range(5)]})


def _um_probes():
    """docstring geometry, m-sets whose index vector into the dependent / independent DOF is [0] (regression
    inputs of the repair 959e8e9) and the two UM_List examples of the docstring"""
    case = {"dep": 4, "ddof": 123456, "groups": [(123, None, [0, 1, 2, 3])]}
    a = dict(case, um={"kind": "first-ind", "list": [(0, 1), (4, 23456)]})
    b = dict(case, um={"kind": "first-dep", "list": [(4, 1), (0, 23), (1, 13), (2, 3)]})
    c = dict(case, ddof=3, um={"kind": "first-dep", "list": [(4, 3)]})
    d = dict(case, um={"kind": "indep", "list": [(0, 12), (1, 3), (2, 23), (3, 3)]})
    e = dict(case, um={"kind": "mixed", "list": [(0, 12), (1, 3), (2, 3), (4, 23)]})
    return [a, b, c, d, e]


def _oracle_chain(ctx, rng, n):
    """build_coords on the API: the order of the cards is irrelevant, equal duplicates are ignored, unequal
    duplicates / unknown references / reference cycles are refused."""
    from pyyeti.nastran import n2p

    for _ in range(n):
        scen, rows = _gen_cards(rng)
        ctx.count("oracle:chain")
        inp = {"check": "chain", "scenario": scen, "rows": rows}
        arr = np.array(rows, float) if rows else np.zeros((0, 12))
        bad = scen in ("dup-unequal", "dup-unequal2", "missing-ref", "missing-ref-deep", "self-ref", "cycle2", "cycle3")
        try:
            cr = _guard(lambda: n2p.build_coords(arr))
        except _Hang:
            ctx.fail("build-coords-does-not-terminate-%s" % scen, "build_coords was still running after the time limit", inp,
                     "no result", "a dictionary or RuntimeError")
            continue
        except RuntimeError as ex:
            if not bad:
                ctx.fail("build-coords-refuses-%s" % scen, "build_coords raised on a valid set of cards: %s" % ex, inp,
                         repr(ex), "a dictionary")
            continue
        except Exception as ex:
            ctx.fail("build-coords-raises-%s-%s" % (type(ex).__name__, scen), "build_coords raised: %s" % ex, inp,
                     repr(ex), "a dictionary or RuntimeError")
            continue
        if bad:
            ctx.fail("build-coords-accepts-%s" % scen, "build_coords returned a dictionary for cards it must refuse",
                     inp, sorted(int(k) for k in cr), "RuntimeError")
            continue
        ids = sorted({int(r[0]) for r in rows})
        if sorted(int(k) for k in cr if int(k) != 0) != ids:
            ctx.fail("build-coords-keys-%s" % scen, "dictionary keys differ from the card ids", inp,
                     sorted(int(k) for k in cr), ids)
            continue
        # each system is the A-B-C construction in its reference system (own numpy), whatever the order
        byid = {int(r[0]): r for r in rows}
        memo = {0: (1, np.zeros(3), np.eye(3))}

        def info(cid):
            if cid not in memo:
                r = byid[cid]
                rt, ro, rT = info(int(r[2]))
                a, b, c = (_to_rect(rt, r[3 + 3 * k : 6 + 3 * k]) for k in range(3))
                z = (b - a) / np.linalg.norm(b - a)
                y = np.cross(z, c - a)
                y /= np.linalg.norm(y)
                memo[cid] = (int(r[1]), ro + rT @ a, rT @ np.column_stack([np.cross(y, z), y, z]))
            return memo[cid]

        sc = 1.0 + max([abs(v) for r in rows for v in r[3:]] + [1.0]) * (1 + len(rows))
        for cid in ids:
            t, o, T = info(cid)
            ci = np.asarray(cr[cid], float)
            if list(ci[0]) != [cid, t, 0] or np.max(np.abs(ci[1] - o)) > 1e-8 * sc or np.max(np.abs(ci[2:] - T)) > 1e-9:
                ctx.fail("build-coords-system-%s" % scen, "resolved system differs from the A-B-C construction in its "
                         "reference system", dict(inp, cid=cid), ci.tolist(), [[cid, t, 0], o.tolist()] + T.tolist())
                break
        else:
            rows2 = rows[:]
            rng.shuffle(rows2)
            cr2 = _guard(lambda: n2p.build_coords(np.array(rows2, float) if rows2 else np.zeros((0, 12))))
            if sorted(map(int, cr2)) != sorted(map(int, cr)) or any(
                    not np.array_equal(cr[k], cr2[k]) for k in cr):
                ctx.fail("build-coords-order-dependent", "the dictionary depends on the order of the cards", inp,
                         "differs after shuffling", "identical")


def _sub(ctx):
    sub = type(ctx).__new__(type(ctx))
    sub.failures = []
    sub.skipped = {}
    sub.hist = {}
    return sub


def search(ctx, hints):
    rng = ctx.rng
    n0 = len(ctx.failures)
    with warnings.catch_warnings():
        warnings.simplefilter("ignore", FutureWarning)
        # the disagreements first
        seen = 0
        for h in hints[:40]:
            inp = h["input"]
            if "world" not in inp:
                continue
            _oracle_world(ctx, inp["world"], inp.get("style", 0), inp.get("case"),
                          {k: inp[k] for k in ("A", "B", "C", "newid", "form4")} if inp.get("op") == "rep" else None,
                          seed=seen)
            seen += 1
            ctx.count("oracle:hint-worlds")
            if len(ctx.failures) - n0 > 12:
                return
        worlds = [_floatify(w) for w in _corpus(ctx)] + [_floatify(w) for w in _fixed_worlds()]
        for i in range(ctx.pick(80, 800)):
            worlds.append(_gen_world(rng, N=5) if i % 4 == 3 else _gen_world(rng))
        for i in range(ctx.pick(12, 120)):
            worlds.append(_floatify(_boundary_world(rng)))
        for i in range(ctx.pick(16, 160)):
            worlds.append(_floatify(_axis_world(rng)))
        for i, w in enumerate(worlds):
            _oracle_world(ctx, w, style=i % 2, seed=ctx.seed * 100003 + i)
            ctx.count("oracle:worlds")
            if len(ctx.failures) - n0 > 12:
                return
        _oracle_chain(ctx, rng, ctx.pick(80, 800))
        if len(ctx.failures) - n0 > 12:
            return
        for i in range(ctx.pick(40, 400)):
            _oracle_wrapper(ctx, rng, ctx.seed * 104729 + i)
            ctx.count("oracle:rbe3-wrapper")
            if len(ctx.failures) - n0 > 12:
                return
        for case in _um_probes():
            _oracle_world_rbe3_only(ctx, _docstring_world(), case, 1)
            ctx.count("oracle:rbe3-um-probe")
        kinds = (None,) + UM_KINDS
        nr = ctx.pick(70, 700)
        for i in range(nr):
            w = _gen_world(rng, N=rng.randint(0, 4), G=rng.randint(4, 7), plain=True)
            case = _rbe3_case(rng, w)
            kind = kinds[i % len(kinds)]
            ref = _rbe3_ref(w, case)
            # skip ill-conditioned independent sets (same rule as the correspondence)
            if not ref["cond"] <= (1e6 if kind is None else 1e4):
                ctx.skip("oracle rbe3: cond(rb'Wrb) too large")
                continue
            if kind is not None and not _add_um(rng, w, case, ref, kind):
                ctx.skip("oracle rbe3: no well-conditioned UM_List of kind %s" % kind)
                continue
            _oracle_world_rbe3_only(ctx, w, case, ctx.seed * 7919 + i)
            ctx.count("oracle:rbe3-um-" + kind if kind else "oracle:rbe3")
            if len(ctx.failures) - n0 > 12:
                return


def _oracle_world_rbe3_only(ctx, w, case, seed):
    import random

    rng = random.Random(seed)
    base = {"world": w, "style": 0}

    def fail(family, what, extra, observed, required):
        inp = dict(base)
        inp.update(extra)
        type(ctx).fail(ctx, family, what, inp, observed, required)

    try:
        uset, cr = _build(w, 0, rng)
    except Exception as e:
        fail("build-raises-" + type(e).__name__, "addgrid/build_coords raised: %s" % e, {"check": "build"}, repr(e), "uset")
        return
    X = uset[_grows(uset)].loc[:, "x":"z"].values.reshape(-1, 6, 3)
    _oracle_rbe3(ctx, w, uset, X, case, fail, rng)


def _replay_wrapper(sub, inp, f):
    """re-run the list-handling checks of formrbe3 on the recorded world and case (the reorderings are drawn
    again, with a few seeds)"""
    w = _floatify(inp["world"])
    case = dict(inp["case"])
    case["groups"] = [tuple(g) for g in case["groups"]]
    if case.get("um"):
        case["um"] = dict(case["um"], list=[tuple(t) for t in case["um"]["list"]])
    with warnings.catch_warnings():
        warnings.simplefilter("ignore", FutureWarning)
        for seed in range(6):
            _oracle_wrapper_on(sub, random.Random(seed), w, case, seed)
            same = [g for g in sub.failures if g["family"] == f["family"]]
            if same:
                return same[0]
    return sub.failures[0] if sub.failures else None


def _replay_chain(sub, inp, f):
    """re-run build_coords on the recorded cards"""
    import random

    saved = _gen_cards

    def fixed(_rng):
        return inp["scenario"], [list(r) for r in inp["rows"]]

    globals()["_gen_cards"] = fixed
    try:
        _oracle_chain(sub, random.Random(0), 1)
    finally:
        globals()["_gen_cards"] = saved
    same = [g for g in sub.failures if g["family"] == f["family"]]
    return same[0] if same else (sub.failures[0] if sub.failures else None)


def replay(ctx, data):
    f = data["failure"]
    inp = f["input"]
    sub = _sub(ctx)
    sub.fail = lambda *a: type(ctx).fail(sub, *a)
    if inp.get("check") == "chain":
        return _replay_chain(sub, inp, f)
    if inp.get("check") == "rbe3w":
        return _replay_wrapper(sub, inp, f)
    w = _floatify(inp["world"])
    with warnings.catch_warnings():
        warnings.simplefilter("ignore", FutureWarning)
        for seed in range(3):
            if inp.get("check") == "rbe3":
                _oracle_world_rbe3_only(sub, w, inp["case"], seed)
            else:
                _oracle_world(sub, w, inp.get("style", 0), inp.get("case"), inp.get("rep"), seed=seed)
            same = [g for g in sub.failures if g["family"] == f["family"]]
            if same:
                return same[0]
    return sub.failures[0] if sub.failures else None
