"""C09 — parallel execution returns bit-identical results to serial execution (DESIGN.md 6/C09).

Tie (both mechanisms):
  * translators harness/translate/c09_footprint.py (worker side: access footprints, worker body == serial
    loop body) and harness/translate/c09_parent.py (parent side: the decision `_process_parallel`, the
    shared-memory helpers, every pool site: task list, shared allocations with symbolic shapes, argument
    tuple, serial loop header, copy-out, where the peak function is called) regenerate
    Generated/ParFootprint.lean and Generated/ParFootprintParent.lean from srs.py / fdepsd.py on every run;
    `generated_footprints_ok`, `generated_parent_ok`, `generated_decision_is_std`, … are then re-proved by
    `decide`;
  * correspondence:
    (a) footprints validated behaviourally — every worker is run in-process on recording arrays and the
        cells it really writes/reads are compared with what the Lean `covers` says the generated patterns
        touch; the writers of every cell are compared with Lean's `ownerOf`, and Lean's `part` (exactly one
        covering task per cell) is evaluated on the concrete shapes;
    (b) decision: the real `srs._process_parallel` (cpu count and platform substituted) against the Lean
        interpreter of the REGENERATED table, exactly, over a grid around every threshold;
    (c) parent plan: `srs.srs` / `fdepsd.fdepsd` run with `multiprocessing.Pool` replaced by a recording,
        in-process pool that executes the tasks in a prescribed order: pool size, initialiser, worker
        function, task list, shapes / element type / zero fill of every shared array, argument tuple
        compared exactly with the plan the Lean model computes from the regenerated site table; outputs
        compared bit for bit with parallel='no' for EVERY permutation of <= 4 tasks (5 in thorough);
    (d) real pool: parallel='yes' with worker counts 1..#tasks+1, maxcpu None / 1 / 2 / large, completion
        orders forced by harness-side delays (every permutation of <= 3 tasks, 4 in thorough; random
        patterns for more), layouts (C / F / strided / reversed), dtypes, every ic x stype x peak x time x
        getresp x eqsine, roll-off methods; fdepsd: resp x rolloff x ppc x hpfilter x detrend x winends x
        nbins; compared BIT FOR BIT with parallel='no' (this comparison is also the model-free oracle);
    (e) call sequences: serial then parallel, parallel twice, histories on then off, results of an
        earlier call unchanged by a later one, leftover module globals.
"""
import contextlib
import itertools
import multiprocessing as mp
import os
import sys
import time
import warnings

import numpy as np

from runner import Infra, TieBroken

ID = "C09"
LEAN_MODULES = ["PyYetiVerif.Props.C09", "PyYetiVerif.Props.C09Parent", "PyYetiVerif.Audit.C09"]
AUDIT_FILE = "PyYetiVerif/Audit/C09.lean"
THEOREMS = [
    "PyYetiVerif.C09." + n
    for n in (
        "schedule_independent parallel_eq_serial final_is_solo footprint_gives_hyp "
        "generated_footprints_ok generated_workers_complete "
        # parent side
        "generated_decision_is_std generated_helpers_std auto_rule yes_rule no_rule invalid_option_raises "
        "pool_size_bounds pool_size_ignores_task_count generated_parent_ok generated_sites_complete "
        "generated_serial_is_worker_loop tasks_partition_outputs generated_outputs_partitioned "
        "assembly_eq_serial generated_srs_owner srs_hyp srs_final_cells peak_applied_once "
        "getresp_histories_eq_serial srs_routine_eq_serial"
    ).split()
]
TRUSTED = [
    "translators harness/translate/c09_footprint.py and c09_parent.py (Python ast; grammars stated in their "
    "docstrings; anything outside them breaks the tie), cross-checked behaviourally every run (recording arrays, "
    "recording pool)",
    "worker bodies are deterministic functions of (j, read-only inputs): scipy.signal.lfilter, numpy reductions, "
    "cyclecount.findap/rainflow are assumed deterministic within one process and across forked processes",
    "multiprocessing.RawArray / np.frombuffer give plain shared memory with atomic element writes; "
    "Pool.imap_unordered calls the function exactly once per item and its iterator ends only when all have returned",
    "OS scheduling cannot be exhibited by the model; completion orders are enumerated exactly on the recording "
    "in-process pool and sampled on the real pool by harness-side delays",
]
RULE = (
    "a case is one (routine, options, signal, frequency vector, worker count, completion order) whose parallel "
    "outputs are compared bit for bit with the serial outputs; on the recording pool the order is prescribed (all "
    "permutations of <= 4 tasks), on the real pool it is forced by delays and the observed order is recorded; "
    "non-trivial = at least 2 tasks and a completion order different from the submission order (real pool: on at "
    "least 2 workers); distinct by the option tuple, order and pool kind.  Decision cases: one argument tuple of "
    "_process_parallel with a substituted cpu count / platform, compared exactly with the Lean interpreter"
)
ASSUMPTIONS = ["fork start method (Linux default for multiprocessing.Pool in this Python)",
               "maxcpu is None or a non-negative integer; a callable `peak` handed to parallel='yes' is picklable"]
PARTIAL = (
    "partial: proved for the modelled protocol — schedule independence (tasks = deterministic step functions over "
    "shared cells, footprints regenerated from the source), the decision rule, the partition of the output arrays by "
    "the tasks' cells for any sizes, equality of the assembled outputs with the serial routine's (which starts from "
    "np.empty arrays) for every complete schedule, peak / eqsine applied once, histories equal.  NOT proved, sampled "
    "by the run-time comparison only: OS scheduling, RawArray / fork semantics (that a child's write is what the "
    "parent later reads), that Pool.imap_unordered runs every task exactly once and returns after all have finished, "
    "library code paths inside worker processes (lfilter, findap, rainflow taken as deterministic functions), and "
    "that a finished worker has written every cell its write patterns cover (hypothesis `hTot` of "
    "assembly_eq_serial; checked on recording arrays).  fdepsd's post-processing (G1 … G12, data frames) enters "
    "the theorem as an arbitrary function `post` of the output cells: that it is the same code on both paths is a "
    "regenerated fact (the tail does not mention `parallel`), its arithmetic is not modelled here (C10)"
)
MANIFEST = {
    "level_text": "Proof (Lean 4), worker side: in any system of deterministic tasks whose writes go only to cells "
    "owned by the task and whose steps depend only on read-only cells and the task's own cells, every complete "
    "schedule (any interleaving, worker count, completion order) ends in the same shared memory as serial execution "
    "(`schedule_independent`, `parallel_eq_serial`); a well-formed access footprint implies those hypotheses "
    "(`footprint_gives_hyp`).  Parent side: the decision `_process_parallel` stated outright for the regenerated "
    "table (`auto_rule`: pool iff LF > 1 and size > 50000 and not getresp and cpu count > 1 and not Windows; "
    "`yes_rule`: pool size = maxcpu if 0 < maxcpu < cpu count, else 4/5 of the cpu count above four CPUs, else the "
    "cpu count — it does not depend on the number of tasks; `no_rule`, `invalid_option_raises`, `pool_size_bounds`); "
    "`tasks_partition_outputs` / `generated_outputs_partitioned`: for the regenerated footprints and shared-array "
    "shapes and ANY number of frequencies, columns, time steps and bins every cell of every output array is "
    "written by exactly one task; `assembly_eq_serial`: outputs after copy-out and any post-processing equal the "
    "serial routine's for every complete schedule although the serial routine starts from np.empty arrays; on the "
    "srs worker system `peak_applied_once` (each spectrum cell = eqsine scaling applied once to the peak function "
    "applied once to the response of its frequency, on both paths), `getresp_histories_eq_serial`, "
    "`srs_routine_eq_serial`.  Re-proved by `decide` on tables regenerated from srs.py / fdepsd.py on every run: "
    "the five worker footprints are well-formed and the workers are textually their serial loop bodies under a "
    "renaming derived from the parent's own copy-in / copy-out statements (`generated_footprints_ok`), the pool "
    "sites pass `siteOk` (`generated_parent_ok`: task list zip(range(LF), repeat(args, LF)), serial loop over the "
    "same index set with the same argument expressions in the same order — `generated_serial_is_worker_loop` —, "
    "every written array zero-filled with covered slabs and the same shape as its serial counterpart, np.empty "
    "arrays never read, inputs copied in, peak function called once in the worker and the serial body and never by "
    "the parent, path-independent tail), the helpers use C doubles viewed as float64 (`generated_helpers_std`).",
    "level_note": "Tied, not proved: footprints and ownership validated on recording arrays against Lean's "
    "`covers` / `ownerOf` / `part`; the decision against the Lean interpreter over a grid (exact); the parent's plan "
    "(pool size, worker, task list, shared shapes / element type / zero fill, argument tuple) against the Lean "
    "model on a recording in-process pool (exact); parallel outputs compared bit for bit with serial for every "
    "permutation of <= 4 tasks on the recording pool and under forced completion orders on the real pool "
    "(worker counts, maxcpu, layouts, dtypes, every option), call sequences.  Trusted: Lean kernel (axioms propext, "
    "Classical.choice, Quot.sound), the ast translators, determinism of scipy/numpy kernels inside a worker, "
    "fork start method, multiprocessing.Pool / RawArray semantics.  Partial by nature: the runtime (OS scheduler, "
    "shared-memory semantics) is outside any model.",
    "technique": "Lean 4 proofs (simulation invariant over interleavings; interpreter of the regenerated decision "
    "table; slab coverage by abstract cells; garbage-independence of the serial start) + two source-to-Lean "
    "translators re-checked by decide + run-time bit comparison under enumerated / forced completion orders",
}

_WS = None


_PARENT = None


def translate(ctx):
    global _WS, _PARENT
    from translate import c09_footprint

    _WS, _PARENT = c09_footprint.generate(ctx.repo, ctx.lean)
    return ["ParFootprint.lean", "ParFootprintParent.lean"]


# ---------------------------------------------------------------------------------------
# forcing completion orders from the harness (no source hook)

_DELAYS = None  # dict j -> seconds, set before the pool forks
_ORDER = mp.Array("i", 8192, lock=False)
_POS = mp.Value("i", 0)


def _wrap(mod, name):
    orig = getattr(mod, name)
    if getattr(orig, "_verif_wrapped", False):
        return

    def wrapper(args):
        j = args[0]
        if _DELAYS:
            time.sleep(_DELAYS.get(j, 0.0))
        r = orig(args)
        with _POS.get_lock():
            if _POS.value < len(_ORDER):
                _ORDER[_POS.value] = j
                _POS.value += 1
        return r

    wrapper.__module__ = orig.__module__
    wrapper.__qualname__ = orig.__qualname__
    wrapper.__name__ = orig.__name__
    wrapper._verif_wrapped = True
    wrapper._verif_orig = orig
    setattr(mod, name, wrapper)


def _install():
    from pyyeti import fdepsd, srs

    for n in ("_dosrs", "_dosrs_nohist", "_dosrs_ic", "_dosrs_nohist_ic"):
        if hasattr(srs, n):
            _wrap(srs, n)
    if hasattr(fdepsd, "_dofde"):
        _wrap(fdepsd, "_dofde")


def _set_delays(LF, pattern, seed):
    global _DELAYS
    rng = np.random.default_rng([seed, LF])
    if pattern == "none":
        _DELAYS = {}
    elif pattern == "reverse":
        _DELAYS = {j: 0.004 * (LF - 1 - j) for j in range(LF)}
    elif pattern == "first-last":
        _DELAYS = {0: 0.03}
    else:
        d = rng.permutation(LF)
        _DELAYS = {j: 0.003 * int(d[j]) for j in range(LF)}
    _POS.value = 0


def _observed_order():
    return [int(_ORDER[i]) for i in range(_POS.value)]


# ---------------------------------------------------------------------------------------


def _bytes_of(obj):
    """canonical bytes of a result (arrays, dicts, DataFrames, namespaces)."""
    import pandas as pd

    if isinstance(obj, np.ndarray):
        return ("nd", obj.dtype.str, obj.shape, np.ascontiguousarray(obj).tobytes())
    if isinstance(obj, (pd.DataFrame, pd.Series)):
        return ("pd", tuple(map(str, getattr(obj, "columns", []))), _bytes_of(np.asarray(obj.index)), _bytes_of(obj.to_numpy()))
    if isinstance(obj, dict):
        return ("dict", tuple((k, _bytes_of(v)) for k, v in sorted(obj.items())))
    if isinstance(obj, (tuple, list)):
        return ("seq", tuple(_bytes_of(v) for v in obj))
    if hasattr(obj, "__dict__"):
        return _bytes_of({k: v for k, v in vars(obj).items() if k not in ("parallel", "ncpu")})
    if isinstance(obj, float):
        return ("f", np.float64(obj).tobytes())
    return ("o", repr(obj))


def _first_diff(a, b, path=""):
    if a[0] != b[0]:
        return path + ": kind %s vs %s" % (a[0], b[0])
    if a[0] == "nd":
        if a[1:3] != b[1:3]:
            return path + ": dtype/shape %s vs %s" % (a[1:3], b[1:3])
        if a[3] != b[3]:
            x = np.frombuffer(a[3], dtype=a[1]).reshape(a[2])
            y = np.frombuffer(b[3], dtype=b[1]).reshape(b[2])
            w = np.argwhere(~((x == y) | ((x != x) & (y != y))))
            return path + ": %d elements differ, first at %s: %r vs %r" % (len(w), w[0].tolist(), x[tuple(w[0])], y[tuple(w[0])])
        return None
    if a[0] in ("dict",):
        ka = [k for k, _ in a[1]]
        kb = [k for k, _ in b[1]]
        if ka != kb:
            return path + ": keys %s vs %s" % (ka, kb)
        for (k, va), (_, vb) in zip(a[1], b[1]):
            d = _first_diff(va, vb, path + "." + str(k))
            if d:
                return d
        return None
    if a[0] in ("seq", "pd"):
        if len(a) != len(b):
            return path + ": length"
        items_a = a[1] if a[0] == "seq" else a[1:]
        items_b = b[1] if b[0] == "seq" else b[1:]
        for i, (va, vb) in enumerate(zip(items_a, items_b)):
            if isinstance(va, tuple) and va and isinstance(va[0], str) and va[0] in ("nd", "pd", "dict", "seq", "f", "o"):
                d = _first_diff(va, vb, path + "[%d]" % i)
                if d:
                    return d
            elif va != vb:
                return path + "[%d]: %r vs %r" % (i, va, vb)
        return None
    return None if a == b else path + ": %r vs %r" % (a[1], b[1])


def _signal(rng, N, H, kind):
    t = np.arange(N)
    if kind == "noise":
        s = rng.standard_normal((N, H))
    elif kind == "sine":
        s = np.sin(0.3 * t)[:, None] * (1 + np.arange(H)) + 0.1 * rng.standard_normal((N, H))
    else:
        s = np.cumsum(rng.standard_normal((N, H)), axis=0) * 0.1 + 2.0
    return s


def _srs_cases(ctx):
    rng = ctx.rng
    stypes = ["absacce", "relacce", "relvelo", "reldisp", "pvelo", "pacce"]
    ics = ["zero", "shift", "mshift", "steady"]
    times = ["primary", "total", "residual"]
    peaks = ["abs", "pos", "neg", "poss", "negs", "rms", "rms", "callable-meansq"]
    n = ctx.pick(220, 1500)
    cases = []
    grid = list(itertools.product(stypes, ics, [False, True]))
    rng.shuffle(grid)
    for i in range(n):
        stype, ic, getresp = grid[i % len(grid)]
        cases.append(
            dict(
                stype=stype, ic=ic, getresp=getresp, time=rng.choice(times), peak=rng.choice(peaks),
                maxcpu=rng.choice([1, 2, 3, 5, 16]), LF=rng.randint(2, 14), N=rng.randint(20, 300),
                H=rng.choice([1, 1, 2, 3]), oneD=rng.random() < 0.3, kind=rng.choice(["noise", "sine", "walk"]),
                pattern=rng.choice(["none", "reverse", "random", "random", "first-last"]),
                eqsine=rng.random() < 0.2, zero_freq=rng.random() < 0.15, dup_freq=rng.random() < 0.3,
                seed=rng.randint(0, 10 ** 6),
                # dtypes of the caller's arrays: the shared arrays of the parallel path are always double
                fdtype=rng.choice(["float64", "float64", "float32", "int64"]),
                sdtype=rng.choice(["float64", "float64", "float32", "int64"]),
            )
        )
    return cases


def _meansq(resp):
    """a user peak function (documented: any callable reducing axis 0)"""
    return np.mean(resp * resp, axis=0)


def _cast(a, dtype, scale):
    """the same data handed over as float32 / integer arrays (integers: scaled and rounded first)"""
    if not dtype or dtype == "float64":
        return a
    if dtype.startswith("int"):
        return np.round(np.asarray(a) * scale).astype(dtype)
    return np.asarray(a).astype(dtype)


def _run_srs(c, parallel):
    from pyyeti import srs

    r = np.random.default_rng(c["seed"])
    sig = _signal(r, c["N"], c["H"], c["kind"])
    if c["oneD"]:
        sig = sig[:, 0]
    freq = np.sort(r.uniform(2.0, 40.0, c["LF"]))
    if c["zero_freq"]:
        freq[0] = 0.0
    if c.get("dup_freq") and c["LF"] >= 3:
        k = 1 + int(r.integers(0, c["LF"] - 1))
        freq[k] = freq[k - 1]  # repeated frequency (e.g. two stacked bands sharing an end point)
    freq, sig = _cast(freq, c.get("fdtype"), 1.0), _cast(sig, c.get("sdtype"), 64.0)
    if parallel == "yes":
        _set_delays(c["LF"], c["pattern"], c["seed"])
    peak = _meansq if c["peak"] == "callable-meansq" else c["peak"]
    with warnings.catch_warnings():
        warnings.simplefilter("ignore")
        out = srs.srs(sig, 200.0, freq, 20.0, ic=c["ic"], stype=c["stype"], peak=peak, eqsine=c["eqsine"],
                      time=c["time"], getresp=c["getresp"], parallel=parallel, maxcpu=c["maxcpu"], rolloff="none")
    return out


def _fde_cases(ctx):
    rng = ctx.rng
    n = ctx.pick(24, 150)
    return [
        dict(resp=rng.choice(["absacce", "pvelo"]), LF=rng.randint(2, 9), N=rng.randint(400, 1500),
             nbins=rng.choice([8, 20, 300]), maxcpu=rng.choice([1, 2, 3, 5, 16]),
             pattern=rng.choice(["none", "reverse", "random", "first-last"]), dup_freq=rng.random() < 0.4,
             seed=rng.randint(0, 10 ** 6), fdtype=rng.choice(["float64", "float64", "float32", "int64"]),
             sdtype=rng.choice(["float64", "float64", "float32", "int64"]))
        for _ in range(n)
    ] + [
        # exact boundary values: an event repeated later at exactly 1/2 (1/4) level after every oscillator has rung
        # down, nothing that breaks the exact scaling (no detrend / window / filter / resampling): the largest cycle of
        # the repeat lies exactly ON an amplitude level when nbins is even (a multiple of 4)
        dict(resp=rng.choice(["absacce", "pvelo"]), LF=rng.randint(2, 4), N=0, nbins=rng.choice([8, 20, 300]),
             maxcpu=rng.choice([2, 3]), pattern=rng.choice(["none", "reverse", "random"]), dup_freq=False,
             seed=rng.randint(0, 10 ** 6), fdtype="float64", sdtype="float64", sigkind="repeat-scaled",
             level=rng.choice([0.5, 0.5, 0.25]))
        for _ in range(ctx.pick(4, 24))
    ]


def _run_fde(c, parallel):
    from pyyeti import fdepsd

    r = np.random.default_rng(c["seed"])
    if c.get("sigkind") == "repeat-scaled":
        burst = r.standard_normal(300)
        gap = np.zeros(5000)
        sig = np.concatenate((burst, gap, c["level"] * burst, gap))
        freq = np.sort(r.uniform(20.0, 33.0, c["LF"]))  # sr / freq > ppc: no resampling
        if parallel == "yes":
            _set_delays(c["LF"], c["pattern"], c["seed"])
        with warnings.catch_warnings():
            warnings.simplefilter("ignore")
            return fdepsd.fdepsd(sig, 400.0, freq, 15.0, resp=c["resp"], nbins=c["nbins"], parallel=parallel,
                                 maxcpu=c["maxcpu"], verbose=False, rolloff="none", winends=None, detrend=False,
                                 hpfilter=None, T0=sig.size / 400.0)
    sig = r.standard_normal(c["N"])
    freq = np.sort(r.uniform(5.0, 60.0, c["LF"]))
    if c.get("dup_freq") and c["LF"] >= 3:
        k = 1 + int(r.integers(0, c["LF"] - 1))
        freq[k] = freq[k - 1]
    freq, sig = _cast(freq, c.get("fdtype"), 1.0), _cast(sig, c.get("sdtype"), 64.0)
    if parallel == "yes":
        _set_delays(c["LF"], c["pattern"], c["seed"])
    with warnings.catch_warnings():
        warnings.simplefilter("ignore")
        return fdepsd.fdepsd(sig, 400.0, freq, 15.0, resp=c["resp"], nbins=c["nbins"], parallel=parallel,
                             maxcpu=c["maxcpu"], verbose=False, rolloff="none", winends=None)


def _compare_all(ctx, report, hints=()):
    """The bit comparison parallel vs serial. `report(kind, case, detail)` is called on a difference."""
    _install()
    cases = [("srs", c) for c in _srs_cases(ctx)] + [("fdepsd", c) for c in _fde_cases(ctx)]
    cases = [(h["routine"], h["case"]) for h in hints] + cases
    for routine, c in cases:
        run = _run_srs if routine == "srs" else _run_fde
        try:
            ser = run(c, "no")
            par = run(c, "yes")
        except Exception as e:  # a crash of the parallel path is a finding, of the serial one too
            report(routine, c, "exception %s: %s" % (type(e).__name__, e))
            continue
        order = _observed_order()
        d = _first_diff(_bytes_of(par), _bytes_of(ser), routine)
        nontriv = c["LF"] >= 2 and c["maxcpu"] >= 2 and order != sorted(order)
        ctx.case((routine, tuple(sorted((k, str(v)) for k, v in c.items())), tuple(order)), nontrivial=nontriv,
                 branch="%s:%s" % (routine, c.get("ic", c.get("resp"))))
        ctx.count("pattern:" + c["pattern"])
        if c.get("dup_freq") and c["LF"] >= 3:
            ctx.count("dup-freq:" + routine)
        ctx.count("maxcpu:%s" % c["maxcpu"])
        if routine == "srs":
            ctx.count("stype:" + c["stype"])
            ctx.count("getresp:%s" % c["getresp"])
        if len(order) != c["LF"]:
            report(routine, c, "the pool ran %d tasks for %d frequencies (observed %s)" % (len(order), c["LF"], order))
        if d:
            report(routine, c, d)
        if len(ctx.samples) < 4 and nontriv:
            ctx.sample({"routine": routine, "case": c, "observed_completion_order": order})


# ---------------------------------------------------------------------------------------
# behavioural validation of the generated footprint on recording arrays


class _Rec(np.ndarray):
    """ndarray that records the element sets written / read through it."""

    def __new__(cls, arr, name, log):
        obj = np.asarray(arr).view(cls)
        obj._name = name
        obj._log = log
        obj._ids = np.arange(obj.size).reshape(obj.shape)
        return obj

    def __array_finalize__(self, obj):
        if obj is None:
            return
        self._name = getattr(obj, "_name", None)
        self._log = getattr(obj, "_log", None)
        self._ids = None  # views/results are plain data

    def __setitem__(self, key, value):
        if self._ids is not None:
            self._log.append(("w", self._name, np.unique(self._ids[key]).tolist()))
        np.ndarray.__setitem__(self.view(np.ndarray), key, value)

    def __getitem__(self, key):
        if self._ids is not None:
            self._log.append(("r", self._name, np.unique(np.asarray(self._ids[key])).tolist()))
        return np.ndarray.__getitem__(self.view(np.ndarray), key)

    def __array_ufunc__(self, ufunc, method, *inputs, out=None, **kw):
        ins = []
        for x in inputs:
            if isinstance(x, _Rec):
                if x._ids is not None:
                    x._log.append(("r", x._name, None))  # whole array read
                x = x.view(np.ndarray)
            ins.append(x)
        if out is not None:
            outs = []
            for x in out:
                if isinstance(x, _Rec):
                    if x._ids is not None:
                        x._log.append(("w", x._name, None))
                    x = x.view(np.ndarray)
                outs.append(x)
            kw["out"] = tuple(outs)
        return getattr(ufunc, method)(*ins, **kw)


def _validate_footprint(ctx):
    from pyyeti import fdepsd, srs

    if _WS is None:
        raise Infra("translator did not run")
    drv = ctx.driver("C09")
    LF, N, H, nb = 4, 40, 2, 5
    rng = np.random.default_rng(ctx.seed)
    queries, expect, meta = [], [], []
    for w in _WS:
        mod = srs if w["module"] == "srs" else fdepsd
        fn = getattr(mod, w["name"])
        fn = getattr(fn, "_verif_orig", fn)
        for j in range(LF):
            log = []
            shapes = {"WN_": (LF,), "SRSmax_": (LF, H), "ICVALS_": (H,), "SIG_": (N, H), "HIST_": (N, H, LF),
                      "ASV_": (3, LF), "BinAmps_": (LF, nb), "Count_": (LF, nb)}
            if w["module"] == "fdepsd":
                shapes["SIG_"] = (400,)
            saved = {}
            for name in w["shared"]:
                base = rng.standard_normal(shapes[name])
                if name == "WN_":
                    base = np.linspace(20.0, 90.0, LF)
                if name == "BinAmps_":
                    base = np.tile(np.arange(nb) / nb, (LF, 1))
                saved[name] = getattr(mod, name, None)
                setattr(mod, name, _Rec(base, name, log))
            try:
                if w["module"] == "srs":
                    extra = ("absacce",) if w["name"].endswith("_ic") else ()
                    fn((j, (srs.absacce, 20.0, 1 / 200.0, srs._absmeth, 0) + extra))
                else:
                    fn((j, (srs.absacce, 20.0, 1 / 400.0, False)))
            finally:
                for name, v in saved.items():
                    setattr(mod, name, v)
            written, read = {}, {}
            for kind, name, ids in log:
                tgt = written if kind == "w" else read
                full = set(range(int(np.prod(shapes[name]))))
                tgt.setdefault(name, set()).update(full if ids is None else ids)
            # every cell of every shared array: does Lean say a write/read pattern covers it?
            for name in w["shared"]:
                shp = shapes[name]
                for flat in range(int(np.prod(shp))):
                    idx = np.unravel_index(flat, shp)
                    for kind, pats, actual in (("w", w["writes"], written), ("r", w["reads"], read)):
                        pl = [p for p in pats if p[0] == name]
                        act = flat in actual.get(name, ())
                        if not pl:
                            if act:
                                ctx.disagree("footprint-" + kind, {"worker": w["name"], "array": name, "j": j, "cell": list(map(int, idx))},
                                             "accessed", "no pattern for this array")
                            continue
                        for p in pl:
                            toks = " ".join(t.replace("const ", "c") for t in p[1])
                            queries.append("cov %d %s %s | %s %s" % (j, name, toks, name, " ".join(str(int(v)) for v in idx)))
                        expect.append((len(pl), act))
                        meta.append((w["name"], kind, name, j, tuple(int(v) for v in idx)))
    rep = drv.ask(queries)
    pos = 0
    for (npat, act), m in zip(expect, meta):
        cov = any(r == "1" for r in rep[pos : pos + npat])
        if any(r not in ("0", "1") for r in rep[pos : pos + npat]):
            raise Infra("driver C09 refused a query")
        pos += npat
        ctx.evaluations += 1
        # writes must be exactly the covered cells; reads must be covered (a pattern may over-approximate reads)
        if m[1] == "w" and cov != act:
            ctx.disagree("footprint-writes", {"worker": m[0], "array": m[2], "j": m[3], "cell": list(m[4])},
                         "written" if act else "not written", "covered" if cov else "not covered")
        if m[1] == "r" and act and not cov:
            ctx.disagree("footprint-reads", {"worker": m[0], "array": m[2], "j": m[3], "cell": list(m[4])},
                         "read", "not covered")
    ctx.count("footprint-cells-checked", len(expect))


def correspondence(ctx):
    if _WS is not None:
        try:
            _validate_footprint(ctx)
        except Exception as e:  # noqa: BLE001 - e.g. the worker's argument tuple changed shape: a broken tie, go on
            ctx.disagree("footprint-validation", None, "%s: %s" % (type(e).__name__, str(e)[:200]),
                         "the generated footprint replayed on recording arrays")
        ctx.sample({"generated_footprints": [{k: w[k] for k in ("name", "writes", "reads", "serial_same")} for w in _WS]}, cap=8)
    else:
        # the translator refused the source (tie already recorded as broken): the run-time bit comparison
        # below is then the search for a failing input
        ctx.count("footprint-cells-checked", 0)

    def rep(routine, c, detail):
        ctx.disagree("parallel-vs-serial:" + routine, {"routine": routine, "case": c}, detail, "bit-identical to parallel='no'")

    _compare_all(ctx, rep)
    ctx.require_branches(["pattern:reverse", "pattern:random", "getresp:True", "getresp:False", "fdepsd:absacce",
                          "dup-freq:srs", "dup-freq:fdepsd"])


def _family(routine, c, detail):
    return "parallel-differs-from-serial:%s" % routine


def search(ctx, hints):
    # the bit comparison IS the model-free oracle; re-run the disagreeing cases (if any) so that the
    # replay holds an input confirmed twice, and report them as failing inputs
    seen = set()
    for h in hints:
        if not h["stream"].startswith("parallel-vs-serial") or not h.get("input"):
            continue
        inp = h["input"]
        key = repr(inp)
        if key in seen:
            continue
        seen.add(key)
        run = _run_srs if inp["routine"] == "srs" else _run_fde
        try:
            _install()
            d = _first_diff(_bytes_of(run(inp["case"], "yes")), _bytes_of(run(inp["case"], "no")), inp["routine"])
        except Exception as e:
            d = "exception %s: %s" % (type(e).__name__, e)
        if d:
            ctx.fail(_family(inp["routine"], inp["case"], d), d, inp, d, "bit-identical outputs")
        if len(ctx.failures) >= 5:
            break


def replay(ctx, data):
    f = data["failure"]
    inp = f["input"]
    _install()
    run = _run_srs if inp["routine"] == "srs" else _run_fde
    try:
        d = _first_diff(_bytes_of(run(inp["case"], "yes")), _bytes_of(run(inp["case"], "no")), inp["routine"])
    except Exception as e:
        d = "exception %s: %s" % (type(e).__name__, e)
    if d:
        return {"family": f["family"], "what": d, "input": inp}
    return None
