"""C09 — parallel execution returns bit-identical results to serial execution (DESIGN.md 6/C09).

Tie (both mechanisms):
  * translators harness/translate/c09_footprint.py (worker side: access footprints, worker body == serial
    loop body) and harness/translate/c09_parent.py (parent side: the decision `_process_parallel`, the
    shared-memory helpers, every pool site: task list, shared allocations with symbolic shapes, argument
    tuple, serial loop header, copy-out, where the peak function is called) regenerate
    Generated/ParFootprint.lean and Generated/ParFootprintParent.lean from srs.py / fdepsd.py on every run;
    `generated_footprints_ok`, `generated_parent_ok`, `generated_decision_is_std`, … are then re-proved by
    `decide`;
  * correspondence:
    (a) footprints validated behaviourally — every worker is run in-process on recording arrays and the
        cells it really writes/reads are compared with what the Lean `covers` says the generated patterns
        touch; the writers of every cell are compared with Lean's `ownerOf`, and Lean's `part` (exactly one
        covering task per cell) is evaluated on the concrete shapes;
    (b) decision: the real `srs._process_parallel` (cpu count and platform substituted) against the Lean
        interpreter of the REGENERATED table, exactly, over a grid around every threshold;
    (c) parent plan: `srs.srs` / `fdepsd.fdepsd` run with `multiprocessing.Pool` replaced by a recording,
        in-process pool that executes the tasks in a prescribed order: pool size, initialiser, worker
        function, task list, shapes / element type / zero fill of every shared array, argument tuple
        compared exactly with the plan the Lean model computes from the regenerated site table; outputs
        compared bit for bit with parallel='no' for EVERY permutation of <= 4 tasks (5 in thorough);
    (d) real pool: parallel='yes' with worker counts 1..#tasks+1, maxcpu None / 1 / 2 / large, completion
        orders forced by harness-side delays (every permutation of <= 3 tasks, 4 in thorough; random
        patterns for more), layouts (C / F / strided / reversed), dtypes, every ic x stype x peak x time x
        getresp x eqsine, roll-off methods; fdepsd: resp x rolloff x ppc x hpfilter x detrend x winends x
        nbins; compared BIT FOR BIT with parallel='no' (this comparison is also the model-free oracle);
    (e) call sequences: serial then parallel, parallel twice, histories on then off, results of an
        earlier call unchanged by a later one, leftover module globals.
"""
import contextlib
import itertools
import multiprocessing as mp
import os
import sys
import time
import warnings

import numpy as np

from runner import Infra, TieBroken

ID = "C09"
LEAN_MODULES = ["PyYetiVerif.Props.C09", "PyYetiVerif.Props.C09Parent", "PyYetiVerif.Audit.C09"]
AUDIT_FILE = "PyYetiVerif/Audit/C09.lean"
THEOREMS = [
    "PyYetiVerif.C09." + n
    for n in (
        "schedule_independent parallel_eq_serial final_is_solo footprint_gives_hyp "
        "generated_footprints_ok generated_workers_complete "
        # parent side
        "generated_decision_is_std generated_helpers_std process_parallel_auto_rule process_parallel_yes_rule "
        "process_parallel_no_rule generated_pickle_guard_std auto_rule yes_rule no_rule unpicklable_peak_runs_serially "
        "picklable_peak_decision_unchanged invalid_option_raises "
        "pool_size_bounds pool_size_ignores_task_count generated_parent_ok generated_sites_complete "
        "generated_serial_is_worker_loop tasks_partition_outputs generated_outputs_partitioned "
        "assembly_eq_serial generated_srs_owner srs_hyp srs_final_cells peak_applied_once "
        "getresp_histories_eq_serial srs_routine_eq_serial generated_peak_travels_in_task_tuple"
    ).split()
]
TRUSTED = [
    "translators harness/translate/c09_footprint.py and c09_parent.py (Python ast; grammars stated in their "
    "docstrings; anything outside them breaks the tie), cross-checked behaviourally every run (recording arrays, "
    "recording pool)",
    "worker bodies are deterministic functions of (j, read-only inputs): scipy.signal.lfilter, numpy reductions, "
    "cyclecount.findap/rainflow are assumed deterministic within one process and across forked processes",
    "multiprocessing.RawArray / np.frombuffer give plain shared memory with atomic element writes; "
    "Pool.imap_unordered calls the function exactly once per item and its iterator ends only when all have returned",
    "OS scheduling cannot be exhibited by the model; completion orders are enumerated exactly on the recording "
    "in-process pool and sampled on the real pool by harness-side delays",
]
RULE = (
    "a case is one (routine, options, signal, frequency vector, worker count, completion order) whose parallel "
    "outputs are compared bit for bit with the serial outputs; on the recording pool the order is prescribed (all "
    "permutations of <= 4 tasks), on the real pool it is forced by delays and the observed order is recorded; "
    "non-trivial = at least 2 tasks and a completion order different from the submission order (real pool: on at "
    "least 2 workers); distinct by the option tuple, order and pool kind.  Decision cases: one argument tuple of "
    "_process_parallel with a substituted cpu count / platform, compared exactly with the Lean interpreter"
)
ASSUMPTIONS = ["fork start method (Linux default for multiprocessing.Pool in this Python)",
               "maxcpu is None or a non-negative integer",
               "pickle.dumps(f) raises exactly for the functions the pool cannot hand over (PeakArg.unpicklable of the model)"]
PARTIAL = (
    "partial: proved for the modelled protocol — schedule independence (tasks = deterministic step functions over "
    "shared cells, footprints regenerated from the source), the decision rule, the partition of the output arrays by "
    "the tasks' cells for any sizes, equality of the assembled outputs with the serial routine's (which starts from "
    "np.empty arrays) for every complete schedule, peak / eqsine applied once, histories equal.  NOT proved, sampled "
    "by the run-time comparison only: OS scheduling, RawArray / fork semantics (that a child's write is what the "
    "parent later reads), that Pool.imap_unordered runs every task exactly once and returns after all have finished, "
    "library code paths inside worker processes (lfilter, findap, rainflow taken as deterministic functions), and "
    "that a finished worker has written every cell its write patterns cover (hypothesis `hTot` of "
    "assembly_eq_serial; checked on recording arrays).  fdepsd's post-processing (G1 … G12, data frames) enters "
    "the theorem as an arbitrary function `post` of the output cells: that it is the same code on both paths is a "
    "regenerated fact (the tail does not mention `parallel`), its arithmetic is not modelled here (C10).  The override of "
    "srs.srs for a `peak` function that cannot be pickled (F53, repaired) is in the decision model (`yes_rule`, "
    "`auto_rule` take the peak argument as an input); what pickle accepts is an input of the model, not modelled"
)
MANIFEST = {
    "level_text": "Proof (Lean 4), worker side: in any system of deterministic tasks whose writes go only to cells "
    "owned by the task and whose steps depend only on read-only cells and the task's own cells, every complete "
    "schedule (any interleaving, worker count, completion order) ends in the same shared memory as serial execution "
    "(`schedule_independent`, `parallel_eq_serial`); a well-formed access footprint implies those hypotheses "
    "(`footprint_gives_hyp`).  Parent side: the decision stated outright for the regenerated tables, with the `peak` "
    "argument as an input (`auto_rule`: pool iff LF > 1 and size > 50000 and not getresp and cpu count > 1 and not "
    "Windows and `peak` is not a function pickle refuses; `yes_rule`: the pool unless `peak` is such a function — "
    "`unpicklable_peak_runs_serially`, regenerated guard `generated_pickle_guard_std` (repair F53); the helper alone, "
    "as fdepsd uses it: `process_parallel_auto_rule / _yes_rule / _no_rule`); pool size = maxcpu if 0 < maxcpu < cpu count, else 4/5 of the cpu count above four CPUs, else the "
    "cpu count — it does not depend on the number of tasks; `no_rule`, `invalid_option_raises`, `pool_size_bounds`); "
    "`tasks_partition_outputs` / `generated_outputs_partitioned`: for the regenerated footprints and shared-array "
    "shapes and ANY number of frequencies, columns, time steps and bins every cell of every output array is "
    "written by exactly one task; `assembly_eq_serial`: outputs after copy-out and any post-processing equal the "
    "serial routine's for every complete schedule although the serial routine starts from np.empty arrays; on the "
    "srs worker system `peak_applied_once` (each spectrum cell = eqsine scaling applied once to the peak function "
    "applied once to the response of its frequency, on both paths), `getresp_histories_eq_serial`, "
    "`srs_routine_eq_serial`.  Re-proved by `decide` on tables regenerated from srs.py / fdepsd.py on every run: "
    "the five worker footprints are well-formed and the workers are textually their serial loop bodies under a "
    "renaming derived from the parent's own copy-in / copy-out statements (`generated_footprints_ok`), the pool "
    "sites pass `siteOk` (`generated_parent_ok`: task list zip(range(LF), repeat(args, LF)), serial loop over the "
    "same index set with the same argument expressions in the same order — `generated_serial_is_worker_loop` —, "
    "every written array zero-filled with covered slabs and the same shape as its serial counterpart, np.empty "
    "arrays never read, inputs copied in, peak function called once in the worker and the serial body and never by "
    "the parent, path-independent tail), the helpers use C doubles viewed as float64 (`generated_helpers_std`).",
    "level_note": "Tied, not proved: footprints and ownership validated on recording arrays against Lean's "
    "`covers` / `ownerOf` / `part`; the decision against the Lean interpreter over a grid (exact); the parent's plan "
    "(pool size, worker, task list, shared shapes / element type / zero fill, argument tuple) against the Lean "
    "model on a recording in-process pool (exact); parallel outputs compared bit for bit with serial for every "
    "permutation of <= 4 tasks on the recording pool and under forced completion orders on the real pool "
    "(worker counts, maxcpu, layouts, dtypes, every option), call sequences.  Trusted: Lean kernel (axioms propext, "
    "Classical.choice, Quot.sound), the ast translators, determinism of scipy/numpy kernels inside a worker, "
    "fork start method, multiprocessing.Pool / RawArray semantics.  Partial by nature: the runtime (OS scheduler, "
    "shared-memory semantics) is outside any model.",
    "technique": "Lean 4 proofs (simulation invariant over interleavings; interpreter of the regenerated decision "
    "table; slab coverage by abstract cells; garbage-independence of the serial start) + two source-to-Lean "
    "translators re-checked by decide + run-time bit comparison under enumerated / forced completion orders",
}

_WS = None


_PARENT = None


def translate(ctx):
    global _WS, _PARENT
    from translate import c09_footprint

    _WS, _PARENT = c09_footprint.generate(ctx.repo, ctx.lean)
    return ["ParFootprint.lean", "ParFootprintParent.lean"]


# ---------------------------------------------------------------------------------------
# forcing completion orders from the harness (no source hook)

_DELAYS = None  # dict j -> seconds, set before the pool forks
# completion record, lock free (a worker killed by a mutated parent must not leave a lock behind): every task
# stamps its own slot with the system-wide monotonic clock when it returns and counts its executions
_STAMP = mp.RawArray("d", 8192)
_RUNS = mp.RawArray("i", 8192)
_PIDS = mp.RawArray("i", 8192)


def _wrap(mod, name):
    orig = getattr(mod, name)
    if getattr(orig, "_verif_wrapped", False):
        return

    def wrapper(args):
        j = args[0]
        if _DELAYS:
            time.sleep(_DELAYS.get(j, 0.0))
        r = orig(args)
        if isinstance(j, (int, np.integer)) and 0 <= j < len(_STAMP):
            _RUNS[j] += 1
            _PIDS[j] = os.getpid()
            _STAMP[j] = time.monotonic()
        return r

    wrapper.__module__ = orig.__module__
    wrapper.__qualname__ = orig.__qualname__
    wrapper.__name__ = orig.__name__
    wrapper._verif_wrapped = True
    wrapper._verif_orig = orig
    setattr(mod, name, wrapper)


def _install():
    from pyyeti import fdepsd, srs

    for n in ("_dosrs", "_dosrs_nohist", "_dosrs_ic", "_dosrs_nohist_ic"):
        if hasattr(srs, n):
            _wrap(srs, n)
    if hasattr(fdepsd, "_dofde"):
        _wrap(fdepsd, "_dofde")


def _set_delays(LF, pattern, seed, perm=None, gap=0.02):
    global _DELAYS
    rng = np.random.default_rng([seed, LF])
    if pattern == "none":
        _DELAYS = {}
    elif pattern == "perm":
        # `perm` is the wanted completion order: the task that shall finish k-th sleeps k gaps
        _DELAYS = {j: gap * k for k, j in enumerate(perm)}
    elif pattern == "reverse":
        _DELAYS = {j: 0.004 * (LF - 1 - j) for j in range(LF)}
    elif pattern == "first-last":
        _DELAYS = {0: 0.03}
    else:
        d = rng.permutation(LF)
        _DELAYS = {j: 0.003 * int(d[j]) for j in range(LF)}
    _reset_order()


def _reset_order():
    np.frombuffer(_STAMP)[:] = 0.0
    np.frombuffer(_RUNS, dtype=np.intc)[:] = 0


def _observed_order():
    """task indices in the order in which they returned (a task executed k times appears k times)"""
    st = np.frombuffer(_STAMP)
    runs = np.frombuffer(_RUNS, dtype=np.intc)
    js = np.nonzero(runs)[0]
    js = js[np.argsort(st[js], kind="stable")]
    out = []
    for j in js:
        out += [int(j)] * int(runs[j])
    return out


class _Hang(Exception):
    pass


@contextlib.contextmanager
def _deadline(seconds):
    """a call into the (possibly changed) parallel path must come back"""
    import signal

    def handler(signum, frame):
        raise _Hang("no return within %d s" % seconds)

    old = signal.signal(signal.SIGALRM, handler)
    signal.setitimer(signal.ITIMER_REAL, seconds)
    try:
        yield
    finally:
        signal.setitimer(signal.ITIMER_REAL, 0)
        signal.signal(signal.SIGALRM, old)


# ---------------------------------------------------------------------------------------
# substituting the cpu count, the platform and the pool class seen by srs.py / fdepsd.py (no source hook:
# the modules' own names `mp` and `os` are replaced by delegating proxies for the duration of a call)


class _Proxy(object):
    def __init__(self, base, **over):
        object.__setattr__(self, "_b", base)
        object.__setattr__(self, "_o", over)

    def __getattr__(self, n):
        o = object.__getattribute__(self, "_o")
        if n in o:
            return o[n]
        return getattr(object.__getattribute__(self, "_b"), n)


@contextlib.contextmanager
def _patched(cpu=None, win=None, pool=None):
    from pyyeti import fdepsd, srs

    saved = (srs.mp, srs.os, fdepsd.mp)
    over = {}
    if cpu is not None:
        over["cpu_count"] = lambda: cpu
    if pool is not None:
        over["Pool"] = pool
    mpx = _Proxy(saved[0], **over)
    srs.mp = mpx
    fdepsd.mp = mpx
    if win is not None:
        srs.os = _Proxy(saved[1], sys=_Proxy(saved[1].sys, platform="win32" if win else "linux"))
    try:
        yield
    finally:
        srs.mp, srs.os, fdepsd.mp = saved


_FAKE = {"order": None, "plans": []}
_GLOBALS = ("WN_", "SIG_", "ICVALS_", "SRSmax_", "HIST_", "ASV_", "BinAmps_", "Count_")


class _FakePool(object):
    """A recording, in-process stand-in for multiprocessing.Pool: runs the initialiser and the tasks in
    this process, the tasks in the order prescribed by _FAKE["order"] (a permutation of the task
    positions), and records what the parent handed over."""

    def __init__(self, processes=None, initializer=None, initargs=(), *a, **k):
        ia = []
        for x in initargs:
            if isinstance(x, tuple) and len(x) == 2 and x[0] is None:
                ia.append(None)
            elif isinstance(x, tuple) and len(x) == 2:
                raw, shape = x
                view = np.frombuffer(raw)
                ia.append({"len": len(raw), "ctype": getattr(getattr(raw, "_type_", None), "__name__", "?"),
                           "shape": tuple(int(v) for v in np.atleast_1d(shape)), "allzero": not view.any()})
            else:
                ia.append({"other": repr(type(x))})
        self.rec = {"processes": processes, "initializer": getattr(initializer, "__name__", None), "initargs": ia,
                    "calls": [], "extra": [repr(a), repr(sorted(k))] if (a or k) else []}
        self._init, self._initargs, self._saved = initializer, initargs, None
        _FAKE["plans"].append(self.rec)

    def __enter__(self):
        return self

    def __exit__(self, *exc):
        self._restore()
        return False

    def close(self):
        pass

    join = terminate = close

    def _restore(self):
        if self._saved is not None:
            mod, vals = self._saved
            for n, v in vals.items():
                setattr(mod, n, v)
            self._saved = None

    def _run(self, method, func, iterable, chunksize=None):
        tasks = list(iterable)
        self.rec["calls"].append({"method": method, "func": getattr(func, "__name__", repr(func)),
                                  "ids": [t[0] for t in tasks], "args": [t[1] for t in tasks], "chunksize": chunksize})
        mod = sys.modules.get(getattr(func, "__module__", None))
        if mod is not None and self._saved is None:
            self._saved = (mod, {n: getattr(mod, n) for n in _GLOBALS if hasattr(mod, n)})
        if self._init is not None:
            self._init(*self._initargs)
        order = [i for i in (_FAKE["order"] or []) if i < len(tasks)]
        order += [i for i in range(len(tasks)) if i not in order]
        for i in order:
            yield func(tasks[i])

    def imap_unordered(self, func, iterable, chunksize=1):
        return self._run("imap_unordered", func, iterable, chunksize)

    def imap(self, func, iterable, chunksize=1):
        return self._run("imap", func, iterable, chunksize)

    def map(self, func, iterable, chunksize=None):
        return list(self._run("map", func, iterable, chunksize))


# ---------------------------------------------------------------------------------------


def _bytes_of(obj):
    """canonical bytes of a result (arrays, dicts, DataFrames, namespaces)."""
    import pandas as pd

    if isinstance(obj, np.ndarray):
        return ("nd", obj.dtype.str, obj.shape, np.ascontiguousarray(obj).tobytes())
    if isinstance(obj, (pd.DataFrame, pd.Series)):
        return ("pd", tuple(map(str, getattr(obj, "columns", []))), _bytes_of(np.asarray(obj.index)), _bytes_of(obj.to_numpy()))
    if isinstance(obj, dict):
        return ("dict", tuple((k, _bytes_of(v)) for k, v in sorted(obj.items())))
    if isinstance(obj, (tuple, list)):
        return ("seq", tuple(_bytes_of(v) for v in obj))
    if hasattr(obj, "__dict__"):
        return _bytes_of({k: v for k, v in vars(obj).items() if k not in ("parallel", "ncpu")})
    if isinstance(obj, float):
        return ("f", np.float64(obj).tobytes())
    return ("o", repr(obj))


def _first_diff(a, b, path=""):
    if a[0] != b[0]:
        return path + ": kind %s vs %s" % (a[0], b[0])
    if a[0] == "nd":
        if a[1:3] != b[1:3]:
            return path + ": dtype/shape %s vs %s" % (a[1:3], b[1:3])
        if a[3] != b[3]:
            x = np.frombuffer(a[3], dtype=a[1]).reshape(a[2])
            y = np.frombuffer(b[3], dtype=b[1]).reshape(b[2])
            w = np.argwhere(~((x == y) | ((x != x) & (y != y))))
            return path + ": %d elements differ, first at %s: %r vs %r" % (len(w), w[0].tolist(), x[tuple(w[0])], y[tuple(w[0])])
        return None
    if a[0] in ("dict",):
        ka = [k for k, _ in a[1]]
        kb = [k for k, _ in b[1]]
        if ka != kb:
            return path + ": keys %s vs %s" % (ka, kb)
        for (k, va), (_, vb) in zip(a[1], b[1]):
            d = _first_diff(va, vb, path + "." + str(k))
            if d:
                return d
        return None
    if a[0] in ("seq", "pd"):
        if len(a) != len(b):
            return path + ": length"
        items_a = a[1] if a[0] == "seq" else a[1:]
        items_b = b[1] if b[0] == "seq" else b[1:]
        for i, (va, vb) in enumerate(zip(items_a, items_b)):
            if isinstance(va, tuple) and va and isinstance(va[0], str) and va[0] in ("nd", "pd", "dict", "seq", "f", "o"):
                d = _first_diff(va, vb, path + "[%d]" % i)
                if d:
                    return d
            elif va != vb:
                return path + "[%d]: %r vs %r" % (i, va, vb)
        return None
    return None if a == b else path + ": %r vs %r" % (a[1], b[1])


def _signal(rng, N, H, kind):
    t = np.arange(N)
    if kind == "noise":
        s = rng.standard_normal((N, H))
    elif kind == "sine":
        s = np.sin(0.3 * t)[:, None] * (1 + np.arange(H)) + 0.1 * rng.standard_normal((N, H))
    else:
        s = np.cumsum(rng.standard_normal((N, H)), axis=0) * 0.1 + 2.0
    return s


_STYPES = ["absacce", "relacce", "relvelo", "reldisp", "pvelo", "pacce"]
_ICS = ["zero", "shift", "mshift", "steady"]
_TIMES = ["primary", "total", "residual"]
_PEAKS = ["abs", "pos", "neg", "poss", "negs", "rms", "callable-meansq", "callable-lambda"]
_LAYOUTS = ["C", "C", "F", "strided", "colstrided", "reversed"]
_ROLLS = ["none", "none", "none", "fft", "lanczos", "prefilter", "linear"]


def _srs_cases(ctx):
    rng = ctx.rng
    peaks = ["abs", "pos", "neg", "poss", "negs", "rms", "rms", "callable-meansq", "callable-meansq", "callable-lambda"]
    n = ctx.pick(220, 1500)
    cases = []
    grid = list(itertools.product(_STYPES, _ICS, [False, True]))
    rng.shuffle(grid)
    for i in range(n):
        stype, ic, getresp = grid[i % len(grid)]
        LF = rng.randint(2, 14)
        cases.append(
            dict(
                stype=stype, ic=ic, getresp=getresp, time=rng.choice(_TIMES), peak=rng.choice(peaks),
                # worker counts 1 .. #tasks + 1, and maxcpu None / large (-> 4/5 of the cpu count)
                maxcpu=rng.choice([1, 2, 3, 5, 16, None, 64, rng.randint(1, LF + 1), LF + 1]), LF=LF, N=rng.randint(20, 300),
                H=rng.choice([1, 1, 2, 3]), oneD=rng.random() < 0.3, kind=rng.choice(["noise", "sine", "walk"]),
                pattern=rng.choice(["none", "reverse", "random", "random", "first-last"]),
                eqsine=rng.random() < 0.2, zero_freq=rng.random() < 0.15, dup_freq=rng.random() < 0.3,
                seed=rng.randint(0, 10 ** 6),
                # dtypes of the caller's arrays: the shared arrays of the parallel path are always double
                fdtype=rng.choice(["float64", "float64", "float32", "int64"]),
                sdtype=rng.choice(["float64", "float64", "float32", "int64"]),
                layout=rng.choice(_LAYOUTS), flayout=rng.choice(["C", "C", "strided"]),
                rolloff=rng.choice(_ROLLS), ppc=rng.choice([4, 10, 12]),
            )
        )
    return cases


def _perm_cases(ctx, pool, maxLF):
    """every completion order of <= maxLF tasks; the options are cycled so that every ic x getresp (srs) and every
    resp (fdepsd) meets every order of 2 and 3 tasks and a rotating share of the orders of 4 (5) tasks"""
    rng = ctx.rng
    out = []
    k = 0
    srs_grid = list(itertools.product(_ICS, [False, True]))
    for LF in range(1, maxLF + 1):
        perms = list(itertools.permutations(range(LF)))
        reps = len(srs_grid) if len(perms) <= 6 else 1
        for pi, perm in enumerate(perms):
            for r in range(reps):
                ic, getresp = srs_grid[(pi + r) % len(srs_grid)]
                k += 1
                out.append(("srs", dict(
                    stype=_STYPES[k % 6], ic=ic, getresp=getresp, time=_TIMES[k % 3], peak=_PEAKS[k % 7],
                    maxcpu=LF + 1, LF=LF, N=rng.randint(20, 120), H=1 + k % 3, oneD=(k % 5 == 0), kind="noise",
                    pattern="perm", order=list(perm), pool=pool, eqsine=(k % 4 == 0), zero_freq=(k % 7 == 0), dup_freq=(k % 3 == 0),
                    seed=rng.randint(0, 10 ** 6), fdtype="float64", sdtype="float64", layout=_LAYOUTS[k % 6], flayout="C",
                    rolloff="none", ppc=10, gap=0.02)))
            if pool == "fake" or LF <= 3:
                out.append(("fdepsd", dict(
                    resp=["absacce", "pvelo"][pi % 2], LF=LF, N=rng.randint(400, 900), nbins=[8, 20, 300][pi % 3], maxcpu=LF + 1,
                    pattern="perm", order=list(perm), pool=pool, dup_freq=(pi % 3 == 0), seed=rng.randint(0, 10 ** 6),
                    fdtype="float64", sdtype="float64", gap=0.02)))
    return out


def _meansq(resp):
    """a user peak function (documented: any callable reducing axis 0); module level: pickle accepts it, the
    parallel path must really be used"""
    return np.mean(resp * resp, axis=0)


# the same function as something pickle refuses (attribute lookup of '<lambda>' fails): since the repair F53
# (6fe4fad) srs.srs runs such a `peak` serially whatever `parallel` says; before it the parallel path raised
_LAMBDA_PEAK = lambda resp: np.mean(resp * resp, axis=0)  # noqa: E731


def _peak_of(c):
    return {"callable-meansq": _meansq, "callable-lambda": _LAMBDA_PEAK}.get(c["peak"], c["peak"])


def _peak_kind(routine, c):
    if routine != "srs":
        return "name"
    return {"callable-meansq": "picklable", "callable-lambda": "unpicklable"}.get(c["peak"], "name")


def _cast(a, dtype, scale):
    """the same data handed over as float32 / integer arrays (integers: scaled and rounded first)"""
    if not dtype or dtype == "float64":
        return a
    if dtype.startswith("int"):
        return np.round(np.asarray(a) * scale).astype(dtype)
    return np.asarray(a).astype(dtype)


def _layout(a, lay):
    """the same values in another memory layout"""
    if lay == "F" and a.ndim == 2:
        return np.asfortranarray(a)
    if lay == "strided":
        big = np.repeat(a, 2, axis=0)
        big[1::2] = 7
        return big[::2]
    if lay == "colstrided" and a.ndim == 2:
        big = np.repeat(a, 2, axis=1)
        big[:, 1::2] = 7
        return big[:, ::2]
    if lay == "reversed":
        return np.ascontiguousarray(a[::-1])[::-1]
    return a


def _srs_inputs(c):
    r = np.random.default_rng(c["seed"])
    sig = _signal(r, c["N"], c["H"], c["kind"])
    if c["oneD"]:
        sig = sig[:, 0]
    freq = np.sort(r.uniform(2.0, 40.0, c["LF"]))
    if c["zero_freq"]:
        freq[0] = 0.0
    if c.get("dup_freq") and c["LF"] >= 3:
        k = 1 + int(r.integers(0, c["LF"] - 1))
        freq[k] = freq[k - 1]  # repeated frequency (e.g. two stacked bands sharing an end point)
    freq, sig = _cast(freq, c.get("fdtype"), 1.0), _cast(sig, c.get("sdtype"), 64.0)
    return _layout(sig, c.get("layout", "C")), _layout(freq, c.get("flayout", "C"))


def _run_srs(c, parallel):
    from pyyeti import srs

    sig, freq = _srs_inputs(c)
    if parallel != "no":
        if c.get("pool") == "fake":
            _set_delays(c["LF"], "none", c["seed"])
        else:
            _set_delays(c["LF"], c["pattern"], c["seed"], c.get("order"), c.get("gap", 0.02))
    peak = _peak_of(c)
    with warnings.catch_warnings():
        warnings.simplefilter("ignore")
        out = srs.srs(sig, 200.0, freq, 20.0, ic=c["ic"], stype=c["stype"], peak=peak, eqsine=c["eqsine"],
                      time=c["time"], getresp=c["getresp"], parallel=parallel, maxcpu=c["maxcpu"],
                      rolloff=c.get("rolloff", "none"), ppc=c.get("ppc", 10))
    return out


def _fde_cases(ctx):
    rng = ctx.rng
    n = ctx.pick(24, 150)
    out = []
    for _ in range(n):
        LF = rng.randint(2, 9)
        out.append(dict(
            resp=rng.choice(["absacce", "pvelo"]), LF=LF, N=rng.randint(400, 1500), nbins=rng.choice([8, 20, 300]),
            maxcpu=rng.choice([1, 2, 3, 5, 16, None, 64, LF + 1]),
            pattern=rng.choice(["none", "reverse", "random", "first-last"]), dup_freq=rng.random() < 0.4,
            seed=rng.randint(0, 10 ** 6), fdtype=rng.choice(["float64", "float64", "float32", "int64"]),
            sdtype=rng.choice(["float64", "float64", "float32", "int64"]),
            # every option that shapes what reaches the pool
            rolloff=rng.choice(["none", "none", "lanczos", "fft", "prefilter", "linear"]), ppc=rng.choice([4, 8, 12]),
            hpfilter=rng.choice([None, None, 5.0, 2.0]), detrend=rng.random() < 0.5,
            winends=rng.choice(["none", "none", "auto"]), T0=rng.choice([60.0, 7.5]), layout=rng.choice(["C", "C", "strided", "reversed"]),
        ))
    # how the frequencies are shared out among the workers: every worker count up to the CPU count with frequency counts
    # that are not multiples of it, in particular the pairs where LF / ncpu * ncpu rounds below LF in floating point
    # (a block split computed with float edges loses the last frequency there)
    ncpus = os.cpu_count() or 1
    tricky = [(LF, nc) for nc in range(2, min(ncpus, 16) + 1) for LF in range(nc + 1, 65) if int(nc * (LF / nc)) < LF]
    plain = [(LF, nc) for nc in range(2, min(ncpus, 16) + 1) for LF in (nc + 1, 2 * nc - 1, 2 * nc + 1, 3 * nc + 2)]
    for LF, nc in rng.sample(tricky, min(len(tricky), ctx.pick(5, 40))) + rng.sample(plain, min(len(plain), ctx.pick(3, 30))):
        out.append(dict(resp=rng.choice(["absacce", "pvelo"]), LF=LF, N=rng.randint(300, 600), nbins=rng.choice([8, 20]),
                        maxcpu=nc, pattern="none", dup_freq=False, seed=rng.randint(0, 10 ** 6), fdtype="float64",
                        sdtype="float64", rolloff="none", ppc=12, hpfilter=None, detrend=False, winends="none", T0=60.0,
                        layout="C", split=True))
    return out + [
        # exact boundary values: an event repeated later at exactly 1/2 (1/4) level after every oscillator has rung
        # down, nothing that breaks the exact scaling (no detrend / window / filter / resampling): the largest cycle of
        # the repeat lies exactly ON an amplitude level when nbins is even (a multiple of 4)
        dict(resp=rng.choice(["absacce", "pvelo"]), LF=rng.randint(2, 4), N=0, nbins=rng.choice([8, 20, 300]),
             maxcpu=rng.choice([2, 3]), pattern=rng.choice(["none", "reverse", "random"]), dup_freq=False,
             seed=rng.randint(0, 10 ** 6), fdtype="float64", sdtype="float64", sigkind="repeat-scaled",
             level=rng.choice([0.5, 0.5, 0.25]))
        for _ in range(ctx.pick(4, 24))
    ]


def _run_fde(c, parallel):
    from pyyeti import fdepsd

    r = np.random.default_rng(c["seed"])
    if parallel != "no":
        if c.get("pool") == "fake":
            _set_delays(c["LF"], "none", c["seed"])
        else:
            _set_delays(c["LF"], c["pattern"], c["seed"], c.get("order"), c.get("gap", 0.02))
    if c.get("sigkind") == "repeat-scaled":
        burst = r.standard_normal(300)
        gap = np.zeros(5000)
        sig = np.concatenate((burst, gap, c["level"] * burst, gap))
        freq = np.sort(r.uniform(20.0, 33.0, c["LF"]))  # sr / freq > ppc: no resampling
        with warnings.catch_warnings():
            warnings.simplefilter("ignore")
            return fdepsd.fdepsd(sig, 400.0, freq, 15.0, resp=c["resp"], nbins=c["nbins"], parallel=parallel,
                                 maxcpu=c["maxcpu"], verbose=False, rolloff="none", winends=None, detrend=False,
                                 hpfilter=None, T0=sig.size / 400.0)
    sig = r.standard_normal(c["N"])
    freq = np.sort(r.uniform(5.0, 60.0, c["LF"]))
    if c.get("dup_freq") and c["LF"] >= 3:
        k = 1 + int(r.integers(0, c["LF"] - 1))
        freq[k] = freq[k - 1]
    freq, sig = _cast(freq, c.get("fdtype"), 1.0), _cast(sig, c.get("sdtype"), 64.0)
    sig = _layout(sig, c.get("layout", "C"))
    kw = {}
    if "hpfilter" in c:
        kw = dict(hpfilter=c["hpfilter"], detrend=c["detrend"], ppc=c["ppc"], T0=c["T0"])
    we = c.get("winends", "none")
    with warnings.catch_warnings():
        warnings.simplefilter("ignore")
        return fdepsd.fdepsd(sig, 400.0, freq, 15.0, resp=c["resp"], nbins=c["nbins"], parallel=parallel,
                             maxcpu=c["maxcpu"], verbose=False, rolloff=c.get("rolloff", "none"),
                             winends=None if we == "none" else we, **kw)


def _execute(routine, c, parallel):
    """one call of the routine: parallel='no', or the parallel path on the real pool / on the recording pool
    (c['pool'] == 'fake': tasks executed in-process in the order c['order']); -> (outputs, plans)"""
    run = _run_srs if routine == "srs" else _run_fde
    if parallel == "no":
        return run(c, parallel), None
    if c.get("pool") != "fake":
        with _deadline(180):
            return run(c, parallel), None
    _FAKE["plans"] = []
    _FAKE["order"] = list(c.get("order") or [])
    _reset_order()
    with _patched(cpu=c.get("cpu", 16), win=False, pool=_FakePool):
        out = run(c, parallel)
    return out, _FAKE["plans"]


def _doic(c):
    return c["ic"] == "steady" and c["stype"] in ("absacce", "reldisp", "pvelo", "pacce")


def _plan_query(routine, c, ser, plans, par):
    """-> (driver lines, checker(replies) -> list of differences) for one recording-pool run"""
    mode = c.get("parallel", "yes")
    LF = c["LF"]
    if routine == "srs":
        sh = ser[0] if isinstance(ser, tuple) else ser
        H = 1 if sh.ndim == 1 else sh.shape[1]
        atoms = ["doic" if _doic(c) else "not (doic)"]
        env = {"H": H}
        if c["getresp"]:
            atoms.append("getresp")
            T = ser[1]["hist"].shape[0]
            if c["time"] == "residual":
                atoms.append("ptr == 2")
                env["N - M"] = T
            else:
                atoms.append("not (ptr == 2)")
                env["N"] = T
        rname = "srs.srs"
        getresp = c["getresp"]
    else:
        atoms, env, rname, getresp = [], {"nbins": c["nbins"]}, "fdepsd.fdepsd", False
    q_plan = "plan %s | %s | %d | %s" % (rname, ";".join(atoms), LF, ";".join("%s=%d" % kv for kv in env.items()))
    mc = c["maxcpu"]
    size = c["N"] * (1 if c["oneD"] else c["H"]) if routine == "srs" else int(np.size(par.sig))
    q_dec = "dec %s %d %d %s %d %d 0 %s %s" % (mode, LF, size, "none" if mc is None else mc, 1 if getresp else 0, c.get("cpu", 16),
                                               routine, _peak_kind(routine, c))

    def check(rep_plan, rep_dec):
        diffs = []
        if rep_dec.startswith("no"):
            return ["the model decides serial (%s) but a pool was created" % rep_dec] if plans else []
        if not plans:
            return ["the model decides %s but no pool was created" % rep_dec]
        if len(plans) != 1 or len(plans[0]["calls"]) != 1:
            return ["%d pools / %s calls recorded" % (len(plans), [len(p["calls"]) for p in plans])]
        pl, call = plans[0], plans[0]["calls"][0]
        f = rep_plan.split("|")
        if len(f) != 8:
            return ["model has no plan: %s" % rep_plan]
        worker, init, procs, method, tasks, shared, params, pargs = f
        if worker != rname.split(".")[0] + "." + call["func"]:
            diffs.append("worker %s vs model %s" % (call["func"], worker))
        if init != pl["initializer"]:
            diffs.append("initializer %s vs model %s" % (pl["initializer"], init))
        if method != call["method"]:
            diffs.append("pool method %s vs model %s" % (call["method"], method))
        if ",".join(str(i) for i in call["ids"]) != tasks:
            diffs.append("task list %s vs model %s" % (call["ids"], tasks))
        if rep_dec != "yes %s" % pl["processes"]:
            diffs.append("pool size %r vs decision model %r" % (pl["processes"], rep_dec))
        decl = shared.split(",")
        if len(decl) != len(pl["initargs"]):
            diffs.append("%d initargs vs %d shared declarations" % (len(pl["initargs"]), len(decl)))
        else:
            for d, ia in zip(decl, pl["initargs"]):
                glob, var, kind, shape = d.split(":")
                if shape == "none":
                    if ia is not None:
                        diffs.append("%s allocated but the model says (None, None)" % glob)
                    continue
                if ia is None or "other" in ia:
                    diffs.append("%s: %r vs model %s" % (glob, ia, d))
                    continue
                if ia["ctype"] != "c_double" or ia["len"] != int(np.prod(ia["shape"])):
                    diffs.append("%s: RawArray of %d %s for shape %s" % (glob, ia["len"], ia["ctype"], ia["shape"]))
                if kind == "zeros":
                    if "x".join(str(v) for v in ia["shape"]) != shape:
                        diffs.append("%s: shape %s vs model %s" % (glob, ia["shape"], shape))
                    if glob != "BinAmps_" and not ia["allzero"]:
                        diffs.append("%s: not zero filled" % glob)
                elif glob == "WN_" and ia["shape"] != (LF,):
                    diffs.append("WN_: shape %s for %d frequencies" % (ia["shape"], LF))
        nargs = {len(a) for a in call["args"]}
        if nargs != {len(params.split(","))}:
            diffs.append("argument tuples of length %s for parameters (%s)" % (sorted(nargs), params))
        if len({id(a) for a in call["args"]}) > 1 and len({repr(a) for a in call["args"]}) > 1:
            diffs.append("tasks receive different argument tuples")
        # copy-out: the returned arrays are views of the shared arrays handed to the pool
        return diffs

    return [q_plan, q_dec], check


def _compare_all(ctx, report, hints=(), extra=()):
    """The bit comparison parallel vs serial. `report(kind, case, detail)` is called on a difference."""
    _install()
    cases = [("srs", c) for c in _srs_cases(ctx)] + [("fdepsd", c) for c in _fde_cases(ctx)]
    cases = [(h["routine"], h["case"]) for h in hints] + list(extra) + cases
    plan_checks = []
    for routine, c in cases:
        fake = c.get("pool") == "fake"
        # what was generated is counted before the call: a case that raises is a disagreement, not a missed branch
        ctx.count("%s:%s" % (routine, c.get("ic", c.get("resp"))))
        ctx.count("pattern:" + c["pattern"])
        ctx.count("pool:" + ("recording" if fake else "real"))
        if c.get("dup_freq") and c["LF"] >= 3:
            ctx.count("dup-freq:" + routine)
        ctx.count("maxcpu:%s" % c["maxcpu"])
        if routine == "srs":
            ctx.count("stype:" + c["stype"])
            ctx.count("getresp:%s" % c["getresp"])
            ctx.count("peak:" + c["peak"])
            ctx.count("layout:" + c.get("layout", "C"))
            ctx.count("rolloff:" + c.get("rolloff", "none"))
            ctx.count("time:" + c["time"])
        else:
            ctx.count("fde-rolloff:" + c.get("rolloff", "none"))
            ctx.count("fde-hpfilter:%s" % c.get("hpfilter", "default"))
        try:
            ser, _ = _execute(routine, c, "no")
            par, plans = _execute(routine, c, c.get("parallel", "yes"))
        except Exception as e:  # a crash of the parallel path is a finding, of the serial one too
            ctx.case((routine, tuple(sorted((k, str(v)) for k, v in c.items())), "raised"), nontrivial=False)
            report(routine, c, "exception %s: %s" % (type(e).__name__, e))
            continue
        order = _observed_order()
        d = _first_diff(_bytes_of(par), _bytes_of(ser), routine)
        if fake:
            nontriv = c["LF"] >= 2 and order != sorted(order)
        else:
            nontriv = c["LF"] >= 2 and (c["maxcpu"] is None or c["maxcpu"] >= 2) and order != sorted(order)
        ctx.case((routine, tuple(sorted((k, str(v)) for k, v in c.items())), tuple(order)), nontrivial=nontriv)
        if c["pattern"] == "perm":
            want = list(c["order"])
            hit = order == want
            ctx.count("perm-%s:%s" % ("recording" if fake else "real", "observed" if hit else "missed"))
            if routine == "srs" and c["peak"] == "callable-lambda":
                pass  # serial fallback: no completion order to observe (the same order is met with other peaks)
            elif hit:
                _PERMS_SEEN.setdefault(("recording" if fake else "real", routine, c["LF"]), set()).add(tuple(order))
        if not fake:
            # "maxcpu: maximum number of CPUs to use": the tasks must not have run in more processes than that
            pids = {int(_PIDS[j]) for j in set(order)}
            if c["maxcpu"] and len(pids) > c["maxcpu"]:
                report(routine, c, "tasks ran in %d different worker processes with maxcpu=%d" % (len(pids), c["maxcpu"]))
        # an unpicklable `peak` is run by the serial loop (no task reaches a worker); a picklable callable is not
        fallback = routine == "srs" and c["peak"] == "callable-lambda"
        if fallback:
            ctx.count("unpicklable-peak:" + ("recording" if fake else "real"))
            if order:
                report(routine, c, "tasks %s ran in the pool although `peak` cannot be pickled" % order)
        elif routine == "srs" and c["peak"] == "callable-meansq" and len(order) == c["LF"]:
            ctx.count("picklable-callable-peak-in-pool:" + ("recording" if fake else "real"))
        went_serial = fallback or (fake and c.get("parallel") == "auto" and not plans)
        if len(order) != c["LF"] and not went_serial:
            report(routine, c, "the pool ran %d tasks for %d frequencies (observed %s)" % (len(order), c["LF"], order))
        if d:
            report(routine, c, d)
        if fake and c.get("parallel") == "auto":
            ctx.count("auto:parallel" if plans else "auto:serial")
        if fake and plans is not None:
            qs, chk = _plan_query(routine, c, ser, plans, par)
            plan_checks.append((qs, chk, routine, c))
        if len(ctx.samples) < 4 and nontriv:
            ctx.sample({"routine": routine, "case": c, "observed_completion_order": order})
    return plan_checks


_PERMS_SEEN = {}
# F53 (repaired in /repo by `fix:` commit 6fe4fad): a `peak` function that cannot be pickled made the parallel path
# raise where parallel='no' returns the spectrum.  The probe stays as a regression guard: it passes on the repaired
# tree and reports this family again if the PicklingError ever returns (tools/reverttest.sh 6fe4fad C09)
FIXED_F53 = "parallel-path-raises:srs:peak-callable-not-picklable"
REPORT_UNPICKLABLE_PEAK = True


# ---------------------------------------------------------------------------------------
# behavioural validation of the generated footprint on recording arrays


class _Rec(np.ndarray):
    """ndarray that records the element sets written / read through it."""

    def __new__(cls, arr, name, log):
        obj = np.asarray(arr).view(cls)
        obj._name = name
        obj._log = log
        obj._ids = np.arange(obj.size).reshape(obj.shape)
        return obj

    def __array_finalize__(self, obj):
        if obj is None:
            return
        self._name = getattr(obj, "_name", None)
        self._log = getattr(obj, "_log", None)
        self._ids = None  # views/results are plain data

    def __setitem__(self, key, value):
        if self._ids is not None:
            self._log.append(("w", self._name, np.unique(self._ids[key]).tolist()))
        np.ndarray.__setitem__(self.view(np.ndarray), key, value)

    def __getitem__(self, key):
        if self._ids is not None:
            self._log.append(("r", self._name, np.unique(np.asarray(self._ids[key])).tolist()))
        return np.ndarray.__getitem__(self.view(np.ndarray), key)

    def __array_ufunc__(self, ufunc, method, *inputs, out=None, **kw):
        ins = []
        for x in inputs:
            if isinstance(x, _Rec):
                if x._ids is not None:
                    x._log.append(("r", x._name, None))  # whole array read
                x = x.view(np.ndarray)
            ins.append(x)
        if out is not None:
            outs = []
            for x in out:
                if isinstance(x, _Rec):
                    if x._ids is not None:
                        x._log.append(("w", x._name, None))
                    x = x.view(np.ndarray)
                outs.append(x)
            kw["out"] = tuple(outs)
        return getattr(ufunc, method)(*ins, **kw)


def _validate_footprint(ctx):
    from pyyeti import fdepsd, srs

    if _WS is None:
        raise Infra("translator did not run")
    drv = ctx.driver("C09")
    LF, N, H, nb = 4, 40, 2, 5
    rng = np.random.default_rng(ctx.seed)
    queries, expect, meta = [], [], []
    writers = {}  # (worker, array, cell) -> tasks that wrote it
    shapes_of = {}
    for w in _WS:
        mod = srs if w["module"] == "srs" else fdepsd
        fn = getattr(mod, w["name"])
        fn = getattr(fn, "_verif_orig", fn)
        for j in range(LF):
            log = []
            shapes = {"WN_": (LF,), "SRSmax_": (LF, H), "ICVALS_": (H,), "SIG_": (N, H), "HIST_": (N, H, LF),
                      "ASV_": (3, LF), "BinAmps_": (LF, nb), "Count_": (LF, nb)}
            if w["module"] == "fdepsd":
                shapes["SIG_"] = (400,)
            saved = {}
            for name in w["shared"]:
                base = rng.standard_normal(shapes[name])
                if name == "WN_":
                    base = np.linspace(20.0, 90.0, LF)
                if name == "BinAmps_":
                    base = np.tile(np.arange(nb) / nb, (LF, 1))
                saved[name] = getattr(mod, name, None)
                setattr(mod, name, _Rec(base, name, log))
            try:
                if w["module"] == "srs":
                    extra = ("absacce",) if w["name"].endswith("_ic") else ()
                    fn((j, (srs.absacce, 20.0, 1 / 200.0, srs._absmeth, 0) + extra))
                else:
                    fn((j, (srs.absacce, 20.0, 1 / 400.0, False)))
            finally:
                for name, v in saved.items():
                    setattr(mod, name, v)
            written, read = {}, {}
            for kind, name, ids in log:
                tgt = written if kind == "w" else read
                full = set(range(int(np.prod(shapes[name]))))
                tgt.setdefault(name, set()).update(full if ids is None else ids)
            for name, ids in written.items():
                shapes_of[(w["name"], name)] = shapes[name]
                for flat in ids:
                    writers.setdefault((w["name"], name, flat), []).append(j)
            # every cell of every shared array: does Lean say a write/read pattern covers it?
            for name in w["shared"]:
                shp = shapes[name]
                for flat in range(int(np.prod(shp))):
                    idx = np.unravel_index(flat, shp)
                    for kind, pats, actual in (("w", w["writes"], written), ("r", w["reads"], read)):
                        pl = [p for p in pats if p[0] == name]
                        act = flat in actual.get(name, ())
                        if not pl:
                            if act:
                                ctx.disagree("footprint-" + kind, {"worker": w["name"], "array": name, "j": j, "cell": list(map(int, idx))},
                                             "accessed", "no pattern for this array")
                            continue
                        for p in pl:
                            toks = " ".join(t.replace("const ", "c") for t in p[1])
                            queries.append("cov %d %s %s | %s %s" % (j, name, toks, name, " ".join(str(int(v)) for v in idx)))
                        expect.append((len(pl), act))
                        meta.append((w["name"], kind, name, j, tuple(int(v) for v in idx)))
    rep = drv.ask(queries)
    pos = 0
    for (npat, act), m in zip(expect, meta):
        cov = any(r == "1" for r in rep[pos : pos + npat])
        if any(r not in ("0", "1") for r in rep[pos : pos + npat]):
            raise Infra("driver C09 refused a query")
        pos += npat
        ctx.evaluations += 1
        # writes must be exactly the covered cells; reads must be covered (a pattern may over-approximate reads)
        if m[1] == "w" and cov != act:
            ctx.disagree("footprint-writes", {"worker": m[0], "array": m[2], "j": m[3], "cell": list(m[4])},
                         "written" if act else "not written", "covered" if cov else "not covered")
        if m[1] == "r" and act and not cov:
            ctx.disagree("footprint-reads", {"worker": m[0], "array": m[2], "j": m[3], "cell": list(m[4])},
                         "read", "not covered")
    ctx.count("footprint-cells-checked", len(expect))
    # partition: every cell of every written array is written by exactly one task, the one Lean's `ownerOf` names,
    # and Lean's `part` (exactly one covering task per cell, = the owner) holds on the concrete shape
    q2, m2 = [], []
    for (wname, arr), shp in sorted(shapes_of.items()):
        full = "%s.%s" % ("srs" if wname.startswith("_dosrs") else "fdepsd", wname)
        q2.append("part %s %d | %s %s" % (full, LF, arr, " ".join(str(v) for v in shp)))
        m2.append(("part", wname, arr, None))
        for flat in range(int(np.prod(shp))):
            idx = [int(v) for v in np.unravel_index(flat, shp)]
            q2.append("own %s | %s %s" % (full, arr, " ".join(map(str, idx))))
            m2.append(("own", wname, arr, (flat, idx)))
    rep2 = drv.ask(q2)
    for r, (kind, wname, arr, cell) in zip(rep2, m2):
        ctx.evaluations += 1
        if kind == "part":
            if r != "ok":
                ctx.disagree("partition", {"worker": wname, "array": arr, "shape": list(shapes_of[(wname, arr)])},
                             "the run on recording arrays", "model: %s" % r)
            continue
        flat, idx = cell
        ws_ = sorted(writers.get((wname, arr, flat), []))
        if [str(j) for j in ws_] != [r]:
            ctx.disagree("partition", {"worker": wname, "array": arr, "cell": idx}, "written by tasks %s" % ws_, "owner %s" % r)
    ctx.count("partition-cells-checked", len(q2))


# ---------------------------------------------------------------------------------------
# the decision: real `_process_parallel` against the Lean interpreter of the regenerated table


def _decision_stream(ctx):
    from pyyeti import srs

    rng = ctx.rng
    grid = []
    modes = ["auto", "yes", "no", "maybe", "<empty>", "Yes"]
    LFs = [0, 1, 2, 7]
    sizes = [0, 49999, 50000, 50001, 10 ** 6]
    maxcpus = [None, 0, 1, 2, 4, 5, 13, 14, 15, 16, 64]
    cpus = [1, 2, 4, 5, 6, 14, 15, 16, 17, 64]
    full = list(itertools.product(modes, LFs, sizes, maxcpus, [False, True], cpus, [False, True]))
    if ctx.thorough:
        grid = full
    else:
        grid = rng.sample(full, 2500)
        # every threshold from both sides
        grid += [("auto", lf, sz, 14, gr, cpu, win) for lf in (1, 2) for sz in (50000, 50001) for gr in (False, True)
                 for cpu in (1, 2) for win in (False, True)]
        grid += [("yes", 3, 10, mc, False, cpu, False) for mc in maxcpus for cpu in cpus]
    qs, impl = [], []
    for mode, lf, sz, mc, gr, cpu, win in grid:
        pm = "" if mode == "<empty>" else mode
        try:
            with _patched(cpu=cpu, win=win):
                r = srs._process_parallel(pm, lf, sz, mc, gr)
            r = "%s %s" % (r[0], r[1])
        except ValueError:
            r = "raise"
        impl.append(r)
        qs.append("dec %s %d %d %s %d %d %d" % (mode, lf, sz, "none" if mc is None else mc, int(gr), cpu, int(win)))
    rep = ctx.driver("C09").ask(qs)
    for q, a, b, g in zip(qs, impl, rep, grid):
        took = a.split()[0] if a != "raise" else "raise"
        ctx.case(("dec", q), nontrivial=True, branch="decision:%s->%s" % (g[0] if g[0] in ("auto", "yes", "no") else "invalid", took))
        if a != b:
            ctx.disagree("decision", {"args": q}, a, b)


# ---------------------------------------------------------------------------------------
# call sequences


def _sequence_stream(ctx, report):
    """serial then parallel, parallel twice, histories on then off; the arrays returned by an earlier call must
    not change when a later call runs (they are views of shared memory); stale module globals in the parent must
    not leak into a later pool"""
    from pyyeti import fdepsd, srs

    _install()
    rng = ctx.rng
    for k in range(ctx.pick(3, 12)):
        base = dict(stype=rng.choice(_STYPES), ic=rng.choice(_ICS), time=rng.choice(_TIMES), peak=rng.choice(_PEAKS),
                    maxcpu=rng.choice([2, 3]), LF=rng.randint(2, 6), N=rng.randint(30, 120), H=rng.choice([1, 2]),
                    oneD=False, kind="noise", pattern=rng.choice(["reverse", "random"]), eqsine=rng.random() < 0.3,
                    zero_freq=False, dup_freq=False, fdtype="float64", sdtype="float64", layout="C", flayout="C",
                    rolloff="none", ppc=10)
        steps = []
        for i in range(4):
            c = dict(base, getresp=[True, False, True, False][(i + k) % 4], seed=rng.randint(0, 10 ** 6))
            if i == 2:
                c["LF"] = base["LF"] + 1  # another number of tasks than the call before
            steps.append(c)
        seq = {"routine": "srs", "sequence": steps, "stale_globals": k % 2 == 1}
        d = _run_sequence(seq)
        ctx.case(("seq", repr(seq)), nontrivial=True, branch="sequence:srs")
        if d:
            report("srs", seq, d)
    for k in range(ctx.pick(2, 6)):
        steps = [dict(resp=rng.choice(["absacce", "pvelo"]), LF=rng.randint(2, 5), N=rng.randint(400, 800), nbins=rng.choice([8, 20]),
                      maxcpu=2, pattern="reverse", dup_freq=False, seed=rng.randint(0, 10 ** 6), fdtype="float64", sdtype="float64")
                 for _ in range(3)]
        seq = {"routine": "fdepsd", "sequence": steps, "stale_globals": k % 2 == 1}
        d = _run_sequence(seq)
        ctx.case(("seq", repr(seq)), nontrivial=True, branch="sequence:fdepsd")
        if d:
            report("fdepsd", seq, d)


def _run_sequence(seq):
    """-> None or a description of the first difference"""
    from pyyeti import fdepsd, srs

    routine = seq["routine"]
    mod = srs if routine == "srs" else fdepsd
    names = [n for n in _GLOBALS if hasattr(mod, n)]
    saved = {n: getattr(mod, n) for n in names}
    try:
        if seq.get("stale_globals"):
            # what an earlier in-process use of the workers would leave behind in the parent (inherited by fork)
            for n in names:
                setattr(mod, n, np.full((2, 2, 2), 123.0))
        # reference: every call on its own, serial
        refs = [_bytes_of(_execute(routine, c, "no")[0]) for c in seq["sequence"]]
        kept = []
        for i, c in enumerate(seq["sequence"]):
            # serial call first (leaves whatever it leaves), then the parallel one, then the parallel one again
            ser = _execute(routine, c, "no")[0]
            d = _first_diff(_bytes_of(ser), refs[i], "%s[step %d serial]" % (routine, i))
            if d:
                return d
            for rep_ in range(2):
                par = _execute(routine, c, "yes")[0]
                d = _first_diff(_bytes_of(par), refs[i], "%s[step %d parallel #%d]" % (routine, i, rep_))
                if d:
                    return d
                kept.append((i, rep_, par))
            # results returned earlier are still what they were
            for (i0, r0, out) in kept:
                d = _first_diff(_bytes_of(out), refs[i0], "%s[result of step %d (#%d) after step %d]" % (routine, i0, r0, i))
                if d:
                    return d
    except Exception as e:  # noqa: BLE001
        return "exception %s: %s" % (type(e).__name__, e)
    finally:
        for n, v in saved.items():
            setattr(mod, n, v)
    return None


def correspondence(ctx):
    if _WS is not None:
        try:
            _validate_footprint(ctx)
        except Exception as e:  # noqa: BLE001 - e.g. the worker's argument tuple changed shape: a broken tie, go on
            ctx.disagree("footprint-validation", None, "%s: %s" % (type(e).__name__, str(e)[:200]),
                         "the generated footprint replayed on recording arrays")
        ctx.sample({"generated_footprints": [{k: w[k] for k in ("name", "writes", "reads", "serial_same")} for w in _WS]}, cap=8)
    else:
        # the translator refused the source (tie already recorded as broken): the run-time bit comparison
        # below is then the search for a failing input
        ctx.count("footprint-cells-checked", 0)

    def rep(routine, c, detail):
        stream = "parallel-call-sequence:" if "sequence" in c else "parallel-vs-serial:"
        ctx.disagree(stream + routine, {"routine": routine, "case": c}, detail, "bit-identical to parallel='no'")

    # (b) decision
    _decision_stream(ctx)
    # (c) recording pool: every completion order of <= 4 (5) tasks, plus the 'auto' rule end to end;
    # (d) real pool: forced orders (every permutation of <= 3 (4) tasks) and the random streams
    extra = (_perm_cases(ctx, "fake", ctx.pick(4, 5)) + _auto_cases(ctx) + _peak_guard_cases(ctx)
             + _perm_cases(ctx, "real", ctx.pick(3, 4)))
    plan_checks = _compare_all(ctx, rep, extra=extra)
    if plan_checks:
        qs = [q for item in plan_checks for q in item[0]]
        replies = ctx.driver("C09").ask(qs)
        for i, (_, chk, routine, c) in enumerate(plan_checks):
            diffs = chk(replies[2 * i], replies[2 * i + 1])
            ctx.evaluations += 1
            ctx.count("parent-plan:" + routine)
            for d in diffs[:3]:
                ctx.disagree("parent-plan:" + routine, {"routine": routine, "case": c}, d, "plan of the Lean model: %s / %s" % (replies[2 * i], replies[2 * i + 1]))
    # exhaustiveness on the recording pool is exact; on the real pool the forced orders are timing dependent:
    # what was observed is recorded, a missed order is retried once with a larger gap
    for LF in range(1, ctx.pick(4, 5) + 1):
        import math

        for routine in ("srs", "fdepsd"):
            got = len(_PERMS_SEEN.get(("recording", routine, LF), ()))
            if got == math.factorial(LF):
                ctx.count("all-orders-recording:%s:%d" % (routine, LF))
    real_orders = sum(len(v) for k, v in _PERMS_SEEN.items() if k[0] == "real")
    ctx.count("real-pool-distinct-forced-orders", real_orders)
    ctx.exhaustive = all(ctx.hist.get("all-orders-recording:%s:%d" % (r, n)) for r in ("srs", "fdepsd") for n in (1, 2, 3, 4))
    # (e) call sequences
    _sequence_stream(ctx, rep)
    ctx.require_branches(["pattern:reverse", "pattern:random", "getresp:True", "getresp:False", "fdepsd:absacce",
                          "dup-freq:srs", "dup-freq:fdepsd", "pool:recording", "pool:real",
                          "decision:auto->yes", "decision:auto->no", "decision:invalid->raise", "decision:yes->yes",
                          "sequence:srs", "sequence:fdepsd", "layout:F", "layout:strided", "rolloff:fft",
                          "fde-rolloff:lanczos", "maxcpu:None"] + ["peak:" + p for p in _PEAKS])
    if not ctx.disagreements and not ctx.broken:
        # on a run without any disagreement or broken obligation every order of <= 4 tasks must have been executed on the recording
        # pool and the plan stream must have run (a case that raises is a disagreement and ends up as a violation)
        ctx.require_branches(["all-orders-recording:srs:4", "all-orders-recording:fdepsd:4", "all-orders-recording:srs:3",
                              "parent-plan:srs", "parent-plan:fdepsd", "auto:parallel", "auto:serial",
                              "unpicklable-peak:recording", "unpicklable-peak:real",
                              "picklable-callable-peak-in-pool:recording", "picklable-callable-peak-in-pool:real"])


def _auto_cases(ctx):
    """parallel='auto' end to end on the recording pool (cheap in-process): blocks just above / below the size
    threshold, with and without histories, one frequency, a one-cpu machine"""
    rng = ctx.rng
    out = []
    for (N, H, LF, getresp, cpu) in [(25001, 2, 3, False, 16), (25000, 2, 3, False, 16), (25001, 2, 1, False, 16),
                                     (25001, 2, 3, True, 16), (25001, 2, 3, False, 1), (50001, 1, 2, False, 4)]:
        out.append(("srs", dict(
            stype=rng.choice(_STYPES), ic=rng.choice(_ICS), getresp=getresp, time="primary", peak="abs", maxcpu=rng.choice([None, 2, 14]),
            LF=LF, N=N, H=H, oneD=False, kind="noise", pattern="perm", order=list(range(LF))[::-1], pool="fake", parallel="auto",
            cpu=cpu, eqsine=False, zero_freq=False, dup_freq=False, seed=rng.randint(0, 10 ** 6), fdtype="float64",
            sdtype="float64", layout="C", flayout="C", rolloff="none", ppc=4)))
    return out


def _peak_guard_cases(ctx):
    """the override of srs.srs between the decision and the split (F53): a `peak` function pickle refuses goes to
    the serial loop under 'yes' and under 'auto' on a big block, a module-level function still goes to the pool;
    on the recording pool (plan vs the Lean `routineDecision`) and on the real pool"""
    rng = ctx.rng
    out = []
    for pool in ("fake", "real"):
        for peak in ("callable-lambda", "callable-meansq"):
            for (mode, N, H) in [("yes", 60, 2), ("yes", 90, 1)] + ([("auto", 25001, 2)] if pool == "fake" else []):
                for getresp in ((False, True) if mode == "yes" else (False,)):
                    LF = rng.randint(2, 4)
                    out.append(("srs", dict(
                        stype=rng.choice(_STYPES), ic=rng.choice(_ICS), getresp=getresp, time=rng.choice(_TIMES), peak=peak,
                        maxcpu=rng.choice([2, 3, None]), LF=LF, N=N, H=H, oneD=(H == 1), kind="noise", pattern="perm",
                        order=list(range(LF))[::-1], pool=pool, parallel=mode, cpu=16, eqsine=rng.random() < 0.5, zero_freq=False,
                        dup_freq=False, seed=rng.randint(0, 10 ** 6), fdtype="float64", sdtype="float64", layout="C",
                        flayout="C", rolloff="none", ppc=4, gap=0.02)))
    return out


def _family(routine, c, detail):
    if c.get("peak") == "callable-lambda" and "ickl" in str(detail):
        return FIXED_F53
    if "sequence" in c:
        return "parallel-call-sequence:%s" % routine
    if str(detail).startswith("tasks ran in"):
        return "more-worker-processes-than-maxcpu:%s" % routine
    return "parallel-differs-from-serial:%s" % routine


def _confirm(inp):
    """re-run one recorded input; -> description of the difference or None"""
    _install()
    c = inp["case"]
    if "sequence" in c:
        return _run_sequence(c)
    try:
        ser = _execute(inp["routine"], c, "no")[0]
        par = _execute(inp["routine"], c, c.get("parallel", "yes"))[0]
        d = _first_diff(_bytes_of(par), _bytes_of(ser), inp["routine"])
        if not d and c.get("pool") != "fake" and len(_observed_order()) != c["LF"]:
            d = "the pool ran %d tasks for %d frequencies" % (len(_observed_order()), c["LF"])
        if not d and c.get("pool") != "fake" and c["maxcpu"]:
            pids = {int(_PIDS[j]) for j in set(_observed_order())}
            if len(pids) > c["maxcpu"]:
                d = "tasks ran in %d different worker processes with maxcpu=%d" % (len(pids), c["maxcpu"])
        if d and c.get("pool") == "fake":
            # seen under the controlled scheduler: say whether the real pool shows it too (same wanted order, forced by delays)
            c2 = dict(c, pool="real", gap=0.05)
            c2.pop("cpu", None)
            if c2.get("parallel") == "auto":
                c2["parallel"] = "yes"
            try:
                d2 = _first_diff(_bytes_of(_execute(inp["routine"], c2, c2.get("parallel", "yes"))[0]), _bytes_of(ser), inp["routine"])
            except Exception as e:  # noqa: BLE001
                d2 = "exception %s: %s" % (type(e).__name__, e)
            d += " [recording pool, tasks executed in order %s; real pool with that completion order forced: %s]" % (
                c.get("order"), d2 or "no difference")
        return d
    except Exception as e:
        return "exception %s: %s" % (type(e).__name__, e)


def search(ctx, hints):
    # the bit comparison IS the model-free oracle; re-run the disagreeing cases (if any) so that the
    # replay holds an input confirmed twice, and report them as failing inputs
    seen = set()
    for h in hints:
        if not (h["stream"].startswith("parallel-vs-serial") or h["stream"].startswith("parallel-call-sequence")) or not h.get("input"):
            continue
        inp = h["input"]
        key = repr(inp)
        if key in seen:
            continue
        seen.add(key)
        d = _confirm(inp)
        if d:
            ctx.fail(_family(inp["routine"], inp["case"], d), d, inp, d, "bit-identical outputs")
        if len(ctx.failures) >= 5:
            break
    # documented behaviour of the options, on the public API (fdepsd reports what it did)
    _doc_oracle(ctx)


def _doc_oracle(ctx):
    """`parallel='no'` -> serial with ncpu 1; 'yes' -> parallel with 1 <= ncpu <= cpu count and ncpu <= maxcpu
    ("maximum number of CPUs to use"); maxcpu=None -> 4/5 of the CPUs above four CPUs; anything else raises"""
    from pyyeti import fdepsd, srs

    _install()
    r = np.random.default_rng(ctx.seed)
    sig = r.standard_normal(500)
    freq = np.array([10.0, 20.0, 30.0])
    ncpu_box = mp.cpu_count()
    for par, mc in [("no", 3), ("yes", 1), ("yes", 2), ("yes", None), ("yes", 10 ** 6)]:
        _set_delays(3, "none", 0)
        try:
            with warnings.catch_warnings(), _deadline(180):
                warnings.simplefilter("ignore")
                ns = fdepsd.fdepsd(sig, 400.0, freq, 15.0, parallel=par, maxcpu=mc, verbose=False, rolloff="none", winends=None)
        except Exception as e:  # noqa: BLE001 - the serial call of the same input returns (checked first in the loop)
            ctx.fail("parallel-path-raises:fdepsd", "fdepsd(parallel=%r, maxcpu=%r) raises %s: %s" % (par, mc, type(e).__name__, str(e)[:200]),
                     {"routine": "fdepsd-options", "case": {"parallel": par, "maxcpu": mc}}, type(e).__name__,
                     "the result of parallel='no'")
            if par == "no":
                return
            continue
        ok = ns.parallel == par and 1 <= ns.ncpu <= ncpu_box
        if par == "no":
            ok = ok and ns.ncpu == 1
        elif mc is not None:
            ok = ok and ns.ncpu <= mc
        else:
            ok = ok and ns.ncpu == ((ncpu_box * 4) // 5 if ncpu_box > 4 else ncpu_box)
        ctx.evaluations += 1
        if not ok:
            ctx.fail("parallel-option-not-honoured:parallel=%s:maxcpu=%s" % (par, "None" if mc is None else "int"),
                     "fdepsd(parallel=%r, maxcpu=%r) reports parallel=%r ncpu=%r on a %d-cpu machine" % (par, mc, ns.parallel, ns.ncpu, ncpu_box),
                     {"routine": "fdepsd-options", "case": {"parallel": par, "maxcpu": mc}}, [ns.parallel, ns.ncpu],
                     "parallel echoed, 1 <= ncpu <= min(cpu count, maxcpu)")
    # `peak` is documented as "a string or a function": a function that cannot be pickled (a lambda, a function
    # defined inside another one) must give what parallel='no' gives.  Regression guard for F53 (repaired: srs.srs now
    # runs such a function serially; before, the task tuple holding it was pickled and the parallel path raised).
    if REPORT_UNPICKLABLE_PEAK:
        local_peak = lambda x: abs(x).max(axis=0)  # noqa: E731
        with warnings.catch_warnings():
            warnings.simplefilter("ignore")
            ref = srs.srs(sig, 400.0, freq, 15.0, peak=local_peak, parallel="no")
            ctx.evaluations += 1
            try:
                with _deadline(180):
                    got = srs.srs(sig, 400.0, freq, 15.0, peak=local_peak, parallel="yes", maxcpu=2)
                d = _first_diff(_bytes_of(got), _bytes_of(ref), "srs")
                if d:
                    ctx.fail("parallel-differs-from-serial:srs", d, {"routine": "srs-options", "case": {"peak": "lambda"}}, d,
                             "bit-identical outputs")
            except Exception as e:  # noqa: BLE001
                ctx.fail(FIXED_F53,
                         "srs(sig, sr, freq, Q, peak=<lambda>, parallel='yes') raises %s: %s; parallel='no' returns the spectrum "
                         "(with the default parallel='auto' the same happens as soon as sig.size > 50000 and len(freq) > 1)"
                         % (type(e).__name__, str(e)[:160]),
                         {"routine": "srs-options", "case": {"peak": "lambda x: abs(x).max(axis=0)", "parallel": "yes", "maxcpu": 2,
                                                             "sig": "default_rng(seed).standard_normal(500)", "sr": 400.0,
                                                             "freq": [10.0, 20.0, 30.0], "Q": 15.0}},
                         type(e).__name__, "the spectrum parallel='no' returns")
    for bad in ("maybe", "", "Yes"):
        try:
            with warnings.catch_warnings():
                warnings.simplefilter("ignore")
                srs.srs(sig, 400.0, freq, 15.0, parallel=bad)
            ctx.fail("invalid-parallel-option-accepted", "srs(parallel=%r) did not raise" % bad,
                     {"routine": "srs-options", "case": {"parallel": bad}}, "no exception", "ValueError")
        except ValueError:
            pass
        ctx.evaluations += 1


def replay(ctx, data):
    f = data["failure"]
    inp = f["input"]
    if inp.get("routine") in ("fdepsd-options", "srs-options"):
        n0 = len(ctx.failures)
        _doc_oracle(ctx)
        same = [x for x in ctx.failures[n0:] if x["family"] == f["family"]]
        return same[0] if same else None
    d = _confirm(inp)
    if d:
        return {"family": f["family"], "what": d, "input": inp}
    return None
