"""C07 — matrix exponential, its integrals and the discretisations built on them (DESIGN.md section 6/C07).

Tie
  * translator harness/translate/c07_padetables.py: every Pade tuple of pyyeti/expmint.py
    (`_ExpmIntPadeHelper.pade*_i`, `_ExpmPadeHelper_SS.pade*`, `_geti2`), *how* it is used (which
    literal multiplies which power, the `h *` / `(h * h) *` factors, the `2**-s` scaling of the
    order-13 methods), the branch thresholds and the getEPQ switch
    -> lean/PyYetiVerif/Generated/PadeTables.lean; Props/C07 proves the order conditions on it;
  * correspondence (numeric, |impl - model| <= 1e-9 * max|model| inside the stated conditioning
    domain; the Lean model is the exact-rational reference `ExpSeries.expmRat` evaluated by
    Drivers/C07.lean with a rigorous error bound that must be < 1e-25 * scale):
      expmint   expmint(A, h, geti2=True) and expmint_pow vs the reference E, I1, I2
      epq       getEPQ / getEPQ1 / getEPQ2 / getEPQ_pow x order x B x half vs the model's getEPQ
                formulas (route 1: integrals; route 2: blocks of the augmented exponential,
                also evaluated by the reference for a subsample)
      ss        SSModel.c2d for zoh / zoha / foh / tustin (with and without prewarp) vs the model
                formulas on the reference data; d2c(tustin) vs the exact rational model; d2c of
                the exponential methods through c2d_model(d2c_impl(Z)) = Z; sampled responses
      tables    the generated Lean lists (read back through the driver) vs the polynomials obtained
                by *executing* the pade methods on 1x1 matrices (behavioural check of the translator)
    The branch every call takes is read off the implementation by wrapping the pade methods,
    `_geti2` and `_expm_SS` from the harness; a run that misses a declared branch is broken.
Oracle (model-free, numpy / public API only): semigroup E(2h) = E(h)^2, A I1 = E - 1,
A I2 = h E - I1, agreement of the getEPQ variants, one step against scipy.linalg.expm of an
independently assembled augmented matrix, c2d/d2c round trips, tustin against the bilinear
formulas written out with numpy.linalg.inv.
"""
import json
import math
import os
import warnings
from fractions import Fraction

import numpy as np

from runner import Infra, TieBroken

ID = "C07"
LEAN_MODULES = ["PyYetiVerif.Props.C07", "PyYetiVerif.Props.C07Decisions", "PyYetiVerif.Props.C07SSRoutine",
                "PyYetiVerif.Props.C07Truncation", "PyYetiVerif.Audit.C07"]
AUDIT_FILE = "PyYetiVerif/Audit/C07.lean"
THEOREMS = [
    "PyYetiVerif.C07." + n
    for n in (
        "pade_exp_order pade_I1_order pade_I2_order pade_order_sharp pade_shapes pade_tables_agree "
        "geti2_9_doubles_close thresholds_are_higham squaring_E squaring_I1 doubling_I2 I1_direct I2_direct I2_direct_amplification "
        "epq1_eq_epq2 aug_pow1 aug_pow0 aug_exp_blocks aug_exp_blocks_order0 half_option_is_selection "
        "half_option integrals_termwise zoh_step foh_step foh_step_closed tustin_roundtrip "
        "tustin_roundtrip_rev tustin_is_bilinear foh_io_equiv zoha_io_equiv zoh_io_equiv zoh_roundtrip "
        "zoha_roundtrip foh_roundtrip "
        # driver logic (Props/C07Decisions.lean)
        "driver_logic_pinned scaling_exponent_minimal scaling_exponent_is_ceil_log2 expmint_branch_decision "
        "ss_branch_decision_same squaring_loop_invariant squaring_count geti2_branch_decision geti2_accept_spec "
        "pow_truncation_rule epq_dispatch_spec half_option_spec ell_constants_are_pade_error "
        # whole routines c2d / d2c (Props/C07SSRoutine.lean)
        "d2c_result_is_continuous c2d_attributes c2d_d2c_roundtrip_all_methods "
        # truncation error, scalar case (Props/C07Truncation.lean)
        "pade_truncation_scalar_bound squaring_error_growth pade_truncation_matrix_partial"
    ).split()
]
TRUSTED = [
    "translator harness/translate/c07_padetables.py (Python ast; cross-checked behaviourally by the tables stream)",
    "scipy _ExpmPadeHelper.pade7/pade9 tables `b` stated as constants in the generated file (compared with the "
    "executed scipy methods and proved equal to pyyeti's own copies in _ExpmPadeHelper_SS on every run)",
    "correspondence harness harness/props/c07.py; reference = Lean exact-rational evaluator with propagated error bound",
    "theorems are at the level of power-series coefficients / ring identities: Pade truncation error inside the "
    "theta_m thresholds, floating-point round-off, scipy's _ell / onenormest / LU / eig are measured, not proved",
    "the eig-based logarithm of d2c is an explicit hypothesis (log(exp X) = X) of the round-trip theorems",
    "decisions: the norm quantities d4..d10 (scipy onenormest, an estimate for n > 2) and the outcome of LAPACK's LU "
    "(zero pivot warning, I_test) are inputs of the decision model, measured on the implementation's own helper objects; "
    "scipy's `_ell` constants c_i are stated in the model (proved to be the leading error coefficients of the regenerated "
    "tables: ell_constants_are_pade_error) and `_ell` itself is compared exactly on every decision case; numpy's allclose "
    "defaults rtol=1e-5, atol=1e-8 are assumed when the call gives none",
]
RULE = (
    "matrices n = 1..6 from the families dense / stable-symmetric / singular / nilpotent / jordan / upper-triangular / "
    "stiff (eigenvalues 1e-3..1e3) / second-order [[0,I],[-K,-C]] / zero / 1x1, scaled so that ||A h||_1 is "
    "log-uniform in [1e-6, 1e3] plus values straddling every branch threshold (nextafter-style scaling at the getEPQ "
    "switch); one case = one (A, h) with every API variant compared on it (expmint, expmint_pow, 4 getEPQ routines "
    "x order x B x half); ss: random stable systems x 4 methods x prewarp; non-trivial = A != 0 and the call "
    "reaches a Pade/series branch; distinct by the exact bit patterns of (A, h) and the option tuple; decisions (exact): "
    "the same cases plus boundary inputs (norms at theta_m (1 +- 1e-12) and theta_13 2^k (1 +- 1e-12) as 1x1, diagonal, "
    "rotation and 3x3 matrices; nilpotent; singular with ||A h|| up to 300; nearly singular diag(-1e-k, ...) for k = 3..15; "
    "positive matrices that exhaust the 200 passes): Pade order, s0, s, number of squarings (bitwise replay of the loop), "
    "_ell values, _geti2 branch / warning / RuntimeError / pass count, expmint_pow pass count, getEPQ route; a decision whose "
    "inputs lie within 1e-13 (norms) / 1e-9 (tolerances, alpha of _ell) of a jump is skipped and counted; SSModel: random "
    "sequences of 1..4 c2d/d2c calls from h in {None, 0, 0.125, 0.5}: identity of the returned object and its h, method, prewarp"
)
ASSUMPTIONS = [
    "numeric agreement |impl - model| <= 1e-9 * max|model entry| (the property's 'to round-off'), model error bound < 1e-25 * scale",
    "conditioning domain: squaring amplification rho = prod_j ||exp(A h / 2^j)||_1 / ||exp(A h)||_1 <= 1e4; I2 through "
    "the direct branch A^-1 (E h - I1) of _geti2 only where eps * ||(A h)^-1||_1^2 <= 1e-11 (finding "
    "expmint-geti2-direct-near-singular beyond); outside: skipped and counted",
    "power-series routines (expmint_pow, getEPQ_pow, singular fallback of _geti2) are compared for ||A h||_1 <= 5 (series fallback of _geti2: <= 12) "
    "(cancellation e^{2||Ah||} eps beyond; the documented recommendation is a finer step); F12 covers the fallback beyond",
    "d2c of zoh/zoha/foh: spectrum of A_z off the negative real axis, |Im(lambda) h| < pi, cond(eigenvectors) <= 1e6",
]
PARTIAL = (
    "complete at the series/ring level and for the driver logic (decisions); truncation error proved for the real scalar "
    "case only (pade_truncation_scalar_bound: |r_m(x) - e^x| <= eps_m e^x for |x| <= theta_m with eps_m <= 2^-53/64, "
    "0.3 2^-53, 1.6 2^-53, 6 2^-53, 2^-53/15 for m = 3, 5, 7, 9, 13, hence eigenvalue-wise for real symmetric A): the "
    "general matrix statement (non-normal A, 1-norm; Higham's backward-error analysis with ||q_m(A)^-1||) is NOT proved "
    "(pade_truncation_matrix_partial keeps it visible), nor are the truncation errors of the phi1 / phi2 approximants "
    "(I1, I2 tables: order conditions only); not proved, measured by correspondence and oracle inside the conditioning "
    "domain: floating-point round-off, scipy's onenormest / LU / eig (the decisions are proved and compared exactly GIVEN "
    "the measured norm quantities and LU outcome); the I2 fallback for singular A with large ||A h|| is the open finding "
    "F12 and the direct branch A^-1(E h - A^-1(E - 1)) of _geti2 for a nearly singular A is the open finding F37 "
    "(mechanism: I2_direct_amplification; the exact repair, carrying I2 through the squaring loop, is proved exact in "
    "squaring_loop_invariant and handed over as corpus/c07_geti2_doubling_candidate_fix.diff)"
)
MANIFEST = {
    "level_text": "Proof (Lean 4, kernel-checked, standard axioms only). On the Pade tables machine-translated from "
    "expmint.py on every run (with the structure of their use: power, h-factor, 2**-s scaling): (V-U) e - (V+U), "
    "q phi1 - p and q phi2 - p vanish through x^(2m) for all 10 + 5 + 4 tables and not further, the two copies of the "
    "exponential tables agree, thresholds are Higham's theta_m and getEPQ switches at theta_9. For every coefficient k: "
    "e(x)^2 = e(2x), 2 phi1(2x) = phi1(x)(1 + e(x)) (so `I += I.E; E = E.E` is exact), the doubling rule of the second "
    "integral, x phi1 = e - 1, x phi2 = e - phi1 (direct branch of _geti2), phi1 - phi2 = psi = shifted e (getEPQ1 = "
    "getEPQ2), proved through formal power series. Block powers and truncated exponentials of the augmented matrices of "
    "getEPQ2 in closed form over any commutative ring; half = column selection = the B that getEPQ2 builds. I1, I2, and "
    "the zero-/first-order-hold step integrals equal the series term by term (real integrals). Over any non-commutative "
    "ring with inverses as data: tustin d2c(c2d S) = S, c2d(d2c Z) = Z for any central k (prewarp or not), tustin is the "
    "bilinear transform of the transfer function, foh/zoha/zoh discrete models are input-output equivalent to the exact "
    "sampled recurrences (induction over time), zoh/zoha/foh round trips given log(exp X) = X. The floating-point "
    "routines are tied to this by numeric correspondence against an exact-rational Lean reference with a rigorous error "
    "bound, over a norm sweep that is required to hit every Pade order, the scaling loop, all three I2 formulas and both "
    "sides of the getEPQ switch. DRIVER LOGIC (third phase), on constants and statement texts regenerated from the source: "
    "the Pade order / scaling decision of expmint and _expm_SS stated outright (expmint_branch_decision), s0 is the least s "
    "with eta_5 <= 4.25 2^s and equals max(ceil(log2(eta_5/4.25)), 0) over the reals (scaling_exponent_minimal / "
    "_is_ceil_log2), s squarings bring the base step h 2^-s back to h with (E, I1) - and the candidate I2 recurrence - exact "
    "at every stage (squaring_loop_invariant, formal power series), the _geti2 branch / warning / RuntimeError logic and "
    "its allclose acceptance (geti2_branch_decision, geti2_accept_spec), the truncation rule of the power series "
    "(pow_truncation_rule), the getEPQ switch and half/B handling on both routes (epq_dispatch_spec, half_option_spec), "
    "scipy's _ell constants = leading error coefficients of the regenerated tables. SSModel.c2d / d2c as whole routines with "
    "the h / method / prewarp attributes: round trip for all four methods on the exact domain h = None, d2c never returns a "
    "sample time, c2d of a discrete model returns itself. TRUNCATION: for real x with |x| <= theta_m the regenerated "
    "approximant satisfies |r_m(x) - e^x| <= eps_m e^x, eps_m <= (1/64, 0.3, 1.6, 6, 1/15) 2^-53 for m = 3, 5, 7, 9, 13 "
    "(Taylor remainder from Mathlib + exact polynomial identity + sign structure q(x) = p(-x)). The decisions are tied by an "
    "EXACT correspondence (Pade order, s, number of squarings by bitwise replay, _ell, _geti2 branch and pass count, "
    "expmint_pow pass count, getEPQ route, SSModel attribute sequences) on generated and boundary inputs.",
    "level_note": "Trusted: Lean kernel; propext, Classical.choice, Quot.sound; the translator and the Python harness; "
    "scipy's pade7/pade9 tables as constants (checked against execution). Not proved, measured to 1e-9 inside the stated "
    "conditioning domain: Pade truncation error for non-symmetric matrices (scalar real case proved) and of the I1 / I2 "
    "approximants, round-off, onenormest, LU, eig-based log; the decision theorems take the measured norm quantities and the "
    "LU outcome as inputs. Two accuracy "
    "findings about I2 outside that domain are reported by the oracle and excluded (skipped and counted) from the "
    "correspondence: F12 (singular A, large ||A h||, power-series fallback) and expmint-geti2-direct-near-singular "
    "(regular but nearly singular A h in the direct branch: error ~ eps ||(A h)^-1||^2).",
    "technique": "Lean 4 proof (formal power series over Q, block-matrix induction, interval integrals, non-commutative ring "
    "identities; `decide +kernel` on generated tables) + source->Lean translator + numeric differential correspondence "
    "against an exact-rational reference evaluator",
}

THETA9 = 2.097847961257068
NTAYLOR, GRID = 24, 320
TOL = 1e-9
POW_LIMIT = 5.0        # power-series routines are compared up to this ||A h||_1
RHO_LIMIT = 1e4
F12 = "expmint-geti2-singular-large-norm"
_TABLES = {}


# ---------------------------------------------------------------------------------------------
# translator


def translate(ctx):
    from translate import c07_padetables as t

    try:
        names, res = t.run(ctx.repo, ctx.lean)
    except t.TranslateError as e:
        raise TieBroken("expmint.py Pade methods no longer fit the translator: %s" % e)
    except (OSError, SyntaxError) as e:
        raise TieBroken("cannot read/parse pyyeti/expmint.py: %s" % e)
    _TABLES["res"] = res
    return names


# ---------------------------------------------------------------------------------------------
# exact transport


def _rat(x):
    f = Fraction(float(x))
    return str(f.numerator) if f.denominator == 1 else "%d/%d" % (f.numerator, f.denominator)


def _mat(A):
    return " ".join(_rat(x) for x in np.asarray(A, float).ravel())


def _grid(txt, shape, B=GRID):
    v = [int(t) / (1 << B) for t in txt.split()]
    return np.array(v, float).reshape(shape)


def _bound(txt, B=GRID):
    out = []
    for t in txt.split():
        try:
            out.append(int(t) / (1 << (B + 64)))
        except (OverflowError, ValueError):  # a bound too large for a double: the reference is unusable for this case
            out.append(float("inf"))
    return out


def _fr(txt):
    return float(Fraction(txt))


def _ask(ctx, lines, parallel=12):
    """several driver processes in parallel (requests are independent)"""
    lines = list(lines)
    if not lines:
        return []
    drv = ctx.driver("C07")
    if len(lines) < 40 or parallel <= 1:
        return drv.ask(lines)
    from concurrent.futures import ThreadPoolExecutor

    k = min(parallel, (len(lines) + 19) // 20)
    chunks = [lines[i::k] for i in range(k)]
    with ThreadPoolExecutor(k) as ex:
        reps = list(ex.map(drv.ask, chunks))
    out = [None] * len(lines)
    for i, r in enumerate(reps):
        out[i::k] = r
    return out


# ---------------------------------------------------------------------------------------------
# branch recorder: wraps the pade methods, _geti2 and _expm_SS of the imported module


class Recorder:
    def __init__(self):
        from pyyeti import expmint as em

        self.em = em
        self.log = []
        self._saved = []

    def __enter__(self):
        em = self.em
        rec = self

        def wrap(cls, name, tag):
            orig = getattr(cls, name)

            def f(self_, *a, **k):
                if name.startswith("pade13"):
                    rec.log.append("%s:pade13:%s" % (tag, "s>0" if a[0] > 0 else "s=0"))
                else:
                    rec.log.append("%s:%s" % (tag, name.split("_")[0]))
                return orig(self_, *a, **k)

            self._saved.append((cls, name, orig))
            setattr(cls, name, f)

        for nm in ("pade3_i", "pade5_i", "pade7_i", "pade9_i", "pade13_scaled_i"):
            wrap(em._ExpmIntPadeHelper, nm, "int")
        for nm in ("pade3", "pade5", "pade7", "pade9", "pade13_scaled"):
            wrap(em._ExpmPadeHelper_SS, nm, "ss")
        g = em._geti2

        def geti2(H, E, I, h, pade):
            with warnings.catch_warnings(record=True) as w:
                warnings.simplefilter("always")
                try:
                    r = g(H, E, I, h, pade)
                except RuntimeError:
                    rec.log.append("geti2:series-maxloops")
                    raise
            if pade <= 9:
                rec.log.append("geti2:pade%d" % (3 if pade <= 3 else 5 if pade <= 5 else 7 if pade <= 7 else 9))
            elif any("power series" in str(x.message) for x in w):
                rec.log.append("geti2:series")
            else:
                rec.log.append("geti2:direct")
            return r

        self._saved.append((em, "_geti2", g))
        em._geti2 = geti2
        for nm in ("getEPQ1", "getEPQ2"):
            orig = getattr(em, nm)

            def f(*a, _o=orig, _n=nm, **k):
                rec.log.append("route:" + _n)
                return _o(*a, **k)

            self._saved.append((em, nm, orig))
            setattr(em, nm, f)
        return self

    def __exit__(self, *exc):
        for obj, name, orig in reversed(self._saved):
            setattr(obj, name, orig)
        self._saved = []

    def take(self):
        out, self.log = self.log, []
        return out


# ---------------------------------------------------------------------------------------------
# generators


def _dy(x, bits=10):
    return np.round(np.asarray(x, float) * (1 << bits)) / (1 << bits)


def _unimodular(rng, n):
    """integer matrix with determinant +-1 and small entries"""
    U = np.eye(n)
    for _ in range(n + 1):
        i, j = rng.integers(0, n, 2)
        if i != j:
            U[i] += rng.integers(-1, 2) * U[j]
    return U


def _family(rng, fam, n):
    """-> (A0, tags): an un-scaled dyadic matrix of the family; `stable` = no growth of exp"""
    if fam == "dense":
        return _dy(rng.standard_normal((n, n))), {"stable": False}
    if fam == "stable-sym":
        G = rng.standard_normal((n, n))
        return _dy(-(G @ G.T) / n - 0.05 * np.eye(n)), {"stable": True}
    if fam == "singular":
        kind = rng.integers(0, 3)
        if kind == 0 or n == 1:
            # block diag(0-block, stable): integrator / rigid-body modes
            m = max(1, n // 2)
            A = np.zeros((n, n))
            G = rng.standard_normal((n - m, n - m))
            A[m:, m:] = -(G @ G.T) / max(1, n - m) - 0.1 * np.eye(n - m)
            A[:m, m:] = rng.standard_normal((m, n - m))
            return _dy(A), {"stable": True, "singular": True}
        if kind == 1:
            # the F12 shape [[0, 1], [0, -a]] embedded
            A = np.zeros((n, n))
            for i in range(0, n - 1, 2):
                A[i, i + 1] = 1.0
                A[i + 1, i + 1] = -float(rng.integers(1, 9)) / 4
            return A, {"stable": True, "singular": True}
        # rank-deficient dense: stable n-1 dimensional part conjugated by a unimodular matrix
        D = np.diag(np.r_[0.0, -rng.integers(1, 12, n - 1) / 4.0])
        U = _unimodular(rng, n)
        return U @ D @ np.round(np.linalg.inv(U)), {"stable": True, "singular": True}
    if fam == "nilpotent":
        T = np.triu(_dy(rng.standard_normal((n, n)), 4), 1)
        if rng.random() < 0.5 and n > 1:
            U = _unimodular(rng, n)
            T = U @ T @ np.round(np.linalg.inv(U))
        return T, {"stable": True, "singular": True, "nilpotent": True}
    if fam == "jordan":
        lam = -float(rng.integers(0, 9)) / 4
        J = lam * np.eye(n) + np.diag(np.ones(n - 1), 1)
        if rng.random() < 0.5 and n > 1:
            U = _unimodular(rng, n)
            J = U @ J @ np.round(np.linalg.inv(U))
        return J, {"stable": True, "singular": lam == 0}
    if fam == "upper":
        T = np.triu(_dy(rng.standard_normal((n, n))))
        T[np.diag_indices(n)] = -np.abs(T[np.diag_indices(n)]) - 1 / 8
        return T, {"stable": True, "upper": True}
    if fam == "stiff":
        lam = -np.exp(rng.uniform(np.log(1e-3), np.log(1e3), n))
        lam[0], lam[-1] = -1e-3, -1e3
        Qm, _ = np.linalg.qr(rng.standard_normal((n, n)))
        return (Qm * lam) @ Qm.T, {"stable": True, "stiff": True}
    if fam == "second-order":
        m = max(1, n // 2)
        G = rng.standard_normal((m, m))
        K = G @ G.T + 0.5 * np.eye(m)
        C = 0.1 * K + 0.05 * np.eye(m) if rng.random() < 0.7 else np.zeros((m, m))
        A = np.zeros((2 * m, 2 * m))
        A[:m, m:] = np.eye(m)
        A[m:, :m] = -K
        A[m:, m:] = -C
        return _dy(A), {"stable": True, "second-order": True}
    if fam == "zero":
        return np.zeros((n, n)), {"stable": True, "singular": True, "zero": True}
    if fam == "1x1":
        return np.array([[float(rng.choice([-1.0, 1.0, -0.375, 2.5]))]]), {"stable": False}
    raise ValueError(fam)


FAMILIES = ["dense", "stable-sym", "singular", "nilpotent", "jordan", "upper", "stiff", "second-order", "zero", "1x1"]
# target ||A h||_1 values around every threshold (eta values are <= the norm, so the sweep has
# several points per decade around them) and both sides of the getEPQ switch
EDGE_NORMS = [1e-6, 1e-3, 0.01, 0.0149, 0.02, 0.1, 0.25, 0.3, 0.6, 0.95, 1.0, 1.5, 2.0, 2.09, 2.0978, 2.2, 3.0, 4.2,
              5.0, 8.0, 12.0, 30.0, 80.0, 200.0, 600.0, 1000.0]


def _scale_to(A0, h, nu):
    nrm = np.linalg.norm(A0, 1) * h
    if nrm == 0:
        return A0.copy()
    return A0 * (nu / nrm)


def _straddle(A, h):
    """rescale A by single ulps so that h*||A||_1 lands exactly on / just above / just below theta_9"""
    out = []
    for target in (THETA9, np.nextafter(THETA9, 10.0), np.nextafter(THETA9, 0.0)):
        B = A * (THETA9 / (h * np.linalg.norm(A, 1)))
        for _ in range(60):
            v = h * np.linalg.norm(B, 1)
            if v == target:
                break
            B = B * (target / v)
            if v == h * np.linalg.norm(B, 1):
                # stuck within an ulp: nudge the largest column
                j = np.argmax(np.abs(B).sum(0))
                i = np.argmax(np.abs(B[:, j]))
                B[i, j] = np.nextafter(B[i, j], B[i, j] * (2 if target > v else 0.5))
        out.append(B)
    return out


def gen_cases(ctx, count, salt=1):
    """list of dicts {A, h, fam, tags, nu}"""
    rng = ctx.np_rng(salt)
    cases = []
    k = 0
    while len(cases) < count:
        fam = FAMILIES[k % len(FAMILIES)]
        k += 1
        n = 1 if fam == "1x1" else int(rng.integers(2 if fam in ("second-order", "nilpotent", "jordan") else 1, 7))
        A0, tags = _family(rng, fam, n)
        n = A0.shape[0]
        h = float(rng.choice([1.0, 0.5, 0.25, 0.0625, 0.01, 0.001, 2.0, 1 / 3]))
        if rng.random() < 0.2:
            # "all h > 0": the same A h in other time units (nanoseconds ... years): entries of A as small as 1e-8
            # or as large as 1e8 while A h stays O(nu) -- absolute tolerances inside the routine would show here
            h = float(2.0 ** int(rng.integers(-27, 28)))
        if rng.random() < 0.45:
            nu = float(rng.choice(EDGE_NORMS)) * float(np.exp(rng.uniform(-0.05, 0.05)))
        else:
            nu = float(np.exp(rng.uniform(np.log(1e-6), np.log(1e3))))
        if not tags.get("stable") and nu > 40:
            nu = float(np.exp(rng.uniform(np.log(2.0), np.log(40.0))))
        if tags.get("nilpotent") and nu > 1e3:
            nu = 1e3
        A = _scale_to(A0, h, nu)
        # memory layout of the caller's matrix: C order, Fortran order (LAPACK / op4 / MATLAB output, a transpose), or a
        # non-contiguous view; a routine that lets LAPACK work in place behaves differently on them
        u = rng.random()
        if u < 0.35:
            A = np.asfortranarray(A)
            tags = dict(tags, layout="F")
        elif u < 0.45 and n >= 2:
            big = np.zeros((2 * n, 2 * n))
            big[::2, ::2] = A
            A = big[::2, ::2]
            tags = dict(tags, layout="strided")
        cases.append({"A": A, "h": h, "fam": fam, "tags": tags, "nu": h * float(np.linalg.norm(A, 1))})
        if rng.random() < 0.06 and np.linalg.norm(A, 1) > 0 and n >= 2:
            for B in _straddle(A, h):
                cases.append({"A": B, "h": h, "fam": fam, "tags": dict(tags, straddle=True),
                              "nu": h * float(np.linalg.norm(B, 1))})
    return cases


def fixed_cases():
    """inputs of the two repaired defects and the documented example"""
    out = [
        {"A": np.array([[1.375, 1.375], [-1.375, -1.375]]), "h": 0.8125, "fam": "nilpotent",
         "tags": {"stable": True, "singular": True, "nilpotent": True, "fixed": "de41cd6"}},
        {"A": np.array([[0.0, 64.0, 1.0], [0.0, 0.0, 32.0], [0.0, 0.0, 0.0]]), "h": 0.5, "fam": "nilpotent",
         "tags": {"stable": True, "singular": True, "nilpotent": True, "fixed": "de41cd6"}},
        {"A": np.array([[1.0, 2.0, 3.0], [4.0, 5.0, 6.0], [7.0, 8.0, 9.0]]), "h": 0.05, "fam": "dense",
         "tags": {"stable": False}},
        {"A": np.diag([0.0, -1.0]), "h": 0.25, "fam": "singular", "tags": {"stable": True, "singular": True}},
    ]
    for c in out:
        c["nu"] = c["h"] * float(np.linalg.norm(c["A"], 1))
    return out


def _corpus(ctx):
    path = os.path.join(ctx.verif, "corpus", "c07.json")
    out = []
    if os.path.exists(path):
        for c in json.load(open(path)):
            A = np.array(c["A"], float)
            out.append({"A": A, "h": float(c["h"]), "fam": c.get("fam", "corpus"), "tags": c.get("tags", {"stable": True}),
                        "nu": float(c["h"]) * float(np.linalg.norm(A, 1))})
    return out


# ---------------------------------------------------------------------------------------------
# reference (Lean driver) and guards


def _expm_req(A, h, N=NTAYLOR, B=GRID):
    return "expm %d %d %d %s %s" % (N, B, A.shape[0], _rat(h), _mat(A))


def _parse_expm(rep, n, B):
    parts = rep.split(" | ")
    if len(parts) != 5:
        raise Infra("driver C07: bad expm reply %r" % rep[:80])
    E, I1, I2 = (_grid(p, (n, n), B) for p in parts[2:])
    return {"s": int(parts[0].split()[0]), "bound": _bound(parts[1], B), "E": E, "I1": I1, "I2": I2}


def reference(ctx, cases):
    """E, I1, I2 of every case from the exact-rational model; `ok` = the propagated error bound is
    below 1e-25 of the largest entry (retried once with 60 terms on a 2^-1200 grid)"""
    reps = _ask(ctx, [_expm_req(c["A"], c["h"]) for c in cases])
    out = [_parse_expm(r, c["A"].shape[0], GRID) for r, c in zip(reps, cases)]

    def good(r):
        return all(b <= 1e-25 * max(np.abs(m).max(), 1e-280) for b, m in zip(r["bound"], (r["E"], r["I1"], r["I2"])))

    redo = [i for i, r in enumerate(out) if not good(r)]
    if redo:
        reps = _ask(ctx, [_expm_req(cases[i]["A"], cases[i]["h"], 60, 1200) for i in redo])
        for i, r in zip(redo, reps):
            out[i] = _parse_expm(r, cases[i]["A"].shape[0], 1200)
    for r in out:
        r["ok"] = good(r)
    return out


def guards(c):
    """float-side condition estimates of one case (cheap, scipy)"""
    import scipy.linalg as la

    A, h = c["A"], c["h"]
    n = A.shape[0]
    nu = h * float(np.linalg.norm(A, 1))
    g = {"nu": nu}
    s = max(0, int(np.ceil(np.log2(max(nu, 1e-300) / 4.25)))) if nu > 0 else 0
    rho = 1.0
    with np.errstate(all="ignore"), warnings.catch_warnings():
        warnings.simplefilter("ignore")
        Eh = la.expm(A * h)
        for j in range(1, s + 1):
            rho *= float(np.linalg.norm(la.expm(A * h / 2 ** j), 1))
        rho /= max(float(np.linalg.norm(Eh, 1)), 1e-300)
        g["rho"] = rho if np.isfinite(rho) else np.inf
        rank = int(np.linalg.matrix_rank(A)) if n else 0
        g["singular"] = rank < n
        if g["singular"]:
            g["inv1"] = np.inf
        else:
            try:
                g["inv1"] = float(np.linalg.norm(np.linalg.inv(A * h), 1))
            except np.linalg.LinAlgError:
                g["inv1"] = np.inf
    return g


def _close(x, X, tol=TOL, floor=1e-290):
    """|x - X| <= tol * max|X| + floor; `floor` = what the reference grid cannot resolve (the expmint
    stream re-asks the reference on a 2^-1200 grid, the other streams use 2^-320: floor 1e-90)"""
    x = np.asarray(x, float)
    X = np.asarray(X, float)
    if x.shape != X.shape:
        return False, "shape %s vs %s" % (x.shape, X.shape)
    if not np.all(np.isfinite(x)):
        return False, "non-finite"
    sc = float(np.abs(X).max()) if X.size else 0.0
    err = float(np.abs(x - X).max()) if X.size else 0.0
    return err <= tol * sc + floor, "%.3e of scale %.3e" % (err, sc)


def _i2_guard(branch_log, g):
    """which I2 results are inside the conditioning domain; -> None (compare) or skip reason"""
    if "geti2:series" in branch_log or "geti2:series-maxloops" in branch_log:
        if g["nu"] > 12.0:
            return "I2 series fallback with ||Ah||_1 > 12 (F12 region)"
    if "geti2:direct" in branch_log:
        if 2.3e-16 * g["inv1"] ** 2 > 1e-11:
            return "I2 direct branch with eps*||(Ah)^-1||_1^2 > 1e-11 (near-singular A)"
    return None


def _layout_of(A):
    A = np.asarray(A)
    if A.ndim != 2 or A.flags.c_contiguous:
        return "C"
    return "F" if A.flags.f_contiguous else "strided"


def _with_layout(A, layout):
    A = np.array(A, float)
    if layout == "F":
        return np.asfortranarray(A)
    if layout == "strided" and A.ndim == 2 and A.shape[0] >= 2:
        big = np.zeros((2 * A.shape[0], 2 * A.shape[1]))
        big[::2, ::2] = A
        return big[::2, ::2]
    return A


def _case_in(c):
    return {"A": np.asarray(c["A"]).tolist(), "h": c["h"], "fam": c.get("fam"), "layout": _layout_of(c["A"])}


# ---------------------------------------------------------------------------------------------
# correspondence


def _stream_expmint(ctx, cases, refs, gs):
    from pyyeti import expmint as em

    with Recorder() as rec:
        for c, r, g in zip(cases, refs, gs):
            A, h = c["A"], c["h"]
            n = A.shape[0]
            key = (A.tobytes(), h, "expmint")
            nontriv = bool(np.any(A != 0))
            with warnings.catch_warnings():
                warnings.simplefilter("ignore")
                try:
                    res = em.expmint(A, h, True)
                    exc = None
                except Exception as e:  # noqa: BLE001
                    res, exc = None, e
            br = rec.take()
            for b in br:
                ctx.count(b)
            ctx.case(key, nontrivial=nontriv, branch="fam:" + c["fam"])
            if c["tags"].get("upper") and n > 1:
                ctx.count("structure:upper_triangular")
            if not r["ok"]:
                ctx.skip("reference error bound not below 1e-25 of scale")
                continue
            if g["rho"] > RHO_LIMIT:
                ctx.skip("squaring amplification rho > 1e4")
                continue
            why = _i2_guard(br, g)
            if exc is not None:
                if isinstance(exc, RuntimeError) and why is not None and "series" in why:
                    ctx.skip(why)
                    # E and I1 without the second integral must still work
                    with warnings.catch_warnings():
                        warnings.simplefilter("ignore")
                        e2, i2 = em.expmint(A, h)
                    rec.take()
                    for nm, got, want in (("E", e2, r["E"]), ("I1", i2, r["I1"])):
                        ok, msg = _close(got, want)
                        if not ok:
                            ctx.disagree("expmint-" + nm, _case_in(c), msg, "reference")
                    continue
                ctx.disagree("expmint-raises", _case_in(c), "%s: %s" % (type(exc).__name__, exc), "E, I1, I2")
                continue
            E, I1, I2 = res
            for nm, got, want in (("E", E, r["E"]), ("I1", I1, r["I1"])):
                ok, msg = _close(got, want)
                if not ok:
                    ctx.disagree("expmint-" + nm, dict(_case_in(c), branch=br), msg, "reference")
            if why is None:
                ok, msg = _close(I2, r["I2"])
                if not ok:
                    ctx.disagree("expmint-I2", dict(_case_in(c), branch=br), msg, "reference")
            else:
                ctx.skip(why)
            # geti2=False returns the same E, I
            with warnings.catch_warnings():
                warnings.simplefilter("ignore")
                e2, i2 = em.expmint(A, h)
            rec.take()
            if not (np.array_equal(e2, E) and np.array_equal(i2, I1)):
                ctx.disagree("expmint-geti2-flag", _case_in(c), "E, I differ between geti2=False and True", "identical")
            # list input is accepted like an array
            if n <= 2:
                with warnings.catch_warnings():
                    warnings.simplefilter("ignore")
                    e3, _ = em.expmint(A.tolist(), h)
                rec.take()
                if not np.array_equal(e3, E):
                    ctx.disagree("expmint-list-input", _case_in(c), "list input differs", "identical")
            # brute-force power series
            if g["nu"] <= POW_LIMIT:
                with warnings.catch_warnings():
                    warnings.simplefilter("ignore")
                    try:
                        pw = em.expmint_pow(A, h)
                    except Exception as e:  # noqa: BLE001
                        ctx.disagree("expmint_pow-raises", _case_in(c), repr(e), "E, I1, I2")
                        pw = None
                ctx.count("pow:compared")
                if pw is not None:
                    for nm, got, want in (("E", pw[0], r["E"]), ("I1", pw[1], r["I1"]), ("I2", pw[2], r["I2"])):
                        ok, msg = _close(got, want)
                        if not ok:
                            ctx.disagree("expmint_pow-" + nm, _case_in(c), msg, "reference")
            else:
                ctx.skip("power-series routine with ||Ah||_1 > %g" % POW_LIMIT)
            if len(ctx.samples) < 4 and nontriv:
                ctx.sample({"A": A.tolist(), "h": h, "fam": c["fam"], "branch": br, "nu": g["nu"]})
    # the non-square refusal
    try:
        em.expmint(np.zeros((2, 3)), 1.0)
        ctx.disagree("expmint-nonsquare", {"shape": [2, 3]}, "accepted", "ValueError")
    except ValueError:
        ctx.count("error:nonsquare")


def _epq_req(route, order, half, A, h, Bm, N=NTAYLOR, B=GRID):
    n = A.shape[0]
    if Bm is None:
        tail = "0"
    else:
        tail = "%d %s" % (Bm.shape[1], _mat(Bm))
    return "epq %d %d %d %d %d %d %s %s %s" % (route, N, B, order, 1 if half else 0, n, _rat(h), _mat(A), tail)


def _parse_epq(rep, n, cols, order, B=GRID):
    if rep == "value-error":
        return "value-error"
    parts = rep.split(" | ")
    if len(parts) != 4:
        raise Infra("driver C07: bad epq reply %r" % rep[:80])
    out = {"bound": _bound(parts[0], B)[0], "E": _grid(parts[1], (n, n), B), "P": _grid(parts[2], (n, cols), B)}
    out["Q"] = None if parts[3] == "none" else _grid(parts[3], (n, cols), B)
    # exact grid integers (the two model routes are compared beyond double precision)
    out["raw"] = {nm: None if t == "none" else [int(v) for v in t.split()] for nm, t in zip("EPQ", parts[1:])}
    return out


def _stream_epq(ctx, cases, refs, gs):
    from pyyeti import expmint as em

    rng = ctx.np_rng(2)
    jobs = []
    for ci, (c, r, g) in enumerate(zip(cases, refs, gs)):
        if not r["ok"] or g["rho"] > RHO_LIMIT:
            continue
        n = c["A"].shape[0]
        combos = [(1, None, False), (0, None, False), (1, None, True), (0, None, True)]
        i = int(rng.integers(1, 4))
        Bm = _dy(rng.standard_normal((n, i)), 6)
        combos += [(1, Bm, False), (0, Bm, bool(rng.integers(0, 2)))]
        pick = [combos[k] for k in rng.permutation(len(combos))[: ctx.pick(3, 6)]]
        for order, Bopt, half in pick:
            jobs.append((ci, order, Bopt, half))
    # one driver request per case: all option combinations of that (A, h); route 2 of the model
    # (reference exponential of the augmented matrix) on a subsample
    sub = set(k for k in range(len(jobs)) if k % 5 == 0 and gs[jobs[k][0]]["nu"] <= 50)
    bycase = {}
    for k, (ci, o, Bo, hf) in enumerate(jobs):
        bycase.setdefault(ci, []).append(k)
    order_ci = sorted(bycase)
    reqs = []
    for ci in order_ci:
        A, h = cases[ci]["A"], cases[ci]["h"]
        combos = []
        for k in bycase[ci]:
            _, o, Bo, hf = jobs[k]
            for route in ((1, 2) if k in sub else (1,)):
                combos.append("%d %d %d %s" % (route, o, 1 if hf else 0,
                                               "0" if Bo is None else "%d %s" % (Bo.shape[1], _mat(Bo))))
        reqs.append("epqm %d %d %d %s %s %d %s" % (NTAYLOR, GRID, A.shape[0], _rat(h), _mat(A), len(combos), " ".join(combos)))
    reps = {}
    reps2 = {}
    for ci, rep in zip(order_ci, _ask(ctx, reqs)):
        parts = rep.split(" || ")[1:]
        it = iter(parts)
        for k in bycase[ci]:
            reps[k] = next(it)
            if k in sub:
                reps2[k] = next(it)
    theta = THETA9
    with Recorder() as rec:
        for k, (ci, order, Bopt, half) in enumerate(jobs):
            c, g = cases[ci], gs[ci]
            A, h = c["A"], c["h"]
            n = A.shape[0]
            cols = Bopt.shape[1] if Bopt is not None else (n // 2 if half else n)
            model = _parse_epq(reps[k], n, cols, order)
            if k in reps2:
                m2 = _parse_epq(reps2[k], n, cols, order)
                ctx.count("model:route2-evaluated")
                if (model == "value-error") != (m2 == "value-error"):
                    ctx.disagree("model-routes", _case_in(c), "route 2: %s" % (m2 if isinstance(m2, str) else "ok"),
                                 "route 1: %s" % (model if isinstance(model, str) else "ok"))
                elif model != "value-error" and not ((model["bound"] + m2["bound"]) * 2.0 ** GRID < 1e300):
                    ctx.skip("model route 2 (augmented matrix) without a usable error bound (extreme time unit)")
                elif model != "value-error":
                    for nm in ("E", "P", "Q"):
                        if model[nm] is None:
                            continue
                        a, b = model["raw"][nm], m2["raw"][nm]
                        sc = max(abs(v) for v in a) if a else 0
                        diff = max((abs(x - y) for x, y in zip(a, b)), default=0) if len(a) == len(b) else None
                        # both are within their propagated bounds (<< 1e-25 of scale) of the same exact matrix
                        allowed = int((model["bound"] + m2["bound"]) * 2 ** GRID) + 2 + sc // 10 ** 25
                        if diff is None or diff > allowed:
                            ctx.disagree("model-routes-" + nm, _case_in(c), "differ by %s grid units" % diff,
                                         "route 1 = route 2 within %d grid units (epq1_eq_epq2)" % allowed)
            norm1 = h * np.linalg.norm(A, 1)
            opts = {"order": order, "B": None if Bopt is None else Bopt.tolist(), "half": half}
            for fname in ("getEPQ", "getEPQ1", "getEPQ2", "getEPQ_pow"):
                if fname == "getEPQ_pow" and g["nu"] > POW_LIMIT:
                    ctx.skip("power-series routine with ||Ah||_1 > %g" % POW_LIMIT)
                    continue
                with warnings.catch_warnings():
                    warnings.simplefilter("ignore")
                    try:
                        got = getattr(em, fname)(A, h, order=order, B=Bopt, half=half)
                        exc = None
                    except Exception as e:  # noqa: BLE001
                        got, exc = None, e
                br = rec.take()
                for b in br:
                    ctx.count(fname + "/" + b if b.startswith("route") else b)
                ctx.case((A.tobytes(), h, fname, order, None if Bopt is None else Bopt.tobytes(), half),
                         nontrivial=bool(np.any(A != 0)), branch="epq:%s:order%d:%s" % (
                             fname, order, "B" if Bopt is not None else ("half" if half else "full")))
                inp = dict(_case_in(c), fn=fname, **opts)
                if fname == "getEPQ":
                    want_route = "route:getEPQ1" if norm1 <= theta else "route:getEPQ2"
                    side = "at" if norm1 == theta else ("below" if norm1 < theta else "above")
                    ctx.count("switch:" + side)
                    if want_route not in br:
                        ctx.disagree("getEPQ-switch", inp, br, want_route)
                why = _i2_guard(br, g) if order == 1 else None
                if model == "value-error":
                    ctx.count("error:odd-half")
                    if isinstance(exc, RuntimeError) and why is not None and "series" in why:
                        ctx.skip(why)
                    elif not isinstance(exc, ValueError):
                        ctx.disagree("epq-odd-half", inp, repr(exc) if exc else "returned", "ValueError")
                    continue
                if exc is not None:
                    if isinstance(exc, RuntimeError) and why is not None and "series" in why:
                        ctx.skip(why)
                        continue
                    ctx.disagree("epq-raises", inp, "%s: %s" % (type(exc).__name__, exc), "E, P, Q")
                    continue
                if why is not None:
                    ctx.skip(why)
                    checks = ("E",)
                else:
                    checks = ("E", "P", "Q")
                E, P, Q = got
                for nm, val in (("E", E), ("P", P), ("Q", Q)):
                    if nm not in checks:
                        continue
                    if model[nm] is None:
                        if not (isinstance(val, float) and val == 0.0):
                            ctx.disagree("epq-Q-order0", inp, repr(val), "0.0")
                        continue
                    ok, msg = _close(val, model[nm], floor=1e-90)
                    if not ok:
                        ctx.disagree("%s-%s" % (fname, nm), dict(inp, branch=br), msg, "reference")
    # order outside {0, 1}
    try:
        em.getEPQ2(np.eye(2), 0.1, order=2)
        ctx.disagree("epq2-order", {"order": 2}, "accepted", "ValueError")
    except ValueError:
        ctx.count("error:order")


# ---- SSModel ------------------------------------------------------------------------------------


def gen_systems(ctx, count, salt=3):
    """continuous systems (A, B, C, D, h); A from families where the eig-based log is well posed"""
    rng = ctx.np_rng(salt)
    out = []
    fams = ["stable-sym", "second-order", "upper", "dense", "singular", "jordan", "1x1"]
    k = 0
    while len(out) < count:
        fam = fams[k % len(fams)]
        k += 1
        n = 1 if fam == "1x1" else int(rng.integers(2, 5))
        A0, tags = _family(rng, fam, n)
        n = A0.shape[0]
        if fam == "singular":
            # integrator / rigid-body systems (diagonalisable): the repaired d2c('zoh') case
            A0 = np.zeros((n, n))
            A0[1:, 1:] = -np.diag(rng.integers(1, 9, n - 1) / 4.0)
            if n > 2 and rng.random() < 0.5:
                A0[1, 2] = 0.5
        h = float(rng.choice([1.0, 0.5, 0.25, 0.125, 0.01]))
        nu = float(np.exp(rng.uniform(np.log(0.02), np.log(2.5))))
        if fam == "second-order" and rng.random() < 0.3:
            nu = float(rng.uniform(2.2, 4.0))      # getEPQ2 side of the switch
        A = _scale_to(A0, h, nu) if np.any(A0) else A0
        i = int(rng.integers(1, 3))
        o = int(rng.integers(1, 3))
        Bm = _dy(rng.standard_normal((n, i)), 6)
        C = _dy(rng.standard_normal((o, n)), 6)
        D = _dy(rng.standard_normal((o, i)), 6) * float(rng.integers(0, 2))
        out.append({"A": A, "B": Bm, "C": C, "D": D, "h": h, "fam": fam, "tags": tags})
    # the recorded input of the repaired defect 3c00cc3
    out.insert(0, {"A": np.diag([0.0, -1.0]), "B": np.array([[1.0], [1.0]]), "C": np.eye(2), "D": np.zeros((2, 1)),
                   "h": 0.25, "fam": "singular", "tags": {"singular": True, "fixed": "3c00cc3"}})
    return out


def _pad(M, N):
    out = np.zeros((N, N))
    M = np.atleast_2d(np.asarray(M, float))
    out[: M.shape[0], : M.shape[1]] = M
    return out


def _ss_req(op, s, N, k=None, extra=""):
    head = "%s %d " % (op, N)
    if k is not None:
        head += _rat(k) + " "
    return head + extra + " ".join(_mat(_pad(s[x], N)) for x in "ABCD")


def _ss_shapes(s):
    n, i = s["B"].shape
    o = s["C"].shape[0]
    return n, i, o, max(n, i, o)


def _unpad(mats, s):
    n, i, o, _ = _ss_shapes(s)
    A, B, C, D = mats
    return A[:n, :n], B[:n, :i], C[:o, :n], D[:o, :i]


def _log_guard(zA, h):
    """is the eig-based logarithm of d2c well posed and well conditioned for this A_z?"""
    with np.errstate(all="ignore"):
        lam, phi = np.linalg.eig(zA)
        if np.any(np.abs(lam) < 1e-12) or np.any((lam.real < 0) & (np.abs(lam.imag) < 1e-9 * np.abs(lam))):
            return "log of A_z: eigenvalue on the negative real axis / zero"
        if np.any(np.abs(np.angle(lam)) > 0.95 * np.pi):
            return "log of A_z: |Im(lambda) h| near pi"
        if np.linalg.cond(phi) > 1e6:
            return "log of A_z: eigenvector condition > 1e6"
    return None


def _sim_discrete(z, us, w0=None):
    n = z.A.shape[0]
    w = np.zeros(n) if w0 is None else w0
    ys = []
    for u in us:
        ys.append(z.C @ w + z.D @ u)
        w = z.A @ w + z.B @ u
    return np.array(ys)


def _stream_ss(ctx, systems):
    from pyyeti import ssmodel

    rng = ctx.np_rng(4)
    reqs = []
    plan = []
    # pass 1: implementation side + requests
    for si, s in enumerate(systems):
        n, i, o, N = _ss_shapes(s)
        h = s["h"]
        S = ssmodel.SSModel(s["A"], s["B"], s["C"], s["D"])
        for method in ("zoh", "zoha", "foh"):
            try:
                with warnings.catch_warnings():
                    warnings.simplefilter("ignore")
                    Z = S.c2d(h, method=method)
            except Exception as e:  # noqa: BLE001
                ctx.disagree("c2d-raises", {"sys": _sys_in(s), "method": method}, repr(e), "a discrete model")
                continue
            reqs.append("c2d %s %d %d %d %s %s" % (method, NTAYLOR, GRID, N, _rat(h),
                                                   " ".join(_mat(_pad(s[x], N)) for x in "ABCD")))
            plan.append(("c2d", si, method, Z))
            # d2c of the exponential methods: the model's c2d applied to the implementation's d2c(Z)
            why = _log_guard(Z.A, h)
            if why:
                ctx.skip(why)
                continue
            ctx.count("ss:d2c-attempted:" + method)
            if s["tags"].get("singular"):
                ctx.count("ss:singular-A:d2c:" + method)
            try:
                with warnings.catch_warnings():
                    warnings.simplefilter("ignore")
                    Sb = Z.d2c(method=method)
            except Exception as e:  # noqa: BLE001
                ctx.disagree("d2c-raises", {"sys": _sys_in(s), "method": method}, "%s: %s" % (type(e).__name__, e),
                             "a continuous model")
                continue
            sb = {"A": Sb.A, "B": Sb.B, "C": Sb.C, "D": Sb.D}
            reqs.append("c2d %s %d %d %d %s %s" % (method, NTAYLOR, GRID, N, _rat(h),
                                                   " ".join(_mat(_pad(sb[x], N)) for x in "ABCD")))
            plan.append(("d2c", si, method, Z))
        for prewarp in (0, None, float(rng.uniform(0.2, 2.5)) / h):
            try:
                Z = S.c2d(h, method="tustin", prewarp=prewarp)
                Sb = Z.d2c(method="tustin", prewarp=prewarp)
            except Exception as e:  # noqa: BLE001
                ctx.disagree("tustin-raises", {"sys": _sys_in(s), "prewarp": prewarp}, repr(e), "models")
                continue
            plan.append(("tustin", si, prewarp, (Z, Sb)))
        # sampled responses: zoh with piecewise-constant, foh with piecewise-linear input, x(0) = 0
        steps = 6
        us = _dy(rng.standard_normal((steps + 1, i)), 4)
        us[0] = 0.0
        for method in ("zoh", "foh"):
            upad = np.zeros((steps + 1, N))
            upad[:, :i] = us
            reqs.append("sim %s %d %d %d %s %d %s %s" % (method, NTAYLOR, GRID, N, _rat(h), steps,
                                                         " ".join(_mat(_pad(s[x], N)) for x in "ABCD"), _mat(upad)))
            plan.append(("sim", si, method, us))
    # tustin requests need k: 2/h exactly, or the model's Float evaluation of prewarp / tan(prewarp h / 2)
    kreq = []
    for p in plan:
        if p[0] == "tustin" and p[2]:
            import struct
            hb = struct.unpack("<Q", struct.pack("<d", systems[p[1]]["h"]))[0]
            wb = struct.unpack("<Q", struct.pack("<d", p[2]))[0]
            kreq.append("tustink %d %d" % (hb, wb))
    kreps = iter(_ask(ctx, kreq, parallel=1))
    treq = []
    for p in plan:
        if p[0] != "tustin":
            continue
        s = systems[p[1]]
        N = _ss_shapes(s)[3]
        if p[2]:
            import struct
            k = struct.unpack("<d", struct.pack("<Q", int(next(kreps))))[0]
            kf = p[2] / np.tan(p[2] * s["h"] / 2)
            if abs(k - kf) > 1e-13 * abs(kf):
                ctx.disagree("tustin-k", {"h": s["h"], "prewarp": p[2]}, kf, k)
            kk = Fraction(k)
        else:
            kk = 2 / Fraction(s["h"])
        ks = "%d/%d" % (kk.numerator, kk.denominator)
        Z = p[3][0]
        z = {"A": Z.A, "B": Z.B, "C": Z.C, "D": Z.D}
        treq.append("c2dtustin %d %s %s" % (N, ks, " ".join(_mat(_pad(s[x], N)) for x in "ABCD")))
        treq.append("d2ctustin %d %s %s" % (N, ks, " ".join(_mat(_pad(z[x], N)) for x in "ABCD")))
    reps = _ask(ctx, reqs + treq)
    rmain = iter(reps[: len(reqs)])
    rt = iter(reps[len(reqs):])

    def cmp4(stream, inp, got, want):
        big = max(float(np.abs(np.asarray(x)).max()) for x in want)
        for nm, a, b in zip("ABCD", got, want):
            a, b = np.asarray(a, float), np.asarray(b, float)
            # a structurally zero block (D = 0, a zero row of B): floor at the system's own magnitude
            sc = max(float(np.abs(b).max()), 1e-3 * big)
            if a.shape != b.shape or not np.all(np.isfinite(a)) or float(np.abs(a - b).max()) > TOL * sc:
                ctx.disagree("%s-%s" % (stream, nm), inp,
                             "%.3e of scale %.3e" % (float(np.abs(a - b).max()) if a.shape == b.shape else np.nan, sc), "model")

    for p in plan:
        s = systems[p[1]]
        n, i, o, N = _ss_shapes(s)
        inp = {"sys": _sys_in(s), "method": p[2]}
        if p[0] in ("c2d", "d2c"):
            parts = next(rmain).split(" | ")
            bound = _bound(parts[0])[0]
            mats = _unpad([_grid(x, (N, N)) for x in parts[1:]], s)
            Z = p[3]
            ctx.case(("ss", p[0], p[2], s["A"].tobytes(), s["h"]), branch="ss:%s:%s" % (p[0], p[2]))
            if bound > 1e-25:
                ctx.skip("reference error bound not below 1e-25 of scale")
                continue
            cmp4("%s-%s" % (p[0], p[2]), inp, (Z.A, Z.B, Z.C, Z.D), mats)
            if p[0] == "c2d" and (Z.h != s["h"] or Z.method != p[2]):
                ctx.disagree("c2d-attributes", inp, [Z.h, Z.method], [s["h"], p[2]])
        elif p[0] == "tustin":
            Z, Sb = p[3]
            mz = _unpad([_exact(x, N) for x in next(rt).split(" | ")], s)
            rep = next(rt)
            ctx.case(("ss", "tustin", p[2], s["A"].tobytes(), s["h"]),
                     branch="ss:tustin:%s" % ("prewarp" if p[2] else repr(p[2])))
            cmp4("c2d-tustin", inp, (Z.A, Z.B, Z.C, Z.D), mz)
            if rep == "singular":
                ctx.skip("tustin: I + A_z singular")
                continue
            ms = _unpad([_exact(x, N) for x in rep.split(" | ")], s)
            cmp4("d2c-tustin", inp, (Sb.A, Sb.B, Sb.C, Sb.D), ms)
        else:
            ys = [np.array([int(t) / (1 << GRID) for t in y.split()])[:o] for y in next(rmain).split(" | ")]
            ys = np.array(ys)
            S = ssmodel.SSModel(s["A"], s["B"], s["C"], s["D"])
            with warnings.catch_warnings():
                warnings.simplefilter("ignore")
                Z = S.c2d(s["h"], method=p[2])
            yd = _sim_discrete(Z, p[3])
            ctx.case(("ss", "sim", p[2], s["A"].tobytes(), s["h"]), branch="ss:sampled-response:" + p[2])
            sc = max(np.abs(ys).max(), 1e-300)
            if np.abs(yd - ys).max() > TOL * sc:
                ctx.disagree("sampled-response-" + p[2], dict(inp, u=p[3].tolist()),
                             "%.3e of scale %.3e" % (np.abs(yd - ys).max(), sc), "exactly sampled response")
    # quiet pass-throughs documented in the docstrings
    S = ssmodel.SSModel([[0.0]], [[1.0]], [[1.0]], [[0.0]])
    if S.d2c() is not S or S.c2d(0.1).c2d(0.2).h != 0.1:
        ctx.disagree("ss-passthrough", {}, "converted twice", "returns itself")
    try:
        S.c2d(0.1, method="nope")
        ctx.disagree("ss-method", {"method": "nope"}, "accepted", "ValueError")
    except ValueError:
        ctx.count("error:method")


def _exact(txt, N):
    return np.array([_fr(t) for t in txt.split()], float).reshape(N, N)


def _sys_in(s):
    return {k: np.asarray(s[k]).tolist() for k in "ABCD"} | {"h": s["h"], "fam": s.get("fam")}


# ---- decisions: exact correspondence of the driver logic -------------------------------------------


class _CountArr(np.ndarray):
    """ndarray whose `.dot` calls are counted: `term = term.dot(H.A) / j` of the two power-series loops runs once per pass"""
    count = 0

    def dot(self, other, out=None):
        _CountArr.count += 1
        return np.asarray(self).dot(np.asarray(other)).view(_CountArr)


def _decision_cases(ctx):
    """boundary inputs of every decision: norms at theta_m (1 +- 1e-12), theta_13 2^k (1 +- 1e-12), nilpotent,
    singular, nearly singular (the window of the allclose acceptance test)"""
    out = []
    th = [1.495585217958292e-002, 2.539398330063230e-001, 9.504178996162932e-001, 2.097847961257068e000,
          4.25, 8.5, 17.0, 34.0, 272.0]
    for t in th:
        for f in (1 - 1e-12, 1 + 1e-12):
            x = t * f
            out.append({"A": np.array([[-x]]), "h": 1.0, "fam": "boundary"})
            out.append({"A": np.array([[-x, 0.0], [0.0, -x / 3]]), "h": 1.0, "fam": "boundary"})
            out.append({"A": np.array([[0.0, x], [-x, 0.0]]) * 4.0, "h": 0.25, "fam": "boundary"})
            out.append({"A": np.array([[-x / 2, x / 2, 0.0], [0.0, -x / 4, x / 8], [x / 2, 0.0, -x]]), "h": 1.0,
                        "fam": "boundary"})
    for x in (0.5, 3.0, 100.0, 1e6):
        out.append({"A": np.array([[0.0, x], [0.0, 0.0]]), "h": 1.0, "fam": "nilpotent"})
        out.append({"A": np.array([[0.0, x, 1.0], [0.0, 0.0, x], [0.0, 0.0, 0.0]]), "h": 0.5, "fam": "nilpotent"})
    for nu in (2.5, 3.6, 8.0, 18.0, 40.0, 90.0, 150.0, 300.0):
        A = np.array([[0.0, 1.0], [0.0, -2.0]])
        out.append({"A": A * (nu / 3.0), "h": 1.0, "fam": "singular"})
        A3 = np.array([[1.0, 2.0, 3.0], [4.0, 5.0, 6.0], [7.0, 8.0, 9.0]])
        if nu <= 40:
            out.append({"A": A3 * (nu / 18.0), "h": 1.0, "fam": "singular"})
    # `_ell(2**-s0 A, 13) > 0`: non-normal matrices whose powers are much smaller than the powers of |A|
    for x in (4.0, 16.0, 40.0):
        out.append({"A": np.array([[x, -x], [x, -x]]) + np.diag([-0.5, -0.25]), "h": 1.0, "fam": "nonnormal"})
        out.append({"A": np.array([[x, -x, 0.0], [x, -x, 1.0], [0.0, 0.5, -1.0]]), "h": 1.0, "fam": "nonnormal"})
    # positive matrices: no cancellation in the power series, the 200-pass limit is reached by growth alone
    out.append({"A": np.array([[120.0]]), "h": 1.0, "fam": "positive"})
    out.append({"A": np.array([[260.0, 20.0], [20.0, 260.0]]), "h": 0.5, "fam": "positive"})
    out.append({"A": np.array([[50.0, 10.0], [10.0, 50.0]]), "h": 1.0, "fam": "positive"})
    U = np.array([[1.0, 1.0], [0.0, 1.0]])
    for k in range(3, 16):
        D = np.diag([-10.0 ** -k, -3.0])
        out.append({"A": D, "h": 1.0, "fam": "near-singular"})
        out.append({"A": U @ D @ np.linalg.inv(U), "h": 1.0, "fam": "near-singular"})
        out.append({"A": np.diag([-10.0 ** -k, -2.0, -5.0]) * 2.0, "h": 0.5, "fam": "near-singular"})
    for c in out:
        c["tags"] = {}
        c["nu"] = c["h"] * float(np.linalg.norm(c["A"], 1))
    return out


def _squarings(E0, I0, E, I, smax):
    """all j <= smax with (E, I) bitwise equal to j passes of `I += I.dot(E); E = E.dot(E)` from (E0, I0)
    (`E.dot(I)` is accepted as well: the same product in exact arithmetic, functions of one matrix commute)"""
    hits = set()
    with np.errstate(all="ignore"):
        for left in (False, True):
            Ej = np.array(E0, float)
            Ij = None if I0 is None else np.array(I0, float)
            for j in range(smax + 1):
                if np.array_equal(Ej, E, equal_nan=True) and (Ij is None or np.array_equal(Ij, I, equal_nan=True)):
                    hits.add(j)
                if Ij is not None:
                    Ij = Ij + (Ej.dot(Ij) if left else Ij.dot(Ej))
                Ej = Ej.dot(Ej)
            if I0 is None:
                break
    return sorted(hits)


def _three(rep):
    parts = [x.strip() for x in rep.split(" | ")]
    if len(parts) != 3:
        raise Infra("driver C07: bad decision reply %r" % rep[:80])
    return parts


def _stream_decisions(ctx, cases):
    import scipy.linalg as la
    from pyyeti import expmint as em
    from pyyeti import ssmodel

    mf = em.mf
    obs = []          # (kind, case, impl-observation dict)
    reqs = []
    log = []
    saved = []

    def wrap(cls, name, m, key):
        orig = getattr(cls, name)

        def f(self_, *a, **k):
            r = orig(self_, *a, **k)
            log.append((key, m, int(a[0]) if m == 13 else 0, r))
            return r

        saved.append((cls, name, orig))
        setattr(cls, name, f)

    for nm, m in (("pade3_i", 3), ("pade5_i", 5), ("pade7_i", 7), ("pade9_i", 9), ("pade13_scaled_i", 13)):
        wrap(em._ExpmIntPadeHelper, nm, m, "int")
    for nm, m in (("pade3", 3), ("pade5", 5), ("pade7", 7), ("pade9", 9), ("pade13_scaled", 13)):
        wrap(em._ExpmPadeHelper_SS, nm, m, "ss")
    g_orig = em._geti2
    ss_orig = em._expm_SS
    r1, r2 = em.getEPQ1, em.getEPQ2
    glog, sslog, rlog = [], [], []

    def geti2(H, E, I, h, pade):
        ent = {"H": H, "E": np.array(E), "I": np.array(I), "h": h, "pade": pade, "warned": False, "raised": False}
        glog.append(ent)
        with warnings.catch_warnings(record=True) as w:
            warnings.simplefilter("always")
            try:
                return g_orig(H, E, I, h, pade)
            except RuntimeError:
                ent["raised"] = True
                raise
            finally:
                ent["warned"] = any("power series" in str(x.message) for x in w)

    def expm_ss(M, ssA, order):
        X = ss_orig(M, ssA, order)
        sslog.append((np.array(M), np.array(ssA), order, np.array(X)))
        return X

    em._geti2 = geti2
    em._expm_SS = expm_ss
    em.getEPQ1 = lambda *a, **k: (rlog.append(1), r1(*a, **k))[1]
    em.getEPQ2 = lambda *a, **k: (rlog.append(2), r2(*a, **k))[1]
    try:
        for c in cases:
            A, h = np.asarray(c["A"], float), float(c["h"])
            n = A.shape[0]
            if n > 5 and c.get("fam") not in ("boundary",):
                continue
            # ---- expmint --------------------------------------------------------------------------------
            del log[:], glog[:]
            np.random.seed(0)
            with warnings.catch_warnings(), np.errstate(all="ignore"):
                warnings.simplefilter("ignore")
                try:
                    res = em.expmint(A, h, True)
                    exc = None
                except RuntimeError as e:
                    res, exc = None, e
            calls = [x for x in log if x[0] == "int"]
            if len(calls) != 1:
                ctx.disagree("decision-expmint", _case_in(c), "%d pade methods called" % len(calls), "exactly one")
                continue
            _, m, s, (U, V, P, Q) = calls[0]
            np.random.seed(0)
            with np.errstate(all="ignore"):
                H = em._ExpmIntPadeHelper(A * h)
                etas = [H.d4_loose, H.d6_loose, H.d4_tight, H.d6_tight, H.d8_loose, H.d10_loose]
            X = np.asarray(H.A, float)
            if not (np.all(np.isfinite(etas)) and np.all(np.isfinite(X))):
                ctx.skip("decision: non-finite norm quantities")
                continue
            structure = mf.UPPER_TRIANGULAR if mf._is_upper_triangular(A) else None
            sq = None
            if res is not None or glog:
                Efin, Ifin = (res[0], res[1]) if res is not None else (glog[0]["E"], glog[0]["I"])
                with warnings.catch_warnings(), np.errstate(all="ignore"):
                    warnings.simplefilter("ignore")
                    E0 = mf._solve_P_Q(U, V, structure=structure)
                    I0 = em._solve_P_Q_2(P, Q, structure=structure)
                sq = _squarings(E0, I0, Efin, Ifin, s + 2)
            ells = []
            with np.errstate(all="ignore"):
                for mm in (3, 5, 7, 9):
                    ells.append(int(mf._ell(X, mm)))
            obs.append(("int", c, {"m": m, "s": s, "sq": sq, "ells": ells, "X": X}))
            reqs.append("dec int %d %s %s" % (n, " ".join(_rat(x) for x in etas), _mat(X)))
            # ---- _geti2 ---------------------------------------------------------------------------------
            if glog and m == 13 and np.all(np.isfinite(glog[0]["E"])) and np.all(np.isfinite(glog[0]["I"])):
                gl = glog[0]
                E, I = gl["E"], gl["I"]
                I_test = None
                # (numpy's default error state, as in the call under test: underflow is NOT a warning - a tiny E must
                # not turn the LU outcome into "failed")
                with warnings.catch_warnings(), np.errstate(divide="warn", over="warn", invalid="warn", under="ignore"):
                    warnings.simplefilter("error", RuntimeWarning)
                    try:
                        lup = la.lu_factor(X)
                        I_test = la.lu_solve(lup, h * (E - np.eye(n)))
                        if np.allclose(I_test, I):
                            la.lu_solve(lup, h * (E * h - I_test))
                        luok = True
                    except RuntimeWarning:
                        luok = False
                if I_test is None:
                    I_test = np.zeros((n, n))
                if not np.all(np.isfinite(I_test)):
                    ctx.skip("decision: non-finite I_test in the acceptance test")
                else:
                    if gl["raised"]:
                        impl = "maxloops"
                    elif gl["warned"]:
                        _CountArr.count = 0
                        H2 = em._ExpmIntPadeHelper(X.view(_CountArr))
                        with warnings.catch_warnings():
                            warnings.simplefilter("ignore")
                            g_orig(H2, E, I, h, 13)
                        impl = "series:%d" % (1 + _CountArr.count)
                    else:
                        impl = "direct"
                    obs.append(("geti2", c, {"impl": impl, "luok": luok}))
                    reqs.append("geti2 13 %d %d %s %s %s %s" % (1 if luok else 0, n, _rat(np.abs(E).max()), _mat(X),
                                                               _mat(I_test), _mat(I)))
            elif glog and m <= 9:
                gl = glog[0]
                obs.append(("geti2", c, {"impl": "pade%d" % m if not gl["warned"] else "series", "luok": True}))
                z = np.zeros((n, n))
                reqs.append("geti2 %d 1 %d 1 %s %s %s" % (gl["pade"], n, _mat(X), _mat(z), _mat(z)))
            # ---- expmint_pow ----------------------------------------------------------------------------
            # the loop of expmint_pow compares the term with tol * max|E| of the *running* sum: where that sum is
            # dominated by the round-off of cancelled terms (eps * max|term| >~ max|E|) the pass count is a property of
            # the rounding errors, not of the rule: skipped and counted
            with np.errstate(all="ignore"):
                T = A * h
                term, Erun, mx, worst = T.copy(), np.eye(n), 1.0, 0.0
                for jj in range(2, 201):
                    Erun = Erun + term
                    mx = max(mx, float(np.abs(term).max()))
                    worst = max(worst, mx / max(float(np.abs(Erun).max()), 1e-300))
                    term = term.dot(T) / jj
                    if not np.isfinite(mx) or float(np.abs(term).max()) < 1e-18 * float(np.abs(Erun).max()):
                        break
            if not (np.isfinite(mx) and 2.3e-16 * worst <= 1e-10):
                ctx.skip("expmint_pow pass count: running sum dominated by round-off of cancelled terms")
            else:
                _CountArr.count = 0
                with warnings.catch_warnings(), np.errstate(all="ignore"):
                    warnings.simplefilter("ignore")
                    try:
                        em.expmint_pow(np.array(A).view(_CountArr), h)
                        jj = 1 + _CountArr.count
                    except RuntimeError:
                        jj = 1 + _CountArr.count
                        if jj != 200:
                            ctx.disagree("decision-pow", _case_in(c), "RuntimeError after %d passes" % jj, "only at j = 200")
                obs.append(("pow", c, {"j": jj}))
                reqs.append("powloops %d %s" % (n, _mat(A * h)))
            # ---- getEPQ route and the _expm_SS chain ----------------------------------------------------
            del rlog[:], sslog[:], log[:]
            with warnings.catch_warnings(), np.errstate(all="ignore"):
                warnings.simplefilter("ignore")
                try:
                    em.getEPQ(A, h, order=0)
                except Exception:  # noqa: BLE001 - reported by the numeric streams
                    pass
            norm1 = h * np.linalg.norm(A, 1)
            if np.isfinite(norm1):
                obs.append(("route", c, {"route": list(rlog[:1]), "norm1": float(norm1)}))
                reqs.append("route %s" % _rat(norm1))
            for order in (0, 1):
                del sslog[:], log[:]
                with warnings.catch_warnings(), np.errstate(all="ignore"):
                    warnings.simplefilter("ignore")
                    try:
                        r2(A, h, order=order, half=(n % 2 == 0 and order == 1))
                    except Exception:  # noqa: BLE001
                        continue
                calls = [x for x in log if x[0] == "ss"]
                if len(calls) != 1 or len(sslog) != 1:
                    ctx.disagree("decision-ss", _case_in(c), "%d pade methods called" % len(calls), "exactly one")
                    continue
                _, m, s, (U, V) = calls[0]
                M, ssA, _, Xfin = sslog[0]
                with np.errstate(all="ignore"):
                    hh = em._ExpmPadeHelper_SS(M, ssA, order)
                    etas = [hh.d4_loose, hh.d6_loose, hh.d4_tight, hh.d6_tight, hh.d8_loose, hh.d10_loose]
                if not (np.all(np.isfinite(etas)) and np.all(np.isfinite(M))):
                    ctx.skip("decision: non-finite norm quantities")
                    continue
                with warnings.catch_warnings(), np.errstate(all="ignore"):
                    warnings.simplefilter("ignore")
                    X0 = mf._solve_P_Q(U, V, structure=None)
                obs.append(("ss", c, {"m": m, "s": s, "sq": _squarings(X0, None, Xfin, None, s + 2), "order": order}))
                reqs.append("dec ss %d %s %s" % (M.shape[0], " ".join(_rat(x) for x in etas), _mat(M)))
    finally:
        em._geti2, em._expm_SS, em.getEPQ1, em.getEPQ2 = g_orig, ss_orig, r1, r2
        for cls, name, orig in reversed(saved):
            setattr(cls, name, orig)
    reps = _ask(ctx, reqs)
    for (kind, c, o), rep in zip(obs, reps):
        inp = dict(_case_in(c), what=kind)
        ctx.case(("decision", kind, np.asarray(c["A"]).tobytes(), c["h"], o.get("order")), branch="dec:" + kind)
        if kind in ("int", "ss"):
            lo, mid, hi = (_three(rep)[i].split() for i in range(3))
            if not (lo[:3] == mid[:3] == hi[:3]):
                ctx.skip("decision within 1e-13 of a threshold / 1e-9 of a jump of _ell (float log2, pow): not compared")
                ctx.count("dec:boundary-skip")
                continue
            m, s0, s = (int(x) for x in mid[:3])
            ctx.count("dec:%s:m%d" % (kind, m))
            if m == 13:
                ctx.count("dec:%s:s%s" % (kind, ">0" if s > 0 else "=0"))
                if s > s0:
                    ctx.count("dec:ell13>0")
            if (o["m"], o["s"]) != (m, s):
                ctx.disagree("decision-%s-order-scaling" % kind, inp, "pade%d s=%d" % (o["m"], o["s"]),
                             "pade%d s=%d (s0=%d)" % (m, s, s0))
            if o["sq"] is not None and s not in o["sq"]:
                ctx.disagree("decision-%s-squarings" % kind, inp, "result equals %s squarings of r_m" % (o["sq"],),
                             "%d squarings" % s)
            if kind == "int" and lo[3:7] == mid[3:7] == hi[3:7] and [int(x) for x in mid[3:7]] != o["ells"]:
                ctx.disagree("decision-ell", inp, o["ells"], mid[3:7])
        elif kind == "geti2":
            lo, mid, hi = _three(rep)
            if not (lo == mid == hi):
                ctx.skip("_geti2 decision within 1e-9 of the acceptance / truncation tolerance: not compared")
                ctx.count("dec:boundary-skip")
                continue
            ctx.count("geti2dec:" + mid.split(":")[0])
            if mid.startswith("series") and o["luok"]:
                ctx.count("geti2dec:rejected-by-allclose")
            if o["impl"] != mid:
                ctx.disagree("decision-geti2", inp, o["impl"], mid)
        elif kind == "pow":
            js = [int(x) for x in rep.split()]
            if len(set(js)) != 1:
                ctx.skip("power-series truncation within 1e-9 of the tolerance: not compared")
                ctx.count("dec:boundary-skip")
                continue
            ctx.count("powdec:%s" % ("maxloops" if js[1] >= 200 else "converged"))
            if o["j"] != js[1]:
                ctx.disagree("decision-pow-terms", inp, "%d terms" % o["j"], "%d terms" % js[1])
        elif kind == "route":
            ctx.count("routedec:%s" % rep.strip())
            if o["route"] != [int(rep)]:
                ctx.disagree("decision-getEPQ-route", dict(inp, norm1=o["norm1"]), o["route"], int(rep))
    # ---- SSModel attribute / call-sequence logic ----------------------------------------------------------
    rng = ctx.np_rng(21)
    seqs = []
    for _ in range(ctx.pick(60, 400)):
        h0 = [None, None, None, 0, 0.0, 0.125, 0.5][int(rng.integers(0, 7))]
        ops = []
        for _ in range(int(rng.integers(1, 5))):
            meth = ["zoh", "zoha", "foh", "tustin"][int(rng.integers(0, 4))]
            pw = [0, None, 1.5][int(rng.integers(0, 3))] if meth == "tustin" else 0
            if rng.random() < 0.5:
                ops.append(("c2d", [0.25, 0.5, 0.125][int(rng.integers(0, 3))], meth, pw))
            else:
                ops.append(("d2c", meth, pw))
        seqs.append((h0, ops))

    def fo(x):
        return "none" if x is None else _rat(x)

    sreq = []
    simpl = []
    for h0, ops in seqs:
        cur = ssmodel.SSModel([[-1.0]], [[1.0]], [[1.0]], [[0.0]], h=h0)
        outs = []
        words = []
        ok = True
        for op in ops:
            with warnings.catch_warnings(), np.errstate(all="ignore"):
                warnings.simplefilter("ignore")
                try:
                    if op[0] == "c2d":
                        nxt = cur.c2d(op[1], method=op[2], prewarp=op[3])
                        words += ["c2d", _rat(op[1]), op[2], fo(op[3])]
                    else:
                        nxt = cur.d2c(method=op[1], prewarp=op[2])
                        words += ["d2c", op[1], fo(op[2])]
                except Exception:  # noqa: BLE001 - h = 0 treated as a sample time: division by zero in la.solve
                    ok = False
                    break
            outs.append("self" if nxt is cur else "new %s %s %s" % (fo(nxt.h), nxt.method or "none", fo(nxt.prewarp)))
            cur = nxt
        nops = len(outs)
        if nops == 0:
            continue
        sreq.append("ssattr %s %d %s" % (fo(h0), nops, " ".join(words[: sum(4 if o[0] == "c2d" else 3 for o in ops[:nops])])))
        simpl.append(((h0, ops[:nops], ok), outs))
    for (meta, outs), rep in zip(simpl, _ask(ctx, sreq, parallel=1)):
        ctx.case(("ssattr", repr(meta)), branch="ssattr")
        want = [x.strip() for x in rep.split(" | ")]
        for o in outs:
            ctx.count("ssattr:" + ("self" if o == "self" else "new"))
        if want != outs:
            ctx.disagree("decision-ssmodel-attributes", {"h0": meta[0], "ops": [list(map(str, o)) for o in meta[1]]}, outs, want)


# ---- generated tables vs executed methods -------------------------------------------------------


def _stream_tables(ctx):
    from pyyeti import expmint as em

    names = []
    for key in ("int", "ss"):
        for m in (3, 5, 7, 9, 13):
            names += ["%s%d_%s" % (key, m, x) for x in (("U", "V", "P", "Q") if key == "int" else ("U", "V"))]
    names += ["geti2_%d_%s" % (m, x) for m in (3, 5, 7, 9) for x in "PQ"]
    names += ["geti2_9_p_double", "geti2_9_q_double", "scipy_b7", "scipy_b9", "expmint_thresholds", "ss_thresholds",
              "theta13", "epq_switch"]
    reps = _ask(ctx, ["tab " + nm for nm in names], parallel=1)
    tab = {}
    for nm, r in zip(names, reps):
        if r == "bad-op":
            raise Infra("driver C07 does not know table %s" % nm)
        tab[nm] = [Fraction(t) for t in r.split()]

    def poly(co, x):
        return sum(c * Fraction(x) ** k for k, c in enumerate(co))

    def check(what, got, want, terms):
        ctx.case(("tables", what), branch="tables")
        if abs(Fraction(float(got)) - want) > Fraction(1, 10 ** 12) * max(terms, Fraction(1, 10 ** 300)):
            ctx.disagree("tables", {"what": what}, float(got), float(want))

    xs = [0.0, 1.0, -1.0, 0.5, -0.5, 2.0, -2.0, 0.25, 3.0, -3.0, 1.5, -1.5, 0.75, 4.0, -0.125]
    mf = em.mf
    for x in xs:
        X = np.array([[x]])
        for m, meth in ((3, "pade3_i"), (5, "pade5_i"), (7, "pade7_i"), (9, "pade9_i"), (13, "pade13_scaled_i")):
            for h, s in ((1.0, 0), (0.5, 2)):
                H = em._ExpmIntPadeHelper(X)
                res = getattr(H, meth)(s, h) if m == 13 else getattr(H, meth)(h)
                if m != 13 and s:
                    continue
                sig = 2.0 ** -s
                for nm, val in zip("UVPQ", res):
                    co = tab["int%d_%s" % (m, nm)]
                    hp = 1 if nm == "P" else 0
                    want = poly(co, x * sig) * Fraction(h * sig) ** hp
                    terms = sum(abs(c) * abs(Fraction(x * sig)) ** k for k, c in enumerate(co)) * Fraction(h * sig) ** hp
                    check("int%d_%s x=%g h=%g s=%d" % (m, nm, x, h, s), val[0, 0], want, terms)
        for m in (3, 5, 7, 9):
            # _geti2 returns solve(Q, P): compare the quotient with the generated rational function
            H = em._ExpmIntPadeHelper(X)
            for h in (1.0, 0.5):
                with warnings.catch_warnings():
                    warnings.simplefilter("ignore")
                    val = em._geti2(H, None, None, h, m)
                p = poly(tab["geti2_%d_P" % m], x)
                q = poly(tab["geti2_%d_Q" % m], x)
                if q != 0 and abs(x) <= 2:
                    check("geti2_%d x=%g h=%g" % (m, x, h), val[0, 0], Fraction(h) ** 2 * p / q, abs(Fraction(h) ** 2 * p / q))
        for m, meth in ((3, "pade3"), (5, "pade5"), (7, "pade7"), (9, "pade9"), (13, "pade13_scaled")):
            y = 0.5
            for order in (0, 1):
                M = np.zeros((2 + order, 2 + order))
                M[0, 0], M[0, 1] = x, y
                if order:
                    M[1, 2] = 1.0
                for s in ((0, 2) if m == 13 else (0,)):
                    H = em._ExpmPadeHelper_SS(M, X, order)
                    U, V = getattr(H, meth)(s) if m == 13 else getattr(H, meth)()
                    sig = 2.0 ** -s
                    for nm, val in (("U", U), ("V", V)):
                        co = tab["ss%d_%s" % (m, nm)]
                        terms = sum(abs(c) * abs(Fraction(x * sig)) ** k for k, c in enumerate(co))
                        check("ss%d_%s[0,0] x=%g order=%d s=%d" % (m, nm, x, order, s), val[0, 0], poly(co, x * sig), terms)
                        # (1,2) block: sum_k c_k sig^k x^(k-1) y
                        w12 = sum(c * Fraction(sig) ** k * Fraction(x) ** (k - 1) * Fraction(y) for k, c in enumerate(co) if k >= 1)
                        t12 = sum(abs(c) * Fraction(sig) ** k * abs(Fraction(x)) ** (k - 1) * Fraction(y) for k, c in enumerate(co) if k >= 1)
                        check("ss%d_%s[0,1] x=%g order=%d s=%d" % (m, nm, x, order, s), val[0, 1], w12, t12)
        for m in (7, 9):
            H = mf._ExpmPadeHelper(X)
            U, V = getattr(H, "pade%d" % m)()
            b = tab["scipy_b%d" % m]
            terms = sum(abs(c) * abs(Fraction(x)) ** k for k, c in enumerate(b))
            check("scipy pade%d U x=%g" % (m, x), U[0, 0], poly([c if k % 2 else 0 for k, c in enumerate(b)], x), terms)
            check("scipy pade%d V x=%g" % (m, x), V[0, 0], poly([0 if k % 2 else c for k, c in enumerate(b)], x), terms)
    # thresholds: a 1x1 matrix has eta_k = |x|; just inside / outside every threshold
    with Recorder() as rec:
        th = [float(t) for t in tab["expmint_thresholds"]]
        for idx, t in enumerate(th):
            for fac, want in ((1 - 1e-9, (3, 5, 7, 9)[idx]), (1 + 1e-9, (5, 7, 9, 13)[idx])):
                em.expmint(np.array([[-t * fac]]), 1.0)
                br = rec.take()
                ctx.case(("thr", idx, fac), branch="tables")
                if not any(b.startswith("int:pade%d" % want) for b in br):
                    ctx.disagree("tables-thresholds", {"x": -t * fac}, br, "pade%d" % want)
        sw = float(tab["epq_switch"][0])
        for x, want in ((sw, "route:getEPQ1"), (np.nextafter(sw, 10), "route:getEPQ2")):
            em.getEPQ(np.array([[-x]]), 1.0, order=0)
            br = rec.take()
            ctx.case(("switch", x), branch="tables")
            if want not in br:
                ctx.disagree("tables-switch", {"x": x}, br, want)
    ctx.extra["generated_tables_checked"] = len(names)


BRANCHES = (
    ["int:pade3", "int:pade5", "int:pade7", "int:pade9", "int:pade13:s=0", "int:pade13:s>0",
     "ss:pade3", "ss:pade5", "ss:pade7", "ss:pade9", "ss:pade13:s=0", "ss:pade13:s>0",
     "geti2:pade3", "geti2:pade5", "geti2:pade7", "geti2:pade9", "geti2:direct", "geti2:series",
     "getEPQ/route:getEPQ1", "getEPQ/route:getEPQ2", "switch:below", "switch:at", "switch:above",
     "structure:upper_triangular", "pow:compared", "error:odd-half", "error:nonsquare", "error:order",
     "model:route2-evaluated", "tables"]
    + ["dec:int:m%d" % m for m in (3, 5, 7, 9, 13)] + ["dec:ss:m%d" % m for m in (3, 5, 7, 9, 13)]
    + ["dec:int:s>0", "dec:int:s=0", "dec:ss:s>0", "dec:ell13>0", "geti2dec:direct", "geti2dec:series", "geti2dec:maxloops",
       "geti2dec:pade9", "geti2dec:rejected-by-allclose", "powdec:converged", "powdec:maxloops", "routedec:1", "routedec:2",
       "ssattr:self", "ssattr:new"]
    + ["fam:" + f for f in FAMILIES]
    + ["ss:c2d:" + m for m in ("zoh", "zoha", "foh")] + ["ss:d2c-attempted:" + m for m in ("zoh", "zoha", "foh")]
    + ["ss:tustin:0", "ss:tustin:None", "ss:tustin:prewarp", "ss:sampled-response:zoh", "ss:sampled-response:foh",
       "ss:singular-A:d2c:zoh"]
)


def correspondence(ctx):
    if "res" not in _TABLES:
        translate(ctx)
    cases = _corpus(ctx) + fixed_cases() + gen_cases(ctx, ctx.pick(420, 12000))
    import time

    tm = {}
    t0 = time.time()
    refs = reference(ctx, cases)
    tm["reference"] = time.time() - t0
    t0 = time.time()
    gs = [guards(c) for c in cases]
    tm["guards"] = time.time() - t0
    for nm, fn in (("tables", lambda: _stream_tables(ctx)), ("expmint", lambda: _stream_expmint(ctx, cases, refs, gs)),
                   ("epq", lambda: _stream_epq(ctx, cases, refs, gs)),
                   ("decisions", lambda: _stream_decisions(ctx, _decision_cases(ctx) + cases[: ctx.pick(260, 3000)])),
                   ("ss", lambda: _stream_ss(ctx, gen_systems(ctx, ctx.pick(60, 1500))))):
        t0 = time.time()
        fn()
        tm[nm] = round(time.time() - t0, 1)
    ctx.extra["stream_seconds"] = tm
    ctx.extra["reference"] = "ExpSeries.expmRat: %d Taylor terms of A h / 2^s (||.||_1 <= 1/2), grid 2^-%d" % (NTAYLOR, GRID)
    ctx.require_branches(BRANCHES)


# ---------------------------------------------------------------------------------------------
# model-free oracle (numpy / scipy / public API only)

NEAR_SING = "expmint-geti2-direct-near-singular"


def _aug_reference(A, h):
    """E, I1, I2 from scipy.linalg.expm of an independently assembled augmented matrix
    [[A, I, 0], [0, 0, I], [0, 0, 0]] h :  top row = [E, I1, h I1 - I2]"""
    import scipy.linalg as la

    n = A.shape[0]
    M = np.zeros((3 * n, 3 * n))
    M[:n, :n] = A
    M[:n, n:2 * n] = np.eye(n)
    M[n:2 * n, 2 * n:] = np.eye(n)
    X = la.expm(M * h)
    E = X[:n, :n]
    I1 = X[:n, n:2 * n]
    return E, I1, h * I1 - X[:n, 2 * n:]


def _family_of(what, c, g, warned_series, fn="expmint"):
    """stable family string from the input's characteristics: the two recorded findings are
    recognised by (singular / series fallback taken, ||Ah||_1 > 12) and (regular but
    ||(Ah)^-1||_1 > 200, no fallback); anything else is named by routine, quantity and norm regime"""
    # the dispatcher getEPQ sends ||A h||_1 > theta_9 to getEPQ2, which has neither recorded defect: a failure of
    # getEPQ itself is never one of the two known families
    if what in ("I2", "P", "Q", "raises-RuntimeError") and fn != "getEPQ":
        if (g["singular"] or warned_series) and g["nu"] > 12.0:
            return F12
        if (not g["singular"]) and g["inv1"] > 200.0 and not warned_series and what != "raises-RuntimeError":
            return NEAR_SING
    if what == "raises-OverflowError":
        A = np.asarray(c["A"], float)
        if not np.any(np.linalg.matrix_power(A, A.shape[0])):
            return "expmint-nilpotent-overflowerror"
    reg = "norm<=theta9" if g["nu"] <= THETA9 else "norm>theta9"
    return "%s-%s-%s" % (fn, what, reg)


def _rel(x, X):
    sc = float(np.abs(X).max())
    return float(np.abs(np.asarray(x) - X).max()) / sc if sc > 0 else float(np.abs(np.asarray(x) - X).max())


def oracle_expm(ctx, c, otol=1e-8):
    """the property restated on expmint / getEPQ* directly"""
    from pyyeti import expmint as em

    A, h = np.asarray(c["A"], float), float(c["h"])
    if c.get("layout"):
        A = _with_layout(A, c["layout"])
    n = A.shape[0]
    g = guards({"A": A, "h": h})
    inp = {"kind": "expm", "A": A.tolist(), "h": h, "fam": c.get("fam", "matrix"), "layout": _layout_of(A)}
    cc = dict(c, A=A)
    ctx.count("oracle-expm")
    with warnings.catch_warnings(record=True) as w:
        warnings.simplefilter("always")
        try:
            E, I1, I2 = em.expmint(A, h, True)
        except RuntimeError as e:
            ctx.fail(_family_of("raises-RuntimeError", cc, g, True),
                     "expmint(A, h, geti2=True) raises RuntimeError for a matrix whose integrals are finite",
                     inp, "RuntimeError: %s" % e, "E, I1, I2 to round-off")
            return
        except Exception as e:  # noqa: BLE001
            ctx.fail(_family_of("raises-" + type(e).__name__, cc, g, False),
                     "expmint(A, h, geti2=True) raises %s" % type(e).__name__, inp, repr(e), "E, I1, I2")
            return
    series = any("power series" in str(x.message) for x in w)
    if not all(np.all(np.isfinite(x)) for x in (E, I1, I2)):
        if g["rho"] <= RHO_LIMIT and g["nu"] < 600:
            ctx.fail(_family_of("nonfinite", cc, g, series), "expmint returns non-finite values", inp, "nan/inf", "finite")
        return
    if g["rho"] > RHO_LIMIT:
        ctx.count("oracle-skip:rho")
        return
    I = np.eye(n)
    nA = float(np.linalg.norm(A, 1))

    def resid(what, lhs, rhs, scale):
        err = float(np.abs(lhs - rhs).max())
        if err > otol * scale:
            ctx.fail(_family_of(what, cc, g, series), "expmint: %s identity violated" % what, inp,
                     "residual %.3e" % err, "<= %.1e * %.3e" % (otol, scale))
            return True
        return False

    # defining identities  A I1 = E - 1,  A I2 = h E - I1
    resid("E-I1", A @ I1, E - I, nA * np.abs(I1).max() + np.abs(E).max() + 1)
    resid("I2", A @ I2, h * E - I1, nA * np.abs(I2).max() + h * np.abs(E).max() + np.abs(I1).max())
    # independent reference: scipy expm of the augmented matrix
    with warnings.catch_warnings():
        warnings.simplefilter("ignore")
        Er, I1r, I2r = _aug_reference(A, h)
    if np.all(np.isfinite(Er)):
        for what, got, want in (("E", E, Er), ("I1", I1, I1r), ("I2", I2, I2r)):
            sc = float(np.abs(want).max())
            if sc > 0 and float(np.abs(got - want).max()) > otol * sc:
                ctx.fail(_family_of(what, cc, g, series), "expmint: %s differs from expm of the augmented matrix" % what,
                         inp, "relative error %.3e" % _rel(got, want), "<= %.1e" % otol)
                break
    # semigroup  E(2h) = E(h)^2,  I1(2h) = I1(h) + E(h) I1(h)
    if g["nu"] < 300:
        with warnings.catch_warnings():
            warnings.simplefilter("ignore")
            try:
                E2, J1 = em.expmint(A, 2 * h)
                sc = max(float(np.abs(E @ E).max()), 1e-300)
                g2 = guards({"A": A, "h": 2 * h})
                if g2["rho"] <= RHO_LIMIT:
                    if float(np.abs(E2 - E @ E).max()) > otol * sc * max(1.0, g2["rho"]):
                        ctx.fail(_family_of("semigroup-E", cc, g, series), "E(2h) != E(h)^2", inp,
                                 "%.3e" % _rel(E2, E @ E), "<= %.1e" % otol)
                    want = I1 + E @ I1
                    if float(np.abs(J1 - want).max()) > otol * max(float(np.abs(want).max()), 1e-300) * max(1.0, g2["rho"]):
                        ctx.fail(_family_of("semigroup-I1", cc, g, series), "I1(2h) != I1(h) + E(h) I1(h)", inp,
                                 "%.3e" % _rel(J1, want), "<= %.1e" % otol)
            except Exception as e:  # noqa: BLE001
                ctx.fail(_family_of("raises-" + type(e).__name__, cc, g, False),
                         "expmint(A, 2h) raises", dict(inp, h=2 * h), repr(e), "E, I1")
    # the getEPQ variants agree with each other and reproduce one step of the ODE
    rng = np.random.default_rng(abs(hash(A.tobytes())) % (2 ** 32))
    i = int(rng.integers(1, 3))
    Bm = np.round(rng.standard_normal((n, i)) * 64) / 64
    for order in (1, 0):
        for Bopt, half in ((None, False), (Bm, False), (None, True)):
            if half and n % 2:
                for fn in (em.getEPQ, em.getEPQ1, em.getEPQ2, em.getEPQ_pow):
                    with warnings.catch_warnings():
                        warnings.simplefilter("ignore")
                        try:
                            fn(A, h, order=order, half=True)
                            ctx.fail("epq-half-odd-accepted", "%s accepts half=True for odd n" % fn.__name__, inp,
                                     "returned", "ValueError")
                        except ValueError:
                            pass
                        except Exception:  # noqa: BLE001  (F12: RuntimeError before the shape test)
                            pass
                continue
            Beff = Bopt if Bopt is not None else (np.eye(n)[:, : n // 2] if half else np.eye(n))
            # independent one-step reference:  [x; u; du] ' = [[A, B, 0], [0, 0, I/h], [0, 0, 0]] [x; u; du]
            import scipy.linalg as la
            m = Beff.shape[1]
            M = np.zeros((n + 2 * m, n + 2 * m))
            M[:n, :n] = A * h
            M[:n, n:n + m] = Beff * h
            M[n:n + m, n + m:] = np.eye(m)
            with warnings.catch_warnings():
                warnings.simplefilter("ignore")
                X = la.expm(M)
            Qr = X[:n, n + m:]
            Pr = X[:n, n:n + m] - Qr
            if order == 0:
                Pr, Qr = X[:n, n:n + m], None
            if not np.all(np.isfinite(X)):
                continue
            res = {}
            for fn in (em.getEPQ, em.getEPQ1, em.getEPQ2, em.getEPQ_pow):
                if fn is em.getEPQ_pow and g["nu"] > POW_LIMIT:
                    continue
                with warnings.catch_warnings(record=True) as w2:
                    warnings.simplefilter("always")
                    try:
                        res[fn.__name__] = fn(A, h, order=order, B=Bopt, half=half)
                    except Exception as e:  # noqa: BLE001
                        fam = _family_of("raises-" + type(e).__name__, cc, g, True, fn.__name__)
                        ctx.fail(fam, "%s raises %s" % (fn.__name__, type(e).__name__),
                                 dict(inp, fn=fn.__name__, order=order, B=None if Bopt is None else Bopt.tolist(), half=half),
                                 repr(e), "E, P, Q")
                        continue
                ser2 = any("power series" in str(x.message) for x in w2)
                Ee, Pe, Qe = res[fn.__name__]
                opt = dict(inp, fn=fn.__name__, order=order, B=None if Bopt is None else Bopt.tolist(), half=half)
                for what, got, want in (("E", Ee, X[:n, :n]), ("P", Pe, Pr), ("Q", Qe, Qr)):
                    if want is None:
                        if not (isinstance(got, float) and got == 0.0):
                            ctx.fail("epq-order0-Q", "%s(order=0) returns Q != 0.0" % fn.__name__, opt, repr(got), "0.0")
                        continue
                    got = np.asarray(got, float)
                    if got.shape != want.shape:
                        ctx.fail("epq-shape-%s" % ("half" if half else "B" if Bopt is not None else "full"),
                                 "%s returns %s of the wrong shape" % (fn.__name__, what), opt, list(got.shape), list(want.shape))
                        continue
                    sc = float(np.abs(want).max())
                    if sc > 0 and float(np.abs(got - want).max()) > otol * sc:
                        ctx.fail(_family_of(what, cc, g, ser2, fn.__name__),
                                 "%s: %s does not reproduce one step of y' = Ay + Bu (order %d hold)" % (fn.__name__, what, order),
                                 opt, "relative error %.3e" % _rel(got, want), "<= %.1e" % otol)


def oracle_ss(ctx, s, otol=1e-8):
    """SSModel: round trips, tustin = bilinear formulas, sampled responses"""
    import scipy.linalg as la
    from pyyeti import ssmodel

    A, Bm, C, D = (np.asarray(s[k], float) for k in "ABCD")
    h = float(s["h"])
    n = A.shape[0]
    inp0 = {"kind": "ss", "A": A.tolist(), "B": Bm.tolist(), "C": C.tolist(), "D": D.tolist(), "h": h,
            "fam": s.get("fam", "system")}
    ctx.count("oracle-ss")
    S = ssmodel.SSModel(A, Bm, C, D)
    sing = np.linalg.matrix_rank(A) < n
    big = max(1.0, float(np.abs(A).max()), float(np.abs(Bm).max()))

    def cmp(fam, what, inp, got, want):
        for nm in "ABCD":
            a, b = np.asarray(getattr(got, nm), float), np.asarray(want[nm], float)
            sc = max(float(np.abs(b).max()), 1e-3 * big)
            if a.shape != b.shape or not np.all(np.isfinite(a)) or float(np.abs(a - b).max()) > otol * sc:
                ctx.fail(fam, what + " (%s)" % nm, inp, np.asarray(a).tolist(), np.asarray(b).tolist())
                return

    # one object, several conversions in a row (in an order drawn from the system itself): each result must be what
    # a fresh object gives -- nothing may be carried from one conversion to the next, and the continuous model must
    # not change
    g = np.random.default_rng(abs(hash((n, round(h, 12), float(np.round(A, 9).sum())))) % (2 ** 32))
    seq = [str(m) for m in g.choice(["zoha", "zoh", "foh", "tustin", "zoha", "zoh"], size=5)]
    S1 = ssmodel.SSModel(A.copy(), Bm.copy(), C.copy(), D.copy())
    try:
        with warnings.catch_warnings():
            warnings.simplefilter("ignore")
            for step, method in enumerate(seq):
                Zs = S1.c2d(h, method=method)
                Zf = ssmodel.SSModel(A.copy(), Bm.copy(), C.copy(), D.copy()).c2d(h, method=method)
                for nm in "ABCD":
                    if np.asarray(getattr(Zs, nm)).tobytes() != np.asarray(getattr(Zf, nm)).tobytes():
                        ctx.fail("c2d-call-sequence-%s-after-%s" % (method, "+".join(seq[:step]) or "nothing"),
                                 "c2d(%s) on an object already used for %s differs from c2d on a fresh object (%s)"
                                 % (method, seq[:step], nm), dict(inp0, sequence=seq[: step + 1]),
                                 np.asarray(getattr(Zs, nm)).tolist(), np.asarray(getattr(Zf, nm)).tolist())
                        raise StopIteration
            for nm, orig in zip("ABCD", (A, Bm, C, D)):
                if np.asarray(getattr(S1, nm)).tobytes() != np.asarray(orig, float).tobytes():
                    ctx.fail("c2d-modifies-continuous-model", "the continuous model changed during c2d (%s)" % nm,
                             dict(inp0, sequence=seq), np.asarray(getattr(S1, nm)).tolist(), np.asarray(orig).tolist())
    except StopIteration:
        pass
    except Exception:  # noqa: BLE001 - a raising conversion is reported by the loop below
        pass
    for method in ("zoh", "zoha", "foh", "tustin"):
        for prewarp in ((0,) if method != "tustin" else (0, None, 1.3 / h)):
            inp = dict(inp0, method=method, prewarp=prewarp)
            fam_s = "singular-A" if sing else "regular-A"
            try:
                with warnings.catch_warnings():
                    warnings.simplefilter("ignore")
                    Z = S.c2d(h, method=method, prewarp=prewarp)
            except Exception as e:  # noqa: BLE001
                ctx.fail("c2d-%s-%s-raises-%s" % (method, fam_s, type(e).__name__), "c2d raises", inp, repr(e), "a discrete model")
                continue
            if method == "tustin":
                k = 2 / h if not prewarp else prewarp / np.tan(prewarp * h / 2)
                I = np.eye(n)
                try:
                    Qi = np.linalg.inv(k * I - A)
                except np.linalg.LinAlgError:
                    continue
                want = {"A": Qi @ (k * I + A), "B": (I + Qi @ (k * I + A)) @ Qi @ Bm, "C": C, "D": C @ Qi @ Bm + D}
                cmp("tustin-c2d-bilinear", "c2d(tustin) differs from the bilinear formulas", inp, Z, want)
                # transfer function  H_d(z) = H_c(k (z-1)/(z+1))
                for z in (0.3 + 0.4j, -0.2 + 1.1j, 1.7):
                    sz = k * (z - 1) / (z + 1)
                    try:
                        Hd = Z.C @ np.linalg.solve(z * I - Z.A, Z.B) + Z.D
                        Hc = C @ np.linalg.solve(sz * I - A, Bm) + D
                    except np.linalg.LinAlgError:
                        continue
                    if np.abs(Hd - Hc).max() > 1e-7 * max(1.0, np.abs(Hc).max()) * max(1.0, np.linalg.cond(sz * I - A)):
                        ctx.fail("tustin-transfer-function", "H_d(z) != H_c(k(z-1)/(z+1))", dict(inp, z=[z.real, z.imag]),
                                 np.abs(Hd - Hc).max(), "equal")
            else:
                why = _log_guard(Z.A, h)
                if why:
                    ctx.count("oracle-skip:log")
                    continue
            # d2c(c2d(S)) = S
            try:
                with warnings.catch_warnings():
                    warnings.simplefilter("ignore")
                    Sb = Z.d2c(method=method, prewarp=prewarp)
            except Exception as e:  # noqa: BLE001
                ctx.fail("d2c-%s-%s" % (method, fam_s) if not (method == "zoh" and sing) else "d2c-zoh-singular-A",
                         "d2c(%s) raises %s on a model produced by c2d" % (method, type(e).__name__), inp, repr(e),
                         "the continuous model back")
                continue
            cmp("roundtrip-d2c-c2d-%s-%s" % (method, fam_s), "d2c(c2d(S)) != S", inp, Sb, {"A": A, "B": Bm, "C": C, "D": D})
            # c2d(d2c(Z)) = Z
            try:
                with warnings.catch_warnings():
                    warnings.simplefilter("ignore")
                    Zb = Sb.c2d(h, method=method, prewarp=prewarp)
                cmp("roundtrip-c2d-d2c-%s-%s" % (method, fam_s), "c2d(d2c(Z)) != Z", inp, Zb,
                    {"A": Z.A, "B": Z.B, "C": Z.C, "D": Z.D})
            except Exception as e:  # noqa: BLE001
                ctx.fail("c2d-%s-%s-raises-%s" % (method, fam_s, type(e).__name__), "c2d(d2c(Z)) raises", inp, repr(e), "Z")
            # sampled response against expm of an augmented system per step
            if method in ("zoh", "foh"):
                rng = np.random.default_rng(abs(hash(A.tobytes())) % (2 ** 32))
                m = Bm.shape[1]
                us = np.round(rng.standard_normal((6, m)) * 16) / 16
                us[0] = 0
                M = np.zeros((n + 2 * m, n + 2 * m))
                M[:n, :n] = A * h
                M[:n, n:n + m] = Bm * h
                M[n:n + m, n + m:] = np.eye(m)
                with warnings.catch_warnings():
                    warnings.simplefilter("ignore")
                    X = la.expm(M)
                x = np.zeros(n)
                ys = []
                for j in range(5):
                    ys.append(C @ x + D @ us[j])
                    du = (us[j + 1] - us[j]) if method == "foh" else np.zeros(m)
                    x = X[:n, :n] @ x + X[:n, n:n + m] @ us[j] + X[:n, n + m:] @ du
                yd = _sim_discrete(Z, us[:5])
                ys = np.array(ys)
                if np.abs(yd - ys).max() > otol * max(1.0, np.abs(ys).max()):
                    ctx.fail("sampled-response-%s" % method, "discrete %s model does not reproduce the sampled response" % method,
                             dict(inp, u=us.tolist()), yd.tolist(), ys.tolist())


def _oracle_cases(ctx):
    cases = fixed_cases() + gen_cases(ctx, ctx.pick(150, 4000), salt=11)
    # the known region of F12 and its neighbourhood
    for a, nu in ((2.0, 80.0), (1.0, 30.0), (4.0, 150.0), (1.0, 10.0)):
        A = np.array([[0.0, 1.0], [0.0, -a]])
        A = A * (nu / np.linalg.norm(A, 1))
        cases.append({"A": A, "h": 1.0, "fam": "singular", "tags": {"singular": True}})
    # near-singular A in the direct branch of _geti2
    for e in (1e-3, 1e-5, 1e-7):
        cases.append({"A": np.diag([-e, -3.0]), "h": 1.0, "fam": "stiff", "tags": {"stiff": True}})
    return cases


def search(ctx, hints):
    todo = []
    for hnt in hints[:40]:
        inp = hnt.get("input", {})
        if isinstance(inp, dict) and "sys" in inp:
            todo.append(("ss", inp["sys"]))
        elif isinstance(inp, dict) and "A" in inp:
            todo.append(("expm", {"A": np.array(inp["A"], float), "h": inp["h"], "fam": inp.get("fam") or "matrix",
                                  "layout": inp.get("layout")}))
    todo += [("expm", c) for c in _corpus(ctx)]
    todo += [("expm", c) for c in _oracle_cases(ctx)]
    todo += [("ss", s) for s in gen_systems(ctx, ctx.pick(40, 600), salt=12)]
    seen = set()
    for kind, c in todo:
        before = len(ctx.failures)
        if kind == "expm":
            oracle_expm(ctx, c)
        else:
            oracle_ss(ctx, c)
        # keep one failure per family (the first input that shows it)
        keep = []
        for f in ctx.failures[before:]:
            if f["family"] not in seen:
                seen.add(f["family"])
                keep.append(f)
        del ctx.failures[before:]
        ctx.failures.extend(keep)
        if len([f for f in seen if f not in (F12, NEAR_SING)]) >= 6:
            break


def replay(ctx, data):
    f = data.get("failure")
    if not f:
        return None
    inp = f["input"]
    if inp.get("kind") == "ss":
        oracle_ss(ctx, {k: np.array(inp[k], float) for k in "ABCD"} | {"h": inp["h"], "fam": inp.get("fam", "system")})
    else:
        oracle_expm(ctx, {"A": np.array(inp["A"], float), "h": inp["h"], "fam": inp.get("fam", "matrix"),
                          "layout": inp.get("layout")})
    for g in ctx.failures:
        if g["family"] == f["family"]:
            return g
    return ctx.failures[0] if ctx.failures else None
