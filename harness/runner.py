"""Verdict logic shared by every property check (DESIGN.md section 4).

    ./check Cxx --tier quick|thorough [--replay file]

A property module harness/props/cXX.py provides

    ID            "C05"
    LEAN_MODULES  lake targets holding the property theorems
    AUDIT_FILE    path (relative to lean/) of the `#print axioms` file
    THEOREMS      names expected in the audit output
    TRUSTED       extra trusted-base strings for the evidence file
    RULE          how cases are generated and what makes one non-trivial
    translate(ctx)        optional; regenerates lean/PyYetiVerif/Generated/*.lean from /repo;
                          raises TieBroken when the source no longer fits the translator
    correspondence(ctx)   runs implementation and Lean model on the same inputs; reports
                          disagreements with ctx.disagree(stream, input, impl, model)
    search(ctx, hints)    model-free oracle on the real code; reports failing inputs with
                          ctx.fail(family, what, input, observed, required)
    replay(ctx, data)     re-runs one recorded failing input

Exit codes: 0 = property held on everything explored (KNOWN-FINDING lines allowed),
1 = VIOLATION line printed, 2 = infrastructure failure (never a VIOLATION line).
"""
import argparse
import hashlib
import importlib
import json
import os
import random
import re
import subprocess
import sys
import time
import traceback

VERIF = os.path.dirname(os.path.dirname(os.path.abspath(__file__)))
LEAN = os.path.join(VERIF, "lean")
REPO = os.environ.get("PYYETI_REPO", "/repo")
ALLOWED_AXIOMS = {"propext", "Classical.choice", "Quot.sound"}
HYGIENE = re.compile(
    r"\bsorry\b|\badmit\b|^\s*axiom\s|native_decide|bv_decide|implemented_by|\bunsafe\s|maxHeartbeats\s+0"
)


class TieBroken(Exception):
    """A translator or a generated-table obligation no longer fits the source."""


class Infra(Exception):
    """Infrastructure failure: exit 2, never a violation."""


class LeanDriver:
    """Batch line protocol with `lake env lean --run Drivers/<name>.lean`."""

    def __init__(self, name):
        self.name = name
        self.path = os.path.join("Drivers", name + ".lean")
        if not os.path.exists(os.path.join(LEAN, self.path)):
            raise Infra("missing driver " + self.path)

    def ask(self, lines, timeout=1800):
        lines = list(lines)
        if not lines:
            return []
        for ln in lines:
            if "\n" in ln:
                raise Infra("newline inside a protocol line")
        p = subprocess.run(
            ["lake", "env", "lean", "--run", self.path],
            input="\n".join(lines) + "\n",
            capture_output=True,
            text=True,
            cwd=LEAN,
            timeout=timeout,
        )
        out = p.stdout.split("\n")
        if out and out[-1] == "":
            out.pop()
        if p.returncode != 0 or len(out) != len(lines):
            raise Infra(
                "driver %s: rc=%s, %d replies for %d requests\n%s"
                % (self.name, p.returncode, len(out), len(lines), p.stderr[-2000:])
            )
        return out


class Ctx:
    def __init__(self, prop, tier, seed):
        self.prop = prop
        self.tier = tier
        self.seed = seed
        self.rng = random.Random(seed)
        self.repo = REPO
        self.verif = VERIF
        self.lean = LEAN
        self.t0 = time.time()
        self.evaluations = 0
        self._distinct = set()
        self.hist = {}  # branch / stream histogram
        self.samples = []
        self.disagreements = []
        self.failures = []
        self.broken = []  # obligations that no longer check
        self.notes = []
        self.skipped = {}
        self.exhaustive = None
        self.extra = {}

    # -- helpers for property modules ------------------------------------------------
    @property
    def thorough(self):
        return self.tier == "thorough"

    def pick(self, quick, thorough):
        return thorough if self.thorough else quick

    def np_rng(self, salt=0):
        import numpy as np

        return np.random.default_rng([self.seed, salt])

    def driver(self, name):
        return LeanDriver(name)

    def case(self, key, nontrivial=True, branch=None, n=1):
        """Count one evaluated case; `key` identifies it for distinctness."""
        self.evaluations += n
        if nontrivial:
            self._distinct.add(hashlib.blake2b(repr(key).encode(), digest_size=8).digest())
        if branch is not None:
            self.count(branch)

    def count(self, branch, n=1):
        self.hist[branch] = self.hist.get(branch, 0) + n

    def skip(self, why, n=1):
        self.skipped[why] = self.skipped.get(why, 0) + n

    def sample(self, obj, cap=6):
        if len(self.samples) < cap:
            self.samples.append(obj)

    def disagree(self, stream, inp, impl, model):
        self.disagreements.append(
            {"stream": stream, "input": inp, "impl": impl, "model": model}
        )

    def fail(self, family, what, inp, observed, required):
        self.failures.append(
            {
                "family": family,
                "what": what,
                "input": inp,
                "observed": observed,
                "required": required,
            }
        )

    def require_branches(self, names):
        """A run whose generators missed a declared branch is broken, not quietly green."""
        missing = [n for n in names if not self.hist.get(n)]
        if missing:
            raise Infra("generator missed declared branches: %s" % missing)

    def elapsed(self):
        return time.time() - self.t0


def _fork_run(fn, items):
    """Run [fn(x) for x in items] in a forked child; returns (results|None, how-it-died)."""
    import pickle

    r, w = os.pipe()
    pid = os.fork()
    if pid == 0:
        code = 0
        try:
            os.close(r)
            dn = os.open(os.devnull, os.O_WRONLY)
            os.dup2(dn, 2)  # glibc abort messages of a crashing extension are not our output
            data = pickle.dumps([fn(x) for x in items])
            with os.fdopen(w, "wb") as f:
                f.write(data)
        except BaseException:
            traceback.print_exc()
            code = 3
        finally:
            os._exit(code)
    os.close(w)
    with os.fdopen(r, "rb") as f:
        data = f.read()
    _, status = os.waitpid(pid, 0)
    if os.WIFSIGNALED(status):
        return None, "crash:signal-%d" % os.WTERMSIG(status)
    if os.WEXITSTATUS(status) != 0:
        return None, "crash:exit-%d" % os.WEXITSTATUS(status)
    import pickle as _p

    return _p.loads(data), None


def isolated_map(fn, items, chunk=4000):
    """map(fn, items) in forked children so that a crash of compiled code (segfault, abort)
    becomes a result ("crash:...") for the single item that provokes it."""
    items = list(items)
    out = []
    budget = [12]  # single crashing items to pin down exactly; later crashed chunks stay coarse
    for i in range(0, len(items), chunk):
        out += _isolated(fn, items[i : i + chunk], budget)
    return out


def _isolated(fn, items, budget):
    if not items:
        return []
    res, died = _fork_run(fn, items)
    if res is not None:
        return res
    if len(items) == 1:
        budget[0] -= 1
        return [died]
    if budget[0] <= 0:
        return [died + ":somewhere-in-chunk"] * len(items)
    mid = len(items) // 2
    return _isolated(fn, items[:mid], budget) + _isolated(fn, items[mid:], budget)


def sh(cmd, cwd=None, timeout=3600):
    p = subprocess.run(cmd, cwd=cwd, capture_output=True, text=True, timeout=timeout)
    return p.returncode, p.stdout + p.stderr


def lean_closure(mod):
    """Files of the property's Lean modules and everything of this library they import."""
    todo = list(mod.LEAN_MODULES)
    seen = []
    while todo:
        m = todo.pop()
        if m in seen or not m.startswith("PyYetiVerif"):
            continue
        path = os.path.join(LEAN, *m.split(".")) + ".lean"
        if not os.path.exists(path):
            continue
        seen.append(m)
        for line in open(path, encoding="utf-8"):
            mm = re.match(r"\s*(?:public\s+)?import\s+(PyYetiVerif[\w.]*)", line)
            if mm:
                todo.append(mm.group(1))
    return [os.path.join(LEAN, *m.split(".")) + ".lean" for m in seen]


def hygiene(mod):
    hits = []
    drv = os.path.join(LEAN, "Drivers", mod.ID + ".lean")
    for path in lean_closure(mod) + ([drv] if os.path.exists(drv) else []):
        if True:
            in_block = 0
            for i, line in enumerate(open(path, encoding="utf-8"), 1):
                # strip block and line comments (coarse but conservative)
                text = line
                out = ""
                j = 0
                while j < len(text):
                    if text.startswith("/-", j):
                        in_block += 1
                        j += 2
                    elif text.startswith("-/", j) and in_block:
                        in_block -= 1
                        j += 2
                    elif in_block:
                        j += 1
                    elif text.startswith("--", j):
                        break
                    else:
                        out += text[j]
                        j += 1
                if HYGIENE.search(out):
                    hits.append("%s:%d: %s" % (os.path.relpath(path, LEAN), i, line.strip()))
    return hits


def generated_changed(mod):
    """Generated/*.lean files in the property's import closure that differ from the committed snapshot."""
    files = [os.path.relpath(p, VERIF) for p in lean_closure(mod) if os.sep + "Generated" + os.sep in p]
    if not files:
        return []
    rc, out = sh(["git", "status", "--porcelain", "--"] + files, cwd=VERIF)
    return [l for l in out.splitlines() if l.strip()]


def lean_build(ctx, mod):
    """Build the property's Lean modules; returns (ok, log)."""
    targets = list(mod.LEAN_MODULES)
    rc, out = sh(["lake", "build"] + targets, cwd=LEAN, timeout=3600)
    return rc == 0, out


def audit(ctx, mod):
    """Run the `#print axioms` file; returns {theorem: [axioms]}."""
    rc, out = sh(["lake", "env", "lean", mod.AUDIT_FILE], cwd=LEAN, timeout=1800)
    res = {}
    for m in re.finditer(r"'([^']+)' depends on axioms: \[([^\]]*)\]", out.replace("\n ", " ")):
        res[m.group(1)] = [a.strip() for a in m.group(2).replace("\n", " ").split(",") if a.strip()]
    for m in re.finditer(r"'([^']+)' does not depend on any axioms", out):
        res[m.group(1)] = []
    return rc, out, res


def _raised_in_repo(e):
    """'file:line in func' if the exception was raised by, or from a library call made by, pyYeti code (the tree under
    test): the innermost frame is in the tree, or the frames below the last harness frame start in the tree (e.g. a
    numpy LinAlgError out of an `inv` that pyYeti called on a matrix it had made singular).  Else None."""
    tb = traceback.extract_tb(e.__traceback__)
    if not tb:
        return None
    root = os.path.realpath(REPO) + os.sep
    harness = os.path.realpath(os.path.join(VERIF, "harness")) + os.sep
    last_h = max((i for i, f in enumerate(tb) if os.path.realpath(f.filename).startswith(harness)), default=-1)
    below = tb[last_h + 1:] or tb[-1:]
    for f in (tb[-1], below[0]):
        if os.path.realpath(f.filename).startswith(root):
            return "%s:%d in %s" % (os.path.relpath(os.path.realpath(f.filename), root), f.lineno, f.name)
    return None


def load_known():
    path = os.path.join(VERIF, "known_findings.json")
    if not os.path.exists(path):
        return []
    return json.load(open(path))["findings"]


def jsonable(x):
    try:
        import numpy as np
    except Exception:  # pragma: no cover
        np = None
    if isinstance(x, dict):
        return {str(k): jsonable(v) for k, v in x.items()}
    if isinstance(x, (list, tuple, set)):
        return [jsonable(v) for v in x]
    if np is not None:
        if isinstance(x, np.ndarray):
            return jsonable(x.tolist())
        if isinstance(x, (np.integer,)):
            return int(x)
        if isinstance(x, (np.floating,)):
            return float(x)
        if isinstance(x, (np.bool_,)):
            return bool(x)
        if isinstance(x, (np.complexfloating,)):
            return [float(x.real), float(x.imag)]
    if isinstance(x, complex):
        return [x.real, x.imag]
    if isinstance(x, float):
        if x != x or x in (float("inf"), float("-inf")):
            return repr(x)
        return x
    if isinstance(x, (int, str, bool)) or x is None:
        return x
    if isinstance(x, bytes):
        return x.hex()
    return repr(x)


def write_replay(prop, obj):
    d = os.path.join(VERIF, "evidence", "replays")
    os.makedirs(d, exist_ok=True)
    body = json.dumps(jsonable(obj), indent=1, sort_keys=True)
    h = hashlib.blake2b(body.encode(), digest_size=6).hexdigest()
    path = os.path.join(d, "%s-%s.json" % (prop, h))
    with open(path, "w") as f:
        f.write(body)
    return path


def main(argv=None):
    ap = argparse.ArgumentParser()
    ap.add_argument("prop")
    ap.add_argument("--tier", default=os.environ.get("VERIF_TIER", "quick"))
    ap.add_argument("--replay")
    ap.add_argument("--no-lean", action="store_true", help="development only: skip the Lean build/audit")
    a = ap.parse_args(argv)
    tier = a.tier if a.tier in ("quick", "thorough") else "quick"
    try:
        seed = int(os.environ.get("VERIF_SEED", "0"))
    except ValueError:
        seed = 0
    prop = a.prop.upper()
    # property modules do `from runner import TieBroken`: make that the SAME module object as
    # this script (which runs as __main__), otherwise `except TieBroken` below never matches
    sys.modules.setdefault("runner", sys.modules[__name__])
    sys.path.insert(0, os.path.join(VERIF, "harness"))
    ctx = Ctx(prop, tier, seed)
    try:
        mod = importlib.import_module("props." + prop.lower())
    except Exception:
        traceback.print_exc()
        print("INFRA: cannot import property module for", prop)
        return 2

    if a.replay:
        try:
            data = json.load(open(a.replay))
            f = mod.replay(ctx, data)
        except Exception:
            traceback.print_exc()
            return 2
        if f:
            print("VIOLATION property=%s replay=%s" % (prop, a.replay))
            print(json.dumps(jsonable(f), indent=1))
            return 1
        print("replay: property holds on the recorded input")
        return 0

    obligations = []  # (name, discharged?)
    axioms_seen = set()
    try:
        # 1. translators ---------------------------------------------------------
        if hasattr(mod, "translate"):
            try:
                for name in mod.translate(ctx) or []:
                    obligations.append(("translator:" + name, True))
            except TieBroken as e:
                ctx.broken.append("translator: %s" % e)
                obligations.append(("translator", False))
        # 2. proofs --------------------------------------------------------------
        if not a.no_lean:
            ok, log = lean_build(ctx, mod)
            if not ok:
                changed = generated_changed(mod)
                errs = [l for l in log.splitlines() if l.startswith("error")][:12]
                if changed:
                    ctx.broken.append(
                        "lean build fails on regenerated tables %s: %s" % (changed, errs)
                    )
                else:
                    print(log[-6000:])
                    raise Infra("lake build failed with unchanged generated tables")
            hits = hygiene(mod)
            if hits:
                raise Infra("hygiene grep hit: %s" % hits[:5])
            if ok:
                rc, out, ax = audit(ctx, mod)
                if rc != 0:
                    print(out[-4000:])
                    raise Infra("audit file does not compile")
                for th in mod.THEOREMS:
                    if th not in ax:
                        raise Infra("theorem %s missing from the audit output" % th)
                    bad = set(ax[th]) - ALLOWED_AXIOMS
                    if bad:
                        raise Infra("theorem %s depends on %s" % (th, sorted(bad)))
                    axioms_seen |= set(ax[th])
                    obligations.append((th, True))
            else:
                for th in mod.THEOREMS:
                    obligations.append((th, False))
            if ctx.thorough and ok and getattr(mod, "LEANCHECKER", True):
                rc, out = sh(["lake", "env", "leanchecker"] + list(mod.LEAN_MODULES), cwd=LEAN, timeout=3600)
                obligations.append(("leanchecker", rc == 0))
                if rc != 0:
                    print(out[-3000:])
                    raise Infra("leanchecker rejected the compiled modules")
        # 3. correspondence ------------------------------------------------------
        try:
            mod.correspondence(ctx)
        except (Infra, subprocess.TimeoutExpired):
            raise
        except TieBroken as e:
            # a stream that needs the translated tables and cannot get them: the tie is (already) broken, go on
            ctx.broken.append("correspondence: %s" % e)
            ctx.disagreements.append({"stream": "tie-broken", "input": None, "impl": str(e)[:300], "model": "translator output"})
        except Exception as e:
            # an exception that escapes from pyYeti's own code on an input the harness holds to be valid is a
            # broken tie (the model does not raise there), not an infrastructure failure: go on to the search
            where = _raised_in_repo(e)
            if not where:
                raise
            ctx.broken.append("correspondence: the implementation raised %s: %s at %s" % (type(e).__name__, str(e)[:200], where))
            ctx.disagreements.append({"stream": "implementation-raises", "input": None,
                                      "impl": "%s: %s at %s" % (type(e).__name__, str(e)[:200], where), "model": "no exception"})
        streams = sorted({d["stream"] for d in ctx.disagreements})
        for s in streams:
            ctx.broken.append("correspondence stream %s: model and implementation differ" % s)
        obligations.append(("correspondence", not ctx.disagreements))
        # 4. search for a failing input (always runs its base stream) -------------
        try:
            mod.search(ctx, [d for d in ctx.disagreements if d.get("input") is not None])
        except (Infra, subprocess.TimeoutExpired):
            raise
        except TieBroken as e:
            ctx.broken.append("oracle: %s" % e)
        except Exception as e:
            where = _raised_in_repo(e)
            if not where:
                raise
            ctx.broken.append("oracle: the implementation raised %s: %s at %s" % (type(e).__name__, str(e)[:200], where))
    except Infra as e:
        print("INFRA:", e)
        return 2
    except subprocess.TimeoutExpired as e:
        print("INFRA: timeout", e)
        return 2
    except Exception:
        traceback.print_exc()
        print("INFRA: unexpected exception in the check")
        return 2

    # 5. verdict -----------------------------------------------------------------
    known = load_known()
    open_known = {k["family"]: k for k in known if k.get("property") == prop and k.get("status") == "open"}
    lines = []
    violations = 0
    seen_known = {}
    unknown = {}
    for f in ctx.failures:
        if f["family"] in open_known:
            seen_known.setdefault(f["family"], f)
        else:
            unknown.setdefault(f["family"], f)
    for fam, f in seen_known.items():
        lines.append("KNOWN-FINDING: property=%s %s [%s] %s" % (prop, open_known[fam]["id"], fam, f["what"]))
    for fam, f in unknown.items():
        path = write_replay(prop, {"property": prop, "kind": "failing-input", "failure": f,
                                   "broken_obligations": ctx.broken})
        lines.append("VIOLATION property=%s replay=%s" % (prop, path))
        violations += 1
    if ctx.broken and not unknown:
        path = write_replay(prop, {"property": prop, "kind": "no-failing-input-found",
                                   "broken_obligations": ctx.broken,
                                   "disagreements": ctx.disagreements[:5]})
        lines.append("VIOLATION property=%s replay=%s no-failing-input-found" % (prop, path))
        violations += 1

    # 6. evidence ------------------------------------------------------------------
    n_ob = len(obligations)
    n_ok = sum(1 for _, ok in obligations if ok)
    cov = {
        "obligations": n_ob,
        "discharged": n_ok,
        "obligation_names": [n for n, _ in obligations],
        "undischarged": [n for n, ok in obligations if not ok],
        "checker_cmd": "cd lean && lake build %s && lake env lean %s%s"
        % (" ".join(mod.LEAN_MODULES), mod.AUDIT_FILE,
           " && lake env leanchecker " + " ".join(mod.LEAN_MODULES) if ctx.thorough else ""),
        "trusted_base": ["Lean 4.33.0 kernel", "axioms: " + ", ".join(sorted(axioms_seen))]
        + list(getattr(mod, "TRUSTED", [])),
        "evaluations": ctx.evaluations,
        "distinct_nontrivial": len(ctx._distinct),
        "rule": getattr(mod, "RULE", ""),
        "samples": jsonable(ctx.samples) or ["(none)"],
        "branch_histogram": ctx.hist,
        "skipped": ctx.skipped,
        "disagreements": len(ctx.disagreements),
        "failing_inputs_found": len(ctx.failures),
        "known_findings_seen": sorted(seen_known),
        "broken_obligations": ctx.broken,
        "partial": getattr(mod, "PARTIAL", ""),
    }
    if ctx.exhaustive is not None:
        cov["exhaustive"] = bool(ctx.exhaustive)
    cov.update(jsonable(ctx.extra))
    ev = {
        "property_id": prop,
        "tier": tier,
        "seed": seed,
        "level": "proof",
        "coverage": cov,
        "assumptions": list(getattr(mod, "ASSUMPTIONS", [])),
        "wall_s": round(ctx.elapsed(), 2),
        "violations": violations,
    }
    # evidence/Cxx.json describes /repo itself; a run against another tree (PYYETI_REPO: seeded
    # changes, reverted fixes) writes to evidence/alt/ (not tracked) so that it never replaces it
    evdir = os.path.join(VERIF, "evidence") if os.path.realpath(REPO) == "/repo" else os.path.join(VERIF, "evidence", "alt")
    os.makedirs(evdir, exist_ok=True)
    with open(os.path.join(evdir, prop + ".json"), "w") as f:
        json.dump(ev, f, indent=1)
    if os.path.realpath(REPO) != "/repo":
        # a run against another tree regenerated Generated/*.lean from THAT tree: put the committed snapshot
        # (= /repo's) back so that the next build in this checkout is about /repo again
        gen = [os.path.relpath(p, VERIF) for p in lean_closure(mod) if os.sep + "Generated" + os.sep in p]
        if gen:
            sh(["git", "checkout", "--"] + gen, cwd=VERIF)
    for l in lines:
        print(l)
    print(
        "%s %s seed=%d: %d/%d obligations, %d evaluations (%d distinct non-trivial), "
        "%d disagreements, %d failing inputs, %.1fs"
        % (prop, tier, seed, n_ok, n_ob, ctx.evaluations, len(ctx._distinct),
           len(ctx.disagreements), len(ctx.failures), ctx.elapsed())
    )
    return 1 if violations else 0


if __name__ == "__main__":
    sys.exit(main())
