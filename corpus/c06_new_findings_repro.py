# Standalone reproducers (pyyeti only) of the four findings the C06 extension round reports under new families.
# Run: PYTHONPATH=/repo /venv/bin/python corpus/c06_new_findings_repro.py
import io, warnings
import numpy as np
from pyyeti import cb
from pyyeti.nastran import n2p
warnings.simplefilter("ignore")
np.set_printoptions(precision=4, suppress=True, linewidth=160)

def skew(r):
    x, y, z = r
    return np.array([[0., -z, y], [z, 0., -x], [-y, x, 0.]])
def rb6(p, ref):
    T = np.eye(6); T[:3, 3:] = -skew(np.asarray(p, float) - np.asarray(ref, float)); return T

xyz = np.array([[0., 0., 0.], [2., 0., 0.], [0., 3., 1.]])
uset = n2p.addgrid(None, [1, 2, 3], "b", 0, xyz, 0)
M = np.diag(np.r_[[2.] * 3, [.1, .2, .3], [1.] * 3, [.2, .1, .3], [4.] * 3, [.3, .3, .1]])   # lumped masses at the 3 grids
K = np.zeros((18, 18))                                                                            # free: K @ RB = 0

# (a) reorder=True with a boundary order that is not its own inverse
bset = np.r_[6:12, 12:18, 0:6]
r1 = cb.mk_net_drms(M, K, bset, uset=uset, reorder=True)
r0 = cb.mk_net_drms(M, K, np.arange(18), uset=uset)
print("(a) max |ifltma_sc(reorder) - ifltma_sc(sorted)[:, bset]| =", np.abs(r1.ifltma_sc - r0.ifltma_sc[:, bset]).max())
bset2 = np.r_[6:12, 0:6, 12:18]   # a swap (its own inverse): fine
r2 = cb.mk_net_drms(M, K, bset2, uset=uset, reorder=True)
print("    same for a swap                                       =", np.abs(r2.ifltma_sc - r0.ifltma_sc[:, bset2]).max())

# (b) cgatm rotational rows, ref != origin
g = 9.80665 / 0.0254
for ref in ([0, 0, 0], [1., 2., -1.]):
    r = cb.mk_net_drms(M, K, np.arange(18), uset=uset, ref=ref)
    RB = np.vstack([rb6(p, ref) for p in xyz])
    print("(b) ref =", ref, " cgatm_sc @ RB, rotational rows (should be [0 I]):")
    print(r.cgatm_sc @ RB)[3:] if False else print((r.cgatm_sc @ RB)[3:])

# (c) ifatm, one boundary grid that is not in columns 0..5
M1 = np.zeros((8, 8)); M1[2:, 2:] = M[:6, :6]; M1[:2, :2] = np.eye(2); M1[0, 2] = M1[2, 0] = .3
K1 = np.diag([100., 400., 0, 0, 0, 0, 0, 0])
u1 = n2p.addgrid(None, 1, "b", 0, [0, 0, 0], 0)
r = cb.mk_net_drms(M1, K1, np.arange(2, 8), uset=u1)
print("(c) non-zero columns of ifatm_sc:", np.nonzero(np.abs(r.ifatm_sc).max(axis=0))[0], " (b-set is columns 2..7)")

# (d) cbcheck without modal DOF
D = np.hstack([rb6([1., 0, 0], xyz[0]), -rb6([1., 0, 0], xyz[1])])
K2 = D.T @ np.diag([1e5, 2e5, 3e5, 1e4, 2e4, 3e4]) @ D
try:
    cb.cbcheck(io.StringIO(), M[:12, :12], K2, np.arange(12), np.arange(6), uset.iloc[:12], n_freefree_modes=8)
    print("(d) ok")
except ValueError as e:
    print("(d) cbcheck with nq = 0 raises ValueError:", e)
