"""Reproducer for the C20 families order-stats-n-narrow-int-rank-array / kfactor-narrow-int-sample-size-array.

    PYTHONPATH=/repo /venv/bin/python corpus/c20_narrow_int_dtype_repro.py      (exit 1 = defect present)

Integer arguments handed over as 8-bit numpy arrays: `_run_brentq` doubles its bracket in the dtype of `r`
(`b = 2 * a` wraps around at 128/256, `n - s` overflows), and `np.sqrt` of an int8/uint8 array is a float16
(int16: float32), so the k-factors lose all but 3-4 digits.
"""
import sys
import warnings

import numpy as np
from pyyeti import stats

warnings.simplefilter("ignore")
bad = 0
try:
    v = stats.order_stats("n", p=0.99, c=0.9, r=np.array([1], dtype=np.uint8))
    ok = list(v) == [230]
except Exception as e:  # noqa: BLE001
    v, ok = "%s: %s" % (type(e).__name__, e), False
print("order_stats('n', p=.99, c=.9, r=uint8[1]) ->", v, "(python int r: %d)" % stats.order_stats("n", p=0.99, c=0.9, r=1))
bad += not ok
for fn in (stats.ksingle, stats.kdouble):
    a = float(fn(0.99, 0.9, np.array([15], dtype=np.uint8))[0])
    b = float(fn(0.99, 0.9, 15))
    print("%s(.99, .9, uint8[15]) = %.12f, python int: %.12f, rel. diff %.1e" % (fn.__name__, a, b, abs(a - b) / b))
    bad += abs(a - b) > 1e-9 * b
sys.exit(1 if bad else 0)
