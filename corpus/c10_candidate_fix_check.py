"""Evidence for the C10 repair candidates (corpus/c10_*_candidate_fix.diff).

Run against a scratch worktree of /repo with the patches applied (never /repo itself):

    git -C /repo worktree add /tmp/wt_c10 HEAD && cd /tmp/wt_c10 && git apply <verif>/corpus/c10_F23_candidate_fix.diff \
        <verif>/corpus/c10_F25_candidate_fix.diff
    PATCHED=/tmp/wt_c10 /venv/bin/python <verif>/corpus/c10_candidate_fix_check.py

It (1) compares the patched default `findap` and the patched numba-variant text (executed as plain Python through the C10
translator) with the Lean models `Findap.findapDefFix` / `findapSeqFix` (driver ops `xd`, `xs`) exactly, on exhaustive small and
random dyadic signals; (2) checks the property itself on the API (first sample, strict alternation, every extreme within stol,
both variants identical); (3) compares the patched `fdepsd(resp='pvelo')` tail with `Fde.psdRowFix` run at Float (op `ffx`) and
checks `var_test**(b/2) * di_test == di_sig`; (4) measures the cost of the patched default variant on long records.
Writes corpus/c10_candidate_fix_evidence.json.
"""
import itertools
import json
import os
import random
import subprocess
import sys
import time
from fractions import Fraction

import numpy as np

HERE = os.path.dirname(os.path.abspath(__file__))
VERIF = os.path.dirname(HERE)
PATCHED = os.environ.get("PATCHED", "/tmp/wt_c10")
sys.path.insert(0, PATCHED)
sys.path.insert(0, os.path.join(VERIF, "harness"))
from translate import c10_findap_numba as tr  # noqa: E402
from pyyeti import cyclecount, fdepsd, srs  # noqa: E402

assert os.path.abspath(cyclecount.__file__).startswith(os.path.abspath(PATCHED)), cyclecount.__file__


def fr(x):
    f = Fraction(x)
    return str(f.numerator) if f.denominator == 1 else "%d/%d" % (f.numerator, f.denominator)


def ask(lines):
    p = subprocess.run(["lake", "env", "lean", "--run", "Drivers/C10.lean"], input="\n".join(lines) + "\n", capture_output=True,
                       text=True, cwd=os.path.join(VERIF, "lean"))
    out = p.stdout.split("\n")[:-1]
    assert p.returncode == 0 and len(out) == len(lines), p.stderr[-500:]
    return out


def alt(z):
    d = np.diff(z)
    return bool(np.all(d != 0) and np.all(d[1:] * d[:-1] < 0))


def stol_exact(y, tol):
    y = np.asarray(y, float)
    md = np.abs(np.diff(y)).max()
    return Fraction(float(abs(tol * md))) == abs(Fraction(tol) * Fraction(float(md)))


def main():
    seq, info = tr.load(PATCHED)
    rng = random.Random(20260928)
    cases = []
    for L in range(1, 7):
        for s in itertools.product(range(4), repeat=L):
            for tol in (0.0, 0.25, 0.5, 0.75, 1.0, 1.5):
                cases.append(([float(v) for v in s], tol))
    for _ in range(30000):
        L = rng.randint(1, 60)
        k = rng.choice([1, 3, 8, 50])
        y = [0.0]
        for _ in range(L - 1):
            y.append(y[-1] + rng.randint(-k, k) * rng.choice([1, 1, 1, 10]) / rng.choice([1, 2, 8]))
        cases.append((y, rng.choice([0, 2.0 ** -20, 1 / 64, 1 / 16, 0.125, 0.25, 0.5, 1.0, 1.5, -0.25])))
    cases += [([float(v) for v in list(range(0, 1001)) + [0]], 1 / 128), ([1.0, 1.0, 4.0], 2.0 ** -20),
              ([-100.0, 0.0, 4.0, -4.0], 1 / 16), ([0.0, 80.0, 83.0, 78.0, 160.0], 1 / 16), ([0.0, 1.0, 2.0, 0.0], 0.75)]
    cases = [(y, t) for y, t in cases if len(y) < 2 or stol_exact(y, t)]
    req = []
    for y, tol in cases:
        a = "%s | %s" % (fr(tol), " ".join(fr(v) for v in y))
        req += ["xd " + a, "xs " + a, "xk " + a]
    rep = ask(req)
    res = dict(cases=len(cases), model_disagreements=0, property_failures=0, variants_differ=0, slow_path=0, examples=[])
    for i, (y, tol) in enumerate(cases):
        yy = np.array(y)
        a = np.asarray(cyclecount.findap(yy.copy(), tol))
        b = np.asarray(seq(yy.copy(), tol))
        md, ms, fast = rep[3 * i], rep[3 * i + 1], rep[3 * i + 2]
        res["slow_path"] += fast == "0"
        if " ".join(map(str, np.nonzero(a)[0])) != md or " ".join(map(str, np.nonzero(b)[0])) != ms:
            res["model_disagreements"] += 1
            res["examples"].append({"y": y, "tol": tol, "default": np.nonzero(a)[0].tolist(), "numba": np.nonzero(b)[0].tolist(), "lean": [md, ms]})
        st = abs(tol * np.abs(np.diff(yy)).max()) if yy.size > 1 else 0.0
        z = yy[a]
        if not (a[0] and alt(z) and yy.max() - z.max() <= st and z.min() - yy.min() <= st):
            res["property_failures"] += 1
            res["examples"].append({"y": y, "tol": tol, "selected": np.nonzero(a)[0].tolist(), "stol": st})
        if not np.array_equal(a, b):
            res["variants_differ"] += 1
    # F25: patched pvelo tail
    sys.path.insert(0, os.path.join(VERIF, "harness", "props"))
    import scipy.signal as signal

    def bits(x):
        return " ".join(str(int(v)) for v in np.ascontiguousarray(np.atleast_1d(np.asarray(x, dtype=np.float64))).view(np.uint64))

    req, meta = [], []
    nprng = np.random.default_rng(7)
    for k in range(12):
        sig = nprng.standard_normal(600)
        resp = ("pvelo", "absacce")[k % 2]
        freq = np.array([10.0, 17.0, 25.0])
        out = fdepsd.fdepsd(sig, 200.0, freq, 12.0, resp=resp, nbins=16, parallel="no", hpfilter=None, winends=None, detrend=False, rolloff=None)
        coef = srs._process_inputs(resp, "abs", None, "primary")[0]
        for j, f in enumerate(out.freq):
            bb, aa = coef(12.0, 1 / out.sr, 2 * np.pi * f)
            rh = signal.lfilter(bb, aa, out.sig)
            req.append("ffx %s %s %s %s %d %s | %s" % ("a" if resp == "absacce" else "p", bits(12.0), bits(f), bits(60.0), 16, bits(1e-6), bits(rh)))
            meta.append((out, j, resp))
    rep = ask(req)
    res["fdepsd_rows"] = len(meta)
    res["fdepsd_model_disagreements"] = 0
    res["fdepsd_relation_failures"] = 0
    for (out, j, resp), r in zip(meta, rep):
        ps = np.array([int(t) for t in r.split("|")[-1].split()], dtype=np.uint64).view(np.float64)
        v = ps[9:12]
        dto = ps[15:18]
        if not (np.allclose(out.var_test.values[j], v, rtol=1e-9, atol=0) and np.allclose(out.di_test.values[j], dto, rtol=1e-9, atol=0)
                and np.allclose(out.psd.values[j], ps[0:5], rtol=1e-9, atol=0)):
            res["fdepsd_model_disagreements"] += 1
        for col, b in enumerate((4, 8, 12)):
            if not np.isclose(out.var_test.values[j, col] ** (b / 2) * out.di_test.values[j, col], out.di_sig.values[j, col], rtol=1e-9, atol=0):
                res["fdepsd_relation_failures"] += 1
    # cost of the patched default variant
    t = {}
    big = np.random.default_rng(1).standard_normal(2_000_000)
    q = np.round(big * 8) / 8          # quantised: plateaus of exactly equal samples everywhere
    drift = np.cumsum(np.full(200_000, 1e-8)) + np.where(np.arange(200_000) % 1000 == 0, 1.0, 0.0)  # sub-tolerance drift: slow path
    for name, sigv in (("random-2e6", big), ("quantised-2e6", q), ("drifting-2e5(slow path)", drift)):
        t0 = time.time()
        cyclecount.findap(sigv)
        t[name] = round(time.time() - t0, 3)
    res["seconds_patched_findap"] = t
    res["numba_variant_lines"] = info
    json.dump(res, open(os.path.join(HERE, "c10_candidate_fix_evidence.json"), "w"), indent=1)
    print(json.dumps({k: v for k, v in res.items() if k != "examples"}, indent=1))
    return 0 if not (res["model_disagreements"] or res["property_failures"] or res["variants_differ"]
                     or res["fdepsd_model_disagreements"] or res["fdepsd_relation_failures"]) else 1


if __name__ == "__main__":
    sys.exit(main())
