#!/venv/bin/python
"""Tie of the CANDIDATE REPAIR of finding F61 (corpus/c01_f61_candidate_fix.diff) to its Lean model.

F61: `tsolve-unc-complex-dtype-damped-rigid-body-mode-damping-ignored` (SolveUnc on UNCOUPLED equations with
complex-dtype coefficients integrates a damped rigid-body equation as an undamped one).

The patched function (pyyeti/ode/solveunc.py of a scratch worktree with the patch applied) is run against the
`..._fixed` model (lean/PyYetiVerif/Model/SuCoefCplxUncFixed.lean: `cplxUncRbRowsFixed`, driver request `curbfix`,
theorems in Props/C01CplxUncFixed.lean) on generated systems, incl. the finding's own failing input.

    /venv/bin/python corpus/c01_f61_candidate_check.py --patched /tmp/wt_fix_c01 [--base /repo] [--n 3000] [--seed 0]

Streams (all on the rigid-body rows of `SolveUnc(m, b, k.astype(complex), h, rb, order)`):
  tie-tsolve     patched `tsolve` d, v, a  vs the Lean model at Float.  m, b have a real dtype and only k a complex one,
                 so every operation on the rigid-body rows is real double arithmetic: EXACT comparison (bit patterns)
                 for rows the model integrates without `exp` (regimes none / rigid); rows with `exp` (rigidVelo,
                 rigidFull) are compared exactly first and, where numpy's SIMD exp and libm's exp differ in the last
                 bit, within the amplification of one ulp of exp through the coefficient formulas;
                 the regime of every row (read off pc.rbd) must equal the model's `classify`: exact
  tie-generator  the same through `generator` (one send per step)
  cplx-dtype     m, b ALSO of complex dtype (zero imaginary parts): numeric vs the same model (complex division in
                 numpy is not the real division)
  reference      model-free: the exact step of  x'' + beta x' = p + s t  written with the series of the phi-functions
                 ((1-e^-z)/z, ...), real and genuinely complex beta = b/m, well conditioned |beta h| in [1e-2, 3];
                 and  m a + b v = f  at every sample
  real-path      patched complex-dtype rows vs the real-dtype path (`get_su_coef`) of the same tree
  unchanged-b0   systems without damped rigid-body rows: patched == unpatched, bit for bit (tsolve and generator
                 incl. corrections `gen.send((-1, dF))`), all rows
  unchanged-el   elastic rows of every system: patched == unpatched, bit for bit
  unchanged-fs   `fsolve` of every system: patched == unpatched, bit for bit
  f61-input      the finding's reproducer: the patched complex-dtype solution equals the real-dtype and SolveExp2 ones
Result -> corpus/c01_f61_candidate_evidence.json
"""
import argparse
import json
import os
import pickle
import random
import struct
import subprocess
import sys
import tempfile
import time

import numpy as np

HERE = os.path.dirname(os.path.abspath(__file__))
VERIF = os.path.dirname(HERE)
EPS = 2.0 ** -52


# ----------------------------------------------------------------------------------------------- worker (per tree)
def run_cases(cases):
    import warnings
    from pyyeti import ode

    out = []
    for c in cases:
        m, b, k, h, order, rb = c["m"], c["b"], c["k"], c["h"], c["order"], c["rb"]
        F, d0, v0 = c["F"], c["d0"], c["v0"]
        res = {}
        with warnings.catch_warnings():
            warnings.simplefilter("ignore")
            kw = {} if rb is None else {"rb": rb}
            ts = ode.SolveUnc(m, b, k, h, order=order, **kw)
            res["rbidx"] = np.arange(len(b))[ts.rb] if isinstance(ts.rb, slice) else np.array(ts.rb)
            rbd = getattr(ts.pc, "rbd", "absent")
            if rbd == "absent":
                res["rbd"] = "absent"
            elif rbd is None:
                res["rbd"] = None
            else:
                res["rbd"] = {n: np.array(getattr(rbd, n)) for n in "G A B Gp Ap Bp".split()}
            s = ts.tsolve(F, d0, v0)
            res["t"] = (s.d.copy(), s.v.copy(), s.a.copy())
            if c.get("gen") and ts.slices and F.shape[1] > 1:
                gen, _, _ = ts.generator(F.shape[1], F[:, 0], d0, v0)
                for i in range(1, F.shape[1]):
                    if c["gen"] == 2:
                        gen.send((i, 0.25 * F[:, i]))
                        gen.send((-1, 0.75 * F[:, i]))
                    else:
                        gen.send((i, F[:, i]))
                s = ts.finalize()
                res["g"] = (s.d.copy(), s.v.copy(), s.a.copy())
            if c.get("fs") is not None:
                ts2 = ode.SolveUnc(m, b, k, h, order=order, **kw)
                s = ts2.fsolve(np.resize(F, (F.shape[0], len(c["fs"]))) + 0.25, c["fs"])
                res["f"] = (s.d.copy(), s.v.copy(), s.a.copy())
            if c.get("real"):
                kr = np.real(k)
                tr = ode.SolveUnc(None if m is None else np.real(m), np.real(b), kr, h, order=order, **kw)
                s = tr.tsolve(F, d0, v0)
                res["r"] = (s.d.copy(), s.v.copy(), s.a.copy())
            if c.get("exp2"):
                n = len(b)
                te = ode.SolveExp2(np.eye(n) if m is None else np.diag(np.real(m)), np.diag(np.real(b)),
                                   np.diag(np.real(k)), h, order=order)
                s = te.tsolve(F, d0, v0)
                res["e"] = (s.d.copy(), s.v.copy(), s.a.copy())
        out.append(res)
    return out


def worker_main(inp, outp):
    with open(inp, "rb") as f:
        cases = pickle.load(f)
    with open(outp, "wb") as f:
        pickle.dump(run_cases(cases), f)


def run_tree(tree, cases):
    with tempfile.TemporaryDirectory(prefix="c01f61_") as td:
        inp, outp = os.path.join(td, "in.pkl"), os.path.join(td, "out.pkl")
        with open(inp, "wb") as f:
            pickle.dump(cases, f)
        env = dict(os.environ, PYTHONPATH=tree, OMP_NUM_THREADS="1", OPENBLAS_NUM_THREADS="1")
        p = subprocess.run([sys.executable, os.path.abspath(__file__), "--worker", inp, outp], env=env, cwd=tree,
                           capture_output=True, text=True)
        if p.returncode != 0:
            raise SystemExit("worker failed on %s:\n%s" % (tree, p.stderr[-3000:]))
        with open(outp, "rb") as f:
            return pickle.load(f)


# ----------------------------------------------------------------------------------------------------- generation
def bits(x):
    return str(struct.unpack("<Q", struct.pack("<d", float(x)))[0])


def unbits(s):
    return struct.unpack("<d", struct.pack("<Q", int(s)))[0]


def gen_beta(rng, h, kind):
    """b/m of one rigid-body row by regime kind"""
    velo = 1e-5 / np.sqrt(h) * 2          # beta at the velocity cut-off
    disp = 10 * (1e-10 / h) ** (1 / 3) * 2  # beta at the displacement cut-off
    if kind == "zero":
        return 0.0
    if kind == "tiny":
        return velo * rng.uniform(0.01, 0.95)
    if kind == "velo":
        return np.exp(rng.uniform(np.log(velo * 1.05), np.log(disp * 0.95)))
    if kind == "full":
        return np.exp(rng.uniform(np.log(disp * 1.05), np.log(max(3.0 / h, disp * 2))))
    if kind == "well":
        return rng.uniform(1e-2, 3.0) / h
    raise ValueError(kind)


def gen_case(rng, idx, kinds=None, force_b0=False, cplx_mb=False, cplx_beta=False):
    h = rng.choice([0.01, 0.001, 0.1, 0.5, 0.02])
    order = rng.choice([0, 1])
    nrb = rng.choice([1, 1, 2, 3])
    nel = rng.choice([0, 1, 2])
    n = nrb + nel
    contiguous = rng.random() < 0.7
    pos = list(range(n))
    if not contiguous:
        rng.shuffle(pos)
    rbpos = sorted(pos[:nrb])
    use_m = rng.random() < 0.7
    m = np.array([rng.choice([1.0, 2.0, 0.5, 3.0, rng.uniform(0.3, 30)]) for _ in range(n)]) if use_m else None
    k = np.zeros(n, complex)
    b = np.zeros(n)
    rowkind = {}
    for i in range(n):
        mi = 1.0 if m is None else m[i]
        if i in rbpos:
            kind = "zero" if force_b0 else (kinds[len(rowkind) % len(kinds)] if kinds else
                                            rng.choice(["zero", "tiny", "velo", "full", "full", "well"]))
            rowkind[i] = kind
            sign = -1.0 if (kind in ("tiny", "velo") and rng.random() < 0.15) else 1.0
            b[i] = sign * gen_beta(rng, h, kind) * mi
        else:
            w = rng.uniform(2.0, 60.0)
            k[i] = mi * w * w * (1 + (1j * rng.uniform(0, 0.05) if rng.random() < 0.3 else 0))
            b[i] = 2 * rng.choice([0.0, 0.02, 0.5, 1.7]) * w * mi
    nt = rng.choice([1, 2, 3, 8, 25, 40])
    t = np.arange(nt) * h
    F = np.vstack([rng.uniform(-3, 3) * np.sin(rng.uniform(0.5, 9) * t + rng.uniform(0, 3)) + rng.uniform(-1, 1)
                   for _ in range(n)])
    d0 = None if rng.random() < 0.4 else np.array([rng.uniform(-1, 1) for _ in range(n)])
    v0 = None if rng.random() < 0.4 else np.array([rng.uniform(-2, 2) for _ in range(n)])
    rb = None if rng.random() < 0.5 else np.array(rbpos)
    bb, mm = b, m
    if cplx_mb:
        bb = b.astype(complex)
        mm = None if m is None else m.astype(complex)
    if cplx_beta:
        bb = b.astype(complex)
        for i in rbpos:
            bb[i] = b[i] * np.exp(1j * rng.uniform(-1.2, 1.2))
    return {"id": idx, "m": mm, "b": bb, "k": k, "h": h, "order": order, "rb": rb, "F": F, "d0": d0, "v0": v0,
            "rbpos": rbpos, "rowkind": rowkind, "gen": 0, "fs": None}


# ------------------------------------------------------------------------------------------------------ the model
def ask_model(cases):
    lines = []
    for c in cases:
        rp = c["rbpos"]
        n = len(rp)
        nt = c["F"].shape[1]
        ws = ["curbfix", str(c["order"]), bits(c["h"]), str(n)]
        if c["m"] is None:
            ws.append("none")
        else:
            ws.append("vec")
            ws += [bits(np.real(c["m"][i])) for i in rp]
        ws += [bits(np.real(c["b"][i])) for i in rp]
        ws += [bits(0.0 if c["d0"] is None else c["d0"][i]) for i in rp]
        ws += [bits(0.0 if c["v0"] is None else c["v0"][i]) for i in rp]
        ws.append(str(nt))
        for i in rp:
            ws += [bits(x) for x in c["F"][i]]
        lines.append(" ".join(ws))
    p = subprocess.run(["lake", "env", "lean", "--run", "Drivers/C01.lean"], input="\n".join(lines) + "\n",
                       capture_output=True, text=True, cwd=os.path.join(VERIF, "lean"))
    out = p.stdout.split("\n")
    if out and out[-1] == "":
        out.pop()
    if p.returncode != 0 or len(out) != len(lines):
        raise SystemExit("driver: rc=%s, %d replies for %d requests\n%s" % (p.returncode, len(out), len(lines),
                                                                            p.stderr[-2000:]))
    res = []
    for c, ln in zip(cases, out):
        ws = ln.split()
        if ws[0] != "ok":
            raise SystemExit("driver reply %r for case %s" % (ln[:80], c["id"]))
        n = len(c["rbpos"])
        nt = c["F"].shape[1]
        regs = ws[1:1 + n]
        nums = np.array([unbits(x) for x in ws[1 + n:]])
        assert nums.size == 3 * n * nt, (nums.size, n, nt)
        d, v, a = nums.reshape(3, n, nt)
        res.append((regs, d, v, a))
    return res


def impl_regimes(res, h):
    """regime of every rigid-body row as the patched pc says"""
    rbd = res["rbd"]
    n = len(res["rbidx"])
    if rbd is None:
        return ["none"] * n
    out = []
    for i in range(n):
        damped_v = not (rbd["Gp"][i] == 1.0 and rbd["Ap"][i] == h / 2 and rbd["Bp"][i] == h / 2)
        damped_d = not (rbd["G"][i] == h and rbd["A"][i] == h * h / 3 and rbd["B"][i] == h * h / 3 / 2)
        out.append("rigidFull" if damped_d else ("rigidVelo" if damped_v else "rigid"))
    return out


def same_bits(x, y):
    x = np.ascontiguousarray(x)
    y = np.ascontiguousarray(y)
    return x.shape == y.shape and x.dtype == y.dtype and (x.view(np.uint8) == y.view(np.uint8)).all()


def eq_vals(x, y):
    """equal values (NaN never occurs here); -0.0 == 0.0"""
    return x.shape == y.shape and bool(np.all(x == y))


# ----------------------------------------------------------------------------------------- model-free reference
def phis(z):
    """phi_k(z) = sum_j (-z)^j / (j+k)!,  k = 1, 2, 3  (phi_1 = (1 - e^-z)/z, ...)"""
    out = []
    for kk in (1, 2, 3):
        term = 1.0
        for q in range(1, kk + 1):
            term /= q
        s = 0.0
        j = 0
        while j < 80:
            s = s + term
            j += 1
            term = term * (-z) / (j + kk)
        out.append(s)
    return out


def ref_rows(c):
    """exact piecewise solution of every rigid-body row, python complex arithmetic, series form"""
    h, order = c["h"], c["order"]
    nt = c["F"].shape[1]
    outs = []
    for i in c["rbpos"]:
        mi = 1.0 if c["m"] is None else complex(c["m"][i])
        beta = complex(c["b"][i]) / mi
        z = beta * h
        p1, p2, p3 = phis(z)
        ez = np.exp(-z)
        x = 0.0 if c["d0"] is None else complex(c["d0"][i])
        v = 0.0 if c["v0"] is None else complex(c["v0"][i])
        f = c["F"][i] / mi
        D, V, A = [x], [v], [f[0] - beta * v]
        for j in range(nt - 1):
            p = f[j]
            s = (f[j + 1] - f[j]) / h if order == 1 else 0.0
            x, v = (x + v * h * p1 + p * h * h * p2 + s * h ** 3 * p3,
                    v * ez + p * h * p1 + s * h * h * p2)
            D.append(x)
            V.append(v)
            A.append(f[j + 1] - beta * v)
        outs.append((np.array(D), np.array(V), np.array(A)))
    return outs


# ------------------------------------------------------------------------------------------------------------ main
def main():
    ap = argparse.ArgumentParser()
    ap.add_argument("--worker", nargs=2)
    ap.add_argument("--patched", default="/tmp/wt_fix_c01")
    ap.add_argument("--base", default="/repo")
    ap.add_argument("--n", type=int, default=3000)
    ap.add_argument("--seed", type=int, default=0)
    ap.add_argument("--out", default=os.path.join(HERE, "c01_f61_candidate_evidence.json"))
    a = ap.parse_args()
    if a.worker:
        worker_main(*a.worker)
        return
    t0 = time.time()
    rng = random.Random(a.seed)
    stats = {}
    fails = []

    def cnt(kk, n=1):
        stats[kk] = stats.get(kk, 0) + n

    def fail(stream, c, what):
        if len(fails) < 20:
            fails.append({"stream": stream, "case": c["id"], "what": what,
                          "input": {q: (None if c[q] is None else np.asarray(c[q]).tolist() if not np.iscomplexobj(
                              c[q]) else [str(x) for x in np.asarray(c[q])]) for q in ("m", "b", "k", "rb", "d0", "v0")}
                          | {"h": c["h"], "order": c["order"], "nt": int(c["F"].shape[1])}})
        cnt("FAIL " + stream)

    # ---- the tie cases: m, b real dtype, k complex dtype
    N = a.n
    tie = []
    for i in range(N):
        c = gen_case(rng, "tie%d" % i)
        c["gen"] = 1 if (i % 2 == 0) else 0
        c["real"] = True
        c["exp2"] = (i % 4 == 0)
        c["fs"] = np.array([0.0, 0.3, 2.0, 11.0]) if i % 3 == 0 else None
        tie.append(c)
    # regime boundaries and mixed systems on purpose
    for i, kinds in enumerate([["full", "zero"], ["velo", "zero"], ["tiny", "zero"], ["tiny", "tiny"], ["velo", "full"],
                               ["zero", "zero"], ["well", "velo", "zero"], ["full"], ["velo"], ["tiny"]] * 12):
        c = gen_case(rng, "mix%d" % i, kinds=kinds)
        c["gen"] = 1
        c["real"] = True
        tie.append(c)
    # the finding's own failing input (DESIGN.md, known_findings.json F61)
    hh = 0.01
    tt = np.arange(400) * hh
    for order in (1, 0):
        tie.append({"id": "F61-reproducer-order%d" % order, "m": np.array([2.0, 3.0]), "b": np.array([0.8, 0.3]),
                    "k": np.array([0.0, 50.0]) * (1 + 0j), "h": hh, "order": order, "rb": None,
                    "F": np.vstack([np.sin(3 * tt), np.cos(2 * tt)]), "d0": None, "v0": None, "rbpos": [0],
                    "rowkind": {0: "full"}, "gen": 1, "fs": np.array([0.0, 0.5, 3.0]), "real": True, "exp2": True})
    # the proved counterexample's input (m = b = 1, h = 1, order 0, force held at 1, from rest)
    tie.append({"id": "F61-lean-counterexample", "m": np.array([1.0]), "b": np.array([1.0]),
                "k": np.array([0.0 + 0j]), "h": 1.0, "order": 0, "rb": np.array([0]), "F": np.ones((1, 2)), "d0": None,
                "v0": None, "rbpos": [0], "rowkind": {0: "full"}, "gen": 1, "fs": None, "real": True, "exp2": True})

    pat = run_tree(a.patched, tie)
    bas = run_tree(a.base, tie)
    mod = ask_model(tie)

    for c, rp, rb_, (regs, md, mv, ma) in zip(tie, pat, bas, mod):
        h = c["h"]
        rbidx = list(rp["rbidx"])
        if rbidx != c["rbpos"]:
            fail("partition", c, "rb rows %s, expected %s" % (rbidx, c["rbpos"]))
            continue
        iregs = impl_regimes(rp, h)
        cnt("tie cases")
        if iregs != regs:
            fail("tie-regime", c, "impl %s model %s" % (iregs, regs))
            continue
        for r in regs:
            cnt("regime " + r)
        nt = c["F"].shape[1]
        for src, name in (("t", "tie-tsolve"), ("g", "tie-generator")):
            if src not in rp:
                continue
            d, v, acc = (x[rbidx] for x in rp[src])
            if np.abs(d.imag).max() or np.abs(v.imag).max() or np.abs(acc.imag).max():
                fail(name, c, "imaginary part in a rigid-body row of a real system")
                continue
            for j, r in enumerate(regs):
                I = (d[j].real, v[j].real, acc[j].real)
                M = (md[j], mv[j], ma[j])
                exact = all(eq_vals(x, y) for x, y in zip(I, M))
                if exact:
                    cnt(name + " rows exact (" + ("no exp" if r in ("none", "rigid") else "exp") + ")")
                    continue
                if r in ("none", "rigid"):
                    fail(name, c, "row %d (regime %s) differs from the model: max %g" % (
                        j, r, max(np.abs(x - y).max() for x, y in zip(I, M))))
                    continue
                # one ulp of exp, amplified by the coefficient formulas, accumulated over the steps
                mi = 1.0 if c["m"] is None else c["m"][c["rbpos"][j]].real
                beta = abs(c["b"][c["rbpos"][j]].real / mi)
                amp = 1 + 1 / (beta * beta * h) * (1 + 1 / beta)
                fs = np.abs(c["F"][c["rbpos"][j]] / mi).max() + 1e-300
                sc = max(np.abs(x).max() for x in I) + fs
                tol = 16 * EPS * nt * (amp * fs * (1 + beta) + sc * (1 + beta) * (1 + h))
                err = max(np.abs(x - y).max() for x, y in zip(I, M))
                if err <= tol:
                    cnt(name + " rows within exp-ulp bound")
                    stats["max err/tol (exp rows)"] = max(stats.get("max err/tol (exp rows)", 0.0), err / tol)
                else:
                    fail(name, c, "row %d (regime %s): |impl-model| = %g > %g" % (j, r, err, tol))
        # real-dtype path of the same tree, SolveExp2
        d, v, acc = (x[rbidx] for x in rp["t"])
        for src, name, rtol in (("r", "real-path", 1e-11), ("e", "exp2", 1e-8)):
            if src not in rp:
                continue
            if src == "e" and any(kk in ("tiny", "velo") for kk in c["rowkind"].values()):
                cnt("exp2 skipped (row between/below the cut-offs: approximate by design)")
                continue
            if src == "e" and np.abs(c["k"].imag).max() > 0:
                continue
            R = tuple(x[rbidx] for x in rp[src])
            ok = True
            for x, y in zip((d, v, acc), R):
                sc = max(np.abs(y).max(), np.abs(c["F"][c["rbpos"]]).max(), 1.0)
                amp = 1.0
                for j in c["rbpos"]:
                    mi = 1.0 if c["m"] is None else c["m"][j].real
                    be = abs(c["b"][j].real / mi)
                    if c["rowkind"].get(j) in ("full", "well", "velo") and be > 0:
                        amp = max(amp, 1 / (be * be * h) * (1 + 1 / be))
                if np.abs(x - y).max() > rtol * sc * nt + 64 * EPS * amp * sc * nt:
                    ok = False
            if ok:
                cnt(name + " agree")
            else:
                fail(name, c, "max diff %g" % max(np.abs(x - y).max() for x, y in zip((d, v, acc), R)))
        # unchanged: elastic rows, fsolve, and everything if no row is damped
        el = [i for i in range(len(c["b"])) if i not in rbidx]
        for src in ("t", "g"):
            if src in rp:
                if all(same_bits(x[el], y[el]) for x, y in zip(rp[src], rb_[src])):
                    cnt("unchanged-el")
                else:
                    fail("unchanged-el", c, "elastic rows changed (%s)" % src)
        if "f" in rp:
            if all(same_bits(x, y) for x, y in zip(rp["f"], rb_["f"])):
                cnt("unchanged-fs")
            else:
                fail("unchanged-fs", c, "fsolve changed")
        if not np.any(c["b"][c["rbpos"]]):
            for src in ("t", "g"):
                if src in rp:
                    if all(same_bits(x, y) for x, y in zip(rp[src], rb_[src])):
                        cnt("unchanged-b0 (tie cases)")
                    else:
                        fail("unchanged-b0", c, "changed (%s)" % src)
        if str(c["id"]).startswith("F61"):
            dd = max(np.abs(x - y).max() for x, y in zip(rp["t"], rp["r"]))
            de = max(np.abs(x - y).max() for x, y in zip(rp["t"], rp["e"]))
            db = max(np.abs(x - y).max() for x, y in zip(rb_["t"], rb_["r"]))
            stats["f61-input %s" % c["id"]] = {"patched vs real-dtype": dd, "patched vs SolveExp2": de,
                                               "UNPATCHED vs real-dtype": db}
            if not (dd < 1e-12 and de < 1e-10 and db > 1e-2):
                fail("f61-input", c, "patched vs real %g, vs exp2 %g, unpatched vs real %g" % (dd, de, db))

    # ---- no damped rigid-body row: bit for bit, incl. generator corrections and complex m, b
    b0 = []
    for i in range(max(200, N // 4)):
        c = gen_case(rng, "b0-%d" % i, force_b0=True, cplx_mb=(i % 3 == 0))
        c["gen"] = 2 if i % 2 else 1
        c["fs"] = np.array([0.0, 1.0, 7.0]) if i % 2 == 0 else None
        b0.append(c)
    pat = run_tree(a.patched, b0)
    bas = run_tree(a.base, b0)
    for c, rp, rb_ in zip(b0, pat, bas):
        ok = rp["rbd"] is None
        for src in ("t", "g", "f"):
            if src in rp:
                ok = ok and all(same_bits(x, y) for x, y in zip(rp[src], rb_[src]))
                cnt("unchanged-b0 " + {"t": "tsolve", "g": "generator", "f": "fsolve"}[src])
        if not ok:
            fail("unchanged-b0", c, "patched differs from unpatched without a damped rigid-body row")

    # ---- complex dtype for m and b too (zero imaginary parts): numeric vs the model; generator with corrections
    cd = []
    for i in range(max(200, N // 4)):
        c = gen_case(rng, "cd-%d" % i, cplx_mb=True, kinds=[rng.choice(["zero", "well", "full", "well"])
                                                            for _ in range(3)])
        c["gen"] = 2 if i % 2 else 1
        c["fs"] = np.array([0.0, 1.0, 7.0]) if i % 5 == 0 else None
        cd.append(c)
    pat = run_tree(a.patched, cd)
    bas = run_tree(a.base, cd)
    mod = ask_model(cd)
    for c, rp, rb_, (regs, md, mv, ma) in zip(cd, pat, bas, mod):
        rbidx = list(rp["rbidx"])
        h = c["h"]
        nt = c["F"].shape[1]
        if impl_regimes(rp, h) != regs:
            fail("cplx-dtype", c, "regimes impl %s model %s" % (impl_regimes(rp, h), regs))
            continue
        for src in ("t", "g"):
            if src not in rp:
                continue
            d, v, acc = (x[rbidx] for x in rp[src])
            ok = True
            for x, y in zip((d, v, acc), (md, mv, ma)):
                sc = max(np.abs(y).max(), np.abs(c["F"][c["rbpos"]]).max(), 1.0)
                amp = 1.0
                for j in c["rbpos"]:
                    be = abs(c["b"][j] / (1.0 if c["m"] is None else c["m"][j]))
                    if be > 0:
                        amp = max(amp, 1 / (be * be * h) * (1 + 1 / be))
                if np.abs(x - y).max() > 1e-11 * sc * nt + 64 * EPS * amp * sc * nt:
                    ok = False
            if ok:
                cnt("cplx-dtype " + {"t": "tsolve", "g": "generator+corrections"}[src] + " agree")
            else:
                fail("cplx-dtype", c, "%s: max diff %g" % (src, max(
                    np.abs(x - y).max() for x, y in zip((d, v, acc), (md, mv, ma)))))
        if "f" in rp:
            if all(same_bits(x, y) for x, y in zip(rp["f"], rb_["f"])):
                cnt("unchanged-fs")
            else:
                fail("unchanged-fs", c, "fsolve changed")

    # ---- model-free reference: well-conditioned damped rows, real and genuinely complex beta
    rf = []
    for i in range(max(300, N // 3)):
        c = gen_case(rng, "ref-%d" % i, kinds=["well"], cplx_beta=(i % 2 == 1))
        c["gen"] = 2 if i % 3 == 0 else 1
        rf.append(c)
    pat = run_tree(a.patched, rf)
    for c, rp in zip(rf, pat):
        rbidx = list(rp["rbidx"])
        ref = ref_rows(c)
        nt = c["F"].shape[1]
        for src in ("t", "g"):
            if src not in rp:
                continue
            d, v, acc = (x[rbidx] for x in rp[src])
            ok = True
            worst = 0.0
            for j in range(len(rbidx)):
                mi = 1.0 if c["m"] is None else c["m"][c["rbpos"][j]]
                be = abs(c["b"][c["rbpos"][j]] / mi)
                amp = 1 + 1 / (be * be * c["h"]) * (1 + 1 / be)
                for x, y in zip((d[j], v[j], acc[j]), ref[j]):
                    sc = max(np.abs(y).max(), np.abs(c["F"][c["rbpos"][j]] / mi).max(), 1e-3)
                    e = np.abs(x - y).max()
                    worst = max(worst, e / sc)
                    if e > 1e-10 * sc * nt + 64 * EPS * amp * sc * nt * (1 + be):
                        ok = False
                # equation of motion at every sample
                res = np.abs(mi * acc[j] + c["b"][c["rbpos"][j]] * v[j] - c["F"][c["rbpos"][j]]).max()
                if res > 1e-12 * (np.abs(c["F"][c["rbpos"][j]]).max() + np.abs(c["b"][c["rbpos"][j]] * v[j]).max() + 1):
                    ok = False
            stats["reference worst rel err"] = max(stats.get("reference worst rel err", 0.0), worst)
            if ok:
                cnt("reference agree (%s beta)" % ("complex" if np.iscomplexobj(c["b"]) else "real"))
            else:
                fail("reference", c, "%s: worst rel err %g" % (src, worst))

    ev = {
        "finding": "F61 tsolve-unc-complex-dtype-damped-rigid-body-mode-damping-ignored",
        "candidate": "corpus/c01_f61_candidate_fix.diff",
        "model": "lean/PyYetiVerif/Model/SuCoefCplxUncFixed.lean (cplxUncRbRowsFixed), driver request curbfix",
        "patched_tree": a.patched, "base_tree": a.base, "seed": a.seed, "n": a.n,
        "systems": len(tie) + len(b0) + len(cd) + len(rf),
        "stats": stats, "failures": fails, "result": "agree" if not fails else "DISAGREE",
        "seconds": round(time.time() - t0, 1),
    }
    with open(a.out, "w") as f:
        json.dump(ev, f, indent=1, default=float)
        f.write("\n")
    print(json.dumps({"result": ev["result"], "systems": ev["systems"], "failures": len(fails),
                      "seconds": ev["seconds"]}))
    for kk in sorted(stats):
        print("  %-70s %s" % (kk, stats[kk]))
    for fl in fails[:8]:
        print("  FAIL", fl["stream"], fl["case"], fl["what"])
    sys.exit(0 if not fails else 1)


if __name__ == "__main__":
    main()
