#!/usr/bin/env python
"""C13, finding F65 (wttabled1-negative-value-three-digit-exponent-overflows-field): tie of the CANDIDATE FIX
(corpus/c13_f65_candidate_fix.diff) to its Lean model `Bulk.tabled1LinesDefault` (Model/BulkTabDefault.lean; theorems in
Props/C13ValuesTab.lean).

    /venv/bin/python corpus/c13_f65_candidate_check.py [--tree /tmp/wt_fix_c13] [--n 4000] [--seed 0]

Without an existing --tree the script makes a scratch worktree of /repo (PYYETI_REPO), applies the diff, and removes the
worktree at the end; /repo itself is never written.  Checks, per generated input (tid, card name, pairs of doubles):

  exact-text   patched `wttabled1(f, tid, t, d)` == driver `tabled1d` (the Lean model), byte for byte
  roundtrip    `rdtabled1` of the patched text returns every value within half a unit of the last written digit
               (5e-10 relative; 5e-9 for a negative value with a three-digit exponent) - the property C13
  unchanged    where no value is negative with a three-digit exponent the patched text == the text of the UNPATCHED routine
  user-form    for user-supplied pair formats the patched routine writes what the unpatched one writes (always)

The result goes to corpus/c13_f65_candidate_evidence.json.
"""
import argparse
import importlib.util
import io
import json
import math
import os
import random
import struct
import subprocess
import sys
import time

HERE = os.path.dirname(os.path.abspath(__file__))
VERIF = os.path.dirname(HERE)
LEAN = os.path.join(VERIF, "lean")
REPO = os.environ.get("PYYETI_REPO", "/repo")
DIFF = os.path.join(HERE, "c13_f65_candidate_fix.diff")


def bits(x):
    return struct.unpack("<Q", struct.pack("<d", float(x)))[0]


def gen_double(rng):
    u = rng.random()
    if u < 0.10:
        return rng.choice([0.0, -0.0, 1.0, -1.0, 0.5, 9.9999999995, 9.9999999999999e99, 1e100, -1e100, -1e-100, 5e-324, -5e-324,
                           -2.2250738585072014e-308, 1.7976931348623157e308, -1.7976931348623157e308, 0.1, -0.015625,
                           -9.9999999995e99, -9.99999999949e99, -9.9999999995e-100, -1.00000000005e-99, -9.99999999999e-100])
    if u < 0.40:
        return rng.choice([-1.0, 1.0]) * rng.uniform(1.0, 9.999999) * 10.0 ** rng.randint(-12, 12)
    if u < 0.60:
        return rng.choice([-1.0, 1.0]) * rng.uniform(1.0, 9.999999) * 10.0 ** rng.randint(-300, 300)
    if u < 0.80:  # negative, three-digit exponent: the family of F65
        return -rng.uniform(1.0, 9.999999) * 10.0 ** rng.choice([rng.randint(-307, -100), rng.randint(100, 307)])
    if u < 0.9:
        return float(rng.randint(-10 ** 9, 10 ** 9)) / rng.choice([1, 2, 4, 8, 1000])
    # values that round to the next power of ten at 9 / 10 significant digits, also across the two / three digit border
    return rng.choice([-1.0, 1.0]) * (10.0 ** rng.choice([rng.randint(-20, 20), 100, -99, -100, 99])) * \
        (1 - rng.choice([1e-10, 4.9e-10, 5e-10, 5.1e-10, 1e-9, 1e-11]))


def overflows(x):
    return len("{:16.9E}".format(x)) > 16


def load_unpatched(patched_pkg_bulk):
    """the bulk.py of REPO as a second module inside the (patched) package: only bulk.py differs between the trees"""
    spec = importlib.util.spec_from_file_location("pyyeti.nastran._bulk_unpatched", os.path.join(REPO, "pyyeti", "nastran", "bulk.py"))
    mod = importlib.util.module_from_spec(spec)
    spec.loader.exec_module(mod)
    return mod


def main():
    ap = argparse.ArgumentParser()
    ap.add_argument("--tree", default="/tmp/wt_fix_c13")
    ap.add_argument("--n", type=int, default=4000)
    ap.add_argument("--seed", type=int, default=0)
    a = ap.parse_args()
    made = False
    if not os.path.isdir(a.tree):
        subprocess.run(["git", "-C", REPO, "worktree", "add", "--detach", a.tree, "HEAD"], check=True, capture_output=True)
        # the deliverable has a prose header in front of the diff: git apply skips it
        subprocess.run(["git", "-C", a.tree, "apply", DIFF], check=True)
        made = True
    try:
        return run(a)
    finally:
        if made:
            subprocess.run(["git", "-C", REPO, "worktree", "remove", "--force", a.tree], check=False)


def run(a):
    t0 = time.time()
    sys.path.insert(0, a.tree)
    sys.dont_write_bytecode = True
    import numpy as np
    from pyyeti.nastran import bulk as pb

    assert os.path.abspath(pb.__file__).startswith(os.path.abspath(a.tree)), pb.__file__
    ub = load_unpatched(pb)
    head = subprocess.run(["git", "-C", REPO, "rev-parse", "HEAD"], capture_output=True, text=True).stdout.strip()
    rng = random.Random(a.seed)
    cases = []
    # the finding's own inputs first
    fixed_inputs = [
        (1, "TABLED1", [(0.0, -1e100), (1.0, 1.0)]),
        (1, "TABLED1", [(-1e100, -1e-100)]),
        (4000, "TABLED1", [(-1e100, 1.0), (2.0, -3e-200), (-1.7976931348623157e308, -5e-324)]),
        (7, "TABLEM1", []),
        (7, "TABLED2", [(0.0, 1.0)]),
    ]
    for c in fixed_inputs:
        cases.append(c)
    while len(cases) < a.n:
        npts = rng.choice([0, 1, 1, 2, 2, 3, 4, 5, 6, 7, 9])
        tid = rng.choice([1, 4000, rng.randint(1, 99999999), rng.randint(1, 10 ** 15)])
        name = rng.choice(["TABLED1", "TABLED1", "TABLED2", "TABLEM1", "TABDMP1", "TAB"])
        cases.append((tid, name, [(gen_double(rng), gen_double(rng)) for _ in range(npts)]))
    reqs, texts = [], []
    hist = {"exact-text": 0, "roundtrip": 0, "unchanged": 0, "changed:overflowing-input": 0, "npts:0": 0, "npts:odd": 0, "npts:even": 0,
            "fallback-field": 0, "user-form": 0}
    bad = []
    for tid, name, pairs in cases:
        t = [p[0] for p in pairs]
        d = [p[1] for p in pairs]
        f = io.StringIO()
        pb.wttabled1(f, tid, t, d, tablestr=name)
        text = f.getvalue()
        texts.append(text)
        reqs.append("tabled1d %s %d %s" % (name.encode().hex(), tid, " ".join("%d %d" % (bits(x), bits(y)) for x, y in pairs)))
        g = io.StringIO()
        ub.wttabled1(g, tid, t, d, tablestr=name)
        any_over = any(overflows(v) for p in pairs for v in p)
        hist["fallback-field"] += sum(1 for p in pairs for v in p if overflows(v))
        if not any_over:
            hist["unchanged"] += 1
            if g.getvalue() != text:
                bad.append({"check": "unchanged", "input": [tid, name, pairs], "patched": text, "unpatched": g.getvalue()})
        else:
            hist["changed:overflowing-input"] += 1
            if g.getvalue() == text:
                bad.append({"check": "changed", "input": [tid, name, pairs], "note": "patched text equals the overflowing text"})
        hist["npts:0" if not pairs else "npts:odd" if len(pairs) % 2 else "npts:even"] += 1
        # the property: what rdtabled1 returns
        f.seek(0)
        back = pb.rdtabled1(f, name.lower())
        hist["roundtrip"] += 1
        ok = isinstance(back, dict) and list(back.keys()) == [tid]
        if ok:
            arr = np.asarray(back[tid], dtype=float).reshape(-1, 2)
            ok = arr.shape[0] == len(pairs)
            for (x, y), (bx, by) in zip(pairs, arr.tolist() if ok else []):
                for v, b in ((x, bx), (y, by)):
                    tol = (5.0000001e-9 if overflows(v) else 5.0000001e-10) * abs(v)
                    if v != 0 and abs(v) < 1e-300:  # subnormal neighbourhood: the reader's own float conversion
                        tol = max(tol, 5e-324)
                    if math.isinf(b) and math.isinf(float("%.9E" % v)) and b * v > 0:
                        # +-1.797693135E+308: the decimal the field shows is within the bound but above the largest double;
                        # the theorem speaks of the decimal (exact), the float reader returns inf
                        hist["reader-float-overflow"] = hist.get("reader-float-overflow", 0) + 1
                        continue
                    if not abs(b - v) <= tol:
                        ok = False
        if not ok:
            bad.append({"check": "roundtrip", "input": [tid, name, pairs], "text": text, "read": repr(back)})
    # user-supplied forms: patched == unpatched, whatever the values (incl. overflowing ones: not the default form's business)
    forms = ["{:8.2f}{:8.5f}", "{:16.2f}{:16.5f}", "{:16.8E}{:16.8E}", "{:16.9e}{:16.9e}", "{:8.1E}{:8.1E}", "{:#8.0f}{:8.3f}",
             "{:16.9E}{:16.8E}", "{:<16.9E}{:16.9E}"]
    for k in range(max(200, a.n // 10)):
        form = forms[k % len(forms)]
        npts = rng.choice([0, 1, 2, 3, 4, 5, 8, 9])
        t = [rng.uniform(-99, 99) if "f" in form else gen_double(rng) for _ in range(npts)]
        d = [rng.uniform(-9, 9) if "f" in form else gen_double(rng) for _ in range(npts)]
        f, g = io.StringIO(), io.StringIO()
        r1 = r2 = None
        try:
            pb.wttabled1(f, 5, t, d, form=form)
        except Exception as e:  # noqa
            r1 = type(e).__name__
        try:
            ub.wttabled1(g, 5, t, d, form=form)
        except Exception as e:  # noqa
            r2 = type(e).__name__
        hist["user-form"] += 1
        if (r1, f.getvalue()) != (r2, g.getvalue()):
            bad.append({"check": "user-form", "form": form, "t": t, "d": d, "patched": [r1, f.getvalue()], "unpatched": [r2, g.getvalue()]})
    # integer / float32 / title arguments take the same path
    for t, d, kw in [([0, 1, 2], [1, -2, 3], {}), (np.arange(5, dtype=np.float32), -np.arange(5, dtype=np.float32) * 1e30, {}),
                     ([0.0], [-1e100], {"title": "one point"}), (3.0, -4e200, {})]:
        f = io.StringIO()
        pb.wttabled1(f, 9, t, d, **kw)
        tt, dd = np.atleast_1d(t).ravel().tolist(), np.atleast_1d(d).ravel().tolist()
        body = f.getvalue()
        if kw.get("title"):
            first, _, body = body.partition("\n")
            if first != "$ " + kw["title"]:
                bad.append({"check": "title", "text": f.getvalue()})
        texts.append(body)
        reqs.append("tabled1d %s %d %s" % ("TABLED1".encode().hex(), 9, " ".join("%d %d" % (bits(x), bits(y)) for x, y in zip(tt, dd))))
    # the Lean model
    p = subprocess.run(["lake", "env", "lean", "--run", os.path.join("Drivers", "C13.lean")], input="\n".join(reqs) + "\n",
                       capture_output=True, text=True, cwd=LEAN, timeout=3600)
    out = p.stdout.split("\n")
    if out and out[-1] == "":
        out.pop()
    if p.returncode != 0 or len(out) != len(reqs):
        print("driver failed: rc=%s, %d replies for %d requests\n%s" % (p.returncode, len(out), len(reqs), p.stderr[-2000:]))
        return 2
    for req, text, rep in zip(reqs, texts, out):
        hist["exact-text"] += 1
        model = "" if rep == "-" else bytes.fromhex(rep).decode("ascii") if all(c in "0123456789abcdef" for c in rep) else rep
        if model + "\n" != text:
            bad.append({"check": "exact-text", "request": req, "patched": text, "model": model})
    ev = {
        "finding": "F65 wttabled1-negative-value-three-digit-exponent-overflows-field",
        "candidate": "corpus/c13_f65_candidate_fix.diff",
        "repo_head": head,
        "model": "PyYetiVerif.Bulk.tabled1LinesDefault (driver command tabled1d)",
        "seed": a.seed,
        "cases": len(cases),
        "histogram": hist,
        "disagreements": len(bad),
        "first_disagreements": bad[:5],
        "seconds": round(time.time() - t0, 1),
    }
    with open(os.path.join(HERE, "c13_f65_candidate_evidence.json"), "w") as fh:
        json.dump(ev, fh, indent=1, default=str)
        fh.write("\n")
    print(json.dumps({k: ev[k] for k in ("cases", "histogram", "disagreements", "seconds")}))
    for b in bad[:5]:
        print("DISAGREEMENT", json.dumps(b, default=str)[:600])
    return 1 if bad else 0


if __name__ == "__main__":
    sys.exit(main())
