#!/venv/bin/python
"""Tie of the F2 repair candidate (corpus/c04_F2_candidate_fix.diff) to its Lean model (Model/Op4Fixed.lean).

    /venv/bin/python corpus/c04_F2_candidate_check.py [patched tree, default /tmp/wt_fix_c04_f2] [seed]

The patched tree is a scratch worktree of /repo with the diff applied:
    git -C /repo worktree add --detach /tmp/wt_fix_c04_f2 HEAD && git -C /tmp/wt_fix_c04_f2 apply <verif>/corpus/c04_F2_candidate_fix.diff
    (afterwards: git -C /repo worktree remove --force /tmp/wt_fix_c04_f2)  Streams (all exact):
  split      OP4._split_strings(ind, maxlen) of the patched tree  ==  `splitStrings` (driver op `spl`)
  file       bytes written by the patched `op4.write(binary=True)`  ==  `encFileBytesFx` (driver op `encfx`), random
             small files in every layout / byte order / input type, and the long-string files on both sides of every
             boundary (16383/16384/16385/32766/32767/40000/65535 real rows, 8191/8192/8193/16382/20000/65535 complex)
  unchanged  where no string is longer than the limit the patched bytes are the bytes of the unpatched /repo
  readmodel  the reader model (`decodeBytes`, unchanged) decodes the patched bytes of a long-string file to the input
  oracle     the model-free round-trip oracle of harness/props/c04.py (`_check_roundtrip`: load in the three sparse
             modes, dir, read, named subsets) finds nothing on the patched tree, the F2 inputs included
Writes corpus/c04_F2_candidate_evidence.json.
"""
import importlib.util
import json
import os
import random
import struct
import sys
import time
import warnings

HERE = os.path.dirname(os.path.abspath(__file__))
VERIF = os.path.dirname(HERE)
PATCHED = sys.argv[1] if len(sys.argv) > 1 else "/tmp/wt_fix_c04_f2"
SEED = int(sys.argv[2]) if len(sys.argv) > 2 else 0
os.environ["PYYETI_REPO"] = PATCHED
sys.path.insert(0, PATCHED)
sys.path.insert(0, os.path.join(VERIF, "harness"))
sys.path.insert(0, VERIF)

import numpy as np  # noqa: E402
import scipy.sparse as sp  # noqa: E402

import runner  # noqa: E402
from props import c04  # noqa: E402
from pyyeti.nastran import op4 as op4p  # noqa: E402  (patched)

assert os.path.abspath(op4p.__file__).startswith(os.path.abspath(PATCHED)), op4p.__file__
assert hasattr(op4p.OP4, "_split_strings"), "the tree at %s is not patched" % PATCHED
_spec = importlib.util.spec_from_file_location("op4_unpatched", "/repo/pyyeti/nastran/op4.py")
op4u = importlib.util.module_from_spec(_spec)
_spec.loader.exec_module(op4u)
assert not hasattr(op4u.OP4, "_split_strings")


def long_cases(rng):
    out = []
    real = [16383, 16384, 16385, 32766, 32767, 40000, 65535]
    cplx = [8191, 8192, 8193, 16382, 20000, 65535]
    for isc, sizes in ((False, real), (True, cplx)):
        for n in sizes:
            for at in (0, 3):
                rows = min(n + at + rng.choice([0, 2]), 65535)
                n_ = min(n, rows - at)
                D = np.zeros((rows, 3), complex if isc else float)
                v = np.array(c04._rand_values(rng, n_, "normal"))
                D[at:at + n_, 0] = v * ((1 + 2j) if isc else 1.0)
                # second column: two long strings separated by one zero, third: short strings
                D[:, 1] = 1.0
                D[rows // 2, 1] = 0
                D[rng.randrange(rows), 2] = 5.0
                kind = rng.choice(["ndarray", "sparse"])
                out.append({"mats": [{"kind": kind, "cplx": isc, "D": D}], "names": ["big"], "forms": [2],
                            "opt": "nonbigmat", "endian": rng.choice("<>"), "digits": 16})
    return out


def has_long(case):
    return any(c04._long_string(m["D"], m["cplx"]) for m in case["mats"]) and case["opt"] == "nonbigmat"


def main():
    rng = random.Random(SEED)
    drv = runner.LeanDriver("C04")
    sc = c04._Scratch()
    ev = {"finding": "F2", "patched_tree": PATCHED, "seed": SEED, "streams": {}, "disagreements": [], "oracle_failures": []}
    t0 = time.time()
    try:
        req, post = [], []
        # -- split ------------------------------------------------------------------------------
        for _ in range(4000):
            k = rng.randint(1, 6)
            maxlen = rng.choice([1, 2, 3, 4, 7, 8191, 16383])
            ind, r = [], rng.randint(0, 5)
            for _ in range(k):
                ln = rng.choice([1, 2, maxlen - 1, maxlen, maxlen + 1, 2 * maxlen, 2 * maxlen + 1, 3 * maxlen - 1,
                                 rng.randint(1, 4 * maxlen)])
                ln = max(1, ln)
                ind.append((r, ln))
                r += ln + rng.randint(1, 4)
            impl = [(int(a), int(b)) for a, b in op4p.OP4._split_strings(np.array(ind, int), maxlen)]
            req.append("spl %d " % maxlen + " ".join("%d:%d" % p for p in ind))
            post.append(("split", (maxlen, ind), " ".join("%d:%d" % p for p in impl)))
        # -- files ------------------------------------------------------------------------------
        cases = [c04._gen_file(rng, rng.choice(["int", "normal", "bits", "special", "neg3"])) for _ in range(1500)]
        cases += long_cases(rng)
        n_long = 0
        for case in cases:
            inputs = [c04._as_input(rng, m) for m in case["mats"]]
            spec = " ".join(c04._mat_tokens(case["opt"], m, i, nm, f)
                            for i, (m, nm, f) in enumerate(zip(case["mats"], case["names"], case["forms"])))
            e = "b" if (case["endian"] == ">" or (case["endian"] == "=" and sys.byteorder == "big")) else "l"
            p = sc.path()
            try:
                c04._write(op4p, p, case, inputs, True)
                data = open(p, "rb").read()
                impl = data.hex()
            except struct.error:
                data, impl = None, "struct_error"
            req.append("encfx %s %d %s" % (e, len(case["mats"]), spec))
            post.append(("file", c04._case_json(case) if not has_long(case) else {"long": [list(m["D"].shape) for m in case["mats"]], "cplx": case["mats"][0]["cplx"]}, impl))
            long = has_long(case)
            n_long += long
            if not long:
                # unchanged behaviour: same bytes as the unpatched writer
                pu = sc.path()
                try:
                    c04._write(op4u, pu, case, inputs, True)
                    implu = open(pu, "rb").read().hex()
                except struct.error:
                    implu = "struct_error"
                ev["streams"]["unchanged"] = ev["streams"].get("unchanged", 0) + 1
                if implu != impl:
                    ev["disagreements"].append({"stream": "unchanged", "case": c04._case_json(case)})
                os.remove(pu)
            else:
                # the unpatched writer raises on these (the finding)
                try:
                    c04._write(op4u, sc.path(), case, inputs, True)
                    ev["disagreements"].append({"stream": "finding-not-reproduced", "shape": list(case["mats"][0]["D"].shape)})
                except struct.error:
                    ev["streams"]["unpatched_raises_struct_error"] = ev["streams"].get("unpatched_raises_struct_error", 0) + 1
                if data is not None and case["mats"][0]["D"].shape[0] <= 20010:
                    req.append("dec d " + data.hex())
                    D = case["mats"][0]["D"]
                    want = "ok big,%d,%d,2,%d,0," % (D.shape[0], D.shape[1], 4 if case["mats"][0]["cplx"] else 2) \
                        + " ".join(map(str, c04._colmajor_bits(c04._logical(case["mats"][0]))))
                    post.append(("readmodel", list(D.shape), want.replace("big", "big".encode().hex())))
            # model-free oracle on the patched tree
            if long or rng.random() < 0.2:
                with warnings.catch_warnings():
                    warnings.simplefilter("ignore")
                    bad = c04._check_roundtrip(op4p, sc, case, inputs, True)
                ev["streams"]["oracle"] = ev["streams"].get("oracle", 0) + 1
                if bad is not None:
                    ev["oracle_failures"].append({"shape": [list(m["D"].shape) for m in case["mats"]], "what": bad[0],
                                                  "observed": str(bad[1])[:300], "required": str(bad[2])[:300]})
            if data is not None:
                os.remove(p)
        ev["streams"]["long_string_files"] = n_long
        rep = drv.ask(req, timeout=3600)
        for (stream, inp, impl), model in zip(post, rep):
            ev["streams"][stream] = ev["streams"].get(stream, 0) + 1
            if impl != model:
                ev["disagreements"].append({"stream": stream, "input": inp if stream != "file" or len(str(inp)) < 4000 else "…",
                                            "impl": impl[:200], "model": model[:200]})
    finally:
        sc.close()
    ev["seconds"] = round(time.time() - t0, 1)
    ev["result"] = "agree" if not ev["disagreements"] and not ev["oracle_failures"] else "DISAGREE"
    out = os.path.join(HERE, "c04_F2_candidate_evidence.json")
    json.dump(ev, open(out, "w"), indent=1)
    print(json.dumps({k: ev[k] for k in ("streams", "seconds", "result")}, indent=1))
    print("disagreements:", len(ev["disagreements"]), "oracle failures:", len(ev["oracle_failures"]))
    for d in ev["disagreements"][:5] + ev["oracle_failures"][:5]:
        print(json.dumps(d)[:600])
    return 0 if ev["result"] == "agree" else 1


if __name__ == "__main__":
    sys.exit(main())
