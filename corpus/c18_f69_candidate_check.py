#!/usr/bin/env python
"""C18, finding F69 (formtran-se0-pha-extra-point-rows): tie of the CANDIDATE FIX (corpus/c18_f69_candidate_fix.diff) to
its Lean model `Uset.formtran` (Model/UsetTran.lean; theorems in Props/C18Tran0.lean,
Props/C18Tran.lean, C18TranM.lean).

    /venv/bin/python corpus/c18_f69_candidate_check.py [--tree /tmp/wt_fix_c18] [--n 700] [--seed 0]

Without an existing --tree the script makes a scratch worktree of /repo (PYYETI_REPO), applies the diff, and removes the
worktree at the end; /repo itself is never written.  Inputs: the toy nas2cam dictionaries of harness/props/c18_nas.py /
c18_tran.py (small integer got / goq / gm / pha / phg: every product exact), with extra points (e-set rows, which are in
the p-set but not in the g-set) inserted into about two thirds of the tables - in front of, between and behind the g-set
DOF; requests from c18_tran.gen_request; plus the finding's own input.  Checks per (dictionary, se, request, gset):

  exact        patched `n2p.formtran` == driver `ftran` (the Lean model `formtran`): matrix, output DOF, exception kind
  reference    a successful patched call agrees with the defining relations of the stored matrices (model-free):
               tran @ x_a = the displacement of each requested DOF from u_t, u_q = x_a, u_o = GOT u_t + GOQ u_q, u_s = 0,
               u_m = GM u_n (residual: u_g = PHG x, or u_a = PHA x and the relations)
  unchanged    on a table without extra points the patched routine returns what the UNPATCHED routine returns (value or
               exception kind)
  extra-point  on a table with extra points: how the unpatched routine differs (histogram only; F69 is the RuntimeError)

The result goes to corpus/c18_f69_candidate_evidence.json.
"""
import argparse
import importlib.util
import json
import os
import random
import subprocess
import sys
import time
import warnings

HERE = os.path.dirname(os.path.abspath(__file__))
VERIF = os.path.dirname(HERE)
LEAN = os.path.join(VERIF, "lean")
REPO = os.environ.get("PYYETI_REPO", "/repo")
DIFF = os.path.join(HERE, "c18_f69_candidate_fix.diff")


def kind(e):
    for t, n in ((KeyError, "key-error"), (IndexError, "index-error"), (ValueError, "value-error"), (TypeError, "type-error"),
                 (RecursionError, "recursion-error"), (RuntimeError, "runtime-error")):
        if isinstance(e, t):
            return n
    return "other:" + type(e).__name__


def call(fn, *a, **k):
    try:
        return ("ok", fn(*a, **k))
    except Exception as e:  # noqa: BLE001 - the kind is the datum
        return (kind(e), None)


def main():
    ap = argparse.ArgumentParser()
    ap.add_argument("--tree", default="/tmp/wt_fix_c18")
    ap.add_argument("--n", type=int, default=700)
    ap.add_argument("--seed", type=int, default=0)
    a = ap.parse_args()
    made = False
    if not os.path.isdir(a.tree):
        subprocess.run(["git", "-C", REPO, "worktree", "add", "--detach", a.tree, "HEAD"], check=True, capture_output=True)
        subprocess.run(["git", "-C", a.tree, "apply", DIFF], check=True)
        made = True
    try:
        return run(a)
    finally:
        if made:
            subprocess.run(["git", "-C", REPO, "worktree", "remove", "--force", a.tree], check=False)


def run(a):
    t0 = time.time()
    sys.dont_write_bytecode = True
    sys.path.insert(0, a.tree)
    sys.path.insert(0, os.path.join(VERIF, "harness"))
    import numpy as np
    from pyyeti.nastran import n2p as pn

    assert os.path.abspath(pn.__file__).startswith(os.path.abspath(a.tree)), pn.__file__
    spec = importlib.util.spec_from_file_location("pyyeti.nastran._n2p_unpatched", os.path.join(REPO, "pyyeti", "nastran", "n2p.py"))
    un = importlib.util.module_from_spec(spec)
    spec.loader.exec_module(un)
    from props import c18_nas as N, c18_tran as T

    def reply(r):
        if r[0] != "ok":
            return r[0]
        m, od = r[1]
        return "ok %s | %s" % (T.show_mat(m), " ".join(str(int(v)) for v in np.asarray(od).ravel().tolist()))

    head = subprocess.run(["git", "-C", REPO, "rev-parse", "HEAD"], capture_output=True, text=True).stdout.strip()
    rng = random.Random(a.seed)
    nmask = {k: int(v) for k, v in pn.mkusetmask().items()}
    E = nmask["e"]
    hist = {}

    def count(k, n=1):
        hist[k] = hist.get(k, 0) + n

    reqs, impls, metas, bad = [], [], [], []

    def one(nas, se, py, kind_, sec, gset, secs, has_e, tag=""):
        with warnings.catch_warnings():
            warnings.simplefilter("ignore")
            rp = call(pn.formtran, nas, se, py, gset)
            ru = call(un.formtran, nas, se, py, gset)
        reqs.append("ftran %d %d %s | %s | %s" % (se, gset, kind_, secs, sec))
        impls.append(reply(rp))
        metas.append({"se": se, "dof": py, "gset": gset, "tag": tag})
        br = ("formtran0:" if se == 0 else "formtran:") + (rp[0] if rp[0] != "ok" else
                                                             ("gset" if gset else "phg" if 0 in nas["phg"] else "pha") if se == 0 else "ok")
        count("patched:" + br + (":extra-points" if has_e else ""))
        same = reply(rp) == reply(ru)
        if not has_e:
            count("unchanged")
            if not same:
                bad.append({"check": "unchanged", "meta": metas[-1], "patched": reply(rp), "unpatched": reply(ru)})
        else:
            count("extra-point:" + ("same-as-unpatched" if same else "unpatched-" + (ru[0] if ru[0] != "ok" else "ok-other-value") +
                                    "/patched-" + rp[0]))
        # the model-free reference
        if rp[0] == "ok":
            tran, od = rp[1]
            od = [tuple(int(v) for v in r) for r in np.asarray(od).reshape(-1, 2).tolist()]
            keys = [(int(i), int(d)) for (i, d) in nas["uset"][se].index.tolist()]
            rows = [keys.index(d) for d in od]
            L = T._letters(nas["uset"][se], nmask)
            ref = None
            if se != 0:
                na = sum(1 for x in L if x in "qrcb")
                xa = np.array([[rng.randint(-3, 3) for _ in range(2)] for _ in range(na)], dtype=float).reshape(na, 2)
                try:
                    ref = T.full_from_aset(nas, se, nmask, xa)[rows]
                except KeyError:
                    ref = None
                x = xa
            elif gset:
                ng = sum(1 for x in L if x in "msoqrcb")
                x = np.array([[rng.randint(-3, 3) for _ in range(2)] for _ in range(ng)], dtype=float).reshape(ng, 2)
                full = np.zeros((len(L), 2))
                full[[i for i, t in enumerate(L) if t in "msoqrcb"]] = x
                ref = full[rows]
            else:
                k = (nas["phg"][0] if 0 in nas["phg"] else nas["pha"][0]).shape[1]
                x = np.array([[rng.randint(-3, 3) for _ in range(2)] for _ in range(k)], dtype=float).reshape(k, 2)
                try:
                    ref = T.residual_full(nas, nmask, x)[rows]
                except KeyError:  # no gm for SE 0 although the table has m-set DOF (none of them requested)
                    ref = None
            if ref is not None:
                count("reference")
                got = np.asarray(tran, dtype=float) @ x
                if got.shape != ref.shape or not np.array_equal(got, ref):
                    bad.append({"check": "reference", "meta": metas[-1], "patched": reply(rp), "tran@x": got.tolist(), "reference": ref.tolist()})

    # the finding's own input (and the same with the extra point behind / the m-set through GM)
    for rows, pha, gm, dof in [
        ([[1, 0, E]] + [[2, d, nmask["b"]] for d in range(1, 7)] + [[3, 0, nmask["q"]]], np.arange(14.).reshape(7, 2), None, [[2, 1], [3, 0]]),
        ([[2, d, nmask["b"]] for d in range(1, 7)] + [[1, 0, E], [3, 0, nmask["q"]]], np.arange(14.).reshape(7, 2), None, [[3, 0], [2, 6]]),
        ([[1, 0, E], [5, 0, nmask["b"]], [6, 0, nmask["m"]], [8, 0, E], [7, 0, nmask["q"]], [9, 0, nmask["s"]]],
         np.array([[1.], [10.]]), np.array([[2., 3., 0.]]).reshape(1, 3)[:, [0, 1, 2]], [[7, 0], [6, 0], [9, 0]]),
    ]:
        nas = {"selist": np.array([[0, 0]]), "uset": {0: N.mk_table(rows)}, "dnids": {}, "maps": {}, "upids": {},
               "got": {}, "goq": {}, "gm": {}, "pha": {0: pha}, "phg": {}}
        if gm is not None:
            # n-set order of this table: b, q, s  ->  u_m = 2 u_b + 3 u_q
            nas["gm"][0] = gm
        secs = N.serialize(nas) + " | " + T.mats_sections(nas)
        one(nas, 0, dof, "2", " ".join(str(v) for r in dof for v in r), False, secs, True, tag="F69")
    it = 0
    while len(reqs) < a.n:
        it += 1
        nas, info = N.gen_nas(rng, deep=(3 + it // 10 % 2) if it % 10 == 0 else None, res_o=it % 3 != 0)
        variant = ["pha", "pha", "phg", "pha", "none", "pha"][it % 6] if it % 2 else None
        T.add_matrices(rng, nas, nmask, variant)
        with_e = {}
        for se in list(nas["uset"].keys()):
            u = nas["uset"][se]
            rows = [[int(i), int(d), int(w)] for (i, d), w in zip(u.index.tolist(), u["nasset"].values.tolist())]
            if rng.random() < 0.67:
                for k in range(rng.randint(1, 3)):
                    pos = rng.choice([0, 0, len(rows), rng.randint(0, len(rows))])
                    # not inside a grid's six rows
                    while 0 < pos < len(rows) and rows[pos][1] > 1:
                        pos -= 1
                    rows.insert(pos, [9000 + 10 * se + k, 0, E])
                nas["uset"][se] = N.mk_table(rows)
                with_e[se] = True
                count("tables:with-extra-points")
            else:
                count("tables:plain")
        secs = N.serialize(nas) + " | " + T.mats_sections(nas)
        ses = info["order"]
        for se in [0, 0] + rng.sample(ses, min(len(ses), 2)):
            for _ in range(2):
                py, kind_, sec, rt = T.gen_request(rng, nas["uset"][se], nmask)
                gset = se == 0 and rng.random() < 0.2
                one(nas, se, py, kind_, sec, gset, secs, bool(with_e.get(se)))
    p = subprocess.run(["lake", "env", "lean", "--run", os.path.join("Drivers", "C18.lean")], input="\n".join(reqs) + "\n",
                       capture_output=True, text=True, cwd=LEAN, timeout=3600)
    out = p.stdout.split("\n")
    if out and out[-1] == "":
        out.pop()
    if p.returncode != 0 or len(out) != len(reqs):
        print("driver failed: rc=%s, %d replies for %d requests\n%s" % (p.returncode, len(out), len(reqs), p.stderr[-2000:]))
        return 2
    for req, impl, rep, meta in zip(reqs, impls, out, metas):
        count("exact")
        if " ".join(rep.split()) != " ".join(impl.split()):
            bad.append({"check": "exact", "meta": meta, "patched": impl, "model": rep, "request": req[:400]})
    ev = {
        "finding": "F69 formtran-se0-pha-extra-point-rows",
        "candidate": "corpus/c18_f69_candidate_fix.diff",
        "repo_head": head,
        "model": "PyYetiVerif.Uset.formtran (driver command ftran)",
        "seed": a.seed,
        "cases": len(reqs),
        "histogram": dict(sorted(hist.items())),
        "disagreements": len(bad),
        "first_disagreements": bad[:5],
        "seconds": round(time.time() - t0, 1),
    }
    with open(os.path.join(HERE, "c18_f69_candidate_evidence.json"), "w") as fh:
        json.dump(ev, fh, indent=1, default=str)
        fh.write("\n")
    print(json.dumps({k: ev[k] for k in ("cases", "histogram", "disagreements", "seconds")}, indent=1))
    for b in bad[:5]:
        print("DISAGREEMENT", json.dumps(b, default=str)[:900])
    return 1 if bad else 0


if __name__ == "__main__":
    sys.exit(main())
