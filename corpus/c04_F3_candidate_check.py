#!/venv/bin/python
"""Tie of the F3 repair candidate (corpus/c04_F3_candidate_fix.diff) to its Lean model (Model/Op4Fixed.lean).

    /venv/bin/python corpus/c04_F3_candidate_check.py [patched tree, default /tmp/wt_fix_c04_f3] [seed]

The patched tree is a scratch worktree of /repo with the diff applied:
    git -C /repo worktree add --detach /tmp/wt_fix_c04_f3 HEAD && git -C /tmp/wt_fix_c04_f3 apply <verif>/corpus/c04_F3_candidate_fix.diff
    (afterwards: git -C /repo worktree remove --force /tmp/wt_fix_c04_f3)  Streams (all exact):
  field      `numform(x)` returned by the patched `_write_ascii_header`  ==  `fmtEFx` (driver op `fmtfx`), for digits
             0..20 and doubles over the whole range (random bit patterns, the special values, every negative value with
             a three-digit exponent of the check's pools, the 99/100 exponent boundaries); and its length is `numlen`
  file       text written by the patched `op4.write(binary=False)`  ==  `encFileAsciiFx` (driver op `ascfx`): random
             files in every layout / input type / digits, value styles incl. `neg3` (the finding) and `bits`
  unchanged  where no value is negative with a three-digit exponent the patched text is the text of the unpatched /repo
  readback   the patched file loads (sparse=False/True/None) with the written names and shapes, and every value read is
             `float()` of the independent reference string: '%.{d}E' % x, or '%.{d-1}E' % x if the former is longer than
             d + 7; the unpatched writer fails on the same file (the finding) whenever such a value is present
             (a matrix holding a value whose printed decimal is past the largest double - -DBL_MAX with fewer than 17
             significant digits - is counted and only its shape is checked: float() gives -inf, as for +DBL_MAX today)
  oracle     the model-free round-trip oracle of harness/props/c04.py finds nothing on the files without such a value
Writes corpus/c04_F3_candidate_evidence.json.
"""
import importlib.util
import io
import json
import os
import random
import struct
import sys
import time
import warnings

HERE = os.path.dirname(os.path.abspath(__file__))
VERIF = os.path.dirname(HERE)
PATCHED = sys.argv[1] if len(sys.argv) > 1 else "/tmp/wt_fix_c04_f3"
SEED = int(sys.argv[2]) if len(sys.argv) > 2 else 0
os.environ["PYYETI_REPO"] = PATCHED
sys.path.insert(0, PATCHED)
sys.path.insert(0, os.path.join(VERIF, "harness"))
sys.path.insert(0, VERIF)

import numpy as np  # noqa: E402
import scipy.sparse as sp  # noqa: E402

import runner  # noqa: E402
from props import c04  # noqa: E402
from pyyeti.nastran import op4 as op4p  # noqa: E402  (patched)

assert os.path.abspath(op4p.__file__).startswith(os.path.abspath(PATCHED)), op4p.__file__
_spec = importlib.util.spec_from_file_location("op4_unpatched", "/repo/pyyeti/nastran/op4.py")
op4u = importlib.util.module_from_spec(_spec)
_spec.loader.exec_module(op4u)


def ref_field(x, d):
    s = "%.*E" % (d, x)
    if len(s) > d + 7:
        s = "%.*E" % (max(d - 1, 0), x)
    return s.rjust(d + 7)


def ref_read(D, d):
    v = np.ascontiguousarray(D)
    flat = (v.view(np.float64) if np.iscomplexobj(v) else v).reshape(-1)
    out = np.array([float(ref_field(x, d)) for x in flat.tolist()], float)
    return out.view(np.complex128).reshape(v.shape) if np.iscomplexobj(v) else out.reshape(v.shape)


def numform_of(digits):
    o = op4p.OP4()
    f = io.StringIO()
    r = o._write_ascii_header(f, "a", np.ones((1, 1)), digits, bigmat=False, form=None)
    return r[4], r[3]


def main():
    rng = random.Random(SEED)
    drv = runner.LeanDriver("C04")
    sc = c04._Scratch()
    ev = {"finding": "F3", "patched_tree": PATCHED, "seed": SEED, "streams": {}, "disagreements": [], "oracle_failures": []}
    cnt = ev["streams"]
    t0 = time.time()
    try:
        req, post = [], []
        # -- field ------------------------------------------------------------------------------
        vals = list(c04.SPECIAL) + list(c04.NEG3) + [-x for x in c04.SPECIAL] + [0.0, -0.0]
        vals += [-9.9999999999999995e-100, -9.9999999999999999e-100, -1e-99, -9.99999e99, -9.9999999999999997e99, -1e100,
                 -9.5e-100, -9.4999e-100, -1.0000000000000002e100, 9.9999999999999995e-100]
        vals += c04._rand_values(rng, 6000, "bits") + c04._rand_values(rng, 500, "normal")
        nf = {d: numform_of(d) for d in range(0, 21)}
        assert callable(nf[16][0]), "the tree at %s is not patched" % PATCHED
        for x in vals:
            for d in {16, rng.choice([1, 2, 3, 5, 9, 12, 17, 20]), rng.choice([0, 1, 2, 7])}:
                f, numlen = nf[d]
                got = f(x)
                b = struct.unpack("<Q", struct.pack("<d", x))[0]
                req.append("fmtfx %d %d" % (d, b))
                post.append(("field", (x, d), got.encode().hex()))
                cnt["field_width"] = cnt.get("field_width", 0) + 1
                if len(got) != numlen or got != ref_field(x, d):
                    ev["disagreements"].append({"stream": "field_width", "input": [x, d], "impl": got, "ref": ref_field(x, d)})
                if len("%.*E" % (d, x)) > d + 7:
                    cnt["field_fallback"] = cnt.get("field_fallback", 0) + 1
        # -- files ------------------------------------------------------------------------------
        cases = [c04._gen_file(rng, rng.choice(["int", "normal", "bits", "special", "neg3", "neg3", "bits"])) for _ in range(2500)]
        for case in cases:
            inputs = [c04._as_input(rng, m) for m in case["mats"]]
            spec = " ".join(c04._mat_tokens(case["opt"], m, i, nm, f)
                            for i, (m, nm, f) in enumerate(zip(case["mats"], case["names"], case["forms"])))
            p = sc.path()
            c04._write(op4p, p, case, inputs, False)
            text = open(p, "rb").read()
            d = 16 if case.get("default_digits") else case["digits"]
            req.append("ascfx %d %d %s" % (d, len(case["mats"]), spec))
            post.append(("file", c04._case_json(case), text.hex()))
            neg3 = any(c04._neg3(c04._logical(m), d) for m in case["mats"])
            pu = sc.path()
            c04._write(op4u, pu, case, inputs, False)
            textu = open(pu, "rb").read()
            if not neg3:
                cnt["unchanged"] = cnt.get("unchanged", 0) + 1
                if textu != text:
                    ev["disagreements"].append({"stream": "unchanged", "case": c04._case_json(case)})
                if rng.random() < 0.15:
                    with warnings.catch_warnings():
                        warnings.simplefilter("ignore")
                        bad = c04._check_roundtrip(op4p, sc, case, inputs, False)
                    cnt["oracle"] = cnt.get("oracle", 0) + 1
                    if bad is not None:
                        ev["oracle_failures"].append({"case": c04._case_json(case), "what": bad[0], "observed": str(bad[1])[:300]})
            else:
                cnt["neg3_files"] = cnt.get("neg3_files", 0) + 1
                # the finding on the unpatched tree: the file does not read back
                try:
                    with warnings.catch_warnings():
                        warnings.simplefilter("ignore")
                        un, um, _, _ = op4u.load(pu, into="list", sparse=False)
                    okU = all(c04._same_bits(np.asarray(X), ref_read(c04._logical(m), d)) for X, m in zip(um, case["mats"])) and len(um) == len(case["mats"])
                except Exception:  # noqa: BLE001
                    okU = False
                cnt["unpatched_fails"] = cnt.get("unpatched_fails", 0) + (not okU)
            os.remove(pu)
            # readback on the patched tree, every file
            names = [(n if n.isidentifier() else "m%d" % i)[:8].lower() for i, n in enumerate(case["names"])]
            for mode in (False, True, None):
                try:
                    with warnings.catch_warnings():
                        warnings.simplefilter("ignore")
                        rn, rm, rf, rt = op4p.load(p, into="list", sparse=mode)
                except Exception as e:  # noqa: BLE001
                    ev["oracle_failures"].append({"case": c04._case_json(case), "what": "read-raises", "observed": repr(e)[:300]})
                    break
                cnt["readback"] = cnt.get("readback", 0) + 1
                ok = rn == names and len(rm) == len(case["mats"])
                for X, m in zip(rm, case["mats"]):
                    A = X.toarray() if sp.issparse(X) else np.asarray(X)
                    want = ref_read(c04._logical(m), d)
                    if not np.all(np.isfinite(want.view(np.float64))):
                        # the printed decimal is past the largest double (|x| = DBL_MAX printed with < 17 significant
                        # digits): float() gives inf; outside the property's domain, as in harness/props/c04.py
                        cnt["skipped_decimal_past_dbl_max"] = cnt.get("skipped_decimal_past_dbl_max", 0) + 1
                        ok = ok and A.shape == want.shape
                        continue
                    ok = ok and A.shape == want.shape and c04._same_bits(A, want)
                if not ok:
                    ev["oracle_failures"].append({"case": c04._case_json(case), "what": "readback", "observed": "sparse=%r" % (mode,)})
                    break
            os.remove(p)
        rep = drv.ask(req, timeout=3600)
        for (stream, inp, impl), model in zip(post, rep):
            cnt[stream] = cnt.get(stream, 0) + 1
            if impl != model:
                ev["disagreements"].append({"stream": stream, "input": inp, "impl": bytes.fromhex(impl).decode()[:300],
                                            "model": bytes.fromhex(model).decode()[:300] if all(ch in "0123456789abcdef" for ch in model) else model})
    finally:
        sc.close()
    ev["seconds"] = round(time.time() - t0, 1)
    ev["result"] = "agree" if not ev["disagreements"] and not ev["oracle_failures"] else "DISAGREE"
    json.dump(ev, open(os.path.join(HERE, "c04_F3_candidate_evidence.json"), "w"), indent=1)
    print(json.dumps({k: ev[k] for k in ("streams", "seconds", "result")}, indent=1))
    print("disagreements:", len(ev["disagreements"]), "oracle failures:", len(ev["oracle_failures"]))
    for x in ev["disagreements"][:5] + ev["oracle_failures"][:5]:
        print(json.dumps(x)[:700])
    return 0 if ev["result"] == "agree" else 1


if __name__ == "__main__":
    sys.exit(main())
