import PyYetiVerif.Model.ParSchedParent
import PyYetiVerif.Generated.ParFootprint
import PyYetiVerif.Generated.ParFootprintParent
/-! Line protocol for C09.

`cov <j> <arr> <pattern…> | <cellarr> <i0> <i1> …`
      pattern tokens: task all loop whole other cN (= const N)
      -> `1` / `0`   (does the access, evaluated in task j, touch that cell?)
`dec <mode> <LF> <size> <maxcpu|none> <getresp 0/1> <cpu> <win 0/1>`
      -> `<mode'> <ncpu>` or `raise`       (`processParallel` on the REGENERATED decision table)
`dec <mode> <LF> <size> <maxcpu|none> <getresp 0/1> <cpu> <win 0/1> <srs|fdepsd> <name|picklable|unpicklable>`
      -> the same for the decision of the routine (`routineDecision`: the regenerated guard after the helper)
`own <worker> | <arr> <i0> <i1> …`
      -> owner task of the cell under the regenerated footprint of that worker, or `none`
`part <worker> <LF> | <arr> <n0> <n1> …`
      -> `ok` when every cell of the array of that concrete shape is covered by the write patterns of
         exactly one task j < LF (and that task is the owner), else `bad <cell>`
`plan <routine> | <atom;atom;…> | <LF> | <sym=value;…>`
      -> the parent's plan at the pool site of `routine` whose guard holds under the true atoms:
         `<worker>|<initializer>|<processes>|<method>|<tasks>|<glob>:<var>:<kind>:<shape>,…|<params>|<parArgs>`
or `bad-op` -/
open PyYetiVerif.ParSched
open PyYetiVerif.Generated

def parseIx (s : String) : Option Ix :=
  match s with
  | "task" => some .task | "all" => some .all | "loop" => some .loop
  | "whole" => some .whole | "other" => some .other
  | _ => if s.startsWith "c" then (s.drop 1).toString.toNat?.map Ix.const else none

def words (s : String) : List String := (s.splitOn " ").filter (· ≠ "")

def findWorker (name : String) : Option Footprint :=
  ParFootprint.workers.find? (fun fp => fp.name == name)

def showIdx (is : List Nat) : String := ".".intercalate (is.map toString)

def partAnswer (fp : Footprint) (LF : Nat) (arr : String) (shape : List Nat) : String :=
  let bad := (cellsOf shape).find? (fun is =>
    let js := (List.range LF).filter (fun j => fp.writes.any (fun a => covers a j (arr, is)))
    !(js.length == 1 && ownerOf fp (arr, is) == js.head?))
  match bad with
  | none => "ok"
  | some is => "bad " ++ showIdx is

def atomsHold (guard : String) (atoms : List String) : Bool :=
  ((guard.splitOn " and ").filter (· ≠ "")).all (fun g => atoms.contains g)

def parseEnv (s : String) : String → Nat :=
  let kv := ((s.splitOn ";").filter (· ≠ "")).filterMap (fun p =>
    match p.splitOn "=" with
    | [k, v] => v.toNat?.map (fun n => (k, n))
    | _ => none)
  fun k => match kv.find? (fun p => p.1 == k) with
    | some p => p.2
    | none => 0

def planAnswer (routine : String) (atoms : List String) (LF : Nat) (env : String → Nat) : String :=
  match ParFootprintParent.sites.filter (fun s => s.routine == routine && atomsHold s.guard atoms) with
  | [s] =>
      let hist := s.select == "" || atoms.contains s.select
      let worker := if hist then s.workerHist else s.workerNoHist
      let shared := s.shared.map (fun d =>
        let shape : String :=
          if d.kind == "copy" then "-"
          else
            match (d.dims.zip d.dimGuards).filter (fun p => atomsHold p.2 atoms) with
            | [p] => "x".intercalate (p.1.map (fun x => toString (x.eval LF env)))
            | [] => "none"
            | _ => "ambiguous"
        d.glob ++ ":" ++ d.var ++ ":" ++ d.kind ++ ":" ++ shape)
      "|".intercalate [worker, s.initializer, s.processes, s.method,
        ",".intercalate ((taskList LF).map toString), ",".intercalate shared,
        ",".intercalate s.params, ",".intercalate s.parArgs]
  | [] => "no-site"
  | _ => "ambiguous-site"

def answer (line : String) : String :=
  let parts := line.splitOn " | "
  match parts.map words with
  | ["cov" :: j :: arr :: pat, carr :: idx] =>
      match j.toNat?, pat.mapM parseIx, idx.mapM String.toNat? with
      | some j, some pat, some idx => if covers ⟨arr, pat⟩ j (carr, idx) then "1" else "0"
      | _, _, _ => "bad-op"
  | [["dec", mode, lf, size, maxcpu, getresp, cpu, win, routine, peak]] =>
      -- decision of the ROUTINE (srs / fdepsd): `_process_parallel`, then the regenerated guard
      let mx : Option (Option Nat) := if maxcpu == "none" then some none else maxcpu.toNat?.map some
      let pk : Option PeakArg := match peak with
        | "name" => some .name | "picklable" => some .picklable | "unpicklable" => some .unpicklable
        | _ => none
      let g : Option PickleGuard := match routine with
        | "srs" => some ParFootprintParent.guard_srs | "fdepsd" => some ParFootprintParent.guard_fdepsd
        | _ => none
      match lf.toNat?, size.toNat?, mx, cpu.toNat?, pk, g with
      | some lf, some size, some mx, some cpu, some pk, some g =>
          let mode := if mode == "<empty>" then "" else mode
          match routineDecision ParFootprintParent.decision g mode
              ⟨lf, size, mx, getresp == "1", cpu, win == "1"⟩ pk with
          | some (m, n) => m ++ " " ++ toString n
          | none => "raise"
      | _, _, _, _, _, _ => "bad-op"
  | [["dec", mode, lf, size, maxcpu, getresp, cpu, win]] =>
      let mx : Option (Option Nat) := if maxcpu == "none" then some none else maxcpu.toNat?.map some
      match lf.toNat?, size.toNat?, mx, cpu.toNat? with
      | some lf, some size, some mx, some cpu =>
          let mode := if mode == "<empty>" then "" else mode
          match processParallel ParFootprintParent.decision mode
              ⟨lf, size, mx, getresp == "1", cpu, win == "1"⟩ with
          | some (m, n) => m ++ " " ++ toString n
          | none => "raise"
      | _, _, _, _ => "bad-op"
  | [["own", worker], arr :: idx] =>
      match findWorker worker, idx.mapM String.toNat? with
      | some fp, some idx =>
          match ownerOf fp (arr, idx) with
          | some j => toString j
          | none => "none"
      | _, _ => "bad-op"
  | [["part", worker, lf], arr :: shape] =>
      match findWorker worker, lf.toNat?, shape.mapM String.toNat? with
      | some fp, some lf, some shape => partAnswer fp lf arr shape
      | _, _, _ => "bad-op"
  | _ =>
      match parts with
      | [l, atoms, lf, env] =>
          match words l, lf.trimAscii.toString.toNat? with
          | ["plan", routine], some lf =>
              planAnswer routine ((atoms.splitOn ";").map (fun a => a.trimAscii.toString)) lf
                (parseEnv env.trimAscii.toString)
          | _, _ => "bad-op"
      | _ => "bad-op"

partial def loop (h : IO.FS.Stream) (out : IO.FS.Stream) : IO Unit := do
  let line ← h.getLine
  if line.isEmpty then return ()
  out.putStrLn (answer (line.trimAscii.toString))
  loop h out

def main : IO Unit := do
  loop (← IO.getStdin) (← IO.getStdout)
