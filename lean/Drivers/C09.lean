import PyYetiVerif.Model.ParSched
/-! Line protocol for C09 (semantics of access patterns).
request : `cov <j> <arr> <pattern…> | <cellarr> <i0> <i1> …`
          pattern tokens: task all loop whole other cN (= const N)
reply   : `1` / `0`   (does the access, evaluated in task j, touch that cell?)   or `bad-op` -/
open PyYetiVerif.ParSched

def parseIx (s : String) : Option Ix :=
  match s with
  | "task" => some .task | "all" => some .all | "loop" => some .loop
  | "whole" => some .whole | "other" => some .other
  | _ => if s.startsWith "c" then (s.drop 1).toString.toNat?.map Ix.const else none

def answer (line : String) : String :=
  match line.splitOn " | " with
  | [l, r] =>
    match (l.splitOn " ").filter (· ≠ ""), (r.splitOn " ").filter (· ≠ "") with
    | "cov" :: j :: arr :: pat, carr :: idx =>
      match j.toNat?, pat.mapM parseIx, idx.mapM String.toNat? with
      | some j, some pat, some idx => if covers ⟨arr, pat⟩ j (carr, idx) then "1" else "0"
      | _, _, _ => "bad-op"
    | _, _ => "bad-op"
  | _ => "bad-op"

partial def loop (h : IO.FS.Stream) (out : IO.FS.Stream) : IO Unit := do
  let line ← h.getLine
  if line.isEmpty then return ()
  out.putStrLn (answer (line.trimAscii.toString))
  loop h out

def main : IO Unit := do
  loop (← IO.getStdin) (← IO.getStdout)
