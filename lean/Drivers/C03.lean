import PyYetiVerif.Model.Srs
import PyYetiVerif.Generated.SrsCoef
/-! Line protocol for C03.  Floats travel as decimal `UInt64` bit patterns.

request                                                          reply
`coef <stype> Q dT wn`                                           `b…|a…`   (translated source, Generated/SrsCoef)
`mcoef <stype> Q dT wn`                                          `b…|a…`   (hand-written Model/Srs)
`lf <nb> b… <na> a… x…`                                          `y…`
`exact <stype> Q dT wn x…`                                       `y…`      (closed-form oscillator stepping)
`srs <stype> <ic> <peak> <time> <eqsine 0|1> Q sr <nf> f… f x…`  `pk h…` or `none`
`tail <stype> <ic> <peak> <time> <eqsine> Q sr <nf> f… f s1 <0|1> icv x…`  same, after `_process_ic` and roll-off
`vrs Q fn f0 psd0 f1 psd1 …`                                       `z` or `none`
`nz sr <nf> f…`                                                  `<nzeros>`
anything else → `bad-op` -/
open PyYetiVerif.Srs

def parseF (s : String) : Option Float := s.toNat?.map fun n => Float.ofBits (UInt64.ofNat n)
def parseFs (ws : List String) : Option (List Float) := ws.mapM parseF
def fmtF (x : Float) : String := toString x.toBits.toNat
def fmtFs (xs : List Float) : String := " ".intercalate (xs.map fmtF)

def parseSType : String → Option SType
  | "absacce" => some .absacce | "relacce" => some .relacce | "reldisp" => some .reldisp
  | "relvelo" => some .relvelo | "pvelo" => some .pvelo | "pacce" => some .pacce | _ => none
def parseIc : String → Option Ic
  | "zero" => some .zero | "shift" => some .shift | "mshift" => some .mshift
  | "steady" => some .steady | _ => none
def parsePeak : String → Option Peak
  | "abs" => some .abs | "pos" => some .pos | "poss" => some .poss | "neg" => some .neg
  | "negs" => some .negs | "rms" => some .rms | _ => none
def parseTime : String → Option Time
  | "primary" => some .primary | "total" => some .total | "residual" => some .residual | _ => none

def genCoef : SType → Float → Float → Float → Coef Float
  | .absacce => PyYetiVerif.Generated.SrsCoef.absacce
  | .relacce => PyYetiVerif.Generated.SrsCoef.relacce
  | .reldisp => PyYetiVerif.Generated.SrsCoef.reldisp
  | .relvelo => PyYetiVerif.Generated.SrsCoef.relvelo
  | .pvelo => PyYetiVerif.Generated.SrsCoef.pvelo
  | .pacce => PyYetiVerif.Generated.SrsCoef.pacce

def fmtCoef (c : Coef Float) : String := fmtFs c.b ++ "|" ++ fmtFs c.a

def answer (line : String) : String :=
  let r : Option String :=
    match (line.splitOn " ").filter (· ≠ "") with
    | ["coef", st, q, dt, wn] => do
        let st ← parseSType st; let q ← parseF q; let dt ← parseF dt; let wn ← parseF wn
        pure (fmtCoef (genCoef st q dt wn))
    | ["mcoef", st, q, dt, wn] => do
        let st ← parseSType st; let q ← parseF q; let dt ← parseF dt; let wn ← parseF wn
        pure (fmtCoef (st.coef q dt wn))
    | "lf" :: nb :: rest => do
        let nb ← nb.toNat?
        let b ← parseFs (rest.take nb)
        match rest.drop nb with
        | na :: rest2 =>
            let na ← na.toNat?
            let a ← parseFs (rest2.take na)
            let xs ← parseFs (rest2.drop na)
            pure (fmtFs (lfilter ⟨b, a⟩ xs))
        | [] => none
    | "exact" :: st :: q :: dt :: wn :: xs => do
        let st ← parseSType st; let q ← parseF q; let dt ← parseF dt; let wn ← parseF wn
        let xs ← parseFs xs
        pure (fmtFs (exactResp st q dt wn xs))
    | "srs" :: st :: ic :: pk :: tm :: es :: q :: sr :: nf :: rest => do
        let st ← parseSType st; let ic ← parseIc ic; let pk ← parsePeak pk; let tm ← parseTime tm
        let q ← parseF q; let sr ← parseF sr; let nf ← nf.toNat?
        let fs ← parseFs (rest.take nf)
        match rest.drop nf with
        | f :: xs =>
            let f ← parseF f
            let xs ← parseFs xs
            match srsCol ⟨st, ic, pk, tm, es == "1"⟩ q sr fs f xs with
            | some (h, p) => pure (fmtFs (p :: h))
            | none => pure "none"
        | [] => none
    | "tail" :: st :: ic :: pk :: tm :: es :: q :: sr :: nf :: rest => do
        let st ← parseSType st; let ic ← parseIc ic; let pk ← parsePeak pk; let tm ← parseTime tm
        let q ← parseF q; let sr ← parseF sr; let nf ← nf.toNat?
        let fs ← parseFs (rest.take nf)
        match rest.drop nf with
        | f :: s1 :: hasIc :: icv :: xs =>
            let f ← parseF f; let s1 ← parseF s1; let icv ← parseF icv
            let xs ← parseFs xs
            match srsTail ⟨st, ic, pk, tm, es == "1"⟩ q sr fs f s1 (if hasIc == "1" then some icv else none) xs with
            | some (h, p) => pure (fmtFs (p :: h))
            | none => pure "none"
        | _ => none
    | "vrs" :: q :: fn :: rest => do
        let q ← parseF q; let fn ← parseF fn
        let xs ← parseFs rest
        let rec pairs : List Float → List (Float × Float)
          | a :: b :: t => (a, b) :: pairs t
          | _ => []
        match vrsOne q fn (pairs xs) with
        | some z => pure (fmtF z)
        | none => pure "none"
    | "nz" :: sr :: nf :: rest => do
        let sr ← parseF sr; let nf ← nf.toNat?
        let fs ← parseFs (rest.take nf)
        pure (toString (nzeros sr fs))
    | _ => none
  r.getD "bad-op"

partial def loop (h : IO.FS.Stream) (out : IO.FS.Stream) : IO Unit := do
  let line ← h.getLine
  if line.isEmpty then return ()
  out.putStrLn (answer (line.trimAscii.toString))
  loop h out

def main : IO Unit := do
  loop (← IO.getStdin) (← IO.getStdout)
