import PyYetiVerif.Model.Srs
import PyYetiVerif.Model.SrsExt
import PyYetiVerif.Model.SrsFrf
import PyYetiVerif.Model.SrsPack
import PyYetiVerif.Generated.SrsCoef
/-! Line protocol for C03.  Floats travel as decimal `UInt64` bit patterns.

request                                                          reply
`coef <stype> Q dT wn`                                           `b…|a…`   (translated source, Generated/SrsCoef)
`mcoef <stype> Q dT wn`                                          `b…|a…`   (hand-written Model/Srs)
`lf <nb> b… <na> a… x…`                                          `y…`
`exact <stype> Q dT wn x…`                                       `y…`      (closed-form oscillator stepping)
`srs <stype> <ic> <peak> <time> <eqsine 0|1> Q sr <nf> f… f x…`  `pk h…` or `none`
`tail <stype> <ic> <peak> <time> <eqsine> Q sr <nf> f… f s1 <0|1> icv x…`  same, after `_process_ic` and roll-off
`vrs Q fn f0 psd0 f1 psd1 …`                                       `z` or `none`
`nz sr <nf> f…`                                                  `<nzeros>`
`exact0 <stype> Q dT x…`                                         `y…`      (rigid oscillator, wn = 0, closed form)
`steady <stype> Q dT wn c x…`                                    `y…`      (closed form started in steady state under c)
`xcol <stype> <ic> <peak> <time> <eqsine> Q sr <nf> f… f x…`     `pk h…` or `none`  (filter-free specification exactCol)
`xcol0 <stype> <ic> <peak> <time> <eqsine> Q sr <nf> f… x…`      `pk h…` or `none`  (0 Hz specification exactCol0)
`resid <stype> Q sr <nf> f… f x…`                                `h…`      (closed-form free decay after the record, ic = zero)
`idx <roll> <time> ppc sr <nf> f… n`                             `sr' M N S first count` or `none`
`rolled <stype> <ic> <peak> <time> <eqsine> <roll> ppc Q sr <nf> f… f <n> x… up…`   `pk h…` or `none`
                                                                 (`up…` = output of the real resampler, used iff the model decides to resample)
`grid <nfreq> f… fn…`                                            merged grid
`wts f…`                                                         area weights
`miles Q fn psd`                                                 Miles' value
`ppeak Q`                                                        `p_peak`
`frfgrid Q <nfrq> frf_frq… srs_frq…`                             merged, de-duplicated analysis grid `ffreq`
`frf <qonly> <getresp> <ret n|0|1> Q <ncols> <nfrq> frf_frq… <given 0|1> <nsrs> srs_frq… (re im)…`
                                                                 `n nfrf sh…|- or srs_frq…|- or nf ffreq… (re im)…` or `none`
                                                                 (columns of `frf` column by column; `frfs` in the order k, j, i)
`srsg <ms|abs> <stype> <ic> <time> <eqsine> Q sr <nf> f… f x…`    `pk h…` or `none`  (callable peak: mean square / abs)
anything else → `bad-op` -/
open PyYetiVerif.Srs

def parseF (s : String) : Option Float := s.toNat?.map fun n => Float.ofBits (UInt64.ofNat n)
def parseFs (ws : List String) : Option (List Float) := ws.mapM parseF
def fmtF (x : Float) : String := toString x.toBits.toNat
def fmtFs (xs : List Float) : String := " ".intercalate (xs.map fmtF)

def parseSType : String → Option SType
  | "absacce" => some .absacce | "relacce" => some .relacce | "reldisp" => some .reldisp
  | "relvelo" => some .relvelo | "pvelo" => some .pvelo | "pacce" => some .pacce | _ => none
def parseIc : String → Option Ic
  | "zero" => some .zero | "shift" => some .shift | "mshift" => some .mshift
  | "steady" => some .steady | _ => none
def parsePeak : String → Option Peak
  | "abs" => some .abs | "pos" => some .pos | "poss" => some .poss | "neg" => some .neg
  | "negs" => some .negs | "rms" => some .rms | _ => none
def parseTime : String → Option Time
  | "primary" => some .primary | "total" => some .total | "residual" => some .residual | _ => none

def parseRoll : String → Option Roll
  | "none" => some .none | "linear" => some .linear | "fft" => some .fft
  | "lanczos" => some .lanczos | "prefilter" => some .prefilter | _ => none

def genCoef : SType → Float → Float → Float → Coef Float
  | .absacce => PyYetiVerif.Generated.SrsCoef.absacce
  | .relacce => PyYetiVerif.Generated.SrsCoef.relacce
  | .reldisp => PyYetiVerif.Generated.SrsCoef.reldisp
  | .relvelo => PyYetiVerif.Generated.SrsCoef.relvelo
  | .pvelo => PyYetiVerif.Generated.SrsCoef.pvelo
  | .pacce => PyYetiVerif.Generated.SrsCoef.pacce

def fmtCoef (c : Coef Float) : String := fmtFs c.b ++ "|" ++ fmtFs c.a

def answer (line : String) : String :=
  let r : Option String :=
    match (line.splitOn " ").filter (· ≠ "") with
    | ["coef", st, q, dt, wn] => do
        let st ← parseSType st; let q ← parseF q; let dt ← parseF dt; let wn ← parseF wn
        pure (fmtCoef (genCoef st q dt wn))
    | ["mcoef", st, q, dt, wn] => do
        let st ← parseSType st; let q ← parseF q; let dt ← parseF dt; let wn ← parseF wn
        pure (fmtCoef (st.coef q dt wn))
    | "lf" :: nb :: rest => do
        let nb ← nb.toNat?
        let b ← parseFs (rest.take nb)
        match rest.drop nb with
        | na :: rest2 =>
            let na ← na.toNat?
            let a ← parseFs (rest2.take na)
            let xs ← parseFs (rest2.drop na)
            pure (fmtFs (lfilter ⟨b, a⟩ xs))
        | [] => none
    | "exact" :: st :: q :: dt :: wn :: xs => do
        let st ← parseSType st; let q ← parseF q; let dt ← parseF dt; let wn ← parseF wn
        let xs ← parseFs xs
        pure (fmtFs (exactResp st q dt wn xs))
    | "srs" :: st :: ic :: pk :: tm :: es :: q :: sr :: nf :: rest => do
        let st ← parseSType st; let ic ← parseIc ic; let pk ← parsePeak pk; let tm ← parseTime tm
        let q ← parseF q; let sr ← parseF sr; let nf ← nf.toNat?
        let fs ← parseFs (rest.take nf)
        match rest.drop nf with
        | f :: xs =>
            let f ← parseF f
            let xs ← parseFs xs
            match srsCol ⟨st, ic, pk, tm, es == "1"⟩ q sr fs f xs with
            | some (h, p) => pure (fmtFs (p :: h))
            | none => pure "none"
        | [] => none
    | "tail" :: st :: ic :: pk :: tm :: es :: q :: sr :: nf :: rest => do
        let st ← parseSType st; let ic ← parseIc ic; let pk ← parsePeak pk; let tm ← parseTime tm
        let q ← parseF q; let sr ← parseF sr; let nf ← nf.toNat?
        let fs ← parseFs (rest.take nf)
        match rest.drop nf with
        | f :: s1 :: hasIc :: icv :: xs =>
            let f ← parseF f; let s1 ← parseF s1; let icv ← parseF icv
            let xs ← parseFs xs
            match srsTail ⟨st, ic, pk, tm, es == "1"⟩ q sr fs f s1 (if hasIc == "1" then some icv else none) xs with
            | some (h, p) => pure (fmtFs (p :: h))
            | none => pure "none"
        | _ => none
    | "vrs" :: q :: fn :: rest => do
        let q ← parseF q; let fn ← parseF fn
        let xs ← parseFs rest
        let rec pairs : List Float → List (Float × Float)
          | a :: b :: t => (a, b) :: pairs t
          | _ => []
        match vrsOne q fn (pairs xs) with
        | some z => pure (fmtF z)
        | none => pure "none"
    | "exact0" :: st :: q :: dt :: xs => do
        let st ← parseSType st; let q ← parseF q; let dt ← parseF dt
        let xs ← parseFs xs
        pure (fmtFs (rigidResp st q dt xs))
    | "steady" :: st :: q :: dt :: wn :: c :: xs => do
        let st ← parseSType st; let q ← parseF q; let dt ← parseF dt; let wn ← parseF wn
        let c ← parseF c
        let xs ← parseFs xs
        pure (fmtFs (steadyResp st q dt wn c xs))
    | "xcol" :: st :: ic :: pk :: tm :: es :: q :: sr :: nf :: rest => do
        let st ← parseSType st; let ic ← parseIc ic; let pk ← parsePeak pk; let tm ← parseTime tm
        let q ← parseF q; let sr ← parseF sr; let nf ← nf.toNat?
        let fs ← parseFs (rest.take nf)
        match rest.drop nf with
        | f :: xs =>
            let f ← parseF f
            let xs ← parseFs xs
            match exactCol ⟨st, ic, pk, tm, es == "1"⟩ q sr fs f xs with
            | some (h, p) => pure (fmtFs (p :: h))
            | none => pure "none"
        | [] => none
    | "xcol0" :: st :: ic :: pk :: tm :: es :: q :: sr :: nf :: rest => do
        let st ← parseSType st; let ic ← parseIc ic; let pk ← parsePeak pk; let tm ← parseTime tm
        let q ← parseF q; let sr ← parseF sr; let nf ← nf.toNat?
        let fs ← parseFs (rest.take nf)
        let xs ← parseFs (rest.drop nf)
        match exactCol0 ⟨st, ic, pk, tm, es == "1"⟩ q sr fs xs with
        | some (h, p) => pure (fmtFs (p :: h))
        | none => pure "none"
    | "resid" :: st :: q :: sr :: nf :: rest => do
        let st ← parseSType st; let q ← parseF q; let sr ← parseF sr; let nf ← nf.toNat?
        let fs ← parseFs (rest.take nf)
        match rest.drop nf with
        | f :: xs =>
            let f ← parseF f
            let xs ← parseFs xs
            pure (fmtFs (residualExact st (Osc.ofQ q (1 / sr) (2 * TransOps.pi * f)) 0 0 0 xs (nzeros sr fs)))
        | [] => none
    | "idx" :: roll :: tm :: ppc :: sr :: nf :: rest => do
        let roll ← parseRoll roll; let tm ← parseTime tm
        let ppc ← parseF ppc; let sr ← parseF sr; let nf ← nf.toNat?
        let fs ← parseFs (rest.take nf)
        match rest.drop nf with
        | [n] =>
            let n ← n.toNat?
            match srsIndex roll tm ppc sr fs n with
            | some ix =>
                let smp := ix.samples tm
                pure (s!"{fmtF ix.sr} {ix.M} {ix.N} {ix.S} {smp.headD 0} {smp.length}")
            | none => pure "none"
        | _ => none
    | "rolled" :: st :: ic :: pk :: tm :: es :: roll :: ppc :: q :: sr :: nf :: rest => do
        let st ← parseSType st; let ic ← parseIc ic; let pk ← parsePeak pk; let tm ← parseTime tm
        let roll ← parseRoll roll
        let ppc ← parseF ppc; let q ← parseF q; let sr ← parseF sr; let nf ← nf.toNat?
        let fs ← parseFs (rest.take nf)
        match rest.drop nf with
        | f :: n :: rest2 =>
            let f ← parseF f; let n ← n.toNat?
            let xs ← parseFs (rest2.take n)
            let ups ← parseFs (rest2.drop n)
            match srsRolled ⟨st, ic, pk, tm, es == "1"⟩ roll (fun _ _ => ups) ppc q sr fs f xs with
            | some (h, p) => pure (fmtFs (p :: h))
            | none => pure "none"
        | _ => none
    | "grid" :: nfreq :: rest => do
        let nfreq ← nfreq.toNat?
        let a ← parseFs (rest.take nfreq)
        let b ← parseFs (rest.drop nfreq)
        pure (fmtFs (mergeGrid a b))
    | "wts" :: rest => do
        let a ← parseFs rest
        pure (fmtFs (vrsWeights a))
    | ["miles", q, fn, p] => do
        let q ← parseF q; let fn ← parseF fn; let p ← parseF p
        pure (fmtF (milesOne q fn p))
    | "nz" :: sr :: nf :: rest => do
        let sr ← parseF sr; let nf ← nf.toNat?
        let fs ← parseFs (rest.take nf)
        pure (toString (nzeros sr fs))
    | ["ppeak", q] => do
        let q ← parseF q
        pure (fmtF (pPeak q))
    | "frfgrid" :: q :: nfrq :: rest => do
        let q ← parseF q; let nfrq ← nfrq.toNat?
        let a ← parseFs (rest.take nfrq)
        let b ← parseFs (rest.drop nfrq)
        pure (fmtFs (frfGrid q a b))
    | "frf" :: qonly :: getresp :: ret :: q :: ncols :: nfrq :: rest => do
        let q ← parseF q; let ncols ← ncols.toNat?; let nfrq ← nfrq.toNat?
        let frq ← parseFs (rest.take nfrq)
        match rest.drop nfrq with
        | given :: nsrs :: rest2 =>
            let nsrs ← nsrs.toNat?
            let sf ← parseFs (rest2.take nsrs)
            let vals ← parseFs (rest2.drop nsrs)
            let rec cpairs : List Float → List (Float × Float)
              | a :: b :: t => (a, b) :: cpairs t
              | _ => []
            let ps := cpairs vals
            let m := if ncols = 0 then 0 else ps.length / ncols
            let cols := (List.range ncols).map fun j => (ps.drop (j * m)).take m
            let retO : Option Bool := if ret == "n" then none else some (ret == "1")
            match srsFrf cols frq (if given == "1" then some sf else none) q (getresp == "1") retO (qonly == "1") with
            | none => pure "none"
            | some out =>
                let shS := s!"{out.sh.length} {ncols} " ++ fmtFs out.sh.flatten
                let fS := match out.srsFrq with | none => "-" | some l => fmtFs l
                let rS := match out.resp with
                  | none => "-"
                  | some r => s!"{r.freq.length} " ++ fmtFs r.freq ++ " " ++
                      fmtFs ((r.frfs.flatten.flatten).flatMap fun z => [z.1, z.2])
                pure (shS ++ "|" ++ fS ++ "|" ++ rS)
        | _ => none
    | "srsg" :: which :: st :: ic :: tm :: es :: q :: sr :: nf :: rest => do
        let st ← parseSType st; let ic ← parseIc ic; let tm ← parseTime tm
        let q ← parseF q; let sr ← parseF sr; let nf ← nf.toNat?
        let fs ← parseFs (rest.take nf)
        match rest.drop nf with
        | f :: xs =>
            let f ← parseF f
            let xs ← parseFs xs
            let sel : Float → List Float → Float := if which == "ms" then meanSquare else Peak.abs.sel
            match srsColG sel st ic tm (es == "1") q sr fs f xs with
            | some (h, p) => pure (fmtFs (p :: h))
            | none => pure "none"
        | [] => none
    | _ => none
  r.getD "bad-op"

partial def loop (h : IO.FS.Stream) (out : IO.FS.Stream) : IO Unit := do
  let line ← h.getLine
  if line.isEmpty then return ()
  out.putStrLn (answer (line.trimAscii.toString))
  loop h out

def main : IO Unit := do
  loop (← IO.getStdin) (← IO.getStdout)
