import PyYetiVerif.Model.Rainflow
import PyYetiVerif.Model.RainflowEntry
/-! Line protocol for C05.
request : `rf  v0 v1 …`  (integers)  → tidy model, rainflow with offsets
          `rf1 v0 v1 …`              → tidy model, variant without offsets
          (IEEE doubles are given as their 64-bit patterns in decimal)
          `me <c|py> <g> <safe> <shape…> | <bits…>` → entry MODEL (`g` ∈ 0 1 -, `-` = omitted; `safe` ∈ 0 1:
                                             does the dtype cast safely to float64)
          `mw <availc> <g> <up> <safe> <shape…> | <bits…>` → wrapper MODEL (`g`,`up` ∈ 0 1 -)
reply   : `rng sum full s e;…` (rf) / `rng sum full;…` (rf1)
          `value-error` | `type-error` | `internal` | `table R` | `tables R|O` | `frame C|R` | `frames C|R|C|O`
            with R = `b b b;b b b;…` (bit patterns), O = `s e;s e;…`, C = `name,name,…`
          `bad-op` for anything else. -/
open PyYetiVerif.Rainflow PyYetiVerif.RainflowImp PyYetiVerif.RainflowEntry

instance : Ops Float where
  decLt := inferInstance
  abs := Float.abs
  half := (· / 2)
  c05 := 0.5
  c1 := 1.0

def parseInts (ws : List String) : Option (List Int) := ws.mapM String.toInt?

def fmtCyc (c : Cyc Int) : String :=
  s!"{c.rng} {c.sum} {if c.full then 1 else 0} {c.s} {c.e}"

def parseNd (ws : List String) : Option (Nd Float) :=
  match ws.span (· ≠ "|") with
  | (sh, _ :: dat) => do
      let shape ← sh.mapM String.toNat?
      let bits ← dat.mapM String.toNat?
      pure { shape := shape, data := bits.map fun b => Float.ofBits (UInt64.ofNat b) }
  | _ => none

def parseOpt : String → Option (Option Bool)
  | "0" => some (some false)
  | "1" => some (some true)
  | "-" => some none
  | _ => none

def fmtRows (r : List (List Float)) : String :=
  ";".intercalate (r.map fun row => " ".intercalate (row.map fun x => toString x.toBits.toNat))
def fmtOs (r : List (List Int)) : String :=
  ";".intercalate (r.map fun row => " ".intercalate (row.map toString))

def fmtOut : Except PyErr (Out Float) → String
  | .error .valueError => "value-error"
  | .error .typeError => "type-error"
  | .error .internal => "internal"
  | .ok (.table rf) => "table " ++ fmtRows rf
  | .ok (.tables rf os) => "tables " ++ fmtRows rf ++ "|" ++ fmtOs os
  | .ok (.frame c rf) => "frame " ++ ",".intercalate c ++ "|" ++ fmtRows rf
  | .ok (.frames c rf oc os) =>
      "frames " ++ ",".intercalate c ++ "|" ++ fmtRows rf ++ "|" ++ ",".intercalate oc ++ "|" ++ fmtOs os

def answer (line : String) : String :=
  match (line.splitOn " ").filter (· ≠ "") with
  | "rf" :: ws => match parseInts ws with
      | some xs => match rainflowApi xs with
          | some t => ";".intercalate (t.map fmtCyc)
          | none => "value-error"
      | none => "bad-op"
  | "rf1" :: ws => match parseInts ws with
      | some xs => match rainflow1Api xs with
          | some t => ";".intercalate (t.map
              fun (r, s, f) => s!"{r} {s} {if f then 1 else 0}")
          | none => "value-error"
      | none => "bad-op"
  | "me" :: i :: g :: sf :: ws =>
      match (if i = "c" then some Impl.c_rain else if i = "py" then some Impl.py_rain else none),
          parseOpt g, parseOpt sf, parseNd ws with
      | some i, some g, some (some sf), some nd => fmtOut (implEntry i { nd with safe := sf } g)
      | _, _, _, _ => "bad-op"
  | "mw" :: a :: g :: up :: sf :: ws =>
      match parseOpt a, parseOpt g, parseOpt up, parseOpt sf, parseNd ws with
      | some (some a), some g, some up, some (some sf), some nd =>
          fmtOut (wrapper (fun i => if i = Impl.c_rain then a else true) { nd with safe := sf } g up)
      | _, _, _, _, _ => "bad-op"
  | _ => "bad-op"

partial def loop (h : IO.FS.Stream) (out : IO.FS.Stream) : IO Unit := do
  let line ← h.getLine
  if line.isEmpty then return ()
  out.putStrLn (answer (line.trimAscii.toString))
  loop h out

def main : IO Unit := do
  loop (← IO.getStdin) (← IO.getStdout)
