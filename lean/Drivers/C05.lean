import PyYetiVerif.Model.Rainflow
/-! Line protocol for C05.
request : `rf  v0 v1 …`  (integers)  → rainflow with offsets
          `rf1 v0 v1 …`              → variant without offsets
reply   : `rng sum full s e;rng sum full s e;…`   (rf)
          `rng sum full;…`                          (rf1)
          `bad-op` for anything else (incl. non-integers). -/
open PyYetiVerif.Rainflow

def parseInts (ws : List String) : Option (List Int) := ws.mapM String.toInt?

def fmtCyc (c : Cyc Int) : String :=
  s!"{c.rng} {c.sum} {if c.full then 1 else 0} {c.s} {c.e}"

def answer (line : String) : String :=
  match (line.splitOn " ").filter (· ≠ "") with
  | "rf" :: ws => match parseInts ws with
      | some xs => match rainflowApi xs with
          | some t => ";".intercalate (t.map fmtCyc)
          | none => "value-error"
      | none => "bad-op"
  | "rf1" :: ws => match parseInts ws with
      | some xs => match rainflow1Api xs with
          | some t => ";".intercalate (t.map
              fun (r, s, f) => s!"{r} {s} {if f then 1 else 0}")
          | none => "value-error"
      | none => "bad-op"
  | _ => "bad-op"

partial def loop (h : IO.FS.Stream) (out : IO.FS.Stream) : IO Unit := do
  let line ← h.getLine
  if line.isEmpty then return ()
  out.putStrLn (answer (line.trimAscii.toString))
  loop h out

def main : IO Unit := do
  loop (← IO.getStdin) (← IO.getStdout)
