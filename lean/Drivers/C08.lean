import PyYetiVerif.Model.GenMachine
import PyYetiVerif.Model.GenMachineInit
import PyYetiVerif.Model.GenMachineInst
import PyYetiVerif.Model.GenMachineApi
/-! Line protocol for C08 (all floats are 16-hex-digit IEEE bit patterns, integers decimal,
matrices row-major, `n = nrb + nel + nrf`).

Blocks
  PART   nrb nel nrf  rb[nrb] el[nel] rf[nrf]                      (row indices of the partitions)
  ICENV  u kel[nel] krf[nrf]  |  c kel[nel*nel] krf[nrf*nrf]        (u: uncoupled solver, diagonals)
  OPTS   static hasd0 [d0[n]] hasv0 [v0[n]]
  OPS    (s i f[n] | a f[n])*
  EOM    u hasm [m[k]] b[k] kk[k]  |  c hasm [m[k*k]] b[k*k] kk[k*k]   (`_calc_acce_kdof`; k = #kdof)
  UNC    order nt  F G A B Fp Gp Ap Bp [k each, k = nrb+nel]
  CDF    order nt  F G A B Fp Gp Ap Bp [k each]  alpha[k*k] bo[k*k]
  EXP2   order nt  Edd Edv Evd Evv [k*k each]  P[2k*k] Q[2k*k]  mm   (mm: n | d m[k] | f m[k*k])
  CPX    order nt ny  G A Ap  mrb  mel  Fe Ae Be [ny re, ny im each]
         uiv uid [ny*nel re, ny*nel im each]  rurd iurd rurv iurv [nel*ny each]
         (mrb: n | d m[nrb] | f m[nrb*nrb];  mel likewise on the elastic rows)
  SOLVER unc UNC | cdf CDF | exp2 EXP2 | cpx CPX

Requests
  ic   PART ICENV OPTS F0[n]
         -> gen d[:,0] | gen v[:,0] | batch d[:,0] | batch v[:,0]        (4 × n floats, `|`-separated)
  hist PART ICENV SOLVER OPTS F0[n] OPS
         -> one record for the start state, then one per request, `;`-separated:
            `col d[n] v[n] a[n] f[n]` (+ ` dmp[k] ilast` for cdf) — the column the request wrote,
            `a` holding only what the generator itself writes there (rigid-body rows, complex
            path) — or `err:unbound` / `err:index` (and nothing after it)
  api  PART ICENV SOLVER EOM CALLS
         CALLS: G nt OPTS F0[n] | S g (s i f[n] | a f[n]) | T nt OPTS force[nt*n, column by column]
                | Z getforce | X
         -> per call: `gen id` | `sent` | `err:kind` | `sol nt d v a [f]` (each nt*n, column by
            column; f only for `Z 1`) | `flex`
  f2x ny n nx nw order  O[ny*(nx+nw)] Q[nx*n] S[nw*n] inj[n*ny]
  cdff2x n k0 k r0 nr ny order  F G A B Fp Gp Ap Bp alpha bo ikrf  O[ny*(2k+nr)] inj[n*ny]
         -> ny*ny floats.          Anything unparsable: `bad-op`. -/
open PyYetiVerif.GenMachine

structure Vec (n : Nat) where
  a : Array Float

instance {n : Nat} : Add (Vec n) := ⟨fun x y => ⟨Array.zipWith (· + ·) x.a y.a⟩⟩
instance {n : Nat} : Sub (Vec n) := ⟨fun x y => ⟨Array.zipWith (· - ·) x.a y.a⟩⟩
instance {n : Nat} : Zero (Vec n) := ⟨⟨Array.replicate n 0.0⟩⟩

/-- row-major `r × c` matrix times vector, summed left to right -/
def mulVec (r c : Nat) (m : Array Float) (x : Array Float) : Array Float :=
  (Array.range r).map fun i =>
    (List.range c).foldl (fun acc j => acc + m[i * c + j]! * x[j]!) 0.0

def diagMul (d : Array Float) (x : Array Float) : Array Float := Array.zipWith (· * ·) d x
def scal (c : Float) (x : Array Float) : Array Float := x.map (c * ·)
def recip (d : Array Float) : Array Float := d.map (1.0 / ·)

/-- Gaussian elimination with partial pivoting: solve `A x = b` (`A` row-major `n × n`) -/
def gaussSolve (n : Nat) (A : Array Float) (b : Array Float) : Array Float := Id.run do
  let mut a := A
  let mut y := b
  for c in [0:n] do
    let mut p := c
    let mut best := Float.abs a[c * n + c]!
    for r in [c + 1:n] do
      let v := Float.abs a[r * n + c]!
      if v > best then
        best := v
        p := r
    if p ≠ c then
      for j in [0:n] do
        let t := a[c * n + j]!
        a := a.set! (c * n + j) a[p * n + j]!
        a := a.set! (p * n + j) t
      let t := y[c]!
      y := y.set! c y[p]!
      y := y.set! p t
    for r in [c + 1:n] do
      let f := a[r * n + c]! / a[c * n + c]!
      for j in [c:n] do
        a := a.set! (r * n + j) (a[r * n + j]! - f * a[c * n + j]!)
      y := y.set! r (y[r]! - f * y[c]!)
  let mut x := Array.replicate n 0.0
  for c' in [0:n] do
    let c := n - 1 - c'
    let mut s := y[c]!
    for j in [c + 1:n] do
      s := s - a[c * n + j]! * x[j]!
    x := x.set! c (s / a[c * n + c]!)
  return x

/-- `M⁻ᵀ`-free right division: rows of `P @ inv(m)` (solve `mᵀ x = pᵀ` row by row) -/
def rightSolve (rows k : Nat) (P m : Array Float) : Array Float := Id.run do
  let mt := (Array.range (k * k)).map fun q => m[(q % k) * k + q / k]!
  let mut out := #[]
  for i in [0:rows] do
    out := out ++ gaussSolve k mt (P.extract (i * k) (i * k + k))
  return out

def hexVal (ch : Char) : Option Nat :=
  if '0' ≤ ch ∧ ch ≤ '9' then some (ch.toNat - '0'.toNat)
  else if 'a' ≤ ch ∧ ch ≤ 'f' then some (ch.toNat - 'a'.toNat + 10)
  else none

def parseFloat (s : String) : Option Float :=
  if s.length ≠ 16 then none else
  (s.toList.foldlM (fun (acc : Nat) ch => (hexVal ch).map (acc * 16 + ·)) 0).map
    fun v => Float.ofBits (UInt64.ofNat v)

def hexDigit (n : Nat) : Char :=
  if n < 10 then Char.ofNat ('0'.toNat + n) else Char.ofNat ('a'.toNat + n - 10)

def fmtFloat (x : Float) : String :=
  let v := x.toBits.toNat
  String.ofList ((List.range 16).map fun i => hexDigit ((v >>> (4 * (15 - i))) % 16))

def fmtVec (a : Array Float) : String := " ".intercalate (a.toList.map fmtFloat)

/-- token reader -/
abbrev P := StateT (List String) Option

def tok : P String := do
  match (← get) with
  | [] => failure
  | t :: ts => set ts; pure t

def nat : P Nat := do
  match (← tok).toNat? with
  | some n => pure n
  | none => failure

def nats : Nat → P (Array Nat)
  | 0 => pure #[]
  | k + 1 => do let x ← nat; let r ← nats k; pure (#[x] ++ r)

def flt : P Float := do
  match parseFloat (← tok) with
  | some x => pure x
  | none => failure

def flts (k : Nat) : P (Array Float) := do
  let mut out := Array.mkEmpty k
  for _ in [0:k] do
    out := out.push (← flt)
  pure out

def atEnd : P Bool := do pure (← get).isEmpty

def peek : P (Option String) := do pure (← get).head?

def errName : Err → String
  | .unbound => "err:unbound"
  | .index => "err:index"

def apiErrName : ApiErr → String
  | .unbound => "err:unbound"
  | .index => "err:index"
  | .stop => "err:stop"
  | .attr => "err:attr"

/-! ### partitions -/

structure Part where
  nrb : Nat
  nel : Nat
  nrf : Nat
  rb : Array Nat
  el : Array Nat
  rf : Array Nat

def Part.n (p : Part) : Nat := p.nrb + p.nel + p.nrf

def gather (idx : Array Nat) (a : Array Float) : Array Float := idx.map (a[·]!)

def scatterInto (a : Array Float) (idx : Array Nat) (v : Array Float) : Array Float := Id.run do
  let mut out := a
  for q in [0:idx.size] do
    out := out.set! idx[q]! v[q]!
  return out

abbrev PV (p : Part) := P3 (Vec p.nrb) (Vec p.nel) (Vec p.nrf)

def Part.split (p : Part) (a : Array Float) : PV p :=
  ⟨⟨gather p.rb a⟩, ⟨gather p.el a⟩, ⟨gather p.rf a⟩⟩

def Part.join (p : Part) (v : PV p) : Array Float :=
  scatterInto (scatterInto (scatterInto (Array.replicate p.n 0.0) p.rb v.rb.a) p.el v.el.a) p.rf v.rf.a

/-- rows of the non-rf partition in increasing order (the code's `nonrf` / real-path `kdof`) -/
def Part.nonrf (p : Part) : Array Nat := (p.rb ++ p.el).qsort (· < ·)

def parsePart : P Part := do
  let nrb ← nat; let nel ← nat; let nrf ← nat
  let rb ← nats nrb; let el ← nats nel; let rf ← nats nrf
  pure ⟨nrb, nel, nrf, rb, el, rf⟩

/-- ICENV: what `_init_dv` / the rf statements read from the solver; `unc` = `self.unc` -/
structure EnvD (p : Part) where
  unc : Bool
  env : IcEnv (Vec p.nrb) (Vec p.nel) (Vec p.nrf)

def parseEnv (p : Part) : P (EnvD p) := do
  let mode ← tok
  let anyNz : Vec p.nel → Bool := fun f => f.a.any (· != 0.0)
  if mode == "u" then
    let kel ← flts p.nel; let krf ← flts p.nrf
    let ikrf := recip krf
    let env : IcEnv (Vec p.nrb) (Vec p.nel) (Vec p.nrf) :=
      { hasEl := (p.nel != 0)
        anyNz := anyNz
        solveEl := fun f => ⟨Array.zipWith (· / ·) f.a kel⟩
        ikrf := fun f => ⟨diagMul ikrf f.a⟩ }
    pure ⟨true, env⟩
  else if mode == "c" then
    let kel ← flts (p.nel * p.nel); let krf ← flts (p.nrf * p.nrf)
    let env : IcEnv (Vec p.nrb) (Vec p.nel) (Vec p.nrf) :=
      { hasEl := (p.nel != 0)
        anyNz := anyNz
        solveEl := fun f => ⟨gaussSolve p.nel kel f.a⟩
        ikrf := fun f => ⟨gaussSolve p.nrf krf f.a⟩ }
    pure ⟨false, env⟩
  else failure

def parseOpts (p : Part) : P (IcOpts (Vec p.nrb) (Vec p.nel) (Vec p.nrf)) := do
  let st ← nat
  let hd ← nat
  let d0 ← if hd == 1 then do let a ← flts p.n; pure (some (p.split a)) else pure none
  let hv ← nat
  let v0 ← if hv == 1 then do let a ← flts p.n; pure (some (p.split a)) else pure none
  pure ⟨d0, v0, st == 1⟩

partial def parseOps (p : Part) : P (List (Op (PV p))) := do
  match (← peek) with
  | some "s" =>
    let _ ← tok; let i ← nat; let f ← flts p.n; let r ← parseOps p; pure (.send i (p.split f) :: r)
  | some "a" =>
    let _ ← tok; let f ← flts p.n; let r ← parseOps p; pure (.addon (p.split f) :: r)
  | _ => pure []

/-! ### solvers -/

/-- a solver ready to run: the generator's step on arbitrary requests (the concrete transcription),
the `Lin` it is an instance of, the start state, `tsolve`'s first column, and how a column of the
machine is laid out in the `n`-row arrays `d, v, a` -/
structure Sol (p : Part) where
  X : Type
  W : Type
  addX : Add X
  addW : Add W
  L : Lin (PV p) X W
  stepApiC : Nat → ApiState (PV p) X W → Op (PV p) → Except Err (ApiState (PV p) X W)
  start : IcOpts (Vec p.nrb) (Vec p.nel) (Vec p.nrf) → PV p → State (PV p) X W
  x0 : IcOpts (Vec p.nrb) (Vec p.nel) (Vec p.nrf) → (Nat → PV p) → X
  /-- (d column, v column, rows of the a column the generator writes) -/
  cols : X → W → Array Float × Array Float × Array Float
  /-- kdof rows and the (d, v) on them, for `_calc_acce_kdof` -/
  kdof : Array Nat
  dvk : X → Array Float × Array Float
  nt : Nat
  order1 : Bool

def rfS (p : Part) (e : EnvD p) : PV p → Vec p.nrf := fun f => e.env.ikrf f.rf

/-- real paths: state = non-rf rows of d, v; static rows = d[rf] -/
def realView (p : Part) : View (PV p) (DV (Vec (p.nrb + p.nel))) (Vec p.nrf) :=
  { x := fun d v => ⟨⟨gather p.nonrf (p.join d)⟩, ⟨gather p.nonrf (p.join v)⟩⟩
    r := fun d _ => d.rf }

def realCols (p : Part) (x : DV (Vec (p.nrb + p.nel))) (r : Vec p.nrf) :
    Array Float × Array Float × Array Float :=
  let z := Array.replicate p.n 0.0
  (scatterInto (scatterInto z p.nonrf x.d.a) p.rf r.a, scatterInto z p.nonrf x.v.a, z)

def parseUnc (p : Part) (e : EnvD p) (kont : Sol p → P String) : P String := do
  let order ← nat; let nt ← nat
  let k := p.nrb + p.nel
  let F ← flts k; let G ← flts k; let A ← flts k; let B ← flts k
  let Fp ← flts k; let Gp ← flts k; let Ap ← flts k; let Bp ← flts k
  let dm (d : Array Float) : Vec k → Vec k := fun x => ⟨diagMul d x.a⟩
  let AB := Array.zipWith (· + ·) A B
  let ABp := Array.zipWith (· + ·) Ap Bp
  let c : UncCoef (PV p) (Vec k) (Vec p.nrf) :=
    { F := dm F, G := dm G, A := dm A, B := dm B, Fp := dm Fp, Gp := dm Gp, Ap := dm Ap,
      Bp := dm Bp, AB := dm AB, ABp := dm ABp, K := fun f => ⟨gather p.nonrf (p.join f)⟩,
      S := rfS p e, order1 := order == 1 }
  let vw := realView p
  kont { X := DV (Vec k), W := Vec p.nrf, addX := inferInstance, addW := inferInstance, L := uncLin c, stepApiC := uncStepApi c,
         start := genStart e.env vw, x0 := batchX0 e.env vw, cols := realCols p,
         kdof := p.nonrf, dvk := fun x => (x.d.a, x.v.a), nt := nt, order1 := c.order1 }

def parseExp2 (p : Part) (e : EnvD p) (kont : Sol p → P String) : P String := do
  let order ← nat; let nt ← nat
  let k := p.nrb + p.nel
  let Edd ← flts (k * k); let Edv ← flts (k * k); let Evd ← flts (k * k); let Evv ← flts (k * k)
  let Pm ← flts (2 * k * k); let Qm ← flts (2 * k * k)
  let mm ← tok
  let (Ps, Qs) ←
    if mm == "n" then pure (Pm, Qm)
    else if mm == "d" then do
      let m ← flts k
      let invm := recip m
      let sc (M : Array Float) : Array Float :=
        (Array.range (2 * k * k)).map fun q => M[q]! * invm[q % k]!
      pure (sc Pm, sc Qm)
    else if mm == "f" then do
      let m ← flts (k * k)
      pure (rightSolve (2 * k) k Pm m, rightSolve (2 * k) k Qm m)
    else failure
  let mv (M : Array Float) : Vec k → Vec k := fun x => ⟨mulVec k k M x.a⟩
  let pq (M : Array Float) : Vec k → DV (Vec k) := fun f =>
    let y := mulVec (2 * k) k M f.a
    ⟨⟨y.extract k (2 * k)⟩, ⟨y.extract 0 k⟩⟩
  let c : Exp2Coef (PV p) (Vec k) (Vec p.nrf) :=
    { Edd := mv Edd, Edv := mv Edv, Evd := mv Evd, Evv := mv Evv, P := pq Ps, Q := pq Qs,
      K := fun f => ⟨gather p.nonrf (p.join f)⟩, S := rfS p e, order1 := order == 1 }
  let vw := realView p
  kont { X := DV (Vec k), W := Vec p.nrf, addX := inferInstance, addW := inferInstance, L := exp2Lin c, stepApiC := exp2StepApi c,
         start := genStart e.env vw, x0 := batchX0 e.env vw, cols := realCols p,
         kdof := p.nonrf, dvk := fun x => (x.d.a, x.v.a), nt := nt, order1 := c.order1 }

/-- complex vectors as (re, im) -/
structure CVec (n : Nat) where
  re : Array Float
  im : Array Float

instance {n : Nat} : Add (CVec n) :=
  ⟨fun x y => ⟨Array.zipWith (· + ·) x.re y.re, Array.zipWith (· + ·) x.im y.im⟩⟩

def cmul {n : Nat} (c x : CVec n) : CVec n :=
  ⟨(Array.range n).map fun i => c.re[i]! * x.re[i]! - c.im[i]! * x.im[i]!,
   (Array.range n).map fun i => c.re[i]! * x.im[i]! + c.im[i]! * x.re[i]!⟩

def parseCVec (n : Nat) : P (CVec n) := do
  let re ← flts n; let im ← flts n; pure ⟨re, im⟩

/-- `n`: identity; `d m[k]`: `(1/m) * ·`; `f m[k*k]`: solve -/
def parseMassSolve (k : Nat) : P (Array Float → Array Float) := do
  let mm ← tok
  if mm == "n" then pure id
  else if mm == "d" then do
    let m ← flts k
    let im := recip m
    pure (diagMul im)
  else if mm == "f" then do
    let m ← flts (k * k)
    pure (gaussSolve k m)
  else failure

def parseCpx (p : Part) (e : EnvD p) (kont : Sol p → P String) : P String := do
  let order ← nat; let nt ← nat; let ny ← nat
  let G ← flt; let A ← flt; let Ap ← flt
  let imrb ← parseMassSolve p.nrb
  let invm ← parseMassSolve p.nel
  let Fe ← parseCVec ny; let Ae ← parseCVec ny; let Be ← parseCVec ny
  let uivRe ← flts (ny * p.nel); let uivIm ← flts (ny * p.nel)
  let uidRe ← flts (ny * p.nel); let uidIm ← flts (ny * p.nel)
  let rurd ← flts (p.nel * ny); let iurd ← flts (p.nel * ny)
  let rurv ← flts (p.nel * ny); let iurv ← flts (p.nel * ny)
  let cm (re im : Array Float) : Vec p.nel → CVec ny := fun x =>
    ⟨mulVec ny p.nel re x.a, mulVec ny p.nel im x.a⟩
  let rec_ (r i : Array Float) : CVec ny → Vec p.nel := fun y =>
    ⟨Array.zipWith (· - ·) (mulVec p.nel ny r y.re) (mulVec p.nel ny i y.im)⟩
  let sR (c : Float) : Vec p.nrb → Vec p.nrb := fun x => ⟨scal c x.a⟩
  let AeBe : CVec ny := Ae + Be
  let c : CplxCoef (Vec p.nrb) (Vec p.nel) (Vec p.nrf) (CVec ny) :=
    { G := sR G, A := sR A, Ap := sR Ap, A0 := sR (1.5 * A), Ap0 := sR (2.0 * Ap), half := sR 0.5,
      imrb := fun x => ⟨imrb x.a⟩, invm := fun x => ⟨invm x.a⟩, uiv := cm uivRe uivIm,
      uid := cm uidRe uidIm, Fe := cmul Fe, Ae := cmul Ae, Be := cmul Be, AeBe := cmul AeBe,
      recD := rec_ rurd iurd, recV := rec_ rurv iurv, ikrf := e.env.ikrf, order1 := order == 1 }
  let vw : View (PV p) (CX (Vec p.nrb) (Vec p.nel)) (CW (Vec p.nrb) (Vec p.nrf)) :=
    { x := fun d v => ⟨d.rb, v.rb, d.el, v.el⟩, r := fun d a => ⟨d.rf, a.rb⟩ }
  let z := Array.replicate p.n 0.0
  kont { X := CX (Vec p.nrb) (Vec p.nel), W := CW (Vec p.nrb) (Vec p.nrf), addX := inferInstance,
         addW := inferInstance, L := cplxLin c,
         stepApiC := cplxStepApi c, start := cplxGenStart e.env c.imrb vw, x0 := batchX0 e.env vw,
         cols := fun x r =>
           (scatterInto (scatterInto (scatterInto z p.rb x.drb.a) p.el x.del.a) p.rf r.rf.a,
            scatterInto (scatterInto z p.rb x.vrb.a) p.el x.vel.a, scatterInto z p.rb r.arb.a),
         kdof := p.el, dvk := fun x => (x.del.a, x.vel.a), nt := nt, order1 := c.order1 }

/-! ### history requests -/

def fmtCol {p : Part} (S : Sol p) (s : State (PV p) S.X S.W) (c : Nat) : String :=
  let (d, v, a) := S.cols (s.x c) (s.r c)
  s!"{c} {fmtVec d} {fmtVec v} {fmtVec a} {fmtVec (p.join (s.force c))}"

def runHist {p : Part} (S : Sol p) (s0 : State (PV p) S.X S.W) (os : List (Op (PV p))) : String :=
  let rec go (a : ApiState (PV p) S.X S.W) (os : List (Op (PV p))) (acc : List String) :
      List String :=
    match os with
    | [] => acc.reverse
    | op :: rest =>
      match S.stepApiC S.nt a op with
      | .error e => (errName e :: acc).reverse
      | .ok a' => go a' rest (fmtCol S a'.s a'.s.cur :: acc)
  ";".intercalate (go ⟨false, s0⟩ os [fmtCol S s0 0])

def parseCdfCoef (p : Part) (e : EnvD p) :
    P (Nat × CdfCoef (PV p) (Vec (p.nrb + p.nel)) (Vec p.nrf)) := do
  let order ← nat; let nt ← nat
  let k := p.nrb + p.nel
  let F ← flts k; let G ← flts k; let A ← flts k; let B ← flts k
  let Fp ← flts k; let Gp ← flts k; let Ap ← flts k; let Bp ← flts k
  let alpha ← flts (k * k); let bo ← flts (k * k)
  let dm (d : Array Float) : Vec k → Vec k := fun x => ⟨diagMul d x.a⟩
  pure (nt,
    { F := dm F, G := dm G, A := dm A, B := dm B, Fp := dm Fp, Gp := dm Gp, Ap := dm Ap,
      Bp := dm Bp, alpha := fun x => ⟨mulVec k k alpha x.a⟩, bo := fun x => ⟨mulVec k k bo x.a⟩,
      K := fun f => ⟨gather p.nonrf (p.join f)⟩, S := rfS p e, order1 := order == 1 })

/-- the cd-as-force solver for the API / get_f2x requests: the cache-free one-step map `cdfLin`
(`cdf_cache_sound`: the generator with its cache equals it) -/
def parseCdfSol (p : Part) (e : EnvD p) (kont : Sol p → P String) : P String := do
  let (nt, c) ← parseCdfCoef p e
  let vw := realView p
  kont { X := DV (Vec (p.nrb + p.nel)), W := Vec p.nrf, addX := inferInstance,
         addW := inferInstance, L := cdfLin c, stepApiC := stepApi (cdfLin c),
         start := genStart e.env vw, x0 := batchX0 e.env vw, cols := realCols p,
         kdof := p.nonrf, dvk := fun x => (x.d.a, x.v.a), nt := nt, order1 := c.order1 }

/-- the cd-as-force generator keeps its own state type (hidden cache) -/
def doHistCdf (p : Part) (e : EnvD p) : P String := do
  let (nt, c) ← parseCdfCoef p e
  let k := p.nrb + p.nel
  let o ← parseOpts p
  let f0 ← flts p.n
  let os ← parseOps p
  if !(← atEnd) then failure
  let A0 := initDvaPart e.env o (p.split f0)
  let d0 : Vec k := ⟨gather p.nonrf (p.join (A0.d 0))⟩
  let v0 : Vec k := ⟨gather p.nonrf (p.join (A0.v 0))⟩
  let fmt (s : CdfState (PV p) (Vec k) (Vec p.nrf)) (i : Nat) : String :=
    let (d, v, a) := realCols p ⟨s.d i, s.v i⟩ (s.r i)
    s!"{i} {fmtVec d} {fmtVec v} {fmtVec a} {fmtVec (p.join (s.force i))} {fmtVec s.dmp.a} {s.ilast}"
  let rec go (a : CdfApiState (PV p) (Vec k) (Vec p.nrf)) (os : List (Op (PV p)))
      (acc : List String) : List String :=
    match os with
    | [] => acc.reverse
    | op :: rest =>
      match cdfStepApi c nt a op with
      | .error e => (errName e :: acc).reverse
      | .ok a' => go a' rest (fmt a'.s a'.s.cur :: acc)
  -- `_init_dva_part` also sets the rf rows of column 0
  let s0 := cdfInit c (p.split f0) d0 v0
  let s0 := { s0 with r := upd s0.r 0 (A0.d 0).rf }
  pure (";".intercalate (go ⟨false, s0⟩ os [fmt s0 0]))

def parseSol (p : Part) (e : EnvD p) (kind : String) (kont : Sol p → P String) : P String :=
  if kind == "unc" then parseUnc p e kont
  else if kind == "exp2" then parseExp2 p e kont
  else if kind == "cpx" then parseCpx p e kont
  else if kind == "cdf" then parseCdfSol p e kont
  else failure

def doHist : P String := do
  let p ← parsePart
  let e ← parseEnv p
  let kind ← tok
  if kind == "cdf" then doHistCdf p e
  else
    parseSol p e kind fun S => do
      let o ← parseOpts p
      let f0 ← flts p.n
      let os ← parseOps p
      if !(← atEnd) then failure
      pure (runHist S (S.start o (p.split f0)) os)

/-- `ic`: the first column by the two code paths -/
def doIc : P String := do
  let p ← parsePart
  let e ← parseEnv p
  let o ← parseOpts p
  let f0 ← flts p.n
  if !(← atEnd) then failure
  let g := initDvaPart e.env o (p.split f0)
  let b := initDva e.env o (fun j => if j = 0 then p.split f0 else 0)
  pure (" | ".intercalate
    [fmtVec (p.join (g.d 0)), fmtVec (p.join (g.v 0)), fmtVec (p.join (b.d 0)), fmtVec (p.join (b.v 0))])

/-! ### API call sequences -/

/-- EOM block → `_calc_acce_kdof` on `k` kdof rows -/
def parseEom (k : Nat) : P (Array Float → Array Float → Array Float → Array Float) := do
  let mode ← tok
  let hasm ← nat
  if mode == "u" then
    let m ← if hasm == 1 then flts k else pure #[]
    let b ← flts k; let kk ← flts k
    let invm := recip m
    pure fun d v f =>
      let y := Array.zipWith (· - ·) (Array.zipWith (· - ·) f (diagMul b v)) (diagMul kk d)
      if hasm == 1 then diagMul invm y else y
  else if mode == "c" then
    let m ← if hasm == 1 then flts (k * k) else pure #[]
    let b ← flts (k * k); let kk ← flts (k * k)
    pure fun d v f =>
      let y := Array.zipWith (· - ·) (Array.zipWith (· - ·) f (mulVec k k b v)) (mulVec k k kk d)
      if hasm == 1 then gaussSolve k m y else y
  else failure

partial def parseCalls (p : Part) :
    P (List (Call (PV p) (IcOpts (Vec p.nrb) (Vec p.nel) (Vec p.nrf)) Unit)) := do
  match (← peek) with
  | none => pure []
  | some t =>
    let _ ← tok
    let c ←
      if t == "G" then do
        let nt ← nat; let o ← parseOpts p; let f0 ← flts p.n
        pure (Call.generator nt o (p.split f0))
      else if t == "S" then do
        let g ← nat
        let k ← tok
        if k == "s" then do
          let i ← nat; let f ← flts p.n; pure (Call.send g (.send i (p.split f)))
        else if k == "a" then do
          let f ← flts p.n; pure (Call.send g (.addon (p.split f)))
        else failure
      else if t == "T" then do
        let nt ← nat; let o ← parseOpts p
        let mut cols : Array (PV p) := #[]
        for _ in [0:nt] do
          cols := cols.push (p.split (← flts p.n))
        pure (Call.tsolve nt o (fun j => if h : j < cols.size then cols[j] else 0))
      else if t == "Z" then do
        let g ← nat; pure (Call.finalize (g == 1))
      else if t == "X" then pure (Call.getF2x ())
      else failure
    let r ← parseCalls p
    pure (c :: r)

def fmtOut {p : Part} (S : Sol p) :
    Out (PV p) S.X S.W (Vec S.kdof.size) Unit → String
  | .gen id x0 r0 =>
    let (d, v, a) := S.cols x0 r0
    s!"gen {id} {fmtVec d} {fmtVec v} {fmtVec a}"
  | .sent c x r f =>
    let (d, v, a) := S.cols x r
    s!"sent {c} {fmtVec d} {fmtVec v} {fmtVec a} {fmtVec (p.join f)}"
  | .err er => apiErrName er
  | .flex _ => "flex"
  | .sol r =>
    let cols := (List.range r.nt).map fun j =>
      let (x, w, a) := r.cols j
      let (d, v, a0) := S.cols x w
      (d, v, scatterInto a0 S.kdof a.a)
    let cat (sel : Array Float × Array Float × Array Float → Array Float) : String :=
      " ".intercalate (cols.map fun c => fmtVec (sel c))
    let f := match r.force with
      | some f => " " ++ " ".intercalate ((List.range r.nt).map fun j => fmtVec (p.join (f j)))
      | none => ""
    s!"sol {r.nt} {cat (·.1)} {cat (·.2.1)} {cat (·.2.2)}{f}"

def doApi : P String := do
  let p ← parsePart
  let e ← parseEnv p
  let kind ← tok
  parseSol p e kind fun S => do
    let eom ← parseEom S.kdof.size
    let calls ← parseCalls p
    let acc : S.X → PV p → Vec S.kdof.size := fun x f =>
      let (d, v) := S.dvk x
      ⟨eom d v (gather S.kdof (p.join f))⟩
    let solver : Solver (PV p) S.X S.W (Vec S.kdof.size)
        (IcOpts (Vec p.nrb) (Vec p.nel) (Vec p.nrf)) Unit Unit :=
      { L := S.L, start := S.start, x0 := S.x0, acc := acc, f2x := fun _ => () }
    letI := S.addX
    letI := S.addW
    let outs := (objRun solver Obj.new calls).2
    pure (";".intercalate (outs.map (fmtOut S)))

/-! ### get_f2x -/

/-- `f2x PART ICENV SOLVER velo ny phi[ny*n]`: column `j` of the transform is `apiF2x` of the
solver's own one-step map applied to the `j`-th unit interface force, mapped in by `phi.T` and
read out by `phi @ d[:, i]` (or `phi @ v[:, i]`) -/
def doF2x : P String := do
  let p ← parsePart
  let e ← parseEnv p
  let kind ← tok
  parseSol p e kind fun S => do
    let velo ← nat; let ny ← nat
    let phi ← flts (ny * p.n)
    if !(← atEnd) then failure
    let obs : S.X → S.W → Vec ny := fun x r =>
      let (d, v, _) := S.cols x r
      ⟨mulVec ny p.n phi (if velo == 1 then v else d)⟩
    let inj : Vec ny → PV p := fun g =>
      p.split ((Array.range p.n).map fun c =>
        (List.range ny).foldl (fun acc r => acc + phi[r * p.n + c]! * g.a[r]!) 0.0)
    let cols := (List.range ny).map fun j =>
      (apiF2x S.order1 S.L obs inj ⟨(Array.range ny).map fun i => if i = j then 1.0 else 0.0⟩).a
    pure (" ".intercalate ((List.range ny).map fun i =>
      fmtVec ((cols.map fun c => c[i]!).toArray)))

def answer (line : String) : String :=
  let ws := (line.splitOn " ").filter (· ≠ "")
  let r : Option (String × List String) := match ws with
    | "ic" :: rest => doIc.run rest
    | "hist" :: rest => doHist.run rest
    | "api" :: rest => doApi.run rest
    | "f2x" :: rest => doF2x.run rest
    | _ => none
  match r with
  | some (s, _) => s
  | none => "bad-op"

partial def loop (h : IO.FS.Stream) (out : IO.FS.Stream) : IO Unit := do
  let line ← h.getLine
  if line.isEmpty then return ()
  out.putStrLn (answer (line.trimAscii.toString))
  loop h out

def main : IO Unit := do
  loop (← IO.getStdin) (← IO.getStdout)
