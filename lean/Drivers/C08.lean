import PyYetiVerif.Model.GenMachine
/-! Line protocol for C08 (all floats are 16-hex-digit IEEE bit patterns, integers decimal).

  lin n nx nw nt  T[nx*nx] P[nx*n] Q[nx*n] S[nw*n]  f0[n] x0[nx]  ops…
  cdf n k0 k r0 nr nt order  F G A B Fp Gp Ap Bp [k each] alpha[k*k] bo[k*k] ikrf[nr]
      f0[n] d0[k] v0[k]  ops…
  f2x ny n nx nw order  O[ny*(nx+nw)] Q[nx*n] S[nw*n] inj[n*ny]
  cdff2x n k0 k r0 nr ny order  (coefficients as for cdf)  O[ny*(2k+nr)] inj[n*ny]

  ops:  s i f[n]   |   a f[n]

reply (lin): a record for column 0 of the start state, then one record per request, `;`-separated:  `col x[nx] r[nw] f[n]`  — the column the
request wrote, after the request — or `err:unbound` / `err:index` (and nothing after it).
reply (cdf): `col d[k] v[k] r[nr] f[n] dmp[k] ilast`.
reply (f2x): ny*ny floats, row-major.   Anything unparsable: `bad-op`.  Matrices row-major. -/
open PyYetiVerif.GenMachine

structure Vec (n : Nat) where
  a : Array Float

instance {n : Nat} : Add (Vec n) := ⟨fun x y => ⟨Array.zipWith (· + ·) x.a y.a⟩⟩
instance {n : Nat} : Sub (Vec n) := ⟨fun x y => ⟨Array.zipWith (· - ·) x.a y.a⟩⟩
instance {n : Nat} : Zero (Vec n) := ⟨⟨Array.replicate n 0.0⟩⟩

/-- row-major `r × c` matrix times vector, summed left to right -/
def mulVec (r c : Nat) (m : Array Float) (x : Array Float) : Array Float :=
  (Array.range r).map fun i =>
    (List.range c).foldl (fun acc j => acc + m[i * c + j]! * x[j]!) 0.0

def diagMul (d : Array Float) (x : Array Float) : Array Float := Array.zipWith (· * ·) d x

def hexVal (ch : Char) : Option Nat :=
  if '0' ≤ ch ∧ ch ≤ '9' then some (ch.toNat - '0'.toNat)
  else if 'a' ≤ ch ∧ ch ≤ 'f' then some (ch.toNat - 'a'.toNat + 10)
  else none

def parseFloat (s : String) : Option Float :=
  if s.length ≠ 16 then none else
  (s.toList.foldlM (fun (acc : Nat) ch => (hexVal ch).map (acc * 16 + ·)) 0).map
    fun v => Float.ofBits (UInt64.ofNat v)

def hexDigit (n : Nat) : Char :=
  if n < 10 then Char.ofNat ('0'.toNat + n) else Char.ofNat ('a'.toNat + n - 10)

def fmtFloat (x : Float) : String :=
  let v := x.toBits.toNat
  String.ofList ((List.range 16).map fun i => hexDigit ((v >>> (4 * (15 - i))) % 16))

def fmtVec (a : Array Float) : String := " ".intercalate (a.toList.map fmtFloat)

/-- token reader -/
abbrev P := StateT (List String) Option

def tok : P String := do
  match (← get) with
  | [] => failure
  | t :: ts => set ts; pure t

def nat : P Nat := do
  match (← tok).toNat? with
  | some n => pure n
  | none => failure

def flt : P Float := do
  match parseFloat (← tok) with
  | some x => pure x
  | none => failure

def flts : Nat → P (Array Float)
  | 0 => pure #[]
  | k + 1 => do let x ← flt; let r ← flts k; pure (#[x] ++ r)

partial def ops (n : Nat) : P (List (Op (Vec n))) := do
  match (← get) with
  | [] => pure []
  | _ =>
    let t ← tok
    if t == "s" then
      let i ← nat; let f ← flts n; let r ← ops n; pure (.send i ⟨f⟩ :: r)
    else if t == "a" then
      let f ← flts n; let r ← ops n; pure (.addon ⟨f⟩ :: r)
    else failure

def errName : Err → String
  | .unbound => "err:unbound"
  | .index => "err:index"

def doLin : P String := do
  let n ← nat; let nx ← nat; let nw ← nat; let nt ← nat
  let T ← flts (nx * nx); let Pm ← flts (nx * n); let Q ← flts (nx * n); let S ← flts (nw * n)
  let f0 ← flts n; let x0 ← flts nx
  let os ← ops n
  let L : Lin (Vec n) (Vec nx) (Vec nw) :=
    { T := fun x => ⟨mulVec nx nx T x.a⟩, P := fun f => ⟨mulVec nx n Pm f.a⟩,
      Q := fun f => ⟨mulVec nx n Q f.a⟩, S := fun f => ⟨mulVec nw n S f.a⟩ }
  let rec go (a : ApiState (Vec n) (Vec nx) (Vec nw)) (os : List (Op (Vec n)))
      (acc : List String) : List String :=
    match os with
    | [] => acc.reverse
    | op :: rest =>
      match stepApi L nt a op with
      | .error e => (errName e :: acc).reverse
      | .ok a' =>
        let c := a'.s.cur
        go a' rest
          (s!"{c} {fmtVec (a'.s.x c).a} {fmtVec (a'.s.r c).a} {fmtVec (a'.s.force c).a}" :: acc)
  let s0 := init L ⟨f0⟩ ⟨x0⟩
  pure (";".intercalate (go ⟨false, s0⟩ os
    [s!"0 {fmtVec (s0.x 0).a} {fmtVec (s0.r 0).a} {fmtVec (s0.force 0).a}"]))

def slice (a : Array Float) (s k : Nat) : Array Float := a.extract s (s + k)

def cdfCoef (n k0 k r0 nr order : Nat) : P (CdfCoef (Vec n) (Vec k) (Vec nr)) := do
  let F ← flts k; let G ← flts k; let A ← flts k; let B ← flts k
  let Fp ← flts k; let Gp ← flts k; let Ap ← flts k; let Bp ← flts k
  let alpha ← flts (k * k); let bo ← flts (k * k); let ikrf ← flts nr
  let dm (d : Array Float) : Vec k → Vec k := fun x => ⟨diagMul d x.a⟩
  pure
    { F := dm F, G := dm G, A := dm A, B := dm B, Fp := dm Fp, Gp := dm Gp, Ap := dm Ap,
      Bp := dm Bp, alpha := fun x => ⟨mulVec k k alpha x.a⟩, bo := fun x => ⟨mulVec k k bo x.a⟩,
      K := fun f => ⟨slice f.a k0 k⟩, S := fun f => ⟨diagMul ikrf (slice f.a r0 nr)⟩,
      order1 := order == 1 }

def doCdf : P String := do
  let n ← nat; let k0 ← nat; let k ← nat; let r0 ← nat; let nr ← nat; let nt ← nat
  let order ← nat
  let c ← cdfCoef n k0 k r0 nr order
  let f0 ← flts n; let d0 ← flts k; let v0 ← flts k
  let os ← ops n
  let rec go (a : CdfApiState (Vec n) (Vec k) (Vec nr)) (os : List (Op (Vec n)))
      (acc : List String) : List String :=
    match os with
    | [] => acc.reverse
    | op :: rest =>
      match cdfStepApi c nt a op with
      | .error e => (errName e :: acc).reverse
      | .ok a' =>
        let s := a'.s
        let i := s.cur
        go a' rest
          (s!"{i} {fmtVec (s.d i).a} {fmtVec (s.v i).a} {fmtVec (s.r i).a} {fmtVec (s.force i).a} {fmtVec s.dmp.a} {s.ilast}" :: acc)
  let s0 := cdfInit c ⟨f0⟩ ⟨d0⟩ ⟨v0⟩
  pure (";".intercalate (go ⟨false, s0⟩ os
    [s!"0 {fmtVec (s0.d 0).a} {fmtVec (s0.v 0).a} {fmtVec (s0.r 0).a} {fmtVec (s0.force 0).a} {fmtVec s0.dmp.a} {s0.ilast}"]))

def unitCols {n ny : Nat} (g : Vec ny → Vec n) : List (Array Float) :=
  (List.range ny).map fun j =>
    (g ⟨(Array.range ny).map fun i => if i = j then 1.0 else 0.0⟩).a

def fmtCols (ny : Nat) (cols : List (Array Float)) : String :=
  " ".intercalate ((List.range ny).map fun i => fmtVec ((cols.map fun c => c[i]!).toArray))

/-- `cdff2x n k0 k r0 nr ny order  coefficients…  O[ny*(2k+nr)] inj[n*ny]` -/
def doCdfF2x : P String := do
  let n ← nat; let k0 ← nat; let k ← nat; let r0 ← nat; let nr ← nat; let ny ← nat
  let order ← nat
  let c ← cdfCoef n k0 k r0 nr order
  let O ← flts (ny * (2 * k + nr)); let inj ← flts (n * ny)
  let obs : DV (Vec k) → Vec nr → Vec ny :=
    fun x r => ⟨mulVec ny (2 * k + nr) O (x.d.a ++ x.v.a ++ r.a)⟩
  let injF : Vec ny → Vec n := fun g => ⟨mulVec n ny inj g.a⟩
  pure (fmtCols ny (unitCols (apiF2x c.order1 (cdfLin c) obs injF)))

def doF2x : P String := do
  let ny ← nat; let n ← nat; let nx ← nat; let nw ← nat; let order ← nat
  let O ← flts (ny * (nx + nw)); let Q ← flts (nx * n); let S ← flts (nw * n)
  let inj ← flts (n * ny)
  let L : Lin (Vec n) (Vec nx) (Vec nw) :=
    { T := id, P := fun _ => 0, Q := fun f => ⟨mulVec nx n Q f.a⟩,
      S := fun f => ⟨mulVec nw n S f.a⟩ }
  let obs : Vec nx → Vec nw → Vec ny := fun x r => ⟨mulVec ny (nx + nw) O (x.a ++ r.a)⟩
  let injF : Vec ny → Vec n := fun g => ⟨mulVec n ny inj g.a⟩
  -- column j of the transform = f2x applied to the j-th unit interface force
  pure (fmtCols ny (unitCols (apiF2x (order == 1) L obs injF)))

def answer (line : String) : String :=
  let ws := (line.splitOn " ").filter (· ≠ "")
  let r : Option (String × List String) := match ws with
    | "lin" :: rest => doLin.run rest
    | "cdf" :: rest => doCdf.run rest
    | "f2x" :: rest => doF2x.run rest
    | "cdff2x" :: rest => doCdfF2x.run rest
    | _ => none
  match r with
  | some (s, _) => s
  | none => "bad-op"

partial def loop (h : IO.FS.Stream) (out : IO.FS.Stream) : IO Unit := do
  let line ← h.getLine
  if line.isEmpty then return ()
  out.putStrLn (answer (line.trimAscii.toString))
  loop h out

def main : IO Unit := do
  loop (← IO.getStdin) (← IO.getStdout)
