import PyYetiVerif.Model.ExpSeries
import PyYetiVerif.Model.ExpSeriesDriver
import PyYetiVerif.Model.SSModel
import PyYetiVerif.Generated.PadeTables
/-! Line protocol for C07.  Rationals travel as `n` or `n/d` (exact); matrices row-major.

    expm N B n h a11 … ann              → `s θnum/θden | eE e1 e2 | E | I1 | I2`
                                           matrices as integers on the grid 2^-B, bounds as integers on 2^-(B+64)
    taylor N n h a11 … ann              → `E | I1 | I2` exact rationals of the plain truncated sums (no scaling)
    epqm N B n h A… ncombo {route order half i [B…]}   one (A, h), several option combinations
                                        → `expm-reply || epq-reply || …`
    epq route N B order half n h A… i B…   (i = 0: `B is None`)
                                        → `err | E | P | Q` on the grid (`Q` = `none` for order 0) or `value-error`
                                           route 1 = integrals (getEPQ1/getEPQ_pow), 2 = augmented matrix (getEPQ2)
    c2d method N B n h k A… B… C… D…    (n×n, zero padded; k only for tustin) → `err | A | B | C | D` on the grid
    d2ctustin n k A… B… C… D…           → `A | B | C | D` exact rationals, or `singular`
    c2dtustin n k A… B… C… D…           → same, exact
    tustink hbits wbits                 → bits of the model's `k` evaluated at Float
    sim method N B n h steps A… B… C… D… u(0) … u(steps)   (each u an n-vector)
                                        → y(0) … y(steps) on the grid: exactly sampled response, x(0) = 0
    dec kind n d4l d6l d4t d6t d8l d10l X…   (kind = int | ss; X = fl(A h) exactly)
                                        → `m s0 s l3 l5 l7 l9 l13` three times (` | ` separated): all norm quantities
                                           scaled by 1 − 1e-13 / 1 / 1 + 1e-13 (and `alpha` of `_ell` by 1 ∓ 1e-9)
    geti2 pade luOK n emax X… Itest… I…  → `branch` three times: tolerances scaled by 1 − 1e-9 / 1 / 1 + 1e-9
                                           (branch = pade3|pade5|pade7|pade9|direct|series:j|maxloops)
    powloops n X…                        → final `j` of `expmint_pow`, three times (tol scaled likewise)
    route norm1                          → 1 | 2 (getEPQ1 | getEPQ2)
    ssattr h0 nops {c2d h method prewarp | d2c method prewarp}   (h0, prewarp: none | rational)
                                        → per op `self` or `new h method prewarp`
    tab name                            → the generated list `name` as rationals
    padeval name_p name_q x             → p(x)/q(x) over Rat
-/
open PyYetiVerif PyYetiVerif.ExpSeries

/-- driver-side sensitivity of the two power-series loops: the model's loop with the term size perturbed by
`noise·max(|X|^k/k!)` (what floating-point products of cancelling entries can differ by).  `fixedE`: `_geti2`
(`abs(E).max()` of the given `E`); `none`: `expmint_pow` (running sum). -/
def loopNoise (X : QMat) (tol : Rat) (maxloops : Nat) (fixedE : Option Rat) (noise : Rat) : Nat :=
  let Xa : QMat := ⟨X.num.absM, X.den⟩
  let rec go (fuel j : Nat) (E term aterm : QMat) : Nat :=
    match fuel with
    | 0 => j
    | f + 1 =>
      let emax := match fixedE with | some e => e | none => E.maxAbs
      if term.maxAbs + noise * aterm.maxAbs > tol * emax ∧ j < maxloops then
        let c : Rat := 1 / ((j + 1 : Nat) : Rat)
        go f (j + 1) (E.addInto term) ((term.mul X).smul c) ((aterm.mul Xa).smul c)
      else j
  go maxloops 1 (QMat.ident X.rows) X Xa

def parseRat (s : String) : Option Rat :=
  match s.splitOn "/" with
  | [a] => a.toInt?.map fun n => (n : Rat)
  | [a, b] => do
      let n ← a.toInt?; let d ← b.toNat?
      if d = 0 then none else some (mkRat n d)
  | _ => none

def parseRats (ws : List String) : Option (List Rat) := ws.mapM parseRat
def fmtRat (r : Rat) : String := if r.den = 1 then s!"{r.num}" else s!"{r.num}/{r.den}"

def chunkAux (k : Nat) : Nat → List Rat → List (List Rat)
  | 0, _ => []
  | _, [] => []
  | f + 1, l => l.take k :: chunkAux k f (l.drop k)
def chunk (k : Nat) (l : List Rat) : List (List Rat) := if k = 0 then [] else chunkAux k l.length l

def fmtI (m : IMat) : String :=
  " ".intercalate (m.toList.map fun r => " ".intercalate (r.toList.map toString))
def fmtQexact (m : QMat) : String :=
  " ".intercalate (m.toRats.map fun r => " ".intercalate (r.map fmtRat))
def fmtGrid (B : Nat) (m : QMat) : String := fmtI (roundQ B m)
def fmtBound (B : Nat) (x : Rat) : String :=
  toString (-(Int.fdiv (-(x.num * (2 : Int) ^ (B + 64))) x.den))

def takeMat (r c : Nat) (l : List Rat) : Option (QMat × List Rat) :=
  if l.length < r * c then none
  else some (QMat.ofRats (chunk c (l.take (r * c))), l.drop (r * c))

/-- 1-norm of a row-major list, exact -/
def bound3 (st : ExpState) : Rat := max st.eE (max st.e1 st.e2)

def epqModel (route N B order : Nat) (half : Bool) (A : QMat) (h : Rat) (Bm : Option QMat) :
    Option (Rat × QMat × QMat × Option QMat) :=
  let n := A.rows
  if route = 1 then
    let r := expmRat A h N B
    let E := fxToQ B r.st.E
    let (P, Q) := epqOfIntegrals order h (fxToQ B r.st.I1) (fxToQ B r.st.I2)
    match procBhalf P Q Bm half with
    | none => none
    | some (P, Q) => some (bound3 r.st, E, P, Q)
  else
    match epq2B n Bm half with
    | none => none
    | some Bm =>
      let M := augmented order A Bm h
      let r := expmRat M 1 N B
      let (E, P, Q) := epq2Blocks order n Bm.cols (fxToQ B r.st.E)
      some (r.st.eE, E, P, Q)

/-- the continuous system sampled exactly: E, P, Q (with B) for hold order 0/1 -/
def holdEPQ (N B order : Nat) (A Bm : QMat) (h : Rat) : Rat × QMat × QMat × QMat :=
  let r := expmRat A h N B
  let E := fxToQ B r.st.E
  let (P, Q) := epqOfIntegrals order h (fxToQ B r.st.I1) (fxToQ B r.st.I2)
  let Q := (Q.getD ⟨IMat.zero A.rows A.rows, 1⟩).mul Bm
  (bound3 r.st, E, P.mul Bm, Q)

def toR (n : Nat) (m : QMat) : RMat n := RMat.ofRows m.toRats
def ofR {n : Nat} (m : RMat n) : QMat := QMat.ofRats m.toRows
def fmtSS {n : Nat} (s : SSModel.SS (RMat n)) : String :=
  s!"{fmtQexact (ofR s.A)} | {fmtQexact (ofR s.B)} | {fmtQexact (ofR s.C)} | {fmtQexact (ofR s.D)}"

instance : SSModel.TanOps Float := ⟨Float.tan⟩

def tables : List (String × List Rat) :=
  let t := Generated.PadeTables.int3_U
  [("int3_U", t), ("int3_V", Generated.PadeTables.int3_V), ("int3_P", Generated.PadeTables.int3_P),
   ("int3_Q", Generated.PadeTables.int3_Q),
   ("int5_U", Generated.PadeTables.int5_U), ("int5_V", Generated.PadeTables.int5_V),
   ("int5_P", Generated.PadeTables.int5_P), ("int5_Q", Generated.PadeTables.int5_Q),
   ("int7_U", Generated.PadeTables.int7_U), ("int7_V", Generated.PadeTables.int7_V),
   ("int7_P", Generated.PadeTables.int7_P), ("int7_Q", Generated.PadeTables.int7_Q),
   ("int9_U", Generated.PadeTables.int9_U), ("int9_V", Generated.PadeTables.int9_V),
   ("int9_P", Generated.PadeTables.int9_P), ("int9_Q", Generated.PadeTables.int9_Q),
   ("int13_U", Generated.PadeTables.int13_U), ("int13_V", Generated.PadeTables.int13_V),
   ("int13_P", Generated.PadeTables.int13_P), ("int13_Q", Generated.PadeTables.int13_Q),
   ("ss3_U", Generated.PadeTables.ss3_U), ("ss3_V", Generated.PadeTables.ss3_V),
   ("ss5_U", Generated.PadeTables.ss5_U), ("ss5_V", Generated.PadeTables.ss5_V),
   ("ss7_U", Generated.PadeTables.ss7_U), ("ss7_V", Generated.PadeTables.ss7_V),
   ("ss9_U", Generated.PadeTables.ss9_U), ("ss9_V", Generated.PadeTables.ss9_V),
   ("ss13_U", Generated.PadeTables.ss13_U), ("ss13_V", Generated.PadeTables.ss13_V),
   ("geti2_3_P", Generated.PadeTables.geti2_3_P), ("geti2_3_Q", Generated.PadeTables.geti2_3_Q),
   ("geti2_5_P", Generated.PadeTables.geti2_5_P), ("geti2_5_Q", Generated.PadeTables.geti2_5_Q),
   ("geti2_7_P", Generated.PadeTables.geti2_7_P), ("geti2_7_Q", Generated.PadeTables.geti2_7_Q),
   ("geti2_9_P", Generated.PadeTables.geti2_9_P), ("geti2_9_Q", Generated.PadeTables.geti2_9_Q),
   ("geti2_9_p_double", Generated.PadeTables.geti2_9_p_double),
   ("geti2_9_q_double", Generated.PadeTables.geti2_9_q_double),
   ("scipy_b7", Generated.PadeTables.scipy_b7), ("scipy_b9", Generated.PadeTables.scipy_b9),
   ("expmint_thresholds", Generated.PadeTables.expmint_thresholds.map (·.2)),
   ("ss_thresholds", Generated.PadeTables.ss_thresholds.map (·.2)),
   ("theta13", [Generated.PadeTables.expmint_theta13, Generated.PadeTables.ss_theta13]),
   ("epq_switch", [Generated.PadeTables.epq_switch])]

def answer (line : String) : Option String := do
  match (line.splitOn " ").filter (· ≠ "") with
  | "expm" :: N :: B :: n :: rest =>
      let N ← N.toNat?; let B ← B.toNat?; let n ← n.toNat?
      let xs ← parseRats rest
      let h ← xs.head?
      let (A, _) ← takeMat n n xs.tail
      let r := expmRat A h N B
      pure s!"{r.s} {fmtRat r.θ} | {fmtBound B r.st.eE} {fmtBound B r.st.e1} {fmtBound B r.st.e2} | {fmtI r.st.E} | {fmtI r.st.I1} | {fmtI r.st.I2}"
  | "taylor" :: N :: n :: rest =>
      let N ← N.toNat?; let n ← n.toNat?
      let xs ← parseRats rest
      let h ← xs.head?
      let (A, _) ← takeMat n n xs.tail
      let (E, I1, I2) := expmTaylorExact A h N
      pure s!"{fmtQexact E} | {fmtQexact I1} | {fmtQexact I2}"
  | "epq" :: route :: N :: B :: order :: half :: n :: rest =>
      let route ← route.toNat?; let N ← N.toNat?; let B ← B.toNat?; let order ← order.toNat?
      let half ← half.toNat?; let n ← n.toNat?
      let xs ← parseRats rest
      let h ← xs.head?
      let (A, xs) ← takeMat n n xs.tail
      let i ← xs.head?
      let i := i.num.toNat
      let Bm ← if i = 0 then pure none else (takeMat n i xs.tail).map fun p => some p.1
      match epqModel route N B order (half = 1) A h Bm with
      | none => pure "value-error"
      | some (err, E, P, Q) =>
        let q := match Q with | some Q => fmtGrid B Q | none => "none"
        pure s!"{fmtBound B err} | {fmtGrid B E} | {fmtGrid B P} | {q}"
  | "epqm" :: N :: B :: n :: rest =>
      -- several option combinations on one (A, h): `ncombo {route order half i [B…]}`
      let N ← N.toNat?; let B ← B.toNat?; let n ← n.toNat?
      let xs ← parseRats rest
      let h ← xs.head?
      let (A, xs) ← takeMat n n xs.tail
      let r := expmRat A h N B
      let head := s!"{r.s} {fmtRat r.θ} | {fmtBound B r.st.eE} {fmtBound B r.st.e1} {fmtBound B r.st.e2} | {fmtI r.st.E} | {fmtI r.st.I1} | {fmtI r.st.I2}"
      let nc ← xs.head?
      let rec go (fuel : Nat) (xs : List Rat) (acc : List String) : Option (List String) :=
        match fuel with
        | 0 => some acc.reverse
        | f + 1 =>
          match xs with
          | route :: order :: half :: i :: xs =>
            let i := i.num.toNat
            match (if i = 0 then some (none, xs) else (takeMat n i xs).map fun p => (some p.1, p.2)) with
            | none => none
            | some (Bm, xs) =>
              let route := route.num.toNat
              let order := order.num.toNat
              let out :=
                if route = 1 then
                  let E := fxToQ B r.st.E
                  let (P, Q) := epqOfIntegrals order h (fxToQ B r.st.I1) (fxToQ B r.st.I2)
                  match procBhalf P Q Bm (half = 1) with
                  | none => "value-error"
                  | some (P, Q) =>
                    let q := match Q with | some Q => fmtGrid B Q | none => "none"
                    s!"{fmtBound B (bound3 r.st)} | {fmtGrid B E} | {fmtGrid B P} | {q}"
                else
                  match epqModel 2 N B order (half = 1) A h Bm with
                  | none => "value-error"
                  | some (err, E, P, Q) =>
                    let q := match Q with | some Q => fmtGrid B Q | none => "none"
                    s!"{fmtBound B err} | {fmtGrid B E} | {fmtGrid B P} | {q}"
              go f xs (out :: acc)
          | _ => none
      let outs ← go nc.num.toNat xs.tail []
      pure (" || ".intercalate (head :: outs))
  | "c2d" :: method :: N :: B :: n :: rest =>
      let N ← N.toNat?; let B ← B.toNat?; let n ← n.toNat?
      let xs ← parseRats rest
      let h ← xs.head?
      let (A, xs) ← takeMat n n xs.tail
      let (Bm, xs) ← takeMat n n xs
      let (C, xs) ← takeMat n n xs
      let (D, _) ← takeMat n n xs
      let s : SSModel.SS (RMat n) := ⟨toR n A, toR n Bm, toR n C, toR n D⟩
      let I : QMat := QMat.ident n
      match method with
      | "zoh" =>
        let (err, E, P, _) := holdEPQ N B 0 A I h
        let z := SSModel.zohC2D (toR n E) (toR n P) s
        pure s!"{fmtBound B err} | {fmtGrid B (ofR z.A)} | {fmtGrid B (ofR z.B)} | {fmtGrid B (ofR z.C)} | {fmtGrid B (ofR z.D)}"
      | "zoha" =>
        let (err, E, P, _) := holdEPQ N B 0 A I h
        let z := SSModel.zohaC2D (toR n E) (toR n P) (RMat.scalar (1 / 2)) s
        pure s!"{fmtBound B err} | {fmtGrid B (ofR z.A)} | {fmtGrid B (ofR z.B)} | {fmtGrid B (ofR z.C)} | {fmtGrid B (ofR z.D)}"
      | "foh" =>
        let (err, E, P, Q) := holdEPQ N B 1 A I h
        let z := SSModel.fohC2D (toR n E) (toR n P) (toR n Q) s
        pure s!"{fmtBound B err} | {fmtGrid B (ofR z.A)} | {fmtGrid B (ofR z.B)} | {fmtGrid B (ofR z.C)} | {fmtGrid B (ofR z.D)}"
      | _ => none
  | "c2dtustin" :: n :: rest =>
      let n ← n.toNat?
      let xs ← parseRats rest
      let k ← xs.head?
      let (A, xs) ← takeMat n n xs.tail
      let (Bm, xs) ← takeMat n n xs
      let (C, xs) ← takeMat n n xs
      let (D, _) ← takeMat n n xs
      let s : SSModel.SS (RMat n) := ⟨toR n A, toR n Bm, toR n C, toR n D⟩
      let kk : RMat n := RMat.scalar k
      match (kk - s.A).inv with
      | none => pure "singular"
      | some Q => pure (fmtSS (SSModel.tustinC2D kk Q s))
  | "d2ctustin" :: n :: rest =>
      let n ← n.toNat?
      let xs ← parseRats rest
      let k ← xs.head?
      let (A, xs) ← takeMat n n xs.tail
      let (Bm, xs) ← takeMat n n xs
      let (C, xs) ← takeMat n n xs
      let (D, _) ← takeMat n n xs
      let z : SSModel.SS (RMat n) := ⟨toR n A, toR n Bm, toR n C, toR n D⟩
      let kk : RMat n := RMat.scalar k
      match ((1 : RMat n) + z.A).inv with
      | none => pure "singular"
      | some q => pure (fmtSS (SSModel.tustinD2C kk q z))
  | ["tustink", hb, wb] =>
      let hb ← hb.toNat?; let wb ← wb.toNat?
      let k : Float := SSModel.tustinK (Float.ofBits hb.toUInt64) (Float.ofBits wb.toUInt64)
      pure (toString k.toBits.toNat)
  | "sim" :: method :: N :: B :: n :: rest =>
      let N ← N.toNat?; let B ← B.toNat?; let n ← n.toNat?
      let xs ← parseRats rest
      let h ← xs.head?
      let steps ← (← xs.tail.head?).num.toNat |> some
      let (A, xs) ← takeMat n n xs.tail.tail
      let (Bm, xs) ← takeMat n n xs
      let (C, xs) ← takeMat n n xs
      let (D, xs) ← takeMat n n xs
      let us := chunk n xs
      if us.length ≠ steps + 1 then none
      let order := if method = "foh" then 1 else 0
      let (_, E, P, Q) := holdEPQ N B order A Bm h
      let col (v : List Rat) : QMat := QMat.ofRats (v.map fun x => [x])
      let rnd (m : QMat) : QMat := fxToQ (2 * B) (roundQ (2 * B) m)
      let out := Id.run do
        let mut x : QMat := ⟨IMat.zero n 1, 1⟩
        let mut ys : List String := []
        for j in [0:steps + 1] do
          let u := col (us.getD j [])
          let y := (C.mul x).add (D.mul u)
          ys := fmtGrid B y :: ys
          let u1 := col (us.getD (j + 1) [])
          x := rnd (((E.mul x).add (P.mul u)).add (Q.mul u1))
        return ys.reverse
      pure (" | ".intercalate out)
  | "dec" :: kind :: n :: rest =>
      let n ← n.toNat?
      let xs ← parseRats rest
      if xs.length < 6 then none
      let (X, _) ← takeMat n n (xs.drop 6)
      let th : Thetas :=
        if kind = "ss" then
          let l := Generated.PadeTables.ss_thresholds_double
          ⟨l.getD 0 0, l.getD 1 0, l.getD 2 0, l.getD 3 0, Generated.PadeTables.ss_theta13⟩
        else
          let l := Generated.PadeTables.expmint_thresholds_double
          ⟨l.getD 0 0, l.getD 1 0, l.getD 2 0, l.getD 3 0, Generated.PadeTables.expmint_theta13⟩
      let one (f g : Rat) : String :=
        let e : Etas := ⟨f * xs.getD 0 0, f * xs.getD 1 0, f * xs.getD 2 0, f * xs.getD 3 0, f * xs.getD 4 0, f * xs.getD 5 0⟩
        let l3 := ellScaled g X 3; let l5 := ellScaled g X 5; let l7 := ellScaled g X 7; let l9 := ellScaled g X 9
        let d := padeDecision th e l3 l5 l7 l9 fun s0 => ellScaled g (X.scalePow2 s0) 13
        s!"{d.m} {d.s0} {d.s} {l3} {l5} {l7} {l9} {ellScaled g (X.scalePow2 d.s0) 13}"
      let eps : Rat := 1 / 10 ^ 13
      let del : Rat := 1 / 10 ^ 9
      pure s!"{one (1 - eps) (1 - del)} | {one 1 1} | {one (1 + eps) (1 + del)}"
  | "geti2" :: pade :: luOK :: n :: rest =>
      let pade ← pade.toNat?; let luOK ← luOK.toNat?; let n ← n.toNat?
      let xs ← parseRats rest
      let emax ← xs.head?
      let (X, xs) ← takeMat n n xs.tail
      if xs.length < 2 * n * n then none
      let it := xs.take (n * n)
      let i1 := (xs.drop (n * n)).take (n * n)
      let one (f : Rat) : String :=
        let acc := allclose (f * Generated.PadeTables.geti2_allclose_rtol) (f * Generated.PadeTables.geti2_allclose_atol) it i1
        let j := if pade ≤ 9 ∨ (luOK = 1 ∧ acc) then 0
                 else if f = 1 then
                   seriesLoops X emax Generated.PadeTables.geti2_series_tol Generated.PadeTables.geti2_series_maxloops
                 else loopNoise X (f * Generated.PadeTables.geti2_series_tol) Generated.PadeTables.geti2_series_maxloops
                        (some emax) ((1 - f) / 1000)
        match geti2Branch pade (luOK = 1) acc j Generated.PadeTables.geti2_series_maxloops with
        | .pade m => s!"pade{m}"
        | .direct => "direct"
        | .series j => s!"series:{j}"
        | .maxloops => "maxloops"
      let del : Rat := 1 / 10 ^ 9
      pure s!"{one (1 - del)} | {one 1} | {one (1 + del)}"
  | "powloops" :: n :: rest =>
      let n ← n.toNat?
      let xs ← parseRats rest
      let (X, _) ← takeMat n n xs
      let del : Rat := 1 / 10 ^ 9
      let f (g : Rat) :=
        if g = 1 then powLoops X Generated.PadeTables.pow_tol Generated.PadeTables.pow_maxloops
        else loopNoise X (g * Generated.PadeTables.pow_tol) Generated.PadeTables.pow_maxloops none ((1 - g) / 1000)
      pure s!"{f (1 - del)} {f 1} {f (1 + del)}"
  | ["route", x] =>
      let x ← parseRat x
      pure (toString (epqRoute Generated.PadeTables.epq_switch x))
  | "ssattr" :: h0 :: nops :: rest =>
      let optRat (t : String) : Option (Option Rat) := if t = "none" then some none else (parseRat t).map some
      let meth (t : String) : Option SSModel.Method :=
        match t with
        | "zoh" => some .zoh | "zoha" => some .zoha | "foh" => some .foh | "tustin" => some .tustin | _ => none
      let mname (m : Option SSModel.Method) : String :=
        match m with
        | some .zoh => "zoh" | some .zoha => "zoha" | some .foh => "foh" | some .tustin => "tustin" | none => "none"
      let fo (x : Option Rat) : String := match x with | none => "none" | some r => fmtRat r
      let h0 ← optRat h0
      let nops ← nops.toNat?
      -- the attribute logic does not look at the numbers: a formal 1×1 kernel set
      let K : SSModel.Kernels Rat Rat :=
        { expm := fun a h => 1 + a * h, int1 := fun _ h => h, fohP := fun _ h => h / 2, fohQ := fun _ h => h / 2,
          logm := fun z h => (z - 1) / h, inv := fun x => 1 / x, kI := fun h _ => 2 / h, half := 1 / 2 }
      let rec goSS (fuel : Nat) (ws : List String) (cur : SSModel.Sys Rat Rat) (tag : Nat) (acc : List String) :
          Option (List String) :=
        match fuel with
        | 0 => some acc.reverse
        | f + 1 =>
          match ws with
          | "c2d" :: h :: m :: pw :: ws =>
            match parseRat h, meth m, optRat pw with
            | some h, some m, some pw =>
              let isSelf := SSModel.truthy cur.h
              let nxt := cur.c2d K h m pw
              let out := if isSelf then "self" else s!"new {fo nxt.h} {mname nxt.method} {fo nxt.prewarp}"
              goSS f ws nxt (tag + 1) (out :: acc)
            | _, _, _ => none
          | "d2c" :: m :: pw :: ws =>
            match meth m, optRat pw with
            | some m, some pw =>
              let isSelf := cur.h.isNone
              let nxt := cur.d2c K m pw
              let out := if isSelf then "self" else s!"new {fo nxt.h} {mname nxt.method} {fo nxt.prewarp}"
              goSS f ws nxt (tag + 1) (out :: acc)
            | _, _ => none
          | _ => none
      let outs ← goSS nops rest ⟨⟨-1, 1, 1, 0⟩, h0, none, none⟩ 0 []
      pure (" | ".intercalate outs)
  | ["tab", name] =>
      let t ← tables.lookup name
      pure (" ".intercalate (t.map fmtRat))
  | ["padeval", np, nq, x] =>
      let p ← tables.lookup np; let q ← tables.lookup nq; let x ← parseRat x
      pure (fmtRat (padeEval p q x))
  | _ => none

partial def loop (h : IO.FS.Stream) (out : IO.FS.Stream) : IO Unit := do
  let line ← h.getLine
  if line.isEmpty then return ()
  out.putStrLn ((answer (line.trimAscii.toString)).getD "bad-op")
  loop h out

def main : IO Unit := do
  loop (← IO.getStdin) (← IO.getStdout)
