import PyYetiVerif.Model.SuCoef
import PyYetiVerif.Model.SuPartition
/-! Line protocol for C01.  Floats travel as decimal `UInt64` bit patterns.

`coef <m|none> <b> <k> <h> <rb: n|0|1> <rf: 0|1>`
      -> `<regime> F G A B Fp Gp Ap Bp`  |  `partition-error`
`cplx <re> <im> <h>` -> `<small:0|1> FeRe FeIm AeRe AeIm BeRe BeIm`
`part <n> <rb: n | c i1 … ic> <rf: c i1 … ic> <small: n bits 0/1 by global index>`
      -> `nonrf|rf|rb|el|_rb|_el|coefrb|slices` (index lists, blank separated; slices 0/1)
`sys <order> <h> <n> <mkind: none|vec> [m × n] <b × n> <k × n> <rb: n | c i…> <rf: c i…>
     <static 0|1> <d0: n | y d0 × n> <v0: n | y v0 × n> <nt> <force: n*nt row-major>`
      -> `ok <d n*nt> <v n*nt> <a n*nt>` | `err:partition` | `err:index`
anything else -> `bad-op`. -/
open PyYetiVerif.SuCoef PyYetiVerif.SuPartition

instance : TransOps Float := ⟨Float.exp, Float.cos, Float.sin, Float.sqrt, Float.abs⟩

/-- complex doubles for `_get_complex_su_coefs` -/
structure CF where
  re : Float
  im : Float

namespace CF
instance : Add CF := ⟨fun a b => ⟨a.re + b.re, a.im + b.im⟩⟩
instance : Sub CF := ⟨fun a b => ⟨a.re - b.re, a.im - b.im⟩⟩
instance : Neg CF := ⟨fun a => ⟨-a.re, -a.im⟩⟩
instance : Mul CF := ⟨fun a b => ⟨a.re * b.re - a.im * b.im, a.re * b.im + a.im * b.re⟩⟩
instance : Div CF := ⟨fun a b =>
  let d := b.re * b.re + b.im * b.im
  ⟨(a.re * b.re + a.im * b.im) / d, (a.im * b.re - a.re * b.im) / d⟩⟩
instance (n : Nat) : OfNat CF n := ⟨⟨n.toFloat, 0⟩⟩
def cexp (z : CF) : CF := let e := Float.exp z.re; ⟨e * Float.cos z.im, e * Float.sin z.im⟩
/-- only `exp` is used by `cplxCoef`; the other fields are never evaluated -/
instance : TransOps CF := ⟨cexp, id, id, id, id⟩
end CF

def fbits (s : String) : Option Float := (s.toNat?).map fun n => Float.ofBits (UInt64.ofNat n)
def showF (x : Float) : String := toString x.toBits.toNat

def cutsF (h : Float) : Cuts Float :=
  { rbTol := 0.005, critTol := 1.0e-8, veloCut := 1e-5 / Float.sqrt h,
    dispCut := 10 * Float.pow (1e-10 / h) (1 / 3) }

def regimeName : Regime → String
  | .rigid => "rigid" | .rigidVelo => "rigidVelo" | .rigidFull => "rigidFull"
  | .under => "under" | .crit => "crit" | .over => "over" | .rf => "rf"

def showCoefs (c : Coefs Float) : String :=
  " ".intercalate ([c.F, c.G, c.A, c.B, c.Fp, c.Gp, c.Ap, c.Bp].map showF)

def doCoef (ws : List String) : Option String := do
  match ws with
  | [ms, bs, ks, hs, rbs, rfs] =>
    let m : Option Float ← if ms == "none" then some none else (fbits ms).map some
    let b ← fbits bs
    let k ← fbits ks
    let h ← fbits hs
    let rbG : Option Bool ← match rbs with
      | "n" => some none | "0" => some (some false) | "1" => some (some true) | _ => none
    let isRf ← match rfs with | "0" => some false | "1" => some true | _ => none
    match classify (cutsF h) (m.getD 1) b k rbG isRf with
    | none => pure "partition-error"
    | some r => pure (regimeName r ++ " " ++ showCoefs (suCoefOpt r m b k h))
  | _ => none

def doCplx (ws : List String) : Option String := do
  match ws with
  | [res, ims, hs] =>
    let re ← fbits res
    let im ← fbits ims
    let h ← fbits hs
    let lam : CF := ⟨re, im⟩
    let small : Bool := Float.sqrt (re * re + im * im) < 5.0e-5
    let c : CF × CF × CF := if small then cplxSmall ⟨h, 0⟩ else cplxCoef lam ⟨h, 0⟩
    pure ((if small then "1 " else "0 ") ++ " ".intercalate
      ([c.1.re, c.1.im, c.2.1.re, c.2.1.im, c.2.2.re, c.2.2.im].map showF))
  | _ => none

/-- read `cnt` items with `f` -/
def takeN {β : Type} (f : String → Option β) (cnt : Nat) (ws : List String) :
    Option (List β × List String) :=
  if ws.length < cnt then none else do
    let xs ← (ws.take cnt).mapM f
    pure (xs, ws.drop cnt)

def readIdx (ws : List String) : Option (List Nat × List String) :=
  match ws with
  | c :: rest => do let n ← c.toNat?; takeN String.toNat? n rest
  | [] => none

def readOptIdx (ws : List String) : Option (Option (List Nat) × List String) :=
  match ws with
  | "n" :: rest => some (none, rest)
  | _ => (readIdx ws).map fun (l, r) => (some l, r)

def showIdx (l : List Nat) : String := " ".intercalate (l.map toString)

def doPart (ws : List String) : Option String := do
  match ws with
  | ns :: rest =>
    let n ← ns.toNat?
    let (rb, rest) ← readOptIdx rest
    let (rf, rest) ← readIdx rest
    let (sm, rest) ← takeN (fun s => if s == "1" then some true else if s == "0" then some false else none) n rest
    if !rest.isEmpty then none
    let nr := nonrf n rf
    let p := mkPart n rb rf fun i => match nr[i]? with
      | some g => sm.getD g false
      | none => false
    pure ("|".intercalate [showIdx p.nonrf, showIdx p.rf, showIdx p.rb, showIdx p.el,
      showIdx p.rb', showIdx p.el', showIdx (coefRb p), if slicesFlag p then "1" else "0"])
  | [] => none

def getF (l : List Float) (i : Nat) : Float := l.getD i 0

/-- the uncoupled real path of `SolveUnc(m, b, k, h, rb, rf, order).tsolve(force, d0, v0, static_ic)` -/
def doSys (ws : List String) : Option String := do
  match ws with
  | os :: hs :: ns :: mk :: rest =>
    let order1 ← match os with | "1" => some true | "0" => some false | _ => none
    let h ← fbits hs
    let n ← ns.toNat?
    let (m, rest) : Option (List Float) × List String ←
      if mk == "none" then some (none, rest)
      else if mk == "vec" then (takeN fbits n rest).map fun (l, r) => (some l, r) else none
    let (b, rest) ← takeN fbits n rest
    let (k, rest) ← takeN fbits n rest
    let (rb, rest) ← readOptIdx rest
    let (rf, rest) ← readIdx rest
    let (static, rest) ← match rest with
      | "1" :: r => some (true, r) | "0" :: r => some (false, r) | _ => none
    let readOptVec : List String → Option (Option (List Float) × List String) := fun ws =>
      match ws with
      | "n" :: r => some (none, r)
      | "y" :: r => (takeN fbits n r).map fun (l, r) => (some l, r)
      | _ => none
    let (d0, rest) ← readOptVec rest
    let (v0, rest) ← readOptVec rest
    let (nt, rest) ← match rest with | s :: r => s.toNat?.map fun x => (x, r) | [] => none
    let (fl, rest) ← takeN fbits (n * nt) rest
    if !rest.isEmpty then none
    let force : Nat → List Float := fun g => (fl.drop (g * nt)).take nt
    -- partition bookkeeping
    let nr := nonrf n rf
    let p := mkPart n rb rf fun i => match nr[i]? with
      | some g => smallUnc Float.abs 0 k 0.005 g
      | none => false
    -- get_su_coef(self.m, self.b, self.k, h, self.rb) on the non-rf partitions
    match pvrbOf nr.length (coefRb p) with
    | none => pure "err:index"
    | some pvrb =>
      let cut := cutsF h
      let regs := nr.zipIdx.map fun (g, i) =>
        classify cut (match m with | some mv => getF mv g | none => 1) (getF b g) (getF k g)
          (some (pvrb.getD i false)) false
      if regs.any Option.isNone then pure "err:partition" else
      let zero : List Float := List.replicate nt 0
      -- static initial conditions: `static_ic and self.elsize and F0[self.el].any()`
      let useSt := useStatic static d0.isSome (p.el.map fun g => getF (force g) 0)
      let rows : List (List Float × List Float × List Float) := (List.range n).map fun g =>
        if rf.contains g then
          -- d[rf] = ikrf * force[rf], ikrf = 1.0 / krf
          ((force g).map fun f => rfRow (getF k g) f, zero, zero)
        else
          match nr.idxOf? g with
          | none => (zero, zero, zero)
          | some i =>
            let mo : Option Float := m.map fun mv => getF mv g
            let r := (regs.getD i none).getD .rigid
            let c := suCoefOpt r mo (getF b g) (getF k g) h
            let dInit : Float := initD (d0.map fun dv => getF dv g) useSt (p.el.contains g) (getF k g)
              (getF (force g) 0)
            let vInit : Float := initV (v0.map fun vv => getF vv g)
            let hist := runUnc order1 c (dInit, vInit) (force g)
            let d := hist.map Prod.fst
            let v := hist.map Prod.snd
            let a := (List.range nt).map fun j =>
              match mo with
              | some mm => calcAcce mm (getF b g) (getF k g) (getF d j) (getF v j) (getF (force g) j)
              | none => calcAcceNone (getF b g) (getF k g) (getF d j) (getF v j) (getF (force g) j)
            (d, v, a)
      let out (sel : List Float × List Float × List Float → List Float) : String :=
        " ".intercalate ((rows.map sel).flatten.map showF)
      pure ("ok " ++ out (·.1) ++ " " ++ out (·.2.1) ++ " " ++ out (·.2.2))
  | _ => none

def answer (line : String) : String :=
  let r := match (line.splitOn " ").filter (· ≠ "") with
    | "coef" :: ws => doCoef ws
    | "cplx" :: ws => doCplx ws
    | "part" :: ws => doPart ws
    | "sys" :: ws => doSys ws
    | _ => none
  r.getD "bad-op"

partial def loop (h : IO.FS.Stream) (out : IO.FS.Stream) : IO Unit := do
  let line ← h.getLine
  if line.isEmpty then return ()
  out.putStrLn (answer (line.trimAscii.toString))
  loop h out

def main : IO Unit := do
  loop (← IO.getStdin) (← IO.getStdout)
