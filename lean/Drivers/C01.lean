import PyYetiVerif.Model.SuCoef
import PyYetiVerif.Model.SuCoefCoupled
import PyYetiVerif.Model.SuPartition
import PyYetiVerif.Model.SuCoefCuts
import PyYetiVerif.Model.SuCoefExp1
import PyYetiVerif.Model.SuCoefStatic
import PyYetiVerif.Model.SuCoefPreEig
import PyYetiVerif.Model.SuCoefCplxUnc
import PyYetiVerif.Model.SuCoefCplxUncFixed
/-! Line protocol for C01.  Floats travel as decimal `UInt64` bit patterns.

`coef <m|none> <b> <k> <h> <rb: n|0|1> <rf: 0|1>`
      -> `<regime> F G A B Fp Gp Ap Bp`  |  `partition-error`
`cplx <re> <im> <h>` -> `<small:0|1> FeRe FeIm AeRe AeIm BeRe BeIm`
`part <n> <rb: n | c i1 … ic> <rf: c i1 … ic> <small: n bits 0/1 by global index>`
      -> `nonrf|rf|rb|el|_rb|_el|coefrb|slices` (index lists, blank separated; slices 0/1)
`sys <order> <h> <n> <mkind: none|vec> [m × n] <b × n> <k × n> <rb: n | c i…> <rf: c i…>
     <static 0|1> <d0: n | y d0 × n> <v0: n | y v0 × n> <nt> <force: n*nt row-major>`
      -> `ok <d n*nt> <v n*nt> <a n*nt>` | `err:partition` | `err:index`
`partc <n> <rf: c i1 … ic> <k: nr*nr row-major> <b: nr*nr row-major>`   (coupled auto-detection, `nr = n - c`)
      -> as `part`
`cpl <order> <h> <n> <N> <lam: 2N> <urV: 2nN> <urD: 2nN> <invV: 2Nn> <invD: 2Nn> <d0: n> <v0: n> <nt>
     <imf: n*nt row-major>`   (complex numbers as re im pairs, matrices row-major)
      -> `ok <d n*nt> <v n*nt>`   (`coupledRun`: real recovery after `delconj`)
`rbrun <order> <h> <nt> <d0> <v0> <rbforce: nt>` -> `ok <d nt> <v nt>`   (`rbStep` loop, one mode)
`exp2 <order> <n> <E: 2n*2n> <P: 2n*n> <Q: 2n*n | absent for order 0> <d0: n> <v0: n> <nt> <imf: n*nt>`
      -> `ok <d n*nt> <v n*nt>`   (`runExp`)
`exp1 <order> <dtype: int64|float32|float64> <n> <A: n*n> <E: n*n> <P: n*n> <Q: n*n | absent for order 0>
     <d0: n | y d0 × n> <nt> <force: n*nt>`
      -> `ok <history dtype> <velocity dtype> <d n*nt> <v n*nt>`   (`exp1Solve` at Float)
`exp1x …` the same request, evaluated over `Rat` on the exact values of the doubles
      -> `ok <history dtype> <velocity dtype> <d n*nt> <v n*nt>` with every number as `num/den`
`staticc <ne> <Kee: ne*ne> <F0el: ne>` -> `ok <x: ne as num/den>` | `singular`   (`staticCoupledEl` over `Rat`)
`msolve <n> <M: n*n> <nt> <F: n*nt>` -> `ok <M^-1 F: n*nt>` | `singular`         (`massSolve` at Float, per sample)
`accelc <n> <mkind: none|mat> [M: n*n] <B: n*n> <K: n*n> <nt> <d: n*nt> <v: n*nt> <F: n*nt>`
      -> `ok <a: n*nt>` | `singular`                                              (`calcAcceCoupled` at Float)
`pe <n> <bkind: vec|mat> <b: n | n*n> <phi: n*n> <d0: n | y …> <v0: n | y …> <nt> <F: n*nt>`
      -> `ok <modal b: n*n> <modal F: n*nt> <q0: n | y n values> <qv0: n | y n values>` | `singular`
         (`preEigProblem` at Float)
`perec <n> <phi: n*n> <nt> <d: n*nt> <v: n*nt> <a: n*nt>` -> `ok <phi d> <phi v> <phi a>`   (`preEigSolution`)
`pex <n> <bkind> <b> <phi: n*n> <w: n> <static 0|1> <d0 opt> <v0 opt> <F0: n>`
      -> `ok <modal b: n*n> <d: n> <v: n> <a: n>` as `num/den` | `singular`
         (`preEigProblem`, `modalFirstSampleUnc`, `preEigSolution` over `Rat`; modal system uncoupled)
`cu <order> <h> <n> <mkind: none|vec> [m: 2n] <b: 2n> <k: 2n> <rb: n | c i…> <static 0|1> <d0: n | y 2n values>
    <v0: n | y 2n values> <nt> <force: 2*n*nt row-major> <N> <lam: 2N> <urV: 2*ne*N> <urD: 2*ne*N> <invV: 2*N*ne>
    <invD: 2*N*ne>`   (complex numbers as re im pairs; `ne` = number of elastic rows by the model's partition)
      -> `ok <d: 2*n*nt> <v: 2*n*nt> <a: 2*n*nt>` | `err:sizes`
         (`SolveUnc.tsolve` on uncoupled equations with complex-dtype coefficients: `mkPart`, `initD`, `cplxUncRbDV`,
          `cplxUncRbAcc`, `coupledRunCplx` on the implementation's own pc, `calcAcce`)
`cufix …`  the request `cu` with the PATCHED rigid-body rows (candidate repair of finding F61: `cplxUncRbRowsFixedG` at
         complex doubles); used when the harness runs with C01_F61_FIXED_MODEL=1 against a tree that has the patch
`curbfix <order> <h> <n> <mkind: none|vec> [m: n] <b: n> <d0: n> <v0: n> <nt> <force: n*nt row-major>`
      -> `ok <regime per row: none|rigid|rigidVelo|rigidFull> <d: n*nt> <v: n*nt> <a: n*nt>`
         (CANDIDATE REPAIR of finding F61, `Model/SuCoefCplxUncFixed.lean`: `cplxUncRbRowsFixed` at Float on the `n`
          rigid-body rows of one uncoupled complex-dtype system; used by corpus/c01_f61_candidate_check.py only)
anything else -> `bad-op`. -/
open PyYetiVerif.SuCoef PyYetiVerif.SuPartition

instance : TransOps Float := ⟨Float.exp, Float.cos, Float.sin, Float.sqrt, Float.abs⟩

/-- complex doubles for `_get_complex_su_coefs` -/
structure CF where
  re : Float
  im : Float

namespace CF
instance : Add CF := ⟨fun a b => ⟨a.re + b.re, a.im + b.im⟩⟩
instance : Sub CF := ⟨fun a b => ⟨a.re - b.re, a.im - b.im⟩⟩
instance : Neg CF := ⟨fun a => ⟨-a.re, -a.im⟩⟩
instance : Mul CF := ⟨fun a b => ⟨a.re * b.re - a.im * b.im, a.re * b.im + a.im * b.re⟩⟩
instance : Div CF := ⟨fun a b =>
  let d := b.re * b.re + b.im * b.im
  ⟨(a.re * b.re + a.im * b.im) / d, (a.im * b.re - a.re * b.im) / d⟩⟩
instance (n : Nat) : OfNat CF n := ⟨⟨n.toFloat, 0⟩⟩
def cexp (z : CF) : CF := let e := Float.exp z.re; ⟨e * Float.cos z.im, e * Float.sin z.im⟩
/-- only `exp` is used by `cplxCoef`; the other fields are never evaluated -/
instance : TransOps CF := ⟨cexp, id, id, id, id⟩
end CF

def fbits (s : String) : Option Float := (s.toNat?).map fun n => Float.ofBits (UInt64.ofNat n)
def showF (x : Float) : String := toString x.toBits.toNat

/-- the cut-offs as the source spells them (`Generated/SuCoefCuts.lean`, regenerated on every run) -/
def cutsF (h : Float) : Cuts Float := cutsGenF h

def regimeName : Regime → String
  | .rigid => "rigid" | .rigidVelo => "rigidVelo" | .rigidFull => "rigidFull"
  | .under => "under" | .crit => "crit" | .over => "over" | .rf => "rf"

def showCoefs (c : Coefs Float) : String :=
  " ".intercalate ([c.F, c.G, c.A, c.B, c.Fp, c.Gp, c.Ap, c.Bp].map showF)

def doCoef (ws : List String) : Option String := do
  match ws with
  | [ms, bs, ks, hs, rbs, rfs] =>
    let m : Option Float ← if ms == "none" then some none else (fbits ms).map some
    let b ← fbits bs
    let k ← fbits ks
    let h ← fbits hs
    let rbG : Option Bool ← match rbs with
      | "n" => some none | "0" => some (some false) | "1" => some (some true) | _ => none
    let isRf ← match rfs with | "0" => some false | "1" => some true | _ => none
    match classify (cutsF h) (m.getD 1) b k rbG isRf with
    | none => pure "partition-error"
    | some r => pure (regimeName r ++ " " ++ showCoefs (suCoefOpt r m b k h))
  | _ => none

def doCplx (ws : List String) : Option String := do
  match ws with
  | [res, ims, hs] =>
    let re ← fbits res
    let im ← fbits ims
    let h ← fbits hs
    let lam : CF := ⟨re, im⟩
    let small : Bool := cplxIsSmallF re im
    let c : CF × CF × CF := if small then cplxSmall ⟨h, 0⟩ else cplxCoef lam ⟨h, 0⟩
    pure ((if small then "1 " else "0 ") ++ " ".intercalate
      ([c.1.re, c.1.im, c.2.1.re, c.2.1.im, c.2.2.re, c.2.2.im].map showF))
  | _ => none

/-- read `cnt` items with `f` -/
def takeN {β : Type} (f : String → Option β) (cnt : Nat) (ws : List String) :
    Option (List β × List String) :=
  if ws.length < cnt then none else do
    let xs ← (ws.take cnt).mapM f
    pure (xs, ws.drop cnt)

def readIdx (ws : List String) : Option (List Nat × List String) :=
  match ws with
  | c :: rest => do let n ← c.toNat?; takeN String.toNat? n rest
  | [] => none

def readOptIdx (ws : List String) : Option (Option (List Nat) × List String) :=
  match ws with
  | "n" :: rest => some (none, rest)
  | _ => (readIdx ws).map fun (l, r) => (some l, r)

def showIdx (l : List Nat) : String := " ".intercalate (l.map toString)

def doPart (ws : List String) : Option String := do
  match ws with
  | ns :: rest =>
    let n ← ns.toNat?
    let (rb, rest) ← readOptIdx rest
    let (rf, rest) ← readIdx rest
    let (sm, rest) ← takeN (fun s => if s == "1" then some true else if s == "0" then some false else none) n rest
    if !rest.isEmpty then none
    let nr := nonrf n rf
    let p := mkPart n rb rf fun i => match nr[i]? with
      | some g => sm.getD g false
      | none => false
    pure ("|".intercalate [showIdx p.nonrf, showIdx p.rf, showIdx p.rb, showIdx p.el,
      showIdx p.rb', showIdx p.el', showIdx (coefRb p), if slicesFlag p then "1" else "0"])
  | [] => none

def getF (l : List Float) (i : Nat) : Float := l.getD i 0

/-- `_make_rb_el` for a coupled system with `rb=None`: the non-rf `k`, `b` are given -/
def doPartC (ws : List String) : Option String := do
  match ws with
  | ns :: rest =>
    let n ← ns.toNat?
    let (rf, rest) ← readIdx rest
    let nr := (nonrf n rf).length
    let (kl, rest) ← takeN fbits (nr * nr) rest
    let (bl, rest) ← takeN fbits (nr * nr) rest
    if !rest.isEmpty then none
    let rows (l : List Float) : List (List Float) := (List.range nr).map fun i => (l.drop (i * nr)).take nr
    let p := mkPart n none rf (smallCoupled Float.abs 0 (rows kl) (rows bl) rbTolPartF)
    pure ("|".intercalate [showIdx p.nonrf, showIdx p.rf, showIdx p.rb, showIdx p.el,
      showIdx p.rb', showIdx p.el', showIdx (coefRb p), if slicesFlag p then "1" else "0"])
  | [] => none

instance : CplxOps CF Float := ⟨CF.re, CF.im, fun x => ⟨x, 0⟩⟩
instance : Zero CF := ⟨⟨0, 0⟩⟩

def readCF (ws : List String) (cnt : Nat) : Option (Array CF × List String) := do
  let (l, rest) ← takeN fbits (2 * cnt) ws
  let a := l.toArray
  pure ((Array.range cnt).map (fun i => (⟨a.getD (2 * i) 0, a.getD (2 * i + 1) 0⟩ : CF)), rest)

def showRows {n : Nat} (nt : Nat) (samples : Array (Fin n → Float)) : String :=
  " ".intercalate ((List.finRange n).flatMap fun j =>
    (List.range nt).map fun t => showF ((samples.getD t fun _ => 0) j))

/-- the elastic part of `_solve_complex_unc` (real system) from the implementation's own `pc` -/
def doCpl (ws : List String) : Option String := do
  match ws with
  | os :: hs :: ns :: Ns :: rest =>
    let order1 ← match os with | "1" => some true | "0" => some false | _ => none
    let h ← fbits hs
    let n ← ns.toNat?
    let N ← Ns.toNat?
    let (lam, rest) ← readCF rest N
    let (urV, rest) ← readCF rest (n * N)
    let (urD, rest) ← readCF rest (n * N)
    let (invV, rest) ← readCF rest (N * n)
    let (invD, rest) ← readCF rest (N * n)
    let (d0, rest) ← takeN fbits n rest
    let (v0, rest) ← takeN fbits n rest
    let (nt, rest) ← match rest with | s :: r => s.toNat?.map fun x => (x, r) | [] => none
    let (fl, rest) ← takeN fbits (n * nt) rest
    if !rest.isEmpty then none
    let z : CF := ⟨0, 0⟩
    let e : Eig CF n N :=
      { lam := fun k => lam.getD k.val z
        urV := fun j k => urV.getD (j.val * N + k.val) z
        urD := fun j k => urD.getD (j.val * N + k.val) z
        invV := fun k j => invV.getD (k.val * n + j.val) z
        invD := fun k j => invD.getD (k.val * n + j.val) z }
    let fa := fl.toArray
    let imf : List (Fin n → Float) := (List.range nt).map fun t => fun j => fa.getD (j.val * nt + t) 0
    let isSmall : CF → Bool := fun l => cplxIsSmallF l.re l.im
    let d0a := d0.toArray
    let v0a := v0.toArray
    let out := (coupledRun order1 isSmall (⟨h, 0⟩ : CF) e (fun j => d0a.getD j.val 0)
      (fun j => v0a.getD j.val 0) imf).toArray
    pure ("ok " ++ showRows nt (out.map (·.1)) ++ " " ++ showRows nt (out.map (·.2)))
  | _ => none

/-- the rigid-body loop of `_solve_complex_unc`, one mode (force already divided by the mass) -/
def doRbRun (ws : List String) : Option String := do
  match ws with
  | os :: hs :: nts :: d0s :: v0s :: rest =>
    let order1 ← match os with | "1" => some true | "0" => some false | _ => none
    let h ← fbits hs
    let nt ← nts.toNat?
    let d0 ← fbits d0s
    let v0 ← fbits v0s
    let (f, rest) ← takeN fbits nt rest
    if !rest.isEmpty then none
    let hist := rbRun order1 h (d0, v0) f
    pure ("ok " ++ " ".intercalate ((hist.map Prod.fst ++ hist.map Prod.snd).map showF))
  | _ => none

/-- the loop of `SolveExp2.tsolve` from the implementation's own `E, P, Q` -/
def doExp2 (ws : List String) : Option String := do
  match ws with
  | os :: ns :: rest =>
    let order1 ← match os with | "1" => some true | "0" => some false | _ => none
    let n ← ns.toNat?
    let (E, rest) ← takeN fbits (4 * n * n) rest
    let (P, rest) ← takeN fbits (2 * n * n) rest
    let (Q, rest) ← if order1 then takeN fbits (2 * n * n) rest else some ([], rest)
    let (d0, rest) ← takeN fbits n rest
    let (v0, rest) ← takeN fbits n rest
    let (nt, rest) ← match rest with | s :: r => s.toNat?.map fun x => (x, r) | [] => none
    let (fl, rest) ← takeN fbits (n * nt) rest
    if !rest.isEmpty then none
    let Ea := E.toArray
    let Pa := P.toArray
    let Qa := Q.toArray
    let c : ExpCoef Float n :=
      { Evv := fun i j => Ea.getD (i.val * (2 * n) + j.val) 0
        Evd := fun i j => Ea.getD (i.val * (2 * n) + (n + j.val)) 0
        Edv := fun i j => Ea.getD ((n + i.val) * (2 * n) + j.val) 0
        Edd := fun i j => Ea.getD ((n + i.val) * (2 * n) + (n + j.val)) 0
        Pv := fun i j => Pa.getD (i.val * n + j.val) 0
        Pd := fun i j => Pa.getD ((n + i.val) * n + j.val) 0
        Qv := fun i j => Qa.getD (i.val * n + j.val) 0
        Qd := fun i j => Qa.getD ((n + i.val) * n + j.val) 0 }
    let fa := fl.toArray
    let imf : List (Fin n → Float) := (List.range nt).map fun t => fun j => fa.getD (j.val * nt + t) 0
    let d0a := d0.toArray
    let v0a := v0.toArray
    let out := (runExp order1 c (fun j => d0a.getD j.val 0, fun j => v0a.getD j.val 0) imf).toArray
    pure ("ok " ++ showRows nt (out.map (·.1)) ++ " " ++ showRows nt (out.map (·.2)))
  | _ => none


/-! ### exact rationals: the value of a double, `num/den` output -/

instance : Zero Rat := ⟨0⟩

/-- the exact value of a finite double given by its bit pattern -/
def ratOfBits (s : String) : Option Rat := do
  let b ← s.toNat?
  let neg : Bool := b / 2 ^ 63 % 2 == 1
  let e : Nat := b / 2 ^ 52 % 2048
  let f : Nat := b % 2 ^ 52
  let sgn (k : Nat) : Int := if neg then -(k : Int) else (k : Int)
  if e == 2047 then none
  else if e == 0 then pure (mkRat (sgn f) (2 ^ 1074))
  else
    let m : Nat := 2 ^ 52 + f
    if e ≥ 1075 then pure ((sgn (m * 2 ^ (e - 1075)) : Int) : Rat) else pure (mkRat (sgn m) (2 ^ (1075 - e)))

def showQ (r : Rat) : String := s!"{r.num}/{r.den}"

def qAbs (x : Rat) : Rat := if x < 0 then -x else x
def qIsZero (x : Rat) : Bool := x == 0
def qAbsLt (a b : Rat) : Bool := decide (qAbs a < qAbs b)
def fIsZero (x : Float) : Bool := x == 0.0
def fAbsLt (a b : Float) : Bool := Float.abs a < Float.abs b

/-- the value of a generated literal `(mantissa, exponent10)` -/
def decQ (d : Nat × Int) : Rat :=
  if d.2 ≥ 0 then ((d.1 * 10 ^ d.2.toNat : Nat) : Rat) else mkRat d.1 (10 ^ (-d.2).toNat)

def matOf {β : Type} (z : β) (a : Array β) (nc : Nat) {r c : Nat} : Fin r → Fin c → β :=
  fun i j => a.getD (i.val * nc + j.val) z

def vecOf {β : Type} (z : β) (a : Array β) {r : Nat} : Fin r → β := fun i => a.getD i.val z

/-- column `t` of a row-major `n × nt` array -/
def colOf {β : Type} (z : β) (a : Array β) (nt t : Nat) {n : Nat} : Fin n → β :=
  fun j => a.getD (j.val * nt + t) z

def readOptVecG {β : Type} (rd : String → Option β) (n : Nat) (ws : List String) :
    Option (Option (List β) × List String) :=
  match ws with
  | "n" :: r => some (none, r)
  | "y" :: r => (takeN rd n r).map fun (l, r) => (some l, r)
  | _ => none

def readNat (ws : List String) : Option (Nat × List String) :=
  match ws with | s :: r => s.toNat?.map fun x => (x, r) | [] => none

def showRowsG {β : Type} {n : Nat} (sh : β → String) (z : β) (nt : Nat) (samples : Array (Fin n → β)) : String :=
  " ".intercalate ((List.finRange n).flatMap fun j =>
    (List.range nt).map fun t => sh ((samples.getD t fun _ => z) j))

def readDtype (s : String) : Option Dtype :=
  match s with
  | "int64" => some .int64 | "float32" => some .float32 | "float64" => some .float64
  | "complex128" => some .complex128 | _ => none

/-- conversion of a double on assignment into an array of the given dtype -/
def storeF (d : Dtype) (x : Float) : Float :=
  match d with
  | .int64 => x.toInt64.toFloat
  | .float32 => x.toFloat32.toFloat
  | _ => x

/-- the same over the rationals: only the float64 history of the source is exact there -/
def storeQ (d : Dtype) (x : Rat) : Rat :=
  match d with
  | .int64 => ((if x < 0 then -((-x).floor) else x.floor : Int) : Rat)
  | _ => x

/-- `SolveExp1(A, h, order).tsolve(force, d0)` on given `E, P, Q` -/
def doExp1G {β : Type} [Add β] [Mul β] [Zero β] (rd : String → Option β) (sh : β → String) (z : β)
    (store : Dtype → β → β) (ws : List String) : Option String := do
  match ws with
  | os :: ds :: ns :: rest =>
    let order1 ← match os with | "1" => some true | "0" => some false | _ => none
    let fd ← readDtype ds
    let n ← ns.toNat?
    let (A, rest) ← takeN rd (n * n) rest
    let (E, rest) ← takeN rd (n * n) rest
    let (P, rest) ← takeN rd (n * n) rest
    let (Q, rest) ← if order1 then takeN rd (n * n) rest else some ([], rest)
    let (d0, rest) ← readOptVecG rd n rest
    let (nt, rest) ← readNat rest
    let (fl, rest) ← takeN rd (n * nt) rest
    if !rest.isEmpty then none
    let c : Exp1Coef β n := ⟨matOf z E.toArray n, matOf z P.toArray n, matOf z Q.toArray n⟩
    let fa := fl.toArray
    let force : List (Fin n → β) := (List.range nt).map fun t => colOf z fa nt t
    let out := (exp1Solve order1 (store (exp1HistDtype fd)) (matOf z A.toArray n) c
      (d0.map fun l => vecOf z l.toArray) force).toArray
    pure ("ok " ++ (exp1HistDtype fd).name ++ " " ++ (exp1VeloDtype fd).name ++ " "
      ++ showRowsG sh z nt (out.map (·.1)) ++ " " ++ showRowsG sh z nt (out.map (·.2)))
  | _ => none

/-- `_init_dv`, coupled static branch, over the rationals -/
def doStaticC (ws : List String) : Option String := do
  match ws with
  | ns :: rest =>
    let ne ← ns.toNat?
    let (K, rest) ← takeN ratOfBits (ne * ne) rest
    let (F0, rest) ← takeN ratOfBits ne rest
    if !rest.isEmpty then none
    match staticCoupledEl qIsZero qAbsLt (matOf (0 : Rat) K.toArray ne (r := ne) (c := ne))
        (vecOf (0 : Rat) F0.toArray) with
    | none => pure "singular"
    | some x => pure ("ok " ++ " ".intercalate ((List.finRange ne).map fun i => showQ (x i)))
  | [] => none

/-- `la.lu_solve(self.invm, force)` sample by sample -/
def doMSolve (ws : List String) : Option String := do
  match ws with
  | ns :: rest =>
    let n ← ns.toNat?
    let (M, rest) ← takeN fbits (n * n) rest
    let (nt, rest) ← readNat rest
    let (fl, rest) ← takeN fbits (n * nt) rest
    if !rest.isEmpty then none
    let Mf : Fin n → Fin n → Float := matOf 0 M.toArray n
    let fa := fl.toArray
    let cols := (List.range nt).map fun t => massSolve fIsZero fAbsLt (some Mf) (colOf 0 fa nt t)
    if cols.any Option.isNone then pure "singular" else
    let arr : Array (Fin n → Float) := (cols.map fun c => c.getD fun _ => 0).toArray
    pure ("ok " ++ showRows nt arr)
  | [] => none

/-- `_calc_acce_kdof`, coupled branch, sample by sample -/
def doAccelC (ws : List String) : Option String := do
  match ws with
  | ns :: mk :: rest =>
    let n ← ns.toNat?
    let (M, rest) : Option (List Float) × List String ←
      if mk == "none" then some (none, rest)
      else if mk == "mat" then (takeN fbits (n * n) rest).map fun (l, r) => (some l, r) else none
    let (B, rest) ← takeN fbits (n * n) rest
    let (K, rest) ← takeN fbits (n * n) rest
    let (nt, rest) ← readNat rest
    let (dl, rest) ← takeN fbits (n * nt) rest
    let (vl, rest) ← takeN fbits (n * nt) rest
    let (fl, rest) ← takeN fbits (n * nt) rest
    if !rest.isEmpty then none
    let Mf : Option (Fin n → Fin n → Float) := M.map fun l => matOf 0 l.toArray n
    let Bf : Fin n → Fin n → Float := matOf 0 B.toArray n
    let Kf : Fin n → Fin n → Float := matOf 0 K.toArray n
    let (da, va, fa) := (dl.toArray, vl.toArray, fl.toArray)
    let cols := (List.range nt).map fun t =>
      calcAcceCoupled fIsZero fAbsLt Mf Bf Kf (colOf 0 da nt t) (colOf 0 va nt t) (colOf 0 fa nt t)
    if cols.any Option.isNone then pure "singular" else
    let arr : Array (Fin n → Float) := (cols.map fun c => c.getD fun _ => 0).toArray
    pure ("ok " ++ showRows nt arr)
  | _ => none

def readDiagOrFull {β : Type} (rd : String → Option β) (z : β) (n : Nat) (ws : List String) :
    Option (DiagOrFull β n × List String) :=
  match ws with
  | "vec" :: r => (takeN rd n r).map fun (l, r) => (.vec (vecOf z l.toArray), r)
  | "mat" :: r => (takeN rd (n * n) r).map fun (l, r) => (.mat (matOf z l.toArray n), r)
  | _ => none

def showOptVec {β : Type} {n : Nat} (sh : β → String) (x : Option (Fin n → β)) : String :=
  match x with
  | none => "n"
  | some v => " ".intercalate ("y" :: (List.finRange n).map fun i => sh (v i))

/-- `_do_pre_eig` (damping) and the `pre_eig` lines of `_init_dva`, at Float -/
def doPe (ws : List String) : Option String := do
  match ws with
  | ns :: rest =>
    let n ← ns.toNat?
    let (b, rest) ← readDiagOrFull fbits (0 : Float) n rest
    let (phi, rest) ← takeN fbits (n * n) rest
    let (d0, rest) ← readOptVecG fbits n rest
    let (v0, rest) ← readOptVecG fbits n rest
    let (nt, rest) ← readNat rest
    let (fl, rest) ← takeN fbits (n * nt) rest
    if !rest.isEmpty then none
    let e : PreEig Float n := ⟨matOf 0 phi.toArray n, fun _ => 0⟩
    let fa := fl.toArray
    let force : List (Fin n → Float) := (List.range nt).map fun t => colOf 0 fa nt t
    match preEigProblem fIsZero fAbsLt e b force (d0.map fun l => vecOf 0 l.toArray)
        (v0.map fun l => vecOf 0 l.toArray) with
    | none => pure "singular"
    | some p =>
      let bm := " ".intercalate ((List.finRange n).flatMap fun i => (List.finRange n).map fun j => showF (p.b i j))
      pure ("ok " ++ bm ++ " " ++ showRows nt p.F.toArray ++ " " ++ showOptVec showF p.d0 ++ " "
        ++ showOptVec showF p.v0)
  | [] => none

/-- `_solution` with `pre_eig` -/
def doPeRec (ws : List String) : Option String := do
  match ws with
  | ns :: rest =>
    let n ← ns.toNat?
    let (phi, rest) ← takeN fbits (n * n) rest
    let (nt, rest) ← readNat rest
    let (dl, rest) ← takeN fbits (n * nt) rest
    let (vl, rest) ← takeN fbits (n * nt) rest
    let (al, rest) ← takeN fbits (n * nt) rest
    if !rest.isEmpty then none
    let e : PreEig Float n := ⟨matOf 0 phi.toArray n, fun _ => 0⟩
    let (da, va, aa) := (dl.toArray, vl.toArray, al.toArray)
    let out := (preEigSolution e ((List.range nt).map fun t =>
      (colOf 0 da nt t, colOf 0 va nt t, colOf 0 aa nt t))).toArray
    pure ("ok " ++ showRows nt (out.map (·.1)) ++ " " ++ showRows nt (out.map (·.2.1)) ++ " "
      ++ showRows nt (out.map (·.2.2)))
  | [] => none

/-- the whole `pre_eig` pipeline on the first sample over the rationals (modal system uncoupled) -/
def doPex (ws : List String) : Option String := do
  match ws with
  | ns :: rest =>
    let n ← ns.toNat?
    let (b, rest) ← readDiagOrFull ratOfBits (0 : Rat) n rest
    let (phi, rest) ← takeN ratOfBits (n * n) rest
    let (w, rest) ← takeN ratOfBits n rest
    let (static, rest) ← match rest with
      | "1" :: r => some (true, r) | "0" :: r => some (false, r) | _ => none
    let (d0, rest) ← readOptVecG ratOfBits n rest
    let (v0, rest) ← readOptVecG ratOfBits n rest
    let (f0, rest) ← takeN ratOfBits n rest
    if !rest.isEmpty then none
    let e : PreEig Rat n := ⟨matOf 0 phi.toArray n, vecOf 0 w.toArray⟩
    match preEigProblem qIsZero qAbsLt e b [vecOf 0 f0.toArray] (d0.map fun l => vecOf 0 l.toArray)
        (v0.map fun l => vecOf 0 l.toArray) with
    | none => pure "singular"
    | some p =>
      -- `_make_rb_el`, uncoupled: `abs(self.k) < tol`
      let tol := decQ PyYetiVerif.Generated.SuCoefCuts.rbTolPart
      let isEl : Fin n → Bool := fun i => !(decide (qAbs (p.k i) < tol))
      match modalFirstSampleUnc p static isEl with
      | none => none
      | some s =>
        match preEigSolution e [s] with
        | [(d, v, a)] =>
          let bm := (List.finRange n).flatMap fun i => (List.finRange n).map fun j => showQ (p.b i j)
          let sv (x : Fin n → Rat) := (List.finRange n).map fun i => showQ (x i)
          pure ("ok " ++ " ".intercalate (bm ++ sv d ++ sv v ++ sv a))
        | _ => none
  | [] => none


instance : BEq CF := ⟨fun a b => a.re == b.re && a.im == b.im⟩

def showCF (z : CF) : String := showF z.re ++ " " ++ showF z.im

def cfAbs (z : CF) : Float := Float.sqrt (z.re * z.re + z.im * z.im)

/-- `SolveUnc(m, b, k, h, rb, order).tsolve(force, d0, v0, static_ic)` for uncoupled equations with complex-dtype
coefficients (no rf modes): the complex-eigenvalue path with the undamped rigid-body recurrence -/
def doCuG (fixed : Bool) (ws : List String) : Option String := do
  match ws with
  | os :: hs :: ns :: mk :: rest =>
    let order1 ← match os with | "1" => some true | "0" => some false | _ => none
    let h ← fbits hs
    let n ← ns.toNat?
    let (m, rest) : Option (Array CF) × List String ←
      if mk == "none" then some (none, rest)
      else if mk == "vec" then (readCF rest n).map fun (a, r) => (some a, r) else none
    let (b, rest) ← readCF rest n
    let (k, rest) ← readCF rest n
    let (rb, rest) ← readOptIdx rest
    let (static, rest) ← match rest with
      | "1" :: r => some (true, r) | "0" :: r => some (false, r) | _ => none
    let readOptC : List String → Option (Option (Array CF) × List String) := fun ws =>
      match ws with
      | "n" :: r => some (none, r)
      | "y" :: r => (readCF r n).map fun (a, r) => (some a, r)
      | _ => none
    let (d0, rest) ← readOptC rest
    let (v0, rest) ← readOptC rest
    let (nt, rest) ← readNat rest
    let (fl, rest) ← readCF rest (n * nt)
    let (N, rest) ← readNat rest
    let z : CF := ⟨0, 0⟩
    -- partition: `_make_rb_el`, uncoupled: `abs(self.k) < tol`
    let kabs : List Float := (List.range n).map fun g => cfAbs (k.getD g z)
    let p := mkPart n rb [] fun i => smallUnc Float.abs 0 kabs rbTolPartF i
    let ne := p.el.length
    let (lam, rest) ← readCF rest N
    let (urV, rest) ← readCF rest (ne * N)
    let (urD, rest) ← readCF rest (ne * N)
    let (invV, rest) ← readCF rest (N * ne)
    let (invD, rest) ← readCF rest (N * ne)
    if !rest.isEmpty then none
    let mOf (g : Nat) : Option CF := m.map fun a => a.getD g z
    let force (g : Nat) : List CF := (List.range nt).map fun t => fl.getD (g * nt + t) z
    let useSt := useStatic static d0.isSome (p.el.map fun g => fl.getD (g * nt) z)
    let dInit (g : Nat) : CF := initD (d0.map fun a => a.getD g z) useSt (p.el.contains g) (k.getD g z)
      (fl.getD (g * nt) z)
    let vInit (g : Nat) : CF := initV (v0.map fun a => a.getD g z)
    -- elastic rows: the modal recurrence on the implementation's own decomposition of the elastic partition
    let ela := p.el.toArray
    let e : Eig CF ne N :=
      { lam := fun j => lam.getD j.val z
        urV := fun i j => urV.getD (i.val * N + j.val) z
        urD := fun i j => urD.getD (i.val * N + j.val) z
        invV := fun j i => invV.getD (j.val * ne + i.val) z
        invD := fun j i => invD.getD (j.val * ne + i.val) z }
    let imf : List (Fin ne → CF) := (List.range nt).map fun t => fun i =>
      let g := ela.getD i.val 0
      cplxUncRbForce (mOf g) (fl.getD (g * nt + t) z)
    let isSmall : CF → Bool := fun l => cplxIsSmallF l.re l.im
    let elOut := (coupledRunCplx order1 isSmall (⟨h, 0⟩ : CF) e (fun i => dInit (ela.getD i.val 0))
      (fun i => vInit (ela.getD i.val 0)) imf).toArray
    -- `fixed`: the PATCHED rigid-body rows (candidate repair of finding F61, `cplxUncRbRowsFixedG`): regime of a row
    -- from the modulus of `beta = b/m`, `pc.beta_rb is None` iff every `beta` is zero
    let rbFixed := cplxUncRbRowsFixedG (fun (x : CF) => cplxUncRbRegime (cutsF h) (cfAbs x))
      (fun (x : CF) => x.re == 0 && x.im == 0) order1 (⟨h, 0⟩ : CF)
      (p.rb.map fun g => (mOf g, b.getD g z, (dInit g, vInit g), force g))
    let rows : List (List CF × List CF × List CF) := (List.range n).map fun g =>
      match p.el.idxOf? g with
      | some i =>
        let d := (List.range nt).map fun t => match elOut[t]? with
          | some s => if h : i < ne then s.1 ⟨i, h⟩ else z
          | none => z
        let v := (List.range nt).map fun t => match elOut[t]? with
          | some s => if h : i < ne then s.2 ⟨i, h⟩ else z
          | none => z
        let a := (List.range nt).map fun t =>
          match mOf g with
          | some mm => calcAcce mm (b.getD g z) (k.getD g z) (d.getD t z) (v.getD t z) (fl.getD (g * nt + t) z)
          | none => calcAcceNone (b.getD g z) (k.getD g z) (d.getD t z) (v.getD t z) (fl.getD (g * nt + t) z)
        (d, v, a)
      | none =>
        -- rigid-body row: the undamped recurrence (the row's `b`, `k` are not used)
        if fixed then
          match (p.rb.idxOf? g).bind fun i => rbFixed[i]? with
          | some r => (r.2.1.map Prod.fst, r.2.1.map Prod.snd, r.2.2)
          | none => ([], [], [])
        else
        let hist := cplxUncRbDV order1 (⟨h, 0⟩ : CF) (mOf g) (b.getD g z) (k.getD g z) (dInit g, vInit g) (force g)
        (hist.map Prod.fst, hist.map Prod.snd, cplxUncRbAcc (mOf g) (b.getD g z) (k.getD g z) (force g))
    let out (sel : List CF × List CF × List CF → List CF) : String :=
      " ".intercalate ((rows.map sel).flatten.map showCF)
    pure ("ok " ++ out (·.1) ++ " " ++ out (·.2.1) ++ " " ++ out (·.2.2))
  | _ => none

/-- the PATCHED rigid-body rows of an uncoupled complex-dtype system (candidate repair of finding F61) -/
def doCuRbFix (ws : List String) : Option String := do
  match ws with
  | os :: hs :: ns :: mk :: rest =>
    let order1 ← match os with | "1" => some true | "0" => some false | _ => none
    let h ← fbits hs
    let n ← ns.toNat?
    let (m, rest) : Option (List Float) × List String ←
      if mk == "none" then some (none, rest)
      else if mk == "vec" then (takeN fbits n rest).map fun (l, r) => (some l, r) else none
    let (b, rest) ← takeN fbits n rest
    let (d0, rest) ← takeN fbits n rest
    let (v0, rest) ← takeN fbits n rest
    let (nt, rest) ← match rest with | s :: r => s.toNat?.map fun x => (x, r) | [] => none
    let (fl, rest) ← takeN fbits (n * nt) rest
    if !rest.isEmpty then none
    let rows : List (Option Float × Float × (Float × Float) × List Float) := (List.range n).map fun g =>
      (m.map fun mv => getF mv g, getF b g, (getF d0 g, getF v0 g), (fl.drop (g * nt)).take nt)
    let out := cplxUncRbRowsFixed (cutsF h) order1 h rows
    let regs := out.map fun r => match r.1 with | none => "none" | some x => regimeName x
    let nums : List Float := (out.map fun r => r.2.1.map Prod.fst).flatten ++
      (out.map fun r => r.2.1.map Prod.snd).flatten ++ (out.map fun r => r.2.2).flatten
    pure ("ok " ++ " ".intercalate (regs ++ nums.map showF))
  | _ => none

/-- the uncoupled real path of `SolveUnc(m, b, k, h, rb, rf, order).tsolve(force, d0, v0, static_ic)` -/
def doSys (ws : List String) : Option String := do
  match ws with
  | os :: hs :: ns :: mk :: rest =>
    let order1 ← match os with | "1" => some true | "0" => some false | _ => none
    let h ← fbits hs
    let n ← ns.toNat?
    let (m, rest) : Option (List Float) × List String ←
      if mk == "none" then some (none, rest)
      else if mk == "vec" then (takeN fbits n rest).map fun (l, r) => (some l, r) else none
    let (b, rest) ← takeN fbits n rest
    let (k, rest) ← takeN fbits n rest
    let (rb, rest) ← readOptIdx rest
    let (rf, rest) ← readIdx rest
    let (static, rest) ← match rest with
      | "1" :: r => some (true, r) | "0" :: r => some (false, r) | _ => none
    let readOptVec : List String → Option (Option (List Float) × List String) := fun ws =>
      match ws with
      | "n" :: r => some (none, r)
      | "y" :: r => (takeN fbits n r).map fun (l, r) => (some l, r)
      | _ => none
    let (d0, rest) ← readOptVec rest
    let (v0, rest) ← readOptVec rest
    let (nt, rest) ← match rest with | s :: r => s.toNat?.map fun x => (x, r) | [] => none
    let (fl, rest) ← takeN fbits (n * nt) rest
    if !rest.isEmpty then none
    let force : Nat → List Float := fun g => (fl.drop (g * nt)).take nt
    -- partition bookkeeping
    let nr := nonrf n rf
    let p := mkPart n rb rf fun i => match nr[i]? with
      | some g => smallUnc Float.abs 0 k rbTolPartF g
      | none => false
    -- get_su_coef(self.m, self.b, self.k, h, self.rb) on the non-rf partitions
    match pvrbOf nr.length (coefRb p) with
    | none => pure "err:index"
    | some pvrb =>
      let cut := cutsF h
      let regs := nr.zipIdx.map fun (g, i) =>
        classify cut (match m with | some mv => getF mv g | none => 1) (getF b g) (getF k g)
          (some (pvrb.getD i false)) false
      if regs.any Option.isNone then pure "err:partition" else
      let zero : List Float := List.replicate nt 0
      -- static initial conditions: `static_ic and self.elsize and F0[self.el].any()`
      let useSt := useStatic static d0.isSome (p.el.map fun g => getF (force g) 0)
      let rows : List (List Float × List Float × List Float) := (List.range n).map fun g =>
        if rf.contains g then
          -- d[rf] = ikrf * force[rf], ikrf = 1.0 / krf
          ((force g).map fun f => rfRow (getF k g) f, zero, zero)
        else
          match nr.idxOf? g with
          | none => (zero, zero, zero)
          | some i =>
            let mo : Option Float := m.map fun mv => getF mv g
            let r := (regs.getD i none).getD .rigid
            let c := suCoefOpt r mo (getF b g) (getF k g) h
            let dInit : Float := initD (d0.map fun dv => getF dv g) useSt (p.el.contains g) (getF k g)
              (getF (force g) 0)
            let vInit : Float := initV (v0.map fun vv => getF vv g)
            let hist := runUnc order1 c (dInit, vInit) (force g)
            let d := hist.map Prod.fst
            let v := hist.map Prod.snd
            let a := (List.range nt).map fun j =>
              match mo with
              | some mm => calcAcce mm (getF b g) (getF k g) (getF d j) (getF v j) (getF (force g) j)
              | none => calcAcceNone (getF b g) (getF k g) (getF d j) (getF v j) (getF (force g) j)
            (d, v, a)
      let out (sel : List Float × List Float × List Float → List Float) : String :=
        " ".intercalate ((rows.map sel).flatten.map showF)
      pure ("ok " ++ out (·.1) ++ " " ++ out (·.2.1) ++ " " ++ out (·.2.2))
  | _ => none

def answer (line : String) : String :=
  let r := match (line.splitOn " ").filter (· ≠ "") with
    | "coef" :: ws => doCoef ws
    | "cplx" :: ws => doCplx ws
    | "part" :: ws => doPart ws
    | "sys" :: ws => doSys ws
    | "partc" :: ws => doPartC ws
    | "cpl" :: ws => doCpl ws
    | "rbrun" :: ws => doRbRun ws
    | "exp2" :: ws => doExp2 ws
    | "exp1" :: ws => doExp1G fbits showF (0 : Float) storeF ws
    | "exp1x" :: ws => doExp1G ratOfBits showQ (0 : Rat) storeQ ws
    | "staticc" :: ws => doStaticC ws
    | "msolve" :: ws => doMSolve ws
    | "accelc" :: ws => doAccelC ws
    | "pe" :: ws => doPe ws
    | "perec" :: ws => doPeRec ws
    | "pex" :: ws => doPex ws
    | "cu" :: ws => doCuG false ws
    | "cufix" :: ws => doCuG true ws
    | "curbfix" :: ws => doCuRbFix ws
    | _ => none
  r.getD "bad-op"

partial def loop (h : IO.FS.Stream) (out : IO.FS.Stream) : IO Unit := do
  let line ← h.getLine
  if line.isEmpty then return ()
  out.putStrLn (answer (line.trimAscii.toString))
  loop h out

def main : IO Unit := do
  loop (← IO.getStdin) (← IO.getStdout)
