import PyYetiVerif.Model.SuCoef
import PyYetiVerif.Model.SuCoefCoupled
import PyYetiVerif.Model.SuPartition
/-! Line protocol for C01.  Floats travel as decimal `UInt64` bit patterns.

`coef <m|none> <b> <k> <h> <rb: n|0|1> <rf: 0|1>`
      -> `<regime> F G A B Fp Gp Ap Bp`  |  `partition-error`
`cplx <re> <im> <h>` -> `<small:0|1> FeRe FeIm AeRe AeIm BeRe BeIm`
`part <n> <rb: n | c i1 … ic> <rf: c i1 … ic> <small: n bits 0/1 by global index>`
      -> `nonrf|rf|rb|el|_rb|_el|coefrb|slices` (index lists, blank separated; slices 0/1)
`sys <order> <h> <n> <mkind: none|vec> [m × n] <b × n> <k × n> <rb: n | c i…> <rf: c i…>
     <static 0|1> <d0: n | y d0 × n> <v0: n | y v0 × n> <nt> <force: n*nt row-major>`
      -> `ok <d n*nt> <v n*nt> <a n*nt>` | `err:partition` | `err:index`
`partc <n> <rf: c i1 … ic> <k: nr*nr row-major> <b: nr*nr row-major>`   (coupled auto-detection, `nr = n - c`)
      -> as `part`
`cpl <order> <h> <n> <N> <lam: 2N> <urV: 2nN> <urD: 2nN> <invV: 2Nn> <invD: 2Nn> <d0: n> <v0: n> <nt>
     <imf: n*nt row-major>`   (complex numbers as re im pairs, matrices row-major)
      -> `ok <d n*nt> <v n*nt>`   (`coupledRun`: real recovery after `delconj`)
`rbrun <order> <h> <nt> <d0> <v0> <rbforce: nt>` -> `ok <d nt> <v nt>`   (`rbStep` loop, one mode)
`exp2 <order> <n> <E: 2n*2n> <P: 2n*n> <Q: 2n*n | absent for order 0> <d0: n> <v0: n> <nt> <imf: n*nt>`
      -> `ok <d n*nt> <v n*nt>`   (`runExp`)
anything else -> `bad-op`. -/
open PyYetiVerif.SuCoef PyYetiVerif.SuPartition

instance : TransOps Float := ⟨Float.exp, Float.cos, Float.sin, Float.sqrt, Float.abs⟩

/-- complex doubles for `_get_complex_su_coefs` -/
structure CF where
  re : Float
  im : Float

namespace CF
instance : Add CF := ⟨fun a b => ⟨a.re + b.re, a.im + b.im⟩⟩
instance : Sub CF := ⟨fun a b => ⟨a.re - b.re, a.im - b.im⟩⟩
instance : Neg CF := ⟨fun a => ⟨-a.re, -a.im⟩⟩
instance : Mul CF := ⟨fun a b => ⟨a.re * b.re - a.im * b.im, a.re * b.im + a.im * b.re⟩⟩
instance : Div CF := ⟨fun a b =>
  let d := b.re * b.re + b.im * b.im
  ⟨(a.re * b.re + a.im * b.im) / d, (a.im * b.re - a.re * b.im) / d⟩⟩
instance (n : Nat) : OfNat CF n := ⟨⟨n.toFloat, 0⟩⟩
def cexp (z : CF) : CF := let e := Float.exp z.re; ⟨e * Float.cos z.im, e * Float.sin z.im⟩
/-- only `exp` is used by `cplxCoef`; the other fields are never evaluated -/
instance : TransOps CF := ⟨cexp, id, id, id, id⟩
end CF

def fbits (s : String) : Option Float := (s.toNat?).map fun n => Float.ofBits (UInt64.ofNat n)
def showF (x : Float) : String := toString x.toBits.toNat

def cutsF (h : Float) : Cuts Float :=
  { rbTol := 0.005, critTol := 1.0e-8, veloCut := 1e-5 / Float.sqrt h,
    dispCut := 10 * Float.pow (1e-10 / h) (1 / 3) }

def regimeName : Regime → String
  | .rigid => "rigid" | .rigidVelo => "rigidVelo" | .rigidFull => "rigidFull"
  | .under => "under" | .crit => "crit" | .over => "over" | .rf => "rf"

def showCoefs (c : Coefs Float) : String :=
  " ".intercalate ([c.F, c.G, c.A, c.B, c.Fp, c.Gp, c.Ap, c.Bp].map showF)

def doCoef (ws : List String) : Option String := do
  match ws with
  | [ms, bs, ks, hs, rbs, rfs] =>
    let m : Option Float ← if ms == "none" then some none else (fbits ms).map some
    let b ← fbits bs
    let k ← fbits ks
    let h ← fbits hs
    let rbG : Option Bool ← match rbs with
      | "n" => some none | "0" => some (some false) | "1" => some (some true) | _ => none
    let isRf ← match rfs with | "0" => some false | "1" => some true | _ => none
    match classify (cutsF h) (m.getD 1) b k rbG isRf with
    | none => pure "partition-error"
    | some r => pure (regimeName r ++ " " ++ showCoefs (suCoefOpt r m b k h))
  | _ => none

def doCplx (ws : List String) : Option String := do
  match ws with
  | [res, ims, hs] =>
    let re ← fbits res
    let im ← fbits ims
    let h ← fbits hs
    let lam : CF := ⟨re, im⟩
    let small : Bool := Float.sqrt (re * re + im * im) < 5.0e-5
    let c : CF × CF × CF := if small then cplxSmall ⟨h, 0⟩ else cplxCoef lam ⟨h, 0⟩
    pure ((if small then "1 " else "0 ") ++ " ".intercalate
      ([c.1.re, c.1.im, c.2.1.re, c.2.1.im, c.2.2.re, c.2.2.im].map showF))
  | _ => none

/-- read `cnt` items with `f` -/
def takeN {β : Type} (f : String → Option β) (cnt : Nat) (ws : List String) :
    Option (List β × List String) :=
  if ws.length < cnt then none else do
    let xs ← (ws.take cnt).mapM f
    pure (xs, ws.drop cnt)

def readIdx (ws : List String) : Option (List Nat × List String) :=
  match ws with
  | c :: rest => do let n ← c.toNat?; takeN String.toNat? n rest
  | [] => none

def readOptIdx (ws : List String) : Option (Option (List Nat) × List String) :=
  match ws with
  | "n" :: rest => some (none, rest)
  | _ => (readIdx ws).map fun (l, r) => (some l, r)

def showIdx (l : List Nat) : String := " ".intercalate (l.map toString)

def doPart (ws : List String) : Option String := do
  match ws with
  | ns :: rest =>
    let n ← ns.toNat?
    let (rb, rest) ← readOptIdx rest
    let (rf, rest) ← readIdx rest
    let (sm, rest) ← takeN (fun s => if s == "1" then some true else if s == "0" then some false else none) n rest
    if !rest.isEmpty then none
    let nr := nonrf n rf
    let p := mkPart n rb rf fun i => match nr[i]? with
      | some g => sm.getD g false
      | none => false
    pure ("|".intercalate [showIdx p.nonrf, showIdx p.rf, showIdx p.rb, showIdx p.el,
      showIdx p.rb', showIdx p.el', showIdx (coefRb p), if slicesFlag p then "1" else "0"])
  | [] => none

def getF (l : List Float) (i : Nat) : Float := l.getD i 0

/-- `_make_rb_el` for a coupled system with `rb=None`: the non-rf `k`, `b` are given -/
def doPartC (ws : List String) : Option String := do
  match ws with
  | ns :: rest =>
    let n ← ns.toNat?
    let (rf, rest) ← readIdx rest
    let nr := (nonrf n rf).length
    let (kl, rest) ← takeN fbits (nr * nr) rest
    let (bl, rest) ← takeN fbits (nr * nr) rest
    if !rest.isEmpty then none
    let rows (l : List Float) : List (List Float) := (List.range nr).map fun i => (l.drop (i * nr)).take nr
    let p := mkPart n none rf (smallCoupled Float.abs 0 (rows kl) (rows bl) 0.005)
    pure ("|".intercalate [showIdx p.nonrf, showIdx p.rf, showIdx p.rb, showIdx p.el,
      showIdx p.rb', showIdx p.el', showIdx (coefRb p), if slicesFlag p then "1" else "0"])
  | [] => none

instance : CplxOps CF Float := ⟨CF.re, CF.im, fun x => ⟨x, 0⟩⟩
instance : Zero CF := ⟨⟨0, 0⟩⟩

def readCF (ws : List String) (cnt : Nat) : Option (Array CF × List String) := do
  let (l, rest) ← takeN fbits (2 * cnt) ws
  let a := l.toArray
  pure ((Array.range cnt).map (fun i => (⟨a.getD (2 * i) 0, a.getD (2 * i + 1) 0⟩ : CF)), rest)

def showRows {n : Nat} (nt : Nat) (samples : Array (Fin n → Float)) : String :=
  " ".intercalate ((List.finRange n).flatMap fun j =>
    (List.range nt).map fun t => showF ((samples.getD t fun _ => 0) j))

/-- the elastic part of `_solve_complex_unc` (real system) from the implementation's own `pc` -/
def doCpl (ws : List String) : Option String := do
  match ws with
  | os :: hs :: ns :: Ns :: rest =>
    let order1 ← match os with | "1" => some true | "0" => some false | _ => none
    let h ← fbits hs
    let n ← ns.toNat?
    let N ← Ns.toNat?
    let (lam, rest) ← readCF rest N
    let (urV, rest) ← readCF rest (n * N)
    let (urD, rest) ← readCF rest (n * N)
    let (invV, rest) ← readCF rest (N * n)
    let (invD, rest) ← readCF rest (N * n)
    let (d0, rest) ← takeN fbits n rest
    let (v0, rest) ← takeN fbits n rest
    let (nt, rest) ← match rest with | s :: r => s.toNat?.map fun x => (x, r) | [] => none
    let (fl, rest) ← takeN fbits (n * nt) rest
    if !rest.isEmpty then none
    let z : CF := ⟨0, 0⟩
    let e : Eig CF n N :=
      { lam := fun k => lam.getD k.val z
        urV := fun j k => urV.getD (j.val * N + k.val) z
        urD := fun j k => urD.getD (j.val * N + k.val) z
        invV := fun k j => invV.getD (k.val * n + j.val) z
        invD := fun k j => invD.getD (k.val * n + j.val) z }
    let fa := fl.toArray
    let imf : List (Fin n → Float) := (List.range nt).map fun t => fun j => fa.getD (j.val * nt + t) 0
    let isSmall : CF → Bool := fun l => Float.sqrt (l.re * l.re + l.im * l.im) < 5.0e-5
    let d0a := d0.toArray
    let v0a := v0.toArray
    let out := (coupledRun order1 isSmall (⟨h, 0⟩ : CF) e (fun j => d0a.getD j.val 0)
      (fun j => v0a.getD j.val 0) imf).toArray
    pure ("ok " ++ showRows nt (out.map (·.1)) ++ " " ++ showRows nt (out.map (·.2)))
  | _ => none

/-- the rigid-body loop of `_solve_complex_unc`, one mode (force already divided by the mass) -/
def doRbRun (ws : List String) : Option String := do
  match ws with
  | os :: hs :: nts :: d0s :: v0s :: rest =>
    let order1 ← match os with | "1" => some true | "0" => some false | _ => none
    let h ← fbits hs
    let nt ← nts.toNat?
    let d0 ← fbits d0s
    let v0 ← fbits v0s
    let (f, rest) ← takeN fbits nt rest
    if !rest.isEmpty then none
    let rec go : List Float → Float × Float → List (Float × Float)
      | [], _ => []
      | [_], dv => [dv]
      | f0 :: f1 :: fs, dv => dv :: go (f1 :: fs) (rbStep order1 h dv f0 f1)
    let hist := go f (d0, v0)
    pure ("ok " ++ " ".intercalate ((hist.map Prod.fst ++ hist.map Prod.snd).map showF))
  | _ => none

/-- the loop of `SolveExp2.tsolve` from the implementation's own `E, P, Q` -/
def doExp2 (ws : List String) : Option String := do
  match ws with
  | os :: ns :: rest =>
    let order1 ← match os with | "1" => some true | "0" => some false | _ => none
    let n ← ns.toNat?
    let (E, rest) ← takeN fbits (4 * n * n) rest
    let (P, rest) ← takeN fbits (2 * n * n) rest
    let (Q, rest) ← if order1 then takeN fbits (2 * n * n) rest else some ([], rest)
    let (d0, rest) ← takeN fbits n rest
    let (v0, rest) ← takeN fbits n rest
    let (nt, rest) ← match rest with | s :: r => s.toNat?.map fun x => (x, r) | [] => none
    let (fl, rest) ← takeN fbits (n * nt) rest
    if !rest.isEmpty then none
    let Ea := E.toArray
    let Pa := P.toArray
    let Qa := Q.toArray
    let c : ExpCoef Float n :=
      { Evv := fun i j => Ea.getD (i.val * (2 * n) + j.val) 0
        Evd := fun i j => Ea.getD (i.val * (2 * n) + (n + j.val)) 0
        Edv := fun i j => Ea.getD ((n + i.val) * (2 * n) + j.val) 0
        Edd := fun i j => Ea.getD ((n + i.val) * (2 * n) + (n + j.val)) 0
        Pv := fun i j => Pa.getD (i.val * n + j.val) 0
        Pd := fun i j => Pa.getD ((n + i.val) * n + j.val) 0
        Qv := fun i j => Qa.getD (i.val * n + j.val) 0
        Qd := fun i j => Qa.getD ((n + i.val) * n + j.val) 0 }
    let fa := fl.toArray
    let imf : List (Fin n → Float) := (List.range nt).map fun t => fun j => fa.getD (j.val * nt + t) 0
    let d0a := d0.toArray
    let v0a := v0.toArray
    let out := (runExp order1 c (fun j => d0a.getD j.val 0, fun j => v0a.getD j.val 0) imf).toArray
    pure ("ok " ++ showRows nt (out.map (·.1)) ++ " " ++ showRows nt (out.map (·.2)))
  | _ => none

/-- the uncoupled real path of `SolveUnc(m, b, k, h, rb, rf, order).tsolve(force, d0, v0, static_ic)` -/
def doSys (ws : List String) : Option String := do
  match ws with
  | os :: hs :: ns :: mk :: rest =>
    let order1 ← match os with | "1" => some true | "0" => some false | _ => none
    let h ← fbits hs
    let n ← ns.toNat?
    let (m, rest) : Option (List Float) × List String ←
      if mk == "none" then some (none, rest)
      else if mk == "vec" then (takeN fbits n rest).map fun (l, r) => (some l, r) else none
    let (b, rest) ← takeN fbits n rest
    let (k, rest) ← takeN fbits n rest
    let (rb, rest) ← readOptIdx rest
    let (rf, rest) ← readIdx rest
    let (static, rest) ← match rest with
      | "1" :: r => some (true, r) | "0" :: r => some (false, r) | _ => none
    let readOptVec : List String → Option (Option (List Float) × List String) := fun ws =>
      match ws with
      | "n" :: r => some (none, r)
      | "y" :: r => (takeN fbits n r).map fun (l, r) => (some l, r)
      | _ => none
    let (d0, rest) ← readOptVec rest
    let (v0, rest) ← readOptVec rest
    let (nt, rest) ← match rest with | s :: r => s.toNat?.map fun x => (x, r) | [] => none
    let (fl, rest) ← takeN fbits (n * nt) rest
    if !rest.isEmpty then none
    let force : Nat → List Float := fun g => (fl.drop (g * nt)).take nt
    -- partition bookkeeping
    let nr := nonrf n rf
    let p := mkPart n rb rf fun i => match nr[i]? with
      | some g => smallUnc Float.abs 0 k 0.005 g
      | none => false
    -- get_su_coef(self.m, self.b, self.k, h, self.rb) on the non-rf partitions
    match pvrbOf nr.length (coefRb p) with
    | none => pure "err:index"
    | some pvrb =>
      let cut := cutsF h
      let regs := nr.zipIdx.map fun (g, i) =>
        classify cut (match m with | some mv => getF mv g | none => 1) (getF b g) (getF k g)
          (some (pvrb.getD i false)) false
      if regs.any Option.isNone then pure "err:partition" else
      let zero : List Float := List.replicate nt 0
      -- static initial conditions: `static_ic and self.elsize and F0[self.el].any()`
      let useSt := useStatic static d0.isSome (p.el.map fun g => getF (force g) 0)
      let rows : List (List Float × List Float × List Float) := (List.range n).map fun g =>
        if rf.contains g then
          -- d[rf] = ikrf * force[rf], ikrf = 1.0 / krf
          ((force g).map fun f => rfRow (getF k g) f, zero, zero)
        else
          match nr.idxOf? g with
          | none => (zero, zero, zero)
          | some i =>
            let mo : Option Float := m.map fun mv => getF mv g
            let r := (regs.getD i none).getD .rigid
            let c := suCoefOpt r mo (getF b g) (getF k g) h
            let dInit : Float := initD (d0.map fun dv => getF dv g) useSt (p.el.contains g) (getF k g)
              (getF (force g) 0)
            let vInit : Float := initV (v0.map fun vv => getF vv g)
            let hist := runUnc order1 c (dInit, vInit) (force g)
            let d := hist.map Prod.fst
            let v := hist.map Prod.snd
            let a := (List.range nt).map fun j =>
              match mo with
              | some mm => calcAcce mm (getF b g) (getF k g) (getF d j) (getF v j) (getF (force g) j)
              | none => calcAcceNone (getF b g) (getF k g) (getF d j) (getF v j) (getF (force g) j)
            (d, v, a)
      let out (sel : List Float × List Float × List Float → List Float) : String :=
        " ".intercalate ((rows.map sel).flatten.map showF)
      pure ("ok " ++ out (·.1) ++ " " ++ out (·.2.1) ++ " " ++ out (·.2.2))
  | _ => none

def answer (line : String) : String :=
  let r := match (line.splitOn " ").filter (· ≠ "") with
    | "coef" :: ws => doCoef ws
    | "cplx" :: ws => doCplx ws
    | "part" :: ws => doPart ws
    | "sys" :: ws => doSys ws
    | "partc" :: ws => doPartC ws
    | "cpl" :: ws => doCpl ws
    | "rbrun" :: ws => doRbRun ws
    | "exp2" :: ws => doExp2 ws
    | _ => none
  r.getD "bad-op"

partial def loop (h : IO.FS.Stream) (out : IO.FS.Stream) : IO Unit := do
  let line ← h.getLine
  if line.isEmpty then return ()
  out.putStrLn (answer (line.trimAscii.toString))
  loop h out

def main : IO Unit := do
  loop (← IO.getStdin) (← IO.getStdout)
