import PyYetiVerif.Model.NT
import PyYetiVerif.Model.NTCbtf
import PyYetiVerif.Model.NTPack
/-! Line protocol for C15.  Floats travel as decimal `UInt64` bit patterns; complex numbers as
two consecutive floats (re, im); arrays flat in C order.

request                                                            reply
`ntfl b nf SAM(2·b·nf·b) LAM(2·b·nf·b) As(2·b·nf)`                   `A|F|R|TAM`  (2·b·nf, 2·b·nf, 2·b·nf, 2·b·nf·b)
`amdrm r n nf M(2·n·n) B(2·n·n) K(2·n·n) T(2·r·n) freq(nf)`           `AM` (2·r·nf·r)   recovery-matrix form
`ampv  r n nf M(2·n·n) B(2·n·n) K(2·n·n) bset(r naturals) freq(nf)`   `AM` (2·r·nf·r)   partition-vector form
`idx3 nf b i j k`                                                   `<offset>`
`cbtf r n nf M B K bset(r) a(2·r·nf) freq(nf)`                       `frc|a|d|v`  full `cb.cbtf` (Model/NTCbtf), complex Float
`ampvf r n nf M B K bset(r) freq(nf)`                                `AM`  calcAM column by column from `cbtfCol` (unit accelerations)
`ntflf b nf SAM LAM As`                                              `A|F|R|TAM`  `ntflF` (Model/NTPack), complex Float
`cbtfx r n den M B K bset(r) a(2·r)`    (integers / den)             `frc|a|d|v|ok`  `cbtf` at f = 0, exact Gaussian rationals
`ntflx b nf den SAM LAM As`             (integers / den)             `A|F|R|TAM|ok`  `ntflF`, exact; `ok` = solver spec verified exactly
`flippv n bset...`                                                   the q-set
`packa v len lenf nb` / `packa m rows cols lenf nb`                  `ok r c` / `err <message>`
`packas lenf r c r' rl cl rl' k d1..dk`                              `ok` shapes / `err <kind>`
anything else → `bad-op` -/
open PyYetiVerif.NT

def parseF (s : String) : Option Float := s.toNat?.map fun n => Float.ofBits (UInt64.ofNat n)
def fmtF (x : Float) : String := toString x.toBits.toNat

def parseCs (ws : Array String) (off n : Nat) : Option (Array Cx) := do
  let mut out : Array Cx := Array.mkEmpty n
  for i in [0:n] do
    let re ← parseF (← ws[off + 2 * i]?)
    let im ← parseF (← ws[off + 2 * i + 1]?)
    out := out.push ⟨re, im⟩
  return out

def parseFsA (ws : Array String) (off n : Nat) : Option (Array Float) := do
  let mut out : Array Float := Array.mkEmpty n
  for i in [0:n] do
    out := out.push (← parseF (← ws[off + i]?))
  return out

def parseNsA (ws : Array String) (off n : Nat) : Option (Array Nat) := do
  let mut out : Array Nat := Array.mkEmpty n
  for i in [0:n] do
    out := out.push (← (← ws[off + i]?).toNat?)
  return out

def fmtCs (xs : Array Cx) : String :=
  " ".intercalate (xs.toList.map fun z => fmtF z.re ++ " " ++ fmtF z.im)


/-! ### the function models at complex `Float` and at exact Gaussian rationals -/

def cxAbs2 (z : Cx) : Float := z.abs2

/-- `A⁻¹ X` for function matrices through `gaussSolve`; zeros when singular -/
def solveFn {α : Type} [Inhabited α] [Zero α] [Sub α] [Mul α] [Inv α]
    (isZero : α → Bool) (better : α → α → Bool) {n m : Nat}
    (A : Fin n → Fin n → α) (X : Fin n → Fin m → α) : Option (Fin n → Fin m → α) :=
  let a := Array.ofFn (n := n) fun i => Array.ofFn (n := n) fun j => A i j
  let x := Array.ofFn (n := n) fun i => Array.ofFn (n := m) fun j => X i j
  match gaussSolve isZero better n m (fun i j => (a.getD i #[]).getD j 0) (fun i j => (x.getD i #[]).getD j 0) with
  | none => none
  | some rows => some fun i j => (rows.getD i.1 #[]).getD j.1 0

def cxIsZero (z : Cx) : Bool := z.re == 0 && z.im == 0
def cxBetter (p q : Cx) : Bool := q.abs2 > p.abs2
def gqIsZero (z : GQ) : Bool := z.re == 0 && z.im == 0
def gqBetter (p q : GQ) : Bool := gqIsZero p && !gqIsZero q

/-- the q-q solver: `(s2 M + s B + K) d = f` -/
def mkSolver {α : Type} [Inhabited α] [Zero α] [Add α] [Sub α] [Mul α] [Inv α]
    (isZero : α → Bool) (better : α → α → Bool) {nq : Nat}
    (Mqq Bqq Kqq : Fin nq → Fin nq → α) : QSolver α nq :=
  fun sc f =>
    let Z : Fin nq → Fin nq → α := fun i j => sc.s2 * Mqq i j + sc.s * Bqq i j + Kqq i j
    match solveFn isZero better Z (fun i (_ : Fin 1) => f i) with
    | none => fun _ => 0
    | some d => fun i => d i 0

def scOfFreq (f : Float) : FreqSc Cx :=
  let w := twoPi * f
  if w == 0 then FreqSc.zero else ⟨⟨0, w⟩, ⟨-(w * w), 0⟩, ⟨0, 1 / w⟩, ⟨-1 / (w * w), 0⟩⟩

def fnOfArr {α : Type} [Inhabited α] (x : Array α) (n : Nat) : Fin n → Fin n → α :=
  fun i j => x.getD (i.1 * n + j.1) default

/-- index functions of a validated partition vector -/
structure Part (n r nq : Nat) where
  bpos : Fin r → Fin n
  qpos : Fin nq → Fin n
  loc : Fin n → Fin r ⊕ Fin nq

def validBset (n : Nat) (bset : Array Nat) : Bool :=
  bset.size > 0 && bset.all (· < n) && bset.toList.Nodup

def mkPart (n r nq : Nat) [NeZero n] [NeZero r] [NeZero nq] (bset qset : Array Nat) : Part n r nq :=
  -- the index functions of Model/NTCbtf (`posFn`, `locFn`; `bset_isPartition` proves they are a partition)
  { bpos := posFn n bset.toList r
    qpos := posFn n qset.toList nq
    loc := locFn bset.toList qset.toList r nq }

/-- all of `cbtf` for every frequency; outputs as rows-of-columns `(frc, a, d, v)` with the number of
rows of `a d v` (`n`, or `r` when the q-set is empty) -/
def runCbtf {α : Type} [Inhabited α] [Zero α] [Add α] [Sub α] [Mul α] [Inv α]
    (isZero : α → Bool) (better : α → α → Bool)
    (n : Nat) (M B K : Array α) (bset : Array Nat) (scs : Array (FreqSc α)) (a : Nat → Nat → α) :
    Option (Array (Array α × Array α × Array α × Array α)) :=
  if !validBset n bset then none else
  let qset := (flippv bset.toList n).toArray
  match n, bset.size, qset.size with
  | n' + 1, r' + 1, 0 =>
    let n := n' + 1
    let r := r' + 1
    let bpos : Fin r → Fin n := posFn n bset.toList r
    some (scs.mapIdx fun j sc =>
      let o := cbtfColE (fnOfArr M n) (fnOfArr B n) (fnOfArr K n) bpos (locFnE bset.toList r) sc (fun l => a l.1 j)
      (Array.ofFn o.frc, Array.ofFn o.a, Array.ofFn o.d, Array.ofFn o.v))
  | n' + 1, r' + 1, nq' + 1 =>
    let n := n' + 1
    let r := r' + 1
    let nq := nq' + 1
    let p : Part n r nq := mkPart n r nq bset qset
    let nf := scs.size
    let (outs, _) := cbtfCall (nf := nf) (mkSolver isZero better) none (fnOfArr M n) (fnOfArr B n) (fnOfArr K n)
      p.bpos p.qpos p.loc (fun j => scs.getD j.1 ⟨0, 0, 0, 0⟩) (fun l j => a l.1 j.1)
    some (Array.ofFn (n := nf) fun j =>
      let o := outs j
      (Array.ofFn o.frc, Array.ofFn o.a, Array.ofFn o.d, Array.ofFn o.v))
  | _, _, _ => none

/-- `calcAM`, partition-vector route, column by column (`calcAMpvCol` / `calcAMpvColE`) -/
def runAmpvF (n : Nat) (M B K : Array Cx) (bset : Array Nat) (freq : Array Float) : Option (Array Cx) :=
  if !validBset n bset then none else
  let qset := (flippv bset.toList n).toArray
  match n, bset.size, qset.size with
  | n' + 1, r' + 1, 0 =>
    let n := n' + 1
    let r := r' + 1
    let bpos : Fin r → Fin n := posFn n bset.toList r
    let ms := freq.map fun f =>
      let am := calcAMpvColE (fnOfArr M n) (fnOfArr B n) (fnOfArr K n) bpos (locFnE bset.toList r) (scOfFreq f)
      CMat.ofFn r r fun i k => if h : i < r ∧ k < r then am ⟨i, h.1⟩ ⟨k, h.2⟩ else Cx.zero
    some (pack3 r freq.size ms)
  | n' + 1, r' + 1, nq' + 1 =>
    let n := n' + 1
    let r := r' + 1
    let nq := nq' + 1
    let p : Part n r nq := mkPart n r nq bset qset
    let tf : QSolver Cx nq := mkSolver cxIsZero cxBetter (fun i j => fnOfArr M n (p.qpos i) (p.qpos j))
      (fun i j => fnOfArr B n (p.qpos i) (p.qpos j)) (fun i j => fnOfArr K n (p.qpos i) (p.qpos j))
    let ms := freq.map fun f =>
      let am := calcAMpvCol (fnOfArr M n) (fnOfArr B n) (fnOfArr K n) p.bpos p.qpos p.loc tf (scOfFreq f)
      CMat.ofFn r r fun i k => if h : i < r ∧ k < r then am ⟨i, h.1⟩ ⟨k, h.2⟩ else Cx.zero
    some (pack3 r freq.size ms)
  | _, _, _ => none

/-- `ntflF` for every frequency: `(A, F, R, TAM, specOk)`; `specOk` = `T · Mr = Ms` holds (`eq`) -/
def runNtflF {α : Type} [Inhabited α] [Zero α] [Add α] [Sub α] [Mul α] [Inv α]
    (isZero : α → Bool) (better : α → α → Bool) (eq : α → α → Bool)
    (b nf : Nat) (sam lam as : Array α) : Array (Array α × Array α × Array α × Array (Array α) × Bool) :=
  (Array.range nf).map fun j =>
    -- `la.solve(Ms + Ml, Ms)` for THIS frequency, computed once (a function returned by a compiled closure would be
    -- re-evaluated at every index); `ntflF` receives it as its `solve` parameter
    let Ms := slice3F 0 sam nf b j
    let Ml := slice3F 0 lam nf b j
    let pre : Array (Array α) :=
      match solveFn isZero better (fun i k => Ms i k + Ml i k) Ms with
      | none => #[]
      | some Y => Array.ofFn (n := b) fun i => Array.ofFn (n := b) fun k => Y i k
    let solve : (Fin b → Fin b → α) → (Fin b → Fin b → α) → (Fin b → Fin b → α) :=
      fun _ _ i k => (pre.getD i.1 #[]).getD k.1 0
    let o := ntflF 0 b nf solve sam lam as j
    let mr := Array.ofFn (n := b) fun i => Array.ofFn (n := b) fun k => o.Mr i k
    let mrf : Fin b → Fin b → α := fun i k => (mr.getD i.1 #[]).getD k.1 0
    let ok := (List.finRange b).all fun i => (List.finRange b).all fun k =>
      eq (fsum b fun l => o.TAM i l * mrf l k) (Ms i k)
    (Array.ofFn o.A, Array.ofFn o.F, Array.ofFn o.R,
      Array.ofFn (n := b) fun i => Array.ofFn (n := b) fun k => o.TAM i k, ok)

/-! ### exact transport: integers over a common denominator in, `num/den` out -/

def parseGQs (ws : Array String) (off n : Nat) (den : Nat) : Option (Array GQ) := do
  let mut out : Array GQ := Array.mkEmpty n
  for i in [0:n] do
    let re ← (← ws[off + 2 * i]?).toInt?
    let im ← (← ws[off + 2 * i + 1]?).toInt?
    out := out.push ⟨(re : Rat) / (den : Rat), (im : Rat) / (den : Rat)⟩
  return out

def fmtQ (q : Rat) : String := toString q.num ++ "/" ++ toString q.den
def fmtGQs (xs : Array GQ) : String := " ".intercalate (xs.toList.map fun z => fmtQ z.re ++ " " ++ fmtQ z.im)

/-- columns `j` of per-frequency vectors → row-major `(rows, nf)` -/
def rowsOfCols {α : Type} [Inhabited α] (rows : Nat) (cols : Array (Array α)) : Array α := Id.run do
  let mut out : Array α := Array.mkEmpty (rows * cols.size)
  for i in [0:rows] do
    for j in [0:cols.size] do
      out := out.push ((cols.getD j #[]).getD i default)
  return out

def answer (line : String) : String :=
  let ws := ((line.splitOn " ").filter (· ≠ "")).toArray
  let r : Option String :=
    match ws[0]? with
    | some "ntfl" => do
        let b ← (← ws[1]?).toNat?
        let nf ← (← ws[2]?).toNat?
        let n3 := b * nf * b
        let n2 := b * nf
        if ws.size ≠ 3 + 4 * n3 + 2 * n2 then none
        let sam ← parseCs ws 3 n3
        let lam ← parseCs ws (3 + 2 * n3) n3
        let as ← parseCs ws (3 + 4 * n3) n2
        let o := ntflArrays b nf sam lam as
        pure (fmtCs o.A ++ "|" ++ fmtCs o.F ++ "|" ++ fmtCs o.R ++ "|" ++ fmtCs o.TAM)
    | some "amdrm" => do
        let r ← (← ws[1]?).toNat?
        let n ← (← ws[2]?).toNat?
        let nf ← (← ws[3]?).toNat?
        if ws.size ≠ 4 + 6 * n * n + 2 * r * n + nf then none
        let M ← parseCs ws 4 (n * n)
        let B ← parseCs ws (4 + 2 * n * n) (n * n)
        let K ← parseCs ws (4 + 4 * n * n) (n * n)
        let T ← parseCs ws (4 + 6 * n * n) (r * n)
        let fr ← parseFsA ws (4 + 6 * n * n + 2 * r * n) nf
        pure (fmtCs (calcAMdrm ⟨n, n, M⟩ ⟨n, n, B⟩ ⟨n, n, K⟩ ⟨r, n, T⟩ fr))
    | some "ampv" => do
        let r ← (← ws[1]?).toNat?
        let n ← (← ws[2]?).toNat?
        let nf ← (← ws[3]?).toNat?
        if ws.size ≠ 4 + 6 * n * n + r + nf then none
        let M ← parseCs ws 4 (n * n)
        let B ← parseCs ws (4 + 2 * n * n) (n * n)
        let K ← parseCs ws (4 + 4 * n * n) (n * n)
        let bs ← parseNsA ws (4 + 6 * n * n) r
        let fr ← parseFsA ws (4 + 6 * n * n + r) nf
        pure (fmtCs (calcAMpv ⟨n, n, M⟩ ⟨n, n, B⟩ ⟨n, n, K⟩ bs fr))
    | some "cbtf" => do
        let r ← (← ws[1]?).toNat?
        let n ← (← ws[2]?).toNat?
        let nf ← (← ws[3]?).toNat?
        if ws.size ≠ 4 + 6 * n * n + r + 2 * r * nf + nf then none
        let M ← parseCs ws 4 (n * n)
        let B ← parseCs ws (4 + 2 * n * n) (n * n)
        let K ← parseCs ws (4 + 4 * n * n) (n * n)
        let bs ← parseNsA ws (4 + 6 * n * n) r
        let a ← parseCs ws (4 + 6 * n * n + r) (r * nf)
        let fr ← parseFsA ws (4 + 6 * n * n + r + 2 * r * nf) nf
        let outs ← runCbtf cxIsZero cxBetter n M B K bs (fr.map scOfFreq) (fun l j => a.getD (l * nf + j) Cx.zero)
        let rows := if n = r then r else n
        pure (fmtCs (rowsOfCols r (outs.map (·.1))) ++ "|" ++ fmtCs (rowsOfCols rows (outs.map (·.2.1))) ++ "|"
          ++ fmtCs (rowsOfCols rows (outs.map (·.2.2.1))) ++ "|" ++ fmtCs (rowsOfCols rows (outs.map (·.2.2.2))))
    | some "ampvf" => do
        let r ← (← ws[1]?).toNat?
        let n ← (← ws[2]?).toNat?
        let nf ← (← ws[3]?).toNat?
        if ws.size ≠ 4 + 6 * n * n + r + nf then none
        let M ← parseCs ws 4 (n * n)
        let B ← parseCs ws (4 + 2 * n * n) (n * n)
        let K ← parseCs ws (4 + 4 * n * n) (n * n)
        let bs ← parseNsA ws (4 + 6 * n * n) r
        let fr ← parseFsA ws (4 + 6 * n * n + r) nf
        pure (fmtCs (← runAmpvF n M B K bs fr))
    | some "ntflf" => do
        let b ← (← ws[1]?).toNat?
        let nf ← (← ws[2]?).toNat?
        let n3 := b * nf * b
        let n2 := b * nf
        if ws.size ≠ 3 + 4 * n3 + 2 * n2 then none
        let sam ← parseCs ws 3 n3
        let lam ← parseCs ws (3 + 2 * n3) n3
        let as ← parseCs ws (3 + 4 * n3) n2
        let o := runNtflF cxIsZero cxBetter (fun _ _ => true) b nf sam lam as
        let tamRows : Array Cx := Id.run do
          let mut T : Array Cx := Array.mkEmpty n3
          for i in [0:b] do
            for j in [0:nf] do
              for k in [0:b] do
                T := T.push (((o.getD j default).2.2.2.1.getD i #[]).getD k Cx.zero)
          return T
        pure (fmtCs (rowsOfCols b (o.map (·.1))) ++ "|" ++ fmtCs (rowsOfCols b (o.map (·.2.1))) ++ "|"
          ++ fmtCs (rowsOfCols b (o.map (·.2.2.1))) ++ "|" ++ fmtCs tamRows)
    | some "ntflx" => do
        let b ← (← ws[1]?).toNat?
        let nf ← (← ws[2]?).toNat?
        let den ← (← ws[3]?).toNat?
        let n3 := b * nf * b
        let n2 := b * nf
        if den = 0 ∨ ws.size ≠ 4 + 4 * n3 + 2 * n2 then none
        let sam ← parseGQs ws 4 n3 den
        let lam ← parseGQs ws (4 + 2 * n3) n3 den
        let as ← parseGQs ws (4 + 4 * n3) n2 den
        let o := runNtflF gqIsZero gqBetter (fun x y => decide (x = y)) b nf sam lam as
        let tamRows : Array GQ := Id.run do
          let mut T : Array GQ := Array.mkEmpty n3
          for i in [0:b] do
            for j in [0:nf] do
              for k in [0:b] do
                T := T.push (((o.getD j default).2.2.2.1.getD i #[]).getD k 0)
          return T
        pure (fmtGQs (rowsOfCols b (o.map (·.1))) ++ "|" ++ fmtGQs (rowsOfCols b (o.map (·.2.1))) ++ "|"
          ++ fmtGQs (rowsOfCols b (o.map (·.2.2.1))) ++ "|" ++ fmtGQs tamRows ++ "|"
          ++ (if o.all (·.2.2.2.2) then "ok" else "spec-failed"))
    | some "cbtfx" => do
        let r ← (← ws[1]?).toNat?
        let n ← (← ws[2]?).toNat?
        let den ← (← ws[3]?).toNat?
        if den = 0 ∨ ws.size ≠ 4 + 6 * n * n + r + 2 * r then none
        let M ← parseGQs ws 4 (n * n) den
        let B ← parseGQs ws (4 + 2 * n * n) (n * n) den
        let K ← parseGQs ws (4 + 4 * n * n) (n * n) den
        let bs ← parseNsA ws (4 + 6 * n * n) r
        let a ← parseGQs ws (4 + 6 * n * n + r) r den
        let outs ← runCbtf gqIsZero gqBetter n M B K bs #[FreqSc.zero] (fun l _ => a.getD l 0)
        let rows := if n = r then r else n
        pure (fmtGQs (rowsOfCols r (outs.map (·.1))) ++ "|" ++ fmtGQs (rowsOfCols rows (outs.map (·.2.1))) ++ "|"
          ++ fmtGQs (rowsOfCols rows (outs.map (·.2.2.1))) ++ "|" ++ fmtGQs (rowsOfCols rows (outs.map (·.2.2.2))))
    | some "flippv" => do
        let n ← (← ws[1]?).toNat?
        let bs ← parseNsA ws 2 (ws.size - 2)
        pure (" ".intercalate ((flippv bs.toList n).map toString) ++ ".")
    | some "packa" => do
        let sh ← match ws[1]? with
          | some "v" => do pure (AShape.vec (← (← ws[2]?).toNat?), 3)
          | some "m" => do pure (AShape.mat (← (← ws[2]?).toNat?) (← (← ws[3]?).toNat?), 4)
          | _ => none
        let lenf ← (← ws[sh.2]?).toNat?
        let nb ← (← ws[sh.2 + 1]?).toNat?
        match packA sh.1 lenf nb with
        | .ok (r, c) => pure ("ok " ++ toString r ++ " " ++ toString c)
        | .error e => pure ("err " ++ e)
    | some "packas" => do
        let v ← parseNsA ws 1 8
        let k := v[7]!
        let dims ← parseNsA ws 9 k
        match packAs v[0]! [v[1]!, v[2]!, v[3]!] [v[4]!, v[5]!, v[6]!] dims.toList with
        | .ok (a, t) => pure ("ok " ++ " ".intercalate (a.map toString) ++ " | " ++ " ".intercalate (t.map toString))
        | .error e => pure ("err " ++ e)
    | some "idx3" => do
        let v ← parseNsA ws 1 5
        pure (toString (idx3 v[0]! v[1]! v[2]! v[3]! v[4]!))
    | _ => none
  r.getD "bad-op"

partial def loop (h : IO.FS.Stream) (out : IO.FS.Stream) : IO Unit := do
  let line ← h.getLine
  if line.isEmpty then return ()
  out.putStrLn (answer (line.trimAscii.toString))
  loop h out

def main : IO Unit := do
  loop (← IO.getStdin) (← IO.getStdout)
