import PyYetiVerif.Model.NT
/-! Line protocol for C15.  Floats travel as decimal `UInt64` bit patterns; complex numbers as
two consecutive floats (re, im); arrays flat in C order.

request                                                            reply
`ntfl b nf SAM(2·b·nf·b) LAM(2·b·nf·b) As(2·b·nf)`                   `A|F|R|TAM`  (2·b·nf, 2·b·nf, 2·b·nf, 2·b·nf·b)
`amdrm r n nf M(2·n·n) B(2·n·n) K(2·n·n) T(2·r·n) freq(nf)`           `AM` (2·r·nf·r)   recovery-matrix form
`ampv  r n nf M(2·n·n) B(2·n·n) K(2·n·n) bset(r naturals) freq(nf)`   `AM` (2·r·nf·r)   partition-vector form
`idx3 nf b i j k`                                                   `<offset>`
anything else → `bad-op` -/
open PyYetiVerif.NT

def parseF (s : String) : Option Float := s.toNat?.map fun n => Float.ofBits (UInt64.ofNat n)
def fmtF (x : Float) : String := toString x.toBits.toNat

def parseCs (ws : Array String) (off n : Nat) : Option (Array Cx) := do
  let mut out : Array Cx := Array.mkEmpty n
  for i in [0:n] do
    let re ← parseF (← ws[off + 2 * i]?)
    let im ← parseF (← ws[off + 2 * i + 1]?)
    out := out.push ⟨re, im⟩
  return out

def parseFsA (ws : Array String) (off n : Nat) : Option (Array Float) := do
  let mut out : Array Float := Array.mkEmpty n
  for i in [0:n] do
    out := out.push (← parseF (← ws[off + i]?))
  return out

def parseNsA (ws : Array String) (off n : Nat) : Option (Array Nat) := do
  let mut out : Array Nat := Array.mkEmpty n
  for i in [0:n] do
    out := out.push (← (← ws[off + i]?).toNat?)
  return out

def fmtCs (xs : Array Cx) : String :=
  " ".intercalate (xs.toList.map fun z => fmtF z.re ++ " " ++ fmtF z.im)

def answer (line : String) : String :=
  let ws := ((line.splitOn " ").filter (· ≠ "")).toArray
  let r : Option String :=
    match ws[0]? with
    | some "ntfl" => do
        let b ← (← ws[1]?).toNat?
        let nf ← (← ws[2]?).toNat?
        let n3 := b * nf * b
        let n2 := b * nf
        if ws.size ≠ 3 + 4 * n3 + 2 * n2 then none
        let sam ← parseCs ws 3 n3
        let lam ← parseCs ws (3 + 2 * n3) n3
        let as ← parseCs ws (3 + 4 * n3) n2
        let o := ntflArrays b nf sam lam as
        pure (fmtCs o.A ++ "|" ++ fmtCs o.F ++ "|" ++ fmtCs o.R ++ "|" ++ fmtCs o.TAM)
    | some "amdrm" => do
        let r ← (← ws[1]?).toNat?
        let n ← (← ws[2]?).toNat?
        let nf ← (← ws[3]?).toNat?
        if ws.size ≠ 4 + 6 * n * n + 2 * r * n + nf then none
        let M ← parseCs ws 4 (n * n)
        let B ← parseCs ws (4 + 2 * n * n) (n * n)
        let K ← parseCs ws (4 + 4 * n * n) (n * n)
        let T ← parseCs ws (4 + 6 * n * n) (r * n)
        let fr ← parseFsA ws (4 + 6 * n * n + 2 * r * n) nf
        pure (fmtCs (calcAMdrm ⟨n, n, M⟩ ⟨n, n, B⟩ ⟨n, n, K⟩ ⟨r, n, T⟩ fr))
    | some "ampv" => do
        let r ← (← ws[1]?).toNat?
        let n ← (← ws[2]?).toNat?
        let nf ← (← ws[3]?).toNat?
        if ws.size ≠ 4 + 6 * n * n + r + nf then none
        let M ← parseCs ws 4 (n * n)
        let B ← parseCs ws (4 + 2 * n * n) (n * n)
        let K ← parseCs ws (4 + 4 * n * n) (n * n)
        let bs ← parseNsA ws (4 + 6 * n * n) r
        let fr ← parseFsA ws (4 + 6 * n * n + r) nf
        pure (fmtCs (calcAMpv ⟨n, n, M⟩ ⟨n, n, B⟩ ⟨n, n, K⟩ bs fr))
    | some "idx3" => do
        let v ← parseNsA ws 1 5
        pure (toString (idx3 v[0]! v[1]! v[2]! v[3]! v[4]!))
    | _ => none
  r.getD "bad-op"

partial def loop (h : IO.FS.Stream) (out : IO.FS.Stream) : IO Unit := do
  let line ← h.getLine
  if line.isEmpty then return ()
  out.putStrLn (answer (line.trimAscii.toString))
  loop h out

def main : IO Unit := do
  loop (← IO.getStdin) (← IO.getStdout)
