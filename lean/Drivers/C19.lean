import PyYetiVerif.Model.Fixtime
import PyYetiVerif.Model.FixtimeTnew
import PyYetiVerif.Model.FixtimeDrops
import PyYetiVerif.Model.Psd
import PyYetiVerif.Model.PsdOct
import PyYetiVerif.Model.Resample
import PyYetiVerif.Model.FixtimeFull
import PyYetiVerif.Model.FixtimeDespike
import PyYetiVerif.Model.PsdMod
import PyYetiVerif.Model.ResampleDtype
/-! Line protocol for C19.  Sections of a request are separated by `|`.
Rationals travel as `n` or `n/d` (exact); floats as decimal `UInt64` bit patterns.

exact (`Rat`)
`ssl a… | v…` / `ssr a… | v…`       → searchsorted left / right for every `v`
`cl told… | tnew…`                  → `_find_closest_times` (ints, may be -1) or `index-error`
`pv told… | tnew…`                  → `_find_closest_previous_times`
`cls told… | tnew…` / `pvs …`       → the numba (sequential) variants, or `index-error`
`fxd deldrops delout | told… | drop flags… | sortvec…` → `_del_drops/_del_outtimes/_get_alldrops`:
                                       `dropouts…(or none)|outtimes…|alldrops…|keep…`
`rlen ln p q`                       → length of `resample`'s output
`mkt sr | told…`                    → `_mk_initial_tnew`: `tnew…|tp…|align|delt|mismatch` or `raises`
`tn t0 t1 ln p q`                   → the returned positions `tnew`
`rcq ext | FLin | FUin | P | FL | FU` → `rescaleCore`:  `psd…|ms…|msv`
`rfq ext | P | F | freq`            → `rescaleFreq` (linear scales only, else `nonlinear`):
                                       `lo hi|psd…|ms…|msv` or `value-error`
`srq difft…`                        → `_sr_calcs`: `maxSr|minSr|aveSr|modeSr|modePct|dsr|byMode|defsr` (`inf`) or `raises`
`bsh t0 base sr`                    → the `base` shift `t1`
`dlo n nz | flags…`                 → `_del_loners`
`sgf n xp | x…`                     → `exclusive_sgfilter` (xp: f m l n k<int>) or `raises`
`dsp n sigma maxiter ts tv xp | x…` → `despike`: `pv…|niter` or `raises` (tv: `none` or a rational)
`dsd n sigma maxiter ts tv xp | x…` → `despike_diff`
`smp n sigma maxiter | d…`          → fixtime's `_simple_filter`
`fxk deldrops delout spikeN | dropval | told… | data…` → positions kept after `_del_drops`/`_del_outtimes` or `early`
`fxt deldrops delout hold | dropval sr tol base spikeN | told… | data… | sortvec… | spike flags…`
                                    → `fixtimeFull`: `early|tnew…|src…|dropouts|outtimes|spikes|alldrops|keep|sr|stats|tp|warnS warnL|shift`
                                      or `raises`
`rdt int|float32|float64`           → `resample`'s storage types: `mean buffer out`
numeric (`Float`)
`pmx row… ; row… ; …`               → `psdmod`'s last step: the row maxima (rows separated by `;`) or `raises`
`area f p f p …`                    → `psd.area`
`ilog x… | f p f p …` / `ilin …`    → `psd.interp(linear=False|True)`
`edges c…`                          → `_get_fl_fu`: `FL…|FU…|lin` (`lin` = 1 when the linear branch was taken)
`inedges c…`                        → edges of the input scale (`np.all(Df == Df[0])` first): `FL…|FU…|exact`
`edgesq c…` / `inedgesq c…`         → the same at `Rat` (linear branch only, else `nonlinear`)
`rcf …` / `rff …`                   → as `rcq` / `rfq` at `Float`
`oct exact trim | n fr0 e [anchor]`   → `get_freq_oct`: `F…|FL…|FU…` or `value-error` (trim: o c i)
`fir p q pts | w…`                  → FIR taps
`rs p q pts | w… | data…`           → `resample`
anything else → `bad-op` -/
open PyYetiVerif

def parseRat (s : String) : Option Rat :=
  match s.splitOn "/" with
  | [a] => a.toInt?.map fun n => (n : Rat)
  | [a, b] => do
      let n ← a.toInt?
      let d ← b.toNat?
      if d = 0 then none else some (mkRat n d)
  | _ => none
def parseRats (ws : List String) : Option (List Rat) := ws.mapM parseRat
def fmtRat (r : Rat) : String := if r.den = 1 then s!"{r.num}" else s!"{r.num}/{r.den}"
def fmtRats (l : List Rat) : String := " ".intercalate (l.map fmtRat)

def parseF (s : String) : Option Float := s.toNat?.map fun n => Float.ofBits (UInt64.ofNat n)
def parseFs (ws : List String) : Option (List Float) := ws.mapM parseF
def fmtF (x : Float) : String := toString x.toBits.toNat
def fmtFs (xs : List Float) : String := " ".intercalate (xs.map fmtF)

def words (s : String) : List String := (s.splitOn " ").filter (· ≠ "")
def fmtNats (l : List Nat) : String := " ".intercalate (l.map toString)

instance : Psd.PsdOps Float := ⟨Float.log, Float.exp, Float.sqrt⟩
/-- `Rat` runs only the linear band scales (the driver refuses the others), `sqrt` is unused. -/
instance : Psd.PsdOps Rat := ⟨fun _ => 0, fun _ => 0, fun _ => 0⟩
instance : NatCast Float := ⟨Float.ofNat⟩
instance : PsdOct.OctOps Float :=
  ⟨Float.log2, Float.log10, Float.pow, Float.floor,
    fun x => if x ≤ 0 then 0 else if x.isFinite then x.ceil.toUInt64.toNat else 0⟩
instance : Resample.SincOps Float := ⟨Float.sin, 3.141592653589793⟩

def pairs {β : Type} : List β → Option (List (β × β))
  | [] => some []
  | a :: b :: r => (pairs r).map ((a, b) :: ·)
  | _ => none

def parseBool : String → Option Bool
  | "1" => some true | "0" => some false | _ => none

def fmtResQ (r : Psd.Rescaled Rat) : String :=
  s!"{fmtRats r.psd}|{fmtRats r.ms}|{fmtRat r.msv}"
def fmtResF (r : Psd.Rescaled Float) : String :=
  s!"{fmtFs r.psd}|{fmtFs r.ms}|{fmtF r.msv}"

def parseSample (s : String) : Option Fixtime.Sample :=
  if s == "nan" then some .nan else if s == "inf" then some .inf else (parseRat s).map .fin
def parseOptRat (s : String) : Option (Option Rat) :=
  if s == "none" || s == "auto" then some none else (parseRat s).map some
def parseOptNat (s : String) : Option (Option Nat) :=
  if s == "none" then some none else s.toNat?.map some
def parseXP (s : String) : Option Despike.XP :=
  match s with
  | "f" => some .first | "m" => some .middle | "l" => some .last | "n" => some .none
  | _ => if s.startsWith "k" then (s.drop 1).toString.toNat?.map .idx else none
def fmtBools (l : List Bool) : String := " ".intercalate (l.map fun b => if b then "1" else "0")
def fmtStats (st : Fixtime.SrStats) : String :=
  let mx := match st.maxSr with | some v => fmtRat v | none => "inf"
  s!"{mx} {fmtRat st.minSr} {fmtRat st.aveSr} {fmtRat st.modeSr} {fmtRat st.modePct} {fmtRat st.dsr} {if st.byMode then 1 else 0} {fmtRat st.defsr}"
def fmtOptNats (l : Option (List Nat)) : String := match l with | some v => fmtNats v | none => "none"
def fmtDespike (r : Option Despike.Result) : String :=
  match r with
  | some r => s!"{fmtBools r.pv}|{r.niter}"
  | none => "raises"

def answer (line : String) : String :=
  let secs := (line.splitOn "|").map words
  let r : Option String :=
    match secs with
    | [("ssl" :: a), v] => do
        let a ← parseRats a; let v ← parseRats v
        pure (fmtNats (v.map (Fixtime.ssLeft a)))
    | [("ssr" :: a), v] => do
        let a ← parseRats a; let v ← parseRats v
        pure (fmtNats (v.map (Fixtime.ssRight a)))
    | [("cl" :: a), v] => do
        let a ← parseRats a; let v ← parseRats v
        match v.mapM (Fixtime.closest a) with
        | some idx => pure (" ".intercalate (idx.map toString))
        | none => pure "index-error"
    | [("pv" :: a), v] => do
        let a ← parseRats a; let v ← parseRats v
        pure (fmtNats (v.map (Fixtime.prevIdx a)))
    | [("cls" :: a), v] => do
        let a ← parseRats a; let v ← parseRats v
        match Fixtime.closestSeq a v with
        | some idx => pure (fmtNats idx)
        | none => pure "index-error"
    | [("pvs" :: a), v] => do
        let a ← parseRats a; let v ← parseRats v
        match Fixtime.prevSeq a v with
        | some idx => pure (fmtNats idx)
        | none => pure "index-error"
    | [["fxd", dd, dout], told, flags, sv] => do
        let dd ← parseBool dd; let dout ← parseBool dout
        let told ← parseRats told
        let flags ← flags.mapM parseBool
        let sv ← sv.mapM (·.toNat?)
        let r := Fixtime.fixtimeDrops told flags dd dout (if sv.isEmpty then none else some sv)
        let d := match r.dropouts with | some d => fmtNats d | none => "none"
        pure s!"{d}|{fmtNats r.outtimes}|{fmtNats r.alldrops}|{fmtNats r.keep}"
    | [["mkt", sr], told] => do
        let sr ← parseRat sr; let told ← parseRats told
        match Fixtime.mkInitialTnew told sr with
        | some r => pure s!"{fmtRats r.tnew}|{fmtNats r.tp}|{if r.align then 1 else 0}|{fmtRat r.delt}|{if r.mismatch then 1 else 0}"
        | none => pure "raises"
    | [("srq" :: d)] => do
        let d ← parseRats d
        match Fixtime.srCalcs d with
        | some st => pure (fmtStats st)
        | none => pure "raises"
    | [["bsh", t0, b, sr]] => do
        let t0 ← parseRat t0; let b ← parseRat b; let sr ← parseRat sr
        pure (fmtRat (Fixtime.baseShift t0 b sr))
    | [["dlo", n, nz], flags] => do
        let n ← n.toNat?; let nz ← nz.toNat?; let flags ← flags.mapM parseBool
        pure (fmtBools (Fixtime.delLoners flags n nz))
    | [["sgf", n, xp], x] => do
        let n ← n.toNat?; let xp ← parseXP xp; let x ← parseRats x
        match Despike.sgFilter x n xp with
        | some d => pure (fmtRats d)
        | none => pure "raises"
    | [["dsp", n, sg, mi, ts, tv, xp], x] => do
        let n ← n.toNat?; let sg ← parseRat sg; let mi ← mi.toInt?; let ts ← parseRat ts
        let tv ← parseOptRat tv; let xp ← parseXP xp; let x ← parseRats x
        pure (fmtDespike (Despike.despike x n sg mi ts tv xp))
    | [["dsd", n, sg, mi, ts, tv, xp], x] => do
        let n ← n.toNat?; let sg ← parseRat sg; let mi ← mi.toInt?; let ts ← parseRat ts
        let tv ← parseOptRat tv; let xp ← parseXP xp; let x ← parseRats x
        pure (fmtDespike (Despike.despikeDiff x n sg mi ts tv xp))
    | [["smp", n, sg, mi], x] => do
        let n ← n.toNat?; let sg ← parseRat sg; let mi ← mi.toInt?; let x ← parseRats x
        pure (fmtDespike (Despike.simpleFilter x n sg mi))
    | [["fxk", dd, dout, spn], [dv], told, data] => do
        let dd ← parseBool dd; let dout ← parseBool dout; let spn ← parseOptNat spn
        let dv ← parseOptRat dv; let told ← parseRats told; let data ← data.mapM parseSample
        let drop0 := Fixtime.findDrops data dv
        let drop := match spn with
          | some w => if drop0.any id then Fixtime.delLoners drop0 w else drop0
          | none => drop0
        let keep0 := if dd then Fixtime.nonzeroIdx (drop.map not) else List.range told.length
        if dd && keep0.isEmpty then pure "early" else
        pure (fmtNats (Fixtime.delOuttimes told keep0 dout).1)
    | [["fxt", dd, dout, hold], [dv, sr, tol, base, spn], told, data, sv, spk] => do
        let dd ← parseBool dd; let dout ← parseBool dout; let hold ← parseBool hold
        let dv ← parseOptRat dv; let sr ← parseOptRat sr; let tol ← parseRat tol
        let base ← parseOptRat base; let spn ← parseOptNat spn
        let told ← parseRats told; let data ← data.mapM parseSample
        let sv ← sv.mapM (·.toNat?); let spk ← spk.mapM parseBool
        let o : Fixtime.FixOpts := ⟨dd, dv, dout, spn, sr, hold, tol, base⟩
        match Fixtime.fixtimeFull told data (if sv.isEmpty then none else some sv) o (fun _ => spk) with
        | none => pure "raises"
        | some r =>
          let st := match r.stats with | some st => fmtStats st | none => "none"
          pure s!"{if r.early then 1 else 0}|{fmtRats r.tnew}|{fmtNats r.src}|{fmtOptNats r.dropouts}|{fmtNats r.outtimes}|{fmtOptNats r.spikes}|{fmtNats r.alldrops}|{fmtNats r.keep}|{fmtRat r.sr}|{st}|{fmtNats r.tp}|{if r.warnSmall then 1 else 0} {if r.warnLarge then 1 else 0}|{fmtRat r.shift}"
    | [["rdt", d]] => do
        let d ← match d with
          | "int" => some Resample.DType.int | "float32" => some Resample.DType.float32
          | "float64" => some Resample.DType.float64 | _ => none
        let nm := fun (t : Resample.DType) => match t with
          | .int => "int" | .float32 => "float32" | .float64 => "float64"
        pure s!"{nm (Resample.meanType d)} {nm (Resample.bufferType d)} {nm (Resample.outType d)}"
    | [("pmx" :: rest)] => do
        let rows := (" ".intercalate rest).splitOn ";"
        let rows ← rows.mapM fun r => parseFs (words r)
        match PsdMod.psdmodOf rows with
        | some p => pure (fmtFs p)
        | none => pure "raises"
    | [["rlen", ln, p, q]] => do
        let ln ← ln.toNat?; let p ← p.toNat?; let q ← q.toNat?
        if p = 0 ∨ q = 0 then none else pure (toString (Resample.resampleLen ln p q))
    | [["tn", t0, t1, ln, p, q]] => do
        let t0 ← parseRat t0; let t1 ← parseRat t1
        let ln ← ln.toNat?; let p ← p.toNat?; let q ← q.toNat?
        if p = 0 ∨ q = 0 then none else
        let n := Resample.resampleLen ln p q
        pure (fmtRats ((List.range n).map (Resample.tnewAt t0 t1 p q)))
    | [["rcq", e], a, b, c, d, f] => do
        let e ← parseBool e
        let a ← parseRats a; let b ← parseRats b; let c ← parseRats c
        let d ← parseRats d; let f ← parseRats f
        pure (fmtResQ (Psd.rescaleCore a b c d f e))
    | [["rfq", e], p, f, fr] => do
        let e ← parseBool e
        let p ← parseRats p; let f ← parseRats f; let fr ← parseRats fr
        if !(Psd.isLinTol fr) || !(Psd.isLinExact f || Psd.isLinTol f) then pure "nonlinear" else
        match Psd.rescaleFreq p f fr e with
        | some (r, lo, hi) => pure s!"{lo} {hi}|{fmtResQ r}"
        | none => pure "value-error"
    | [("area" :: a)] => do
        let a ← parseFs a; let sp ← pairs a
        pure (fmtF (Psd.area sp))
    | [("ilog" :: x), a] => do
        let x ← parseFs x; let a ← parseFs a; let sp ← pairs a
        pure (fmtFs (x.map (Psd.interpLog sp)))
    | [("ilin" :: x), a] => do
        let x ← parseFs x; let a ← parseFs a; let sp ← pairs a
        pure (fmtFs (x.map (Psd.interpLin sp)))
    | [("edges" :: c)] => do
        let c ← parseFs c
        let (l, u) := Psd.getFlFu c
        pure s!"{fmtFs l}|{fmtFs u}|{if Psd.isLinTol c then 1 else 0}"
    | [("inedges" :: c)] => do
        let c ← parseFs c
        let (l, u) := Psd.inEdges c
        pure s!"{fmtFs l}|{fmtFs u}|{if Psd.isLinExact c then 1 else 0}"
    | [("edgesq" :: c)] => do
        let c ← parseRats c
        if !(Psd.isLinTol c) then pure "nonlinear" else
        let (l, u) := Psd.getFlFu c
        pure s!"{fmtRats l}|{fmtRats u}"
    | [("inedgesq" :: c)] => do
        let c ← parseRats c
        if !(Psd.isLinExact c || Psd.isLinTol c) then pure "nonlinear" else
        let (l, u) := Psd.inEdges c
        pure s!"{fmtRats l}|{fmtRats u}"
    | [["rcf", e], a, b, c, d, f] => do
        let e ← parseBool e
        let a ← parseFs a; let b ← parseFs b; let c ← parseFs c
        let d ← parseFs d; let f ← parseFs f
        pure (fmtResF (Psd.rescaleCore a b c d f e))
    | [["rff", e], p, f, fr] => do
        let e ← parseBool e
        let p ← parseFs p; let f ← parseFs f; let fr ← parseFs fr
        match Psd.rescaleFreq p f fr e with
        | some (r, lo, hi) => pure s!"{lo} {hi}|{fmtResF r}"
        | none => pure "value-error"
    | [["oct", ex, tr], args] => do
        let ex ← parseBool ex
        let tr ← match tr with
          | "o" => some PsdOct.Trim.outside | "c" => some PsdOct.Trim.center
          | "i" => some PsdOct.Trim.inside | _ => none
        let a ← parseFs args
        match a with
        | [n, f0, e] =>
            match PsdOct.getFreqOct n f0 e ex tr none with
            | some (F, FL, FU) => pure s!"{fmtFs F}|{fmtFs FL}|{fmtFs FU}"
            | none => pure "value-error"
        | [n, f0, e, an] =>
            match PsdOct.getFreqOct n f0 e ex tr (some an) with
            | some (F, FL, FU) => pure s!"{fmtFs F}|{fmtFs FL}|{fmtFs FU}"
            | none => pure "value-error"
        | _ => none
    | [["fir", p, q, pts], w] => do
        let p ← p.toNat?; let q ← q.toNat?; let pts ← pts.toNat?; let w ← parseFs w
        if p = 0 ∨ q = 0 then none else
        let g := Nat.gcd p q
        pure (fmtFs (Resample.firTaps (p / g) (q / g) (2 * pts * max (p / g) (q / g)) w))
    | [["rs", p, q, pts], w, d] => do
        let p ← p.toNat?; let q ← q.toNat?; let pts ← pts.toNat?
        let w ← parseFs w; let d ← parseFs d
        if p = 0 ∨ q = 0 then none else
        pure (fmtFs (Resample.resample d p q pts w))
    | _ => none
  r.getD "bad-op"

partial def loop (h : IO.FS.Stream) (out : IO.FS.Stream) : IO Unit := do
  let line ← h.getLine
  if line.isEmpty then return ()
  out.putStrLn (answer (line.trimAscii.toString))
  loop h out

def main : IO Unit := do
  loop (← IO.getStdin) (← IO.getStdout)
