import PyYetiVerif.Model.Op4
import PyYetiVerif.Model.Op4Ascii
import PyYetiVerif.Model.Op4Variants
import PyYetiVerif.Model.PyFloat
import PyYetiVerif.Model.Op4AsciiBits
import PyYetiVerif.Model.Op4Input
import PyYetiVerif.Model.Op4Fixed
import PyYetiVerif.Model.Op4FixedInput
/-! Line protocol for C04 (all numbers decimal, byte strings hex).

  cs i0 i1 …                      → `s:l s:l …`                       (`_sparse_col_stats`)
  pk irow L                       → `IS fits(0/1) irow' L'`             (pack / unpack)
  enc <l|b> <n> mat…              → hex bytes | `struct_error`          (binary `write`: `encFileBytesFx`, the writer with `_split_strings`)
  asc <digits> <n> mat…           → hex of the text file                (ASCII `write`)
  dec <d|s|a> <hex>               → decoded matrices (see `showDec`)    (`load`)
  dir <hex>                       → `name,rows,cols,form,mtype|…`       (`dir`)
  fmt <digits> <bits>             → hex of `numform % x`
  (history: ops of the repair-candidate phase, kept as aliases for corpus/c04_F{2,3}_candidate_check.py; F2 / F3 are repaired in /repo)
  spl <maxlen> s:l s:l …          → `s:l s:l …`                       (`_split_strings`, F2 candidate)
  encfx <l|b> <n> mat…            → hex bytes | `struct_error`          (binary `write`, F2 candidate)
  fmtfx <digits> <bits>           → hex of `numform(x)`                 (F3 candidate)
  ascfx <digits> <n> mat…         → hex of the text file                (ASCII `write`, F3 candidate)
  adec <d|s|a|*> <hex>            → the ASCII reader model (Model/Op4Ascii.lean) on the text: decoded
                                    matrices as for `dec` (fields → exact decimal → nearest double by the
                                    correctly rounded `PyFloat.toBits`) | `decode-error` | `not-ascii`;
                                    mode `*`: the three modes and `adir`, separated by ` ;; `
  adir <hex>                      → `name,rows,cols,form,mtype|…` of an ASCII file            (`dir`)
  afld <hex>                      → `float(field)`: `neg man exp bits` | `ValueError`
  aint <hex>                      → `int(field)`: the integer | `ValueError`
  ahdr <hex>                      → title line: `cols rows form mtype namehex perline numlen` | `eof` | `ValueError`
  asl <numlen> <k> <hex>          → the reader's `k` slices of width `numlen`, hex, comma separated
  enca <perline> <width> <useD> <lead1P> <fmtD> <lower> <n> amat…   → hex of an OUTPUT4 ASCII variant file
     (the encoder `Op4V.encAFile` of Model/Op4Variants.lean, same protocol as the C11 driver)
     amat = <namehex|-> <form> <cplx> <single> <rows> <ncols> <d|b|n> <negRows> <npresent>
            { <col> <nstr> { <r0> <nvals> { <neg> <exp> <ndigits> digit… } } }
  avals <cplx> <numlen> <L> <hex> → `_put_ascii_values_sparse[_c]`: bit patterns read from the block | `ValueError`
  ablk <dformat> <L> <perline> <numlen> <hex>
                                  → `_get_ascii_block` on the text: `<hex of block> <lines consumed>`

  wr <b|a> <l|b> <digits> <opt a|d|b|n> names mats forms
                                  → `op4.write` on its arguments (Model/Op4Input.lean `prepare`, then
                                    `writeAllWordsFx` (the writer with `_split_strings`) / `writeOneAscii`): hex of the file | `ValueError` | `struct_error`
     names = D <n> { <namehex|-> <M | N | P form> matIn }   (mapping: matrix, (matrix, None), (matrix, form))
           | L <n> <namehex|->… | O <namehex|->
     mats  = L <n> matIn… | O matIn          forms = N | O <form> | L <n> <form|->…
     matIn = nd <ndim> dim… <cplx> <nelems> raw…   (row-major logical elements; two raws per complex element;
                 raw = d<bits64> | s<bits32> | i<integer> | b<0|1>)
           | sp <rows> <ncols> <cplx> <ntrip> { <row> <col> <re> [<im>] }   (stored triplets in storage order)
  tod <cplx> <rows> <cols> <n> { <row> <col> <re> [<im>] }
                                  → `coo_matrix((V, (I, J)), shape).toarray()` (`cooToDense` with IEEE addition):
                                    the elements column-major

  mat = <opt a|d|b|n><kind 0 ndarray|1 scipy-sparse> <index> <namehex|-> <form|-> <cplx 0|1> <rows> <ncols>
        then rows*ncols elements column-major, one (real) or two (complex) bit patterns each.
  `form = -` asks for the automatic form (`_get_header_info` / `_is_symmetric`), computed here
  with `Float` exactly as numpy's `allclose` does for finite values.
-/
open PyYetiVerif.Op4

abbrev P := StateT (List String) Option

def tok : P String := do
  match (← get) with
  | [] => failure
  | t :: r => set r; pure t

def nat : P Nat := do
  let t ← tok
  match t.toNat? with
  | some n => pure n
  | none => failure

def hexVal (c : Char) : Option Nat :=
  if '0' ≤ c ∧ c ≤ '9' then some (c.toNat - 48)
  else if 'a' ≤ c ∧ c ≤ 'f' then some (c.toNat - 87)
  else if 'A' ≤ c ∧ c ≤ 'F' then some (c.toNat - 55) else none

def unhex : List Char → Option (List Nat)
  | [] => some []
  | a :: b :: t => do
    let x ← hexVal a
    let y ← hexVal b
    let r ← unhex t
    some ((x * 16 + y) :: r)
  | _ => none

def unhexTok (t : String) : Option (List Nat) := if t == "-" then some [] else unhex t.toList

def hexDigit (n : Nat) : Char := if n < 10 then Char.ofNat (48 + n) else Char.ofNat (87 + n)

def toHex (bs : List Nat) : String :=
  String.ofList (bs.flatMap fun b => [hexDigit (b / 16 % 16), hexDigit (b % 16)])

def repeatP {α} (p : P α) : Nat → P (List α)
  | 0 => pure []
  | n + 1 => do
    let a ← p
    let r ← repeatP p n
    pure (a :: r)

/-! automatic form -/
def isclose (a b : Float) : Bool := (a - b).abs ≤ 1e-8 + 1e-5 * b.abs
def hyp (a b : Float) : Float :=
  let m := if a.abs < b.abs then b.abs else a.abs
  if m == 0 then 0 else if m.isInf then m else m * Float.sqrt ((a / m) * (a / m) + (b / m) * (b / m))
def iscloseC (a b : Entry) : Bool :=
  let ar := Float.ofBits a.1.toUInt64
  let ai := Float.ofBits a.2.toUInt64
  let br := Float.ofBits b.1.toUInt64
  let bi := Float.ofBits b.2.toUInt64
  hyp (ar - br) (ai - bi) ≤ 1e-8 + 1e-5 * hyp br bi

def closeE (cplx : Bool) (a b : Entry) : Bool :=
  if cplx then iscloseC a b else isclose (Float.ofBits a.1.toUInt64) (Float.ofBits b.1.toUInt64)

def layoutOpt (c : Char) : Option (Option Layout) :=
  match c with
  | 'a' => some none
  | 'd' => some (some .dense)
  | 'b' => some (some .bigmat)
  | 'n' => some (some .nonbigmat)
  | _ => none

def chunkRows {α} (rows : Nat) : Nat → List α → List (List α)
  | 0, _ => []
  | n + 1, xs => xs.take rows :: chunkRows rows n (xs.drop rows)

def matP : P (Layout × Mat) := do
  let lk ← tok
  let (optc, kindc) ← match lk.toList with
    | [a, b] => pure (a, b)
    | _ => failure
  let opt ← match layoutOpt optc with
    | some o => pure o
    | none => failure
  let sparseIn := kindc == '1'
  let idx ← nat
  let nm ← tok
  let name ← if nm == "-" then pure [] else match unhex nm.toList with
    | some b => pure b
    | none => failure
  let formT ← tok
  let cplx := (← nat) == 1
  let rows ← nat
  let ncols ← nat
  let es ← repeatP (do
      let re ← nat
      let im ← if cplx then nat else pure 0
      pure ((re, im) : Entry)) (rows * ncols)
  let cols := chunkRows rows ncols es
  let form ← if formT == "-" then pure (autoForm (closeE cplx) sparseIn cplx rows cols) else
    match formT.toNat? with
    | some f => pure f
    | none => failure
  pure (resolveLayout opt sparseIn rows,
        { name := writeName idx name, form := form, cplx := cplx, rows := rows, cols := cols })

def showEntry (cplx : Bool) (x : Entry) : String :=
  if cplx then s!"{x.1} {x.2}" else s!"{x.1}"

def showDec (mode : Char) (count : Nat) (d : Dec) : String :=
  let cplx := d.mtype == 4
  let rows := d.rows.natAbs
  let cols := d.cols.toNat
  let sparse := match mode with
    | 's' => true
    | 'd' => false
    | _ => d.sparseAuto
  let name := toHex (checkName count d.rawName)
  let head := s!"{name},{rows},{cols},{d.form},{d.mtype},{if sparse then 1 else 0},"
  if sparse then
    head ++ " ".intercalate ((cooOfPuts cplx d.puts).map fun (r, c, x) => s!"{r} {c} {showEntry cplx x}")
  else
    match applyPuts rows cols d.puts with
    | some X => head ++ " ".intercalate (X.flatMap fun col => col.map (showEntry cplx))
    | none => head ++ "put-error"

def showAll (mode : Char) : Nat → List Dec → List String
  | _, [] => []
  | i, d :: t => showDec mode i d :: showAll mode (i + 1) t

def showDir : Nat → List (List Nat × Int × Int × Int × Int) → List String
  | _, [] => []
  | i, (n, r, c, f, t) :: rest => s!"{toHex (checkName i n)},{r},{c},{f},{t}" :: showDir (i + 1) rest

/-! ASCII reader: a decimal becomes the nearest double (`float()`), a complex element is built as
`real + 1j * imag` in Python complex arithmetic (`cooEntry`; NaN real part when the imaginary part
overflowed to ±inf), in the dense and in the sparse read -/
open PyYetiVerif.Op4A (decBits entryBits)

def showDecA (mode : Char) (count : Nat) (d : PyYetiVerif.Op4A.ADec) : String :=
  let cplx := decide (3 ≤ d.mtype)
  let rows := d.rows.natAbs
  let cols := d.cols.toNat
  let sparse := match mode with
    | 's' => true
    | 'd' => false
    | _ => d.sparseAuto
  let name := toHex (checkName count (d.rawName.map Char.toNat))
  let head := s!"{name},{rows},{cols},{d.form},{d.mtype},{if sparse then 1 else 0},"
  if sparse then
    if d.puts.any (fun p => p.1 + p.2.2.length > rows ∨ p.2.1 ≥ cols) then head ++ "put-error" else
    head ++ " ".intercalate ((PyYetiVerif.Op4A.cooOfPutsA d.puts).map fun (r, c, x) =>
      s!"{r} {c} {showEntry cplx (entryBits cplx x)}")
  else
    match PyYetiVerif.Op4A.applyPutsA rows cols d.puts with
    | some X => head ++ " ".intercalate (X.flatMap fun col => col.map fun x => showEntry cplx (entryBits cplx x))
    | none => head ++ "put-error"

def showAllA (mode : Char) : Nat → List PyYetiVerif.Op4A.ADec → List String
  | _, [] => []
  | i, d :: t => showDecA mode i d :: showAllA mode (i + 1) t

def intP : P Int := do
  match (← tok).toInt? with
  | some n => pure n
  | none => failure

def flagP : P Bool := do pure ((← nat) == 1)

def countedP {α} (p : P α) : P (List α) := do
  let n ← nat
  repeatP p n

def amatP : P PyYetiVerif.Op4V.AMat := do
  let nm ← tok
  let name ← if nm == "-" then pure [] else match unhex nm.toList with
    | some b => pure b
    | none => failure
  let form ← nat
  let cplx ← flagP
  let single ← flagP
  let rows ← nat
  let ncols ← nat
  let lay ← match (← tok) with
    | "d" => pure Layout.dense
    | "b" => pure Layout.bigmat
    | "n" => pure Layout.nonbigmat
    | _ => failure
  let neg ← flagP
  let cols ← countedP (do
    let c ← nat
    let ss ← countedP (do
      let r0 ← nat
      let xs ← countedP (do
        let neg ← flagP
        let exp ← intP
        let ds ← countedP nat
        pure ({ neg, digits := ds, exp } : PyYetiVerif.Op4V.ADec))
      pure (r0, xs))
    pure (c, ss))
  pure { name, form, cplx, single, rows, ncols, lay, negRows := neg, cols }

def endianOf (s : String) : Option Endian :=
  if s == "l" then some .little else if s == "b" then some .big else none

def fadd (a b : Nat) : Nat := (Float.ofBits a.toUInt64 + Float.ofBits b.toUInt64).toBits.toNat

def rawP : P Raw := do
  let t ← tok
  match t.toList with
  | 'd' :: r => match (String.ofList r).toNat? with
    | some n => pure (.f64 n)
    | none => failure
  | 's' :: r => match (String.ofList r).toNat? with
    | some n => pure (.f32 n)
    | none => failure
  | 'i' :: r => match (String.ofList r).toInt? with
    | some n => pure (.int n)
    | none => failure
  | ['b', c] => pure (.bool (c == '1'))
  | _ => failure

def nameP : P (List Nat) := do
  let nm ← tok
  if nm == "-" then pure [] else match unhex nm.toList with
    | some b => pure b
    | none => failure

def matInP : P MatIn := do
  match (← tok) with
  | "nd" =>
    let shape ← countedP nat
    let cplx ← flagP
    let es ← countedP (do
      let re ← rawP
      let im ← if cplx then rawP else pure (.f64 0)
      pure (re, im))
    pure (.nd { shape, cplx, elems := es })
  | "sp" =>
    let rows ← nat
    let ncols ← nat
    let cplx ← flagP
    let trip ← countedP (do
      let r ← nat
      let c ← nat
      let re ← nat
      let im ← if cplx then nat else pure 0
      pure ((r, c, (re, im)) : Trip))
    pure (.sp { rows, ncols, cplx, trip })
  | _ => failure

def optFormP : P (Option Nat) := do
  let t ← tok
  if t == "-" then pure none else match t.toNat? with
    | some f => pure (some f)
    | none => failure

def namesArgP : P NamesArg := do
  match (← tok) with
  | "D" => do
    let items ← countedP (do
      let n ← nameP
      let k ← tok
      let form ← if k == "P" then (do pure (some (some (← nat)))) else if k == "N" then pure (some none) else pure none
      let m ← matInP
      pure (n, match form with | some f => DictVal.pair m f | none => DictVal.mat m))
    pure (.dict items)
  | "L" => do pure (.list (← countedP nameP))
  | "O" => do pure (.one (← nameP))
  | _ => failure

def matsArgP : P MatsArg := do
  match (← tok) with
  | "L" => do pure (.list (← countedP matInP))
  | "O" => do pure (.one (← matInP))
  | _ => failure

def formsArgP : P FormsArg := do
  match (← tok) with
  | "N" => pure .none
  | "O" => do pure (.one (← nat))
  | "L" => do pure (.list (← countedP optFormP))
  | _ => failure

def run (p : P String) (ws : List String) : String :=
  match p.run ws with
  | some (s, []) => s
  | _ => "bad-op"

def answer (line : String) : String :=
  match (line.splitOn " ").filter (· ≠ "") with
  | "cs" :: ws => match ws.mapM String.toNat? with
      | some xs => " ".intercalate ((colStats xs).map fun (s, l) => s!"{s}:{l}")
      | none => "bad-op"
  | ["pk", a, b] => match a.toNat?, b.toNat? with
      | some irow, some L =>
        let IS := packIS irow L
        let (i', L') := unpackIS IS
        s!"{IS} {if fitsI32 IS then 1 else 0} {i'} {L'}"
      | _, _ => "bad-op"
  | "enc" :: e :: ws => run (do
        let e ← match endianOf e with
          | some e => pure e
          | none => failure
        let n ← nat
        let ms ← repeatP matP n
        match encFileBytesFx e ms with
        | some bs => pure (toHex bs)
        | none => pure "struct_error") ws
  | "asc" :: ws => run (do
        let d ← nat
        let n ← nat
        let ms ← repeatP matP n
        pure (toHex ((encFileAscii d ms).map Char.toNat))) ws
  | ["dec", mode, hex] => match unhex hex.toList, mode.toList with
      | some bytes, [m] => match decodeFormat bytes with
          | some e =>
            let ws := wordsOfBytes e bytes
            -- the dense read goes through `decodeBytes`, the function `file_roundtrip_bytes` is about
            match (if m == 'd' then decodeBytes bytes else none) with
            | some rs => "ok " ++ "|".intercalate (rs.map fun r =>
                s!"{toHex r.name},{r.rows},{r.cols},{r.form},{r.mtype},0," ++
                  " ".intercalate (r.data.flatMap fun col => col.map (showEntry (r.mtype == 4))))
            | none =>
            match rdFile e (ws.length + 1) ws with
            | some ds => "ok " ++ "|".intercalate (showAll m 0 ds)
            | none => "decode-error"
          | none => "not-binary32"
      | _, _ => "bad-op"
  | ["dir", hex] => match unhex hex.toList with
      | some bytes => match decodeFormat bytes with
          | some e =>
            let ws := wordsOfBytes e bytes
            match dirWords e (ws.length + 1) ws with
            | .ok ds => "ok " ++ "|".intercalate (showDir 0 ds)
            | .unicodeError => "exception:UnicodeDecodeError"
            | .truncated => "exception:error"
          | none => "not-binary32"
      | none => "bad-op"
  | ["adec", mode, hex] => match unhex hex.toList, mode.toList with
      | some bytes, [m] =>
        let cs := bytes.map Char.ofNat
        if !PyYetiVerif.Op4A.isAsciiFile cs then "not-ascii" else
        if m == '*' then
          -- the three read modes and the directory in one reply
          let ld := PyYetiVerif.Op4A.loadAscii cs
          let one := fun (m : Char) => match ld with
            | some ds => "ok " ++ "|".intercalate (showAllA m 0 ds)
            | none => "decode-error"
          let dr := match PyYetiVerif.Op4A.dirAscii cs with
            | some ds => "ok " ++ "|".intercalate (showDir 0 (ds.map fun (n, r) => (n.map Char.toNat, r)))
            | none => "decode-error"
          " ;; ".intercalate [one 'd', one 's', one 'a', dr]
        else
        match PyYetiVerif.Op4A.loadAscii cs with
        | some ds => "ok " ++ "|".intercalate (showAllA m 0 ds)
        | none => "decode-error"
      | _, _ => "bad-op"
  | ["adir", hex] => match unhex hex.toList with
      | some bytes =>
        let cs := bytes.map Char.ofNat
        if !PyYetiVerif.Op4A.isAsciiFile cs then "not-ascii" else
        match PyYetiVerif.Op4A.dirAscii cs with
        | some ds => "ok " ++ "|".intercalate (showDir 0 (ds.map fun (n, r) => (n.map Char.toNat, r)))
        | none => "decode-error"
      | none => "bad-op"
  | ["afld", hex] => match unhexTok hex with
      | some bytes => match PyYetiVerif.Op4A.pyFloat? (bytes.map Char.ofNat) with
          | some x => s!"{if x.neg then 1 else 0} {x.man} {x.exp} {decBits x}"
          | none => "ValueError"
      | none => "bad-op"
  | ["aint", hex] => match unhexTok hex with
      | some bytes => match PyYetiVerif.Op4A.pyInt? (bytes.map Char.ofNat) with
          | some x => toString x
          | none => "ValueError"
      | none => "bad-op"
  | ["ahdr", hex] => match unhexTok hex with
      | some bytes => match PyYetiVerif.Op4A.rdHeader (bytes.map Char.ofNat) with
          | some (some h) => s!"{h.cols} {h.rows} {h.form} {h.mtype} {toHex (h.name.map Char.toNat)} {h.perline} {h.numlen}"
          | some none => "eof"
          | none => "ValueError"
      | none => "bad-op"
  | ["asl", n, k, hex] => match n.toNat?, k.toNat?, unhexTok hex with
      | some n, some k, some bytes =>
        ",".intercalate ((PyYetiVerif.Op4A.fields n k (bytes.map Char.ofNat)).map fun f => toHex (f.map Char.toNat))
      | _, _, _ => "bad-op"
  | "enca" :: ws => run (do
        let perline ← nat
        let width ← nat
        let useD ← flagP
        let lead1P ← flagP
        let fmtD ← flagP
        let lower ← flagP
        let ms ← countedP amatP
        pure (toHex ((PyYetiVerif.Op4V.encAFile { perline, width, useD, lead1P, fmtD, lower } ms).map Char.toNat))) ws
  | ["avals", c, n, L, hex] => match c.toNat?, n.toNat?, L.toNat?, unhexTok hex with
      | some c, some n, some L, some bytes =>
        let g : PyYetiVerif.Op4A.Cfg := { dformat := false, cplx := c == 1, wper := 2, perline := 1, numlen := n }
        match PyYetiVerif.Op4A.readVals g (bytes.map Char.ofNat) L with
        | some es => " ".intercalate (es.map fun x => showEntry g.cplx (entryBits g.cplx x))
        | none => "ValueError"
      | _, _, _, _ => "bad-op"
  | ["ablk", df, L, p, n, hex] => match df.toNat?, L.toNat?, p.toNat?, n.toNat?, unhexTok hex with
      | some df, some L, some p, some n, some bytes =>
        let g : PyYetiVerif.Op4A.Cfg := { dformat := df == 1, cplx := false, wper := 2, perline := p, numlen := n }
        let ls := PyYetiVerif.Op4A.linesOf (bytes.map Char.ofNat)
        let b := PyYetiVerif.Op4A.getBlock g L ls
        s!"{toHex (b.1.map Char.toNat)}- {ls.length - b.2.length}"
      | _, _, _, _, _ => "bad-op"
  | "wr" :: kind :: e :: ws => run (do
        let e ← match endianOf e with
          | some e => pure e
          | none => failure
        let d ← nat
        let opt ← match (← tok).toList with
          | [c] => match layoutOpt c with
            | some o => pure o
            | none => failure
          | _ => failure
        let names ← namesArgP
        let mats ← matsArgP
        let forms ← formsArgP
        match prepare iscloseC fadd opt names mats forms with
        | none => pure "ValueError"
        | some items =>
          if kind == "b" then
            match writeAllWordsFx fadd e items with
            | .ok w => pure (toHex (bytesOfWords e w))
            | .error .valueError => pure "ValueError"
            | .error .structError => pure "struct_error"
          else
            pure (toHex ((items.flatMap fun p => writeOneAscii fadd d p.1 p.2).map Char.toNat))) ws
  | "tod" :: ws => run (do
        let cplx ← flagP
        let rows ← nat
        let cols ← nat
        let ts ← countedP (do
          let r ← nat
          let c ← nat
          let re ← nat
          let im ← if cplx then nat else pure 0
          pure ((r, c, (re, im)) : Nat × Nat × Entry))
        let X := cooToDense (addE fadd) rows cols ts
        pure (" ".intercalate (X.flatMap fun col => col.map (showEntry cplx)))) ws
  | ["fmt", d, b] => match d.toNat?, b.toNat? with
      | some d, some b => toHex ((fmtE d b).map Char.toNat)
      | _, _ => "bad-op"
  | ["fmtfx", d, b] => match d.toNat?, b.toNat? with
      | some d, some b => toHex ((fmtE d b).map Char.toNat)
      | _, _ => "bad-op"
  | "spl" :: m :: ws => match m.toNat?, ws.mapM (fun w => match w.splitOn ":" with
        | [a, b] => match a.toNat?, b.toNat? with
          | some a, some b => some (a, b)
          | _, _ => none
        | _ => none) with
      | some m, some ind => " ".intercalate ((splitStrings m ind).map fun (s, l) => s!"{s}:{l}")
      | _, _ => "bad-op"
  | "encfx" :: e :: ws => run (do
        let e ← match endianOf e with
          | some e => pure e
          | none => failure
        let n ← nat
        let ms ← repeatP matP n
        match encFileBytesFx e ms with
        | some bs => pure (toHex bs)
        | none => pure "struct_error") ws
  | "ascfx" :: ws => run (do
        let d ← nat
        let n ← nat
        let ms ← repeatP matP n
        pure (toHex ((encFileAscii d ms).map Char.toNat))) ws
  | _ => "bad-op"

partial def loop (h : IO.FS.Stream) (out : IO.FS.Stream) : IO Unit := do
  let line ← h.getLine
  if line.isEmpty then return ()
  out.putStrLn (answer (line.trimAscii.toString))
  loop h out

def main : IO Unit := do
  loop (← IO.getStdin) (← IO.getStdout)
