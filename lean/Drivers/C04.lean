import PyYetiVerif.Model.Op4
/-! Line protocol for C04 (all numbers decimal, byte strings hex).

  cs i0 i1 …                      → `s:l s:l …`                       (`_sparse_col_stats`)
  pk irow L                       → `IS fits(0/1) irow' L'`             (pack / unpack)
  enc <l|b> <n> mat…              → hex bytes | `struct_error`          (binary `write`)
  asc <digits> <n> mat…           → hex of the text file                (ASCII `write`)
  dec <d|s|a> <hex>               → decoded matrices (see `showDec`)    (`load`)
  dir <hex>                       → `name,rows,cols,form,mtype|…`       (`dir`)
  fmt <digits> <bits>             → hex of `numform % x`

  mat = <opt a|d|b|n><kind 0 ndarray|1 scipy-sparse> <index> <namehex|-> <form|-> <cplx 0|1> <rows> <ncols>
        then rows*ncols elements column-major, one (real) or two (complex) bit patterns each.
  `form = -` asks for the automatic form (`_get_header_info` / `_is_symmetric`), computed here
  with `Float` exactly as numpy's `allclose` does for finite values.
-/
open PyYetiVerif.Op4

abbrev P := StateT (List String) Option

def tok : P String := do
  match (← get) with
  | [] => failure
  | t :: r => set r; pure t

def nat : P Nat := do
  let t ← tok
  match t.toNat? with
  | some n => pure n
  | none => failure

def hexVal (c : Char) : Option Nat :=
  if '0' ≤ c ∧ c ≤ '9' then some (c.toNat - 48)
  else if 'a' ≤ c ∧ c ≤ 'f' then some (c.toNat - 87)
  else if 'A' ≤ c ∧ c ≤ 'F' then some (c.toNat - 55) else none

def unhex : List Char → Option (List Nat)
  | [] => some []
  | a :: b :: t => do
    let x ← hexVal a
    let y ← hexVal b
    let r ← unhex t
    some ((x * 16 + y) :: r)
  | _ => none

def hexDigit (n : Nat) : Char := if n < 10 then Char.ofNat (48 + n) else Char.ofNat (87 + n)

def toHex (bs : List Nat) : String :=
  String.ofList (bs.flatMap fun b => [hexDigit (b / 16 % 16), hexDigit (b % 16)])

def repeatP {α} (p : P α) : Nat → P (List α)
  | 0 => pure []
  | n + 1 => do
    let a ← p
    let r ← repeatP p n
    pure (a :: r)

/-! automatic form -/
def isclose (a b : Float) : Bool := (a - b).abs ≤ 1e-8 + 1e-5 * b.abs
def hyp (a b : Float) : Float :=
  let m := if a.abs < b.abs then b.abs else a.abs
  if m == 0 then 0 else if m.isInf then m else m * Float.sqrt ((a / m) * (a / m) + (b / m) * (b / m))
def iscloseC (a b : Entry) : Bool :=
  let ar := Float.ofBits a.1.toUInt64
  let ai := Float.ofBits a.2.toUInt64
  let br := Float.ofBits b.1.toUInt64
  let bi := Float.ofBits b.2.toUInt64
  hyp (ar - br) (ai - bi) ≤ 1e-8 + 1e-5 * hyp br bi

def closeE (cplx : Bool) (a b : Entry) : Bool :=
  if cplx then iscloseC a b else isclose (Float.ofBits a.1.toUInt64) (Float.ofBits b.1.toUInt64)

def getE (cols : List (List Entry)) (i j : Nat) : Entry := ((cols.getD j []).getD i (0, 0))

def autoForm (sparseIn : Bool) (cplx : Bool) (rows : Nat) (cols : List (List Entry)) : Nat :=
  if rows ≠ cols.length then 2 else
  let idx := (List.range rows).flatMap fun i => (List.range rows).map fun j => (i, j)
  let ok :=
    if sparseIn then
      -- strictly lower entries must mirror strictly upper ones (pattern), values allclose(lower, upper)
      idx.all fun (i, j) =>
        if i > j then
          let lo := getE cols i j
          let up := getE cols j i
          let zl := lo.isZero cplx
          let zu := up.isZero cplx
          if zl && zu then true else if zl != zu then false else closeE cplx lo up
        else true
    else
      -- allclose(m.T, m): a = m[j,i], b = m[i,j]
      idx.all fun (i, j) => closeE cplx (getE cols j i) (getE cols i j)
  if ok then 6 else 1

def layoutOpt (c : Char) : Option (Option Layout) :=
  match c with
  | 'a' => some none
  | 'd' => some (some .dense)
  | 'b' => some (some .bigmat)
  | 'n' => some (some .nonbigmat)
  | _ => none

def chunkRows {α} (rows : Nat) : Nat → List α → List (List α)
  | 0, _ => []
  | n + 1, xs => xs.take rows :: chunkRows rows n (xs.drop rows)

def matP : P (Layout × Mat) := do
  let lk ← tok
  let (optc, kindc) ← match lk.toList with
    | [a, b] => pure (a, b)
    | _ => failure
  let opt ← match layoutOpt optc with
    | some o => pure o
    | none => failure
  let sparseIn := kindc == '1'
  let idx ← nat
  let nm ← tok
  let name ← if nm == "-" then pure [] else match unhex nm.toList with
    | some b => pure b
    | none => failure
  let formT ← tok
  let cplx := (← nat) == 1
  let rows ← nat
  let ncols ← nat
  let es ← repeatP (do
      let re ← nat
      let im ← if cplx then nat else pure 0
      pure ((re, im) : Entry)) (rows * ncols)
  let cols := chunkRows rows ncols es
  let form ← if formT == "-" then pure (autoForm sparseIn cplx rows cols) else
    match formT.toNat? with
    | some f => pure f
    | none => failure
  pure (resolveLayout opt sparseIn rows,
        { name := writeName idx name, form := form, cplx := cplx, rows := rows, cols := cols })

def showEntry (cplx : Bool) (x : Entry) : String :=
  if cplx then s!"{x.1} {x.2}" else s!"{x.1}"

def showDec (mode : Char) (count : Nat) (d : Dec) : String :=
  let cplx := d.mtype == 4
  let rows := d.rows.natAbs
  let cols := d.cols.toNat
  let sparse := match mode with
    | 's' => true
    | 'd' => false
    | _ => d.sparseAuto
  let name := toHex (checkName count d.rawName)
  let head := s!"{name},{rows},{cols},{d.form},{d.mtype},{if sparse then 1 else 0},"
  if sparse then
    head ++ " ".intercalate ((cooOfPuts cplx d.puts).map fun (r, c, x) => s!"{r} {c} {showEntry cplx x}")
  else
    match applyPuts rows cols d.puts with
    | some X => head ++ " ".intercalate (X.flatMap fun col => col.map (showEntry cplx))
    | none => head ++ "put-error"

def showAll (mode : Char) : Nat → List Dec → List String
  | _, [] => []
  | i, d :: t => showDec mode i d :: showAll mode (i + 1) t

def showDir : Nat → List (List Nat × Int × Int × Int × Int) → List String
  | _, [] => []
  | i, (n, r, c, f, t) :: rest => s!"{toHex (checkName i n)},{r},{c},{f},{t}" :: showDir (i + 1) rest

def endianOf (s : String) : Option Endian :=
  if s == "l" then some .little else if s == "b" then some .big else none

def run (p : P String) (ws : List String) : String :=
  match p.run ws with
  | some (s, []) => s
  | _ => "bad-op"

def answer (line : String) : String :=
  match (line.splitOn " ").filter (· ≠ "") with
  | "cs" :: ws => match ws.mapM String.toNat? with
      | some xs => " ".intercalate ((colStats xs).map fun (s, l) => s!"{s}:{l}")
      | none => "bad-op"
  | ["pk", a, b] => match a.toNat?, b.toNat? with
      | some irow, some L =>
        let IS := packIS irow L
        let (i', L') := unpackIS IS
        s!"{IS} {if fitsI32 IS then 1 else 0} {i'} {L'}"
      | _, _ => "bad-op"
  | "enc" :: e :: ws => run (do
        let e ← match endianOf e with
          | some e => pure e
          | none => failure
        let n ← nat
        let ms ← repeatP matP n
        match encFileBytes e ms with
        | some bs => pure (toHex bs)
        | none => pure "struct_error") ws
  | "asc" :: ws => run (do
        let d ← nat
        let n ← nat
        let ms ← repeatP matP n
        pure (toHex ((encFileAscii d ms).map Char.toNat))) ws
  | ["dec", mode, hex] => match unhex hex.toList, mode.toList with
      | some bytes, [m] => match decodeFormat bytes with
          | some e =>
            let ws := wordsOfBytes e bytes
            match rdFile e (ws.length + 1) ws with
            | some ds => "ok " ++ "|".intercalate (showAll m 0 ds)
            | none => "decode-error"
          | none => "not-binary32"
      | _, _ => "bad-op"
  | ["dir", hex] => match unhex hex.toList with
      | some bytes => match decodeFormat bytes with
          | some e =>
            let ws := wordsOfBytes e bytes
            match dirWords e (ws.length + 1) ws with
            | .ok ds => "ok " ++ "|".intercalate (showDir 0 ds)
            | .unicodeError => "exception:UnicodeDecodeError"
            | .truncated => "exception:error"
          | none => "not-binary32"
      | none => "bad-op"
  | ["fmt", d, b] => match d.toNat?, b.toNat? with
      | some d, some b => toHex ((fmtE d b).map Char.toNat)
      | _, _ => "bad-op"
  | _ => "bad-op"

partial def loop (h : IO.FS.Stream) (out : IO.FS.Stream) : IO Unit := do
  let line ← h.getLine
  if line.isEmpty then return ()
  out.putStrLn (answer (line.trimAscii.toString))
  loop h out

def main : IO Unit := do
  loop (← IO.getStdin) (← IO.getStdout)
