import PyYetiVerif.Model.RainflowEntry
import PyYetiVerif.Generated.PyRain
import PyYetiVerif.Generated.RainflowWrap
import PyYetiVerif.Generated.CRain
/-! Line protocol for C05, generated programs (kept apart from Drivers/C05.lean so that a source
change that makes the regenerated embedding ill-typed cannot take the hand-written model's streams
down with it).
request : `ge <g> <shape…> | <bits…>`      → GENERATED `py_rain.rainflow` at Float (IEEE doubles given
                                             as their 64-bit patterns in decimal), `g` ∈ 0 1
          `gw <g> <up> <shape…> | <bits…>` → GENERATED `cyclecount.rainflow` on top of the generated
                                             `py_rain.rainflow`
          `gc <1f|2f|1s|2s> <L> | <bits…>` → GENERATED C `rainflow1`/`rainflow2`, macro defined (f) / not (s)
reply   : `value-error` | `type-error` | `internal` | `table R` | `tables R|O` | `frame C|R` | `frames C|R|C|O`
            with R = `b b b;b b b;…` (bit patterns), O = `s e;s e;…`, C = `name,name,…`
          `bad-op` for anything else. -/
open PyYetiVerif.Rainflow PyYetiVerif.RainflowImp PyYetiVerif.RainflowEntry

instance : Ops Float where
  decLt := inferInstance
  abs := Float.abs
  half := (· / 2)
  c05 := 0.5
  c1 := 1.0

def parseInts (ws : List String) : Option (List Int) := ws.mapM String.toInt?

def fmtCyc (c : Cyc Int) : String :=
  s!"{c.rng} {c.sum} {if c.full then 1 else 0} {c.s} {c.e}"

def parseNd (ws : List String) : Option (Nd Float) :=
  match ws.span (· ≠ "|") with
  | (sh, _ :: dat) => do
      let shape ← sh.mapM String.toNat?
      let bits ← dat.mapM String.toNat?
      pure { shape := shape, data := bits.map fun b => Float.ofBits (UInt64.ofNat b) }
  | _ => none

def parseOpt : String → Option (Option Bool)
  | "0" => some (some false)
  | "1" => some (some true)
  | "-" => some none
  | _ => none

def fmtRows (r : List (List Float)) : String :=
  ";".intercalate (r.map fun row => " ".intercalate (row.map fun x => toString x.toBits.toNat))
def fmtOs (r : List (List Int)) : String :=
  ";".intercalate (r.map fun row => " ".intercalate (row.map toString))

def fmtOut : Except PyErr (Out Float) → String
  | .error .valueError => "value-error"
  | .error .typeError => "type-error"
  | .error .internal => "internal"
  | .ok (.table rf) => "table " ++ fmtRows rf
  | .ok (.tables rf os) => "tables " ++ fmtRows rf ++ "|" ++ fmtOs os
  | .ok (.frame c rf) => "frame " ++ ",".intercalate c ++ "|" ++ fmtRows rf
  | .ok (.frames c rf oc os) =>
      "frames " ++ ",".intercalate c ++ "|" ++ fmtRows rf ++ "|" ++ ",".intercalate oc ++ "|" ++ fmtOs os

def genEntry (nd : Nd Float) (g : Bool) : Except PyErr (PyResult Float) :=
  PyYetiVerif.Generated.PyRain.rainflow nd.data.length nd g

def answer (line : String) : String :=
  match (line.splitOn " ").filter (· ≠ "") with
  | "ge" :: g :: ws => match parseOpt g, parseNd ws with
      | some (some g), some nd => fmtOut (observe (genEntry nd g))
      | _, _ => "bad-op"
  | "gw" :: g :: up :: ws => match parseOpt g, parseOpt up, parseNd ws with
      | some (some g), some (some up), some nd =>
          fmtOut (observeW (PyYetiVerif.Generated.RainflowWrap.rainflow genEntry nd g up))
      | _, _, _ => "bad-op"
  | "gc" :: which :: ws => match parseNd ws with
      -- GENERATED C counting routines (Generated/CRain.lean): which ∈ 1f 2f 1s 2s
      | some nd =>
          let L := nd.data.length
          let a := Arr.ofList nd.data
          let one (r : Option (Arr2 Float)) : String :=
            fmtOut (observe (match r with | some t => .ok (.plain t) | none => .error .internal))
          let two (r : Option (Arr2 Float × Arr2 Int)) : String :=
            fmtOut (observe (match r with | some t => .ok (.pair t.1 t.2) | none => .error .internal))
          if which = "1f" then one (PyYetiVerif.Generated.CRain.rainflow1_fast L a L)
          else if which = "2f" then two (PyYetiVerif.Generated.CRain.rainflow2_fast L a L)
          else if which = "1s" then one (PyYetiVerif.Generated.CRain.rainflow1_slow L a L)
          else if which = "2s" then two (PyYetiVerif.Generated.CRain.rainflow2_slow L a L)
          else "bad-op"
      | none => "bad-op"
  | _ => "bad-op"

partial def loop (h : IO.FS.Stream) (out : IO.FS.Stream) : IO Unit := do
  let line ← h.getLine
  if line.isEmpty then return ()
  out.putStrLn (answer (line.trimAscii.toString))
  loop h out

def main : IO Unit := do
  loop (← IO.getStdin) (← IO.getStdout)
