import PyYetiVerif.Model.OrderStats
import PyYetiVerif.Model.KFactor
import PyYetiVerif.Model.OrderStatsApi
import PyYetiVerif.Model.KFactorApi
/-! Line protocol for C20.

Order statistics (exact); rationals travel as `num/den` or `num`.  The polymorphic model is
evaluated at `Frac` (fractions that are never reduced: same ring operations, no gcd per
operation, comparisons by cross-multiplication) — 10-100x faster than core `Rat` on the
thousand-digit numbers that occur; the same requests with the prefix `R` (`Rc`, `Rr`, `Rn`, `RnL`,
`Rm`) evaluate the same definitions at core `Rat`, and the harness re-asks a subsample that way:
  `c <n> <r> <q>`           → `tail n r q`                       reply `num/den`
  `r <n> <q> <c>`           → `rank n q c`                       reply integer
  `n <r> <q> <c>`           → `nSearch r q c`                    reply integer or `value-error`
  `nL <L> <r> <q> <c>`      → `nSearchL L r q c`                 (doubling limit `L`)
  `m <n> <r> <q> <c>`       → `1` if `c ≤ tail n r q` else `0`, then ` ` and `cmp` of the two (-1/0/1)

k-factors (`Float`; numbers travel as decimal `UInt64` bit patterns).  The library kernels are
supplied by the caller as a lookup table; a kernel called at a point that is not in the table
returns NaN, so the reply is only a number if the model asked exactly the questions the caller
predicted (degrees of freedom, non-centrality, …):
  `ks <p> <c> <n> <tab…>`          → `ksingle`
  `kd <c> <n> <r> <tab…>`          → `kdoubleOf`
  `ns <n> <prob> <r> <tab…>`       → `newtonStep`
  `res <n> <prob> <r> <tab…>`      → `getrResidual`
table entries: `P:x=v` (norm.ppf) `C:x=v` (norm.cdf) `T:c,df,nc=v` (nct.ppf) `X:pr,df=v` (chi2.ppf)

Public entry points (Model/OrderStatsApi.lean, Model/KFactorApi.lean).  An argument is `-` (None) or
`<dims>:<values>` with comma-separated dims (empty for a scalar / 0-d array) and values:
  `api <iters> <which> p=<nd> c=<nd> n=<nd> r=<nd>`  (exact, at `Frac`; `_` in `which` stands for a blank,
        `~` for the empty string) → `err <kind>` | `pyint v` | `npint v` | `npfloat q` | `intarr <dims>:<vals>` | `floatarr <dims>:<vals>`
  `pq <iters> <c> <r> <n>`                       → `pQuery` at `Frac`: `q` or `value-error`
  `ksa p=<nd> c=<nd> n=<nd> <tab…>`              → `ksingleApi` at `Float` (values are bit patterns): `<dims>:<vals>` or `shape-error`
  `kda <tol> p=<nd> c=<nd> n=<nd> <tab…>`        → `kdoubleApi`: `<loops> <dims>:<vals>` or `shape-error`; here the
        `C:` (norm.cdf) entries are matched to within 1e-12 (the arguments depend on `exp`, whose last bit
        differs between libm and numpy), all other kernels exactly
  `gra <tol> n=<nd> prob=<nd> <tab…>`            → `_getr` on the broadcast grid: `<loops> <dims>:<vals>`
anything else → `bad-op` -/
open PyYetiVerif

def parseRat (s : String) : Option Rat :=
  match s.splitOn "/" with
  | [a] => a.toInt?.map fun n => (n : Rat)
  | [a, b] => do
      let n ← a.toInt?
      let d ← b.toNat?
      if d = 0 then none else some (mkRat n d)
  | _ => none

/-- unreduced fraction `num/den`, `den > 0` -/
structure Frac where
  num : Int
  den : Nat
instance : Zero Frac := ⟨⟨0, 1⟩⟩
instance : One Frac := ⟨⟨1, 1⟩⟩
instance : NatCast Frac := ⟨fun n => ⟨n, 1⟩⟩
instance : Mul Frac := ⟨fun a b => if a.num = 0 || b.num = 0 then ⟨0, 1⟩ else ⟨a.num * b.num, a.den * b.den⟩⟩
instance : Add Frac := ⟨fun a b =>
  if a.num = 0 then b else if b.num = 0 then a
  else if a.den = b.den then ⟨a.num + b.num, a.den⟩
  else if a.den % b.den = 0 then ⟨a.num + b.num * (a.den / b.den), a.den⟩
  else if b.den % a.den = 0 then ⟨a.num * (b.den / a.den) + b.num, b.den⟩
  else ⟨a.num * b.den + b.num * a.den, a.den * b.den⟩⟩
instance : Sub Frac := ⟨fun a b =>
  if b.num = 0 then a
  else if a.den = b.den then ⟨a.num - b.num, a.den⟩
  else if a.den % b.den = 0 then ⟨a.num - b.num * (a.den / b.den), a.den⟩
  else if b.den % a.den = 0 then ⟨a.num * (b.den / a.den) - b.num, b.den⟩
  else ⟨a.num * b.den - b.num * a.den, a.den * b.den⟩⟩
instance : Div Frac := ⟨fun a b =>
  if b.num = 0 then ⟨0, 1⟩
  else if b.num > 0 then ⟨a.num * b.den, a.den * b.num.toNat⟩
  else ⟨-(a.num * b.den), a.den * (-b.num).toNat⟩⟩
instance : HPow Frac Nat Frac := ⟨fun a k => ⟨a.num ^ k, a.den ^ k⟩⟩
instance : LE Frac := ⟨fun a b => a.num * b.den ≤ b.num * a.den⟩
instance : DecidableLE Frac := fun a b => inferInstanceAs (Decidable (a.num * b.den ≤ b.num * a.den))
def Frac.ofRat (r : Rat) : Frac := ⟨r.num, r.den⟩
def Frac.toRat (f : Frac) : Rat := mkRat f.num f.den

def fmtRat (r : Rat) : String := if r.den = 1 then s!"{r.num}" else s!"{r.num}/{r.den}"

def parseF (s : String) : Option Float := s.toNat?.map fun n => Float.ofBits (UInt64.ofNat n)
def fmtF (x : Float) : String := toString x.toBits.toNat
def nan : Float := 0.0 / 0.0

structure Tab where
  P : List (Float × Float) := []
  C : List (Float × Float) := []
  T : List (Float × Float × Float × Float) := []
  X : List (Float × Float × Float) := []

def same (a b : Float) : Bool := a.toBits == b.toBits

def parseEntry (t : Tab) (w : String) : Option Tab :=
  match w.splitOn "=" with
  | [lhs, v] => do
      let v ← parseF v
      match lhs.splitOn ":" with
      | [k, args] => do
          let as ← (args.splitOn ",").mapM parseF
          match k, as with
          | "P", [x] => some { t with P := (x, v) :: t.P }
          | "C", [x] => some { t with C := (x, v) :: t.C }
          | "T", [c, df, nc] => some { t with T := (c, df, nc, v) :: t.T }
          | "X", [pr, df] => some { t with X := (pr, df, v) :: t.X }
          | _, _ => none
      | _ => none
  | _ => none

def parseTab (ws : List String) : Option Tab := ws.foldlM parseEntry {}

def opsOf (t : Tab) : KFactor.Ops Float where
  sqrt := Float.sqrt
  exp := Float.exp
  normPpf := fun x => ((t.P.find? fun e => same e.1 x).map (·.2)).getD nan
  normCdf := fun x => ((t.C.find? fun e => same e.1 x).map (·.2)).getD nan
  nctPpf := fun c df nc =>
    ((t.T.find? fun e => same e.1 c && same e.2.1 df && same e.2.2.1 nc).map (·.2.2.2)).getD nan
  chi2Ppf := fun pr df =>
    ((t.X.find? fun e => same e.1 pr && same e.2.1 df).map (·.2.2)).getD nan
  spi := 1 / Float.sqrt (2 * 3.141592653589793)

/-- as `opsOf`, but `norm.cdf` entries are matched to within 1e-12 (the nearest entry) -/
def opsOfFuzzy (t : Tab) : KFactor.Ops Float :=
  { opsOf t with
    normCdf := fun x =>
      match t.C.foldl (fun (best : Option (Float × Float)) e =>
          let d := Float.abs (e.1 - x)
          match best with
          | none => some (d, e.2)
          | some (bd, _) => if d < bd then some (d, e.2) else best) none with
      | some (d, v) => if d ≤ 1e-12 * (1 + Float.abs x) then v else nan
      | none => nan }

instance : NatCast Float := ⟨Float.ofNat⟩
instance : Zero Float := ⟨0.0⟩
instance : One Float := ⟨1.0⟩

open OrderStats in
def parseNd {β : Type} (pv : String → Option β) (s : String) : Option (Option (Nd β)) :=
  if s = "-" then some none
  else match s.splitOn ":" with
    | [d, v] => do
        let dims ← ((d.splitOn ",").filter (· ≠ "")).mapM String.toNat?
        let vals ← ((v.splitOn ",").filter (· ≠ "")).mapM pv
        pure (some ⟨dims, vals⟩)
    | _ => none

def parseArg {β : Type} (name : String) (pv : String → Option β) (s : String) : Option (Option (OrderStats.Nd β)) :=
  if s.startsWith (name ++ "=") then parseNd pv ((s.drop (name.length + 1)).toString) else none

def fmtNd {β : Type} (f : β → String) (a : OrderStats.Nd β) : String :=
  ",".intercalate (a.shape.map toString) ++ ":" ++ ",".intercalate (a.data.map f)

def fmtOut (o : OrderStats.Out Frac) : String :=
  match o with
  | .err .badWhich => "err bad-which"
  | .err .typeError => "err type-error"
  | .err .shapeError => "err shape-error"
  | .err .solverError => "err solver-error"
  | .pyInt v => s!"pyint {v}"
  | .npInt v => s!"npint {v}"
  | .npFloat v => s!"npfloat {fmtRat v.toRat}"
  | .intArr a => "intarr " ++ fmtNd toString a
  | .floatArr a => "floatarr " ++ fmtNd (fun x => fmtRat x.toRat) a

def parseFrac (s : String) : Option Frac := (parseRat s).map Frac.ofRat

def cmpRat (a b : Rat) : Int := if a < b then -1 else if b < a then 1 else 0

def answer (line : String) : String :=
  let r : Option String :=
    match (line.splitOn " ").filter (· ≠ "") with
    | ["Rc", n, r, q] => do
        let n ← n.toNat?; let r ← r.toNat?; let q ← parseRat q
        pure (fmtRat (OrderStats.tail n r q))
    | ["Rr", n, q, c] => do
        let n ← n.toNat?; let q ← parseRat q; let c ← parseRat c
        pure (toString (OrderStats.rank n q c))
    | ["RnL", l, r, q, c] => do
        let l ← l.toNat?; let r ← r.toNat?; let q ← parseRat q; let c ← parseRat c
        pure (match OrderStats.nSearchL l r q c with
              | some n => toString n | none => "value-error")
    | ["Rn", r, q, c] => do
        let r ← r.toNat?; let q ← parseRat q; let c ← parseRat c
        pure (match OrderStats.nSearch r q c with
              | some n => toString n | none => "value-error")
    | ["Rm", n, r, q, c] => do
        let n ← n.toNat?; let r ← r.toNat?; let q ← parseRat q; let c ← parseRat c
        let t := OrderStats.tail n r q
        pure s!"{if OrderStats.meets r q c n then 1 else 0} {cmpRat t c}"
    | ["c", n, r, q] => do
        let n ← n.toNat?; let r ← r.toNat?; let q ← parseRat q
        pure (fmtRat (OrderStats.tail n r (Frac.ofRat q)).toRat)
    | ["r", n, q, c] => do
        let n ← n.toNat?; let q ← parseRat q; let c ← parseRat c
        pure (toString (OrderStats.rank n (Frac.ofRat q) (Frac.ofRat c)))
    | ["n", r, q, c] => do
        let r ← r.toNat?; let q ← parseRat q; let c ← parseRat c
        pure (match OrderStats.nSearch r (Frac.ofRat q) (Frac.ofRat c) with
              | some n => toString n | none => "value-error")
    | ["nL", l, r, q, c] => do
        let l ← l.toNat?; let r ← r.toNat?; let q ← parseRat q; let c ← parseRat c
        pure (match OrderStats.nSearchL l r (Frac.ofRat q) (Frac.ofRat c) with
              | some n => toString n | none => "value-error")
    | ["m", n, r, q, c] => do
        let n ← n.toNat?; let r ← r.toNat?; let q ← parseRat q; let c ← parseRat c
        let t := (OrderStats.tail n r (Frac.ofRat q)).toRat
        pure s!"{if OrderStats.meets r (Frac.ofRat q) (Frac.ofRat c) n then 1 else 0} {cmpRat t c}"
    | "ks" :: p :: c :: n :: tab => do
        let p ← parseF p; let c ← parseF c; let n ← parseF n; let t ← parseTab tab
        pure (fmtF (KFactor.ksingle (opsOf t) p c n))
    | "kd" :: c :: n :: r :: tab => do
        let c ← parseF c; let n ← parseF n; let r ← parseF r; let t ← parseTab tab
        pure (fmtF (KFactor.kdoubleOf (opsOf t) c n r))
    | "ns" :: n :: pr :: r :: tab => do
        let n ← parseF n; let pr ← parseF pr; let r ← parseF r; let t ← parseTab tab
        pure (fmtF (KFactor.newtonStep (opsOf t) n pr r))
    | "res" :: n :: pr :: r :: tab => do
        let n ← parseF n; let pr ← parseF pr; let r ← parseF r; let t ← parseTab tab
        pure (fmtF (KFactor.getrResidual (opsOf t) n pr r))
    | ["api", it, w, p, c, n, r] => do
        let it ← it.toNat?
        let p ← parseArg "p" parseFrac p; let c ← parseArg "c" parseFrac c
        let n ← parseArg "n" String.toNat? n; let r ← parseArg "r" String.toNat? r
        let w := if w = "~" then "" else w.replace "_" " "
        pure (fmtOut (OrderStats.orderStats it w ⟨p, c, n, r⟩))
    | ["pq", it, c, r, n] => do
        let it ← it.toNat?; let c ← parseFrac c; let r ← r.toNat?; let n ← n.toNat?
        pure (match OrderStats.pQuery it c r n with
              | some x => fmtRat x.toRat | none => "value-error")
    | "ksa" :: p :: c :: n :: tab => do
        let p ← (← parseArg "p" parseF p); let c ← (← parseArg "c" parseF c); let n ← (← parseArg "n" parseF n)
        let t ← parseTab tab
        pure (match KFactor.ksingleApi (opsOf t) p c n with
              | some a => fmtNd fmtF a | none => "shape-error")
    | "kda" :: tol :: p :: c :: n :: tab => do
        let tol ← parseF tol
        let p ← (← parseArg "p" parseF p); let c ← (← parseArg "c" parseF c); let n ← (← parseArg "n" parseF n)
        let t ← parseTab tab
        pure (match KFactor.kdoubleApi (opsOfFuzzy t) tol p c n with
              | some (a, loops) => s!"{loops} " ++ fmtNd fmtF a | none => "shape-error")
    | "gra" :: tol :: n :: pr :: tab => do
        let tol ← parseF tol
        let n ← (← parseArg "n" parseF n); let pr ← (← parseArg "prob" parseF pr)
        let t ← parseTab tab
        match OrderStats.bmap3 (fun (n p : Float) (_ : Unit) => (n, p)) n pr (OrderStats.Nd.scalar ()) with
        | none => pure "shape-error"
        | some g =>
          let rl := KFactor.getrAll (opsOfFuzzy t) tol (g.data.map (·.1)) (g.data.map (·.2))
          pure (s!"{rl.2} " ++ fmtNd fmtF ⟨g.shape, rl.1⟩)
    | _ => none
  r.getD "bad-op"

partial def loop (h : IO.FS.Stream) (out : IO.FS.Stream) : IO Unit := do
  let line ← h.getLine
  if line.isEmpty then return ()
  out.putStrLn (answer (line.trimAscii.toString))
  loop h out

def main : IO Unit := do
  loop (← IO.getStdin) (← IO.getStdout)
