import PyYetiVerif.Model.Extrema
import PyYetiVerif.Model.ApplyUf
/-! Line protocol for C16.  Values are integers, `nan` = NaN; labels are tokens without blanks;
segments are separated by ` ; `.

  mm v… ; x…                         → `hv hx hk lv lx lk` | `value-error`      (cla.maxmin, one row)
  ext2 ; hv hx hlab lv lx llab ; …   → `hv hx hlab lv lx llab`                   (cla.extrema, 2 columns)
  ext1 ; v x lab ; …                 → same shape                                 (cla.extrema, 1 column)
  ext1old ; v x lab ; …              → pre-fix one-column update (documentation only)
  time ; lab ; v… ; x… ; lab ; …     → `cur | hv hx hk lv lx lk , …` | `value-error`
  frf  ; lab ; |v|… ; x… ; …         → same
  env v…  /  envf v…                 → envelope (`_compute_srs` / `form_extreme`)
  rec n ; j v ; …                    → column array after the writes (fill `nan`)
  store n ; j lab ; …                → case list (`-` = unset) | `value-error`
  lbl case lower useExt doappend     → label
  uf ; ruf euf duf suf ; … ;; kind m b k a v d a v d … ; …     (rationals `p/q`)
        → per uf `|`, per mode `;`, per sample `,` : `a v d ds dd`
-/
open PyYetiVerif.Extrema PyYetiVerif.ApplyUf

def pv (s : String) : Option (Option Int) :=
  if s == "nan" then some none else s.toInt?.map some

def fv : Option Int → String
  | none => "nan"
  | some v => toString v

def toks (s : String) : List String := (s.splitOn " ").filter (· ≠ "")

abbrev T := Tr Int (Option Int) String

def fT (t : T) : String := s!"{fv t.v} {fv t.x} {t.lab}"
def fTn (t : Tr Int (Option Int) Nat) : String := s!"{fv t.v} {fv t.x} {t.lab}"
def fCur : Option (Cur Int (Option Int) String) → String
  | none => "none"
  | some c => s!"{fT c.hi} {fT c.lo}"

def pT : List String → Option T
  | [v, x, l] => do pure ⟨← pv v, ← pv x, l⟩
  | _ => none

def pT2 : List String → Option (T × T)
  | [hv, hx, hl, lv, lx, ll] => do pure (← pT [hv, hx, hl], ← pT [lv, lx, ll])
  | _ => none

def pCases : List String → Option (List (String × List (Option Int) × List (Option Int)))
  | [] => some []
  | lab :: vs :: xs :: rest => do
    let l ← (toks lab).head?
    let v ← (toks vs).mapM pv
    let x ← (toks xs).mapM pv
    pure ((l, v, x) :: (← pCases rest))
  | _ => none

def fPipe (r : Option (Option (Cur Int (Option Int) String) ×
    List (Tr Int (Option Int) Nat × Tr Int (Option Int) Nat))) : String :=
  match r with
  | none => "value-error"
  | some (cur, per) => fCur cur ++ " | " ++ " , ".intercalate (per.map fun p => s!"{fTn p.1} {fTn p.2}")

def pRat (s : String) : Option Rat :=
  match s.splitOn "/" with
  | [n] => n.toInt?.map fun n => (n : Rat)
  | [n, d] => do
    let n ← n.toInt?
    let d ← d.toNat?
    if d == 0 then none else pure ((n : Rat) / (d : Rat))
  | _ => none

def fRat (r : Rat) : String := s!"{r.num}/{r.den}"

def pUf : List String → Option (Uf Rat)
  | [a, b, c, d] => do pure ⟨← pRat a, ← pRat b, ← pRat c, ← pRat d⟩
  | _ => none

def pSamples : List String → Option (List (Sample Rat))
  | [] => some []
  | a :: v :: d :: rest => do pure (⟨← pRat a, ← pRat v, ← pRat d⟩ :: (← pSamples rest))
  | _ => none

def pMode : List String → Option (Mode Rat × List (Sample Rat))
  | kind :: m :: b :: k :: rest => do
    let kd ← match kind with
      | "rb" => some Kind.rb | "el" => some Kind.el | "rf" => some Kind.rf | _ => none
    let mm ← if m == "none" then some none else (pRat m).map some
    pure (⟨kd, mm, ← pRat b, ← pRat k⟩, ← pSamples rest)
  | _ => none

def fOut (o : Out Rat) : String :=
  s!"{fRat o.a} {fRat o.v} {fRat o.d} {fRat o.dStatic} {fRat o.dDynamic}"

def answer (line : String) : String :=
  let segs := (line.splitOn ";").map (·.trimAscii.toString)
  match segs with
  | [] => "bad-op"
  | head :: rest =>
    match toks head, rest with
    | "mm" :: vs, [xs] =>
      match vs.mapM pv, (toks xs).mapM pv with
      | some v, some x =>
        match maxminRow v x with
        | some (h, l) => s!"{fTn h} {fTn l}"
        | none => "value-error"
      | _, _ => "bad-op"
    | ["ext2"], cs =>
      match cs.mapM (fun s => pT2 (toks s)) with
      | some cs => fCur (run2 cs)
      | none => "bad-op"
    | ["ext1"], cs =>
      match cs.mapM (fun s => pT (toks s)) with
      | some cs => fCur (run1 cs)
      | none => "bad-op"
    | ["ext1old"], cs =>
      match cs.mapM (fun s => pT (toks s)) with
      | some cs => fCur (run1Old cs)
      | none => "bad-op"
    | ["time"], cs =>
      match pCases cs with
      | some cs => fPipe (timeRow cs)
      | none => "bad-op"
    | ["frf"], cs =>
      match pCases cs with
      | some cs => fPipe (frfRow cs)
      | none => "bad-op"
    | "env" :: vs, [] =>
      match vs.mapM pv with
      | some (f :: r) => fv (srsEnv f r)
      | _ => "bad-op"
    | "envf" :: vs, [] =>
      match vs.mapM pv with
      | some (f :: r) => fv (srsEnvForm f r)
      | _ => "bad-op"
    | ["rec", n], ws =>
      match n.toNat?, ws.mapM (fun s => match toks s with
          | [j, v] => do pure ((← j.toNat?), (← pv v))
          | _ => none) with
      | some n, some ws => " ".intercalate ((record n none ws).map fv)
      | _, _ => "bad-op"
    | ["store", n], ws =>
      match n.toNat?, ws.mapM (fun s => match toks s with
          | [j, l] => do pure ((← j.toNat?), l)
          | _ => none) with
      | some n, some ws =>
        match storeCases n ws with
        | some cs => " ".intercalate (cs.map fun c => c.getD "-")
        | none => "value-error"
      | _, _ => "bad-op"
    | ["lbl", c, l, u, d], [] =>
      match d.toNat? with
      | some d => mkCaseLbl c l (u == "1") d
      | none => "bad-op"
    | ["uf"], body =>
      -- ufs, then an empty segment, then modes
      let ufSegs := body.takeWhile (· ≠ "")
      let modeSegs := (body.dropWhile (· ≠ "")).drop 1
      match ufSegs.mapM (fun s => pUf (toks s)), modeSegs.mapM (fun s => pMode (toks s)) with
      | some ufs, some ms =>
        let modes := ms.map (·.1)
        let sol := ms.map (·.2)
        let outs := applyUfSeq none modes sol ufs
        " | ".intercalate (outs.map fun o =>
          " ; ".intercalate (o.map fun row => " , ".intercalate (row.map fOut)))
      | _, _ => "bad-op"
    | _, _ => "bad-op"

partial def loop (h : IO.FS.Stream) (out : IO.FS.Stream) : IO Unit := do
  let line ← h.getLine
  if line.isEmpty then return ()
  out.putStrLn (answer (line.trimAscii.toString))
  loop h out

def main : IO Unit := do
  loop (← IO.getStdin) (← IO.getStdout)
