import PyYetiVerif.Model.Extrema
import PyYetiVerif.Model.ApplyUf
import PyYetiVerif.Model.ApplyUfFull
import PyYetiVerif.Model.ExtremaMerge
import PyYetiVerif.Model.ExtremaPsd
import PyYetiVerif.Model.ExtremaTree
import PyYetiVerif.Model.ExtremaHeap
import PyYetiVerif.Model.ExtremaLabels
import PyYetiVerif.Model.ExtremaSplit
import PyYetiVerif.Model.ApplyUfDef
import PyYetiVerif.Model.Srs
import PyYetiVerif.Model.SrsExt
/-! Line protocol for C16.  Values are integers, `nan` = NaN; labels are tokens without blanks;
segments are separated by ` ; `.

  mm v… ; x…                         → `hv hx hk lv lx lk` | `value-error`      (cla.maxmin, one row)
  ext2 ; hv hx hlab lv lx llab ; …   → `hv hx hlab lv lx llab`                   (cla.extrema, 2 columns)
  ext1 ; v x lab ; …                 → same shape                                 (cla.extrema, 1 column)
  ext1old ; v x lab ; …              → pre-fix one-column update (documentation only)
  time ; lab ; v… ; x… ; lab ; …     → `cur | hv hx hk lv lx lk , …` | `value-error`
  frf  ; lab ; |v|… ; x… ; …         → same
  env v…  /  envf v…                 → envelope (`_compute_srs` / `form_extreme`)
  rec n ; j v ; …                    → column array after the writes (fill `nan`)
  store n ; j lab ; …                → case list (`-` = unset) | `value-error`
  lbl case lower useExt doappend     → label
  uf ; ruf euf duf suf ; … ;; kind m b k a v d a v d … ; …     (rationals `p/q`)
        → per uf `|`, per mode `;`, per sample `,` : `a v d ds dd`

Doubles travel as the decimal value of their IEEE bit pattern (`b…` below).

  uffull given|gauss ; n nrb nt ; none|scalar i|idx i…|mask 0/1… ; none|vec b…|mat b… ; vec b…|mat b… ; k (n·n) ; kinvE ; kinvR ;
         a (n·nt, row major) ; v ; d ; ruf euf duf suf ; …
        → per uf `|`, per column `;` : `a… , v… , d… , ds… , dd…`  | `singular`
          (`given`: the factorisations are the matrices sent; `gauss`: the driver inverts `k[ee]`,
           `k[rf,rf]` itself by Gauss-Jordan elimination with partial pivoting)
  psdnum pf ; f… ; F₁… ; re₁… ; im₁… ; F₂… ; …      → `psd… | rms pk pkfreq`          (Float)
  psdext ; lab pk x ; …                              → `cur | hv hx lv lx , …`          (order keys)
  freqstore ; f… ; f… ; …                            → `ok` | `value-error`            (order keys)
  merge ; existing… ; incoming… ; old new old new …  → keys | `value-error`
  calcext ; mx… ; mn… ; cases…                       → `hv hlab lv llab` | `value-error` (order keys)
  statext k ; mx… ; mn…                              → `hi lo`                          (Float)
  addmm mx mn x1 x2 hasx maxcase mincase|-           → `hv hx hlab lv lx llab`
  psdsrs conv q eqsine ; f… ; fn… ; pf… ; F₁… ; re₁… ; im₁… ; …   → `srs_cur` per fn     (Float; C03's `vrsOne`)

Nested results (one row).  A tree is a token list: `G k name₁ <tree₁> … name_k <tree_k>` (a group) or
`B k cat₁ hv hx hlab lv lx llab … ` (a base event with k categories).

  treeform d ; <tree>      → the tree after `form_extreme(doappend=d)`
  treedel ; <tree>         → the tree after `delete_extreme()`
  treecats ; <tree>        → `name path/…/name` per category, ` , ` separated   (`all_categories`)
  treebases ; <tree>       → `name path cat,cat,…` per base event                (`all_base_events`, top = `Top`)
  treenonbases ; <tree>    → `name path key,key,…` per non-base event            (`all_nonbase_events`)

Object identity (one row):

  heap copyX ; hv lv hv lv … ; xa xb xa xb … ; lab lab … ; ext extx|- s:LAB|l:REF s:LAB|l:REF|- ; …
        → `vals… | xs… | labs… | cur` : the cells that existed before, after the history, and the accumulator

Row labels that differ between the events (whole tables, `Model/ExtremaLabels.lean`):

  mergelists ; a b c ; c d                        → `merged… | pv1… | pv2…`         (`locate.merge_lists`)
  labform d nc ; j case useExt hasX hasMx n lab₁…lab_n (hv hx hlab lv lx llab)×n ; …   (one segment per event)
        → `value-error j` | `none` |
          `lab… | hasX | hv hx hlab lv lx llab , mx… , mn… , mx_x… , mn_x… | (next row) …`
  split ; case|- mx mn mx_x mn_x ; …  (one segment per column)  → `case mx mn mx_x mn_x , …` | `type-error`
  ufdef ; -|(p/q|none)×4 ; -|(p/q|none)×4     (defaults['uf_reds'], the uf_reds argument; `-` = absent)
        → the four factors `DR_Def.add` stores
-/
open PyYetiVerif.Extrema PyYetiVerif.ApplyUf PyYetiVerif.ApplyUfFull PyYetiVerif.ExtremaPsd
open PyYetiVerif.ExtremaTree PyYetiVerif.ExtremaHeap

instance : Zero Float := ⟨0.0⟩
instance : NatCast Float := ⟨Float.ofNat⟩

def pv (s : String) : Option (Option Int) :=
  if s == "nan" then some none else s.toInt?.map some

def fv : Option Int → String
  | none => "nan"
  | some v => toString v

def toks (s : String) : List String := (s.splitOn " ").filter (· ≠ "")

abbrev T := Tr Int (Option Int) String

def fT (t : T) : String := s!"{fv t.v} {fv t.x} {t.lab}"
def fTn (t : Tr Int (Option Int) Nat) : String := s!"{fv t.v} {fv t.x} {t.lab}"
def fCur : Option (Cur Int (Option Int) String) → String
  | none => "none"
  | some c => s!"{fT c.hi} {fT c.lo}"

def pT : List String → Option T
  | [v, x, l] => do pure ⟨← pv v, ← pv x, l⟩
  | _ => none

def pT2 : List String → Option (T × T)
  | [hv, hx, hl, lv, lx, ll] => do pure (← pT [hv, hx, hl], ← pT [lv, lx, ll])
  | _ => none

def pCases : List String → Option (List (String × List (Option Int) × List (Option Int)))
  | [] => some []
  | lab :: vs :: xs :: rest => do
    let l ← (toks lab).head?
    let v ← (toks vs).mapM pv
    let x ← (toks xs).mapM pv
    pure ((l, v, x) :: (← pCases rest))
  | _ => none

def fPipe (r : Option (Option (Cur Int (Option Int) String) ×
    List (Tr Int (Option Int) Nat × Tr Int (Option Int) Nat))) : String :=
  match r with
  | none => "value-error"
  | some (cur, per) => fCur cur ++ " | " ++ " , ".intercalate (per.map fun p => s!"{fTn p.1} {fTn p.2}")

def pRat (s : String) : Option Rat :=
  match s.splitOn "/" with
  | [n] => n.toInt?.map fun n => (n : Rat)
  | [n, d] => do
    let n ← n.toInt?
    let d ← d.toNat?
    if d == 0 then none else pure ((n : Rat) / (d : Rat))
  | _ => none

def fRat (r : Rat) : String := s!"{r.num}/{r.den}"

def pUf : List String → Option (Uf Rat)
  | [a, b, c, d] => do pure ⟨← pRat a, ← pRat b, ← pRat c, ← pRat d⟩
  | _ => none

def pSamples : List String → Option (List (Sample Rat))
  | [] => some []
  | a :: v :: d :: rest => do pure (⟨← pRat a, ← pRat v, ← pRat d⟩ :: (← pSamples rest))
  | _ => none

def pMode : List String → Option (Mode Rat × List (Sample Rat))
  | kind :: m :: b :: k :: rest => do
    let kd ← match kind with
      | "rb" => some Kind.rb | "el" => some Kind.el | "rf" => some Kind.rf | _ => none
    let mm ← if m == "none" then some none else (pRat m).map some
    pure (⟨kd, mm, ← pRat b, ← pRat k⟩, ← pSamples rest)
  | _ => none

def fOut (o : Out Rat) : String :=
  s!"{fRat o.a} {fRat o.v} {fRat o.d} {fRat o.dStatic} {fRat o.dDynamic}"


/-! ### doubles -/

def pF (s : String) : Option Float := s.toNat?.map fun n => Float.ofBits (UInt64.ofNat n)
def fF (x : Float) : String := toString x.toBits.toNat
def pFs (s : String) : Option (List Float) := (toks s).mapM pF
def fFs (xs : List Float) : String := " ".intercalate (xs.map fF)

def chunkF (k : Nat) (l : List Float) : List (List Float) :=
  if k = 0 then [] else
  (List.range (l.length / k)).map fun i => (l.drop (i * k)).take k

def transposeF (rows : List (List Float)) (ncol : Nat) : List (List Float) :=
  (List.range ncol).map fun j => rows.map fun r => r.getD j 0.0

/-- Gauss-Jordan inverse with partial pivoting; `none` when a pivot is exactly zero -/
def gaussInv (A : List (List Float)) : Option (List (List Float)) := Id.run do
  let n := A.length
  let mut M : Array (Array Float) := (A.zipIdx.map fun (r, i) =>
    (r ++ (List.range n).map fun j => if i == j then 1.0 else 0.0).toArray).toArray
  for c in [0:n] do
    -- pivot
    let mut p := c
    for r in [c+1:n] do
      if (M[r]!)[c]!.abs > (M[p]!)[c]!.abs then p := r
    if (M[p]!)[c]! == 0.0 then return none
    let tmp := M[c]!
    M := M.set! c M[p]!
    M := M.set! p tmp
    let piv := (M[c]!)[c]!
    M := M.set! c ((M[c]!).map (· / piv))
    for r in [0:n] do
      if r != c then
        let f := (M[r]!)[c]!
        if f != 0.0 then
          let rowc := M[c]!
          M := M.set! r ((M[r]!).zipWith (fun x y => x - f * y) rowc)
  return some (M.toList.map fun r => (r.toList.drop n))

def pArgF (n : Nat) (s : String) : Option (Option (Arg Float)) :=
  match toks s with
  | ["none"] => some none
  | "vec" :: vs => (vs.mapM pF).map fun v => some (.vec v)
  | "mat" :: vs => (vs.mapM pF).map fun v => some (.mat (chunkF n v))
  | _ => none

def pUfF : List String → Option (Uf Float)
  | [a, b, c, d] => do pure ⟨← pF a, ← pF b, ← pF c, ← pF d⟩
  | _ => none

def fFullOut (o : FullOut Float) : String :=
  " , ".intercalate [fFs o.a, fFs o.v, fFs o.d, fFs o.ds, fFs o.dd]

def pRfArg : List String → Option RfArg
  | ["none"] => some .none
  | ["scalar", i] => i.toNat?.map .scalar
  | "idx" :: is => (is.mapM String.toNat?).map .index
  | "mask" :: bs => some (.mask (bs.map (· == "1")))
  | _ => none

def ufFull (mode : String) (segs : List String) : String :=
  match segs with
  | dims :: rfS :: mS :: bS :: kS :: keS :: krS :: aS :: vS :: dS :: ufSegs =>
    match (toks dims).mapM String.toNat?, pRfArg (toks rfS) with
    | some [n, nrb, nt], some rfa =>
      let rf := normRf rfa
      match pArgF n mS, pArgF n bS, pFs kS, pFs keS, pFs krS, pFs aS, pFs vS, pFs dS,
          ufSegs.mapM (fun s => pUfF (toks s)) with
      | some m, some (some b), some k, some ke, some kr, some a, some v, some d, some ufs =>
        let K := chunkF n k
        let el := elasticIdx n nrb rf
        let invs : Option (List (List Float) × List (List Float)) :=
          if mode == "gauss" then do
            let e ← gaussInv (pickM el el K)
            let r ← gaussInv (pickM rf rf K)
            pure (e, r)
          else some (chunkF el.length ke, chunkF rf.length kr)
        match invs with
        | none => "singular"
        | some (kinvE, kinvR) =>
          let D : FullData Float := ⟨n, nrb, rf, m, b, K, kinvE, kinvR⟩
          let A := transposeF (chunkF nt a) nt
          let V := transposeF (chunkF nt v) nt
          let Dd := transposeF (chunkF nt d) nt
          let cols : List (FullCol Float) :=
            (List.range nt).map fun t => ⟨A.getD t [], V.getD t [], Dd.getD t []⟩
          let outs := applyFullSeq none D cols ufs
          " | ".intercalate (outs.map fun o => " ; ".intercalate (o.map fFullOut))
      | _, _, _, _, _, _, _, _, _ => "bad-op"
    | _, _ => "bad-op"
  | _ => "bad-op"

def pTriples : List String → Option (List (List Float × List (Float × Float)))
  | [] => some []
  | F :: re :: im :: rest => do
    let F ← pFs F
    let re ← pFs re
    let im ← pFs im
    pure ((F, re.zip im) :: (← pTriples rest))
  | _ => none

def psdNum (pf : String) (segs : List String) : String :=
  match pF pf, segs with
  | some pf, fS :: rest =>
    match pFs fS, pTriples rest with
    | some f, some forces =>
      let psd := psdRowAcc f.length forces
      let pk := peakOf Float.sqrt pf f psd
      fFs psd ++ " | " ++ fFs [pk.rms, pk.pk, pk.pkFreq]
    | _, _ => "bad-op"
  | _, _ => "bad-op"

def psdExt (segs : List String) : String :=
  match segs.mapM (fun s => match toks s with
      | [l, v, x] => do pure (l, ← pv v, ← pv x)
      | _ => none) with
  | some cs =>
    let r := psdRow (α := Int) (X := Option Int) (L := String) cs
    fCur r.1 ++ " | " ++ " , ".intercalate (r.2.map fun p => s!"{fv p.1.v} {fv p.1.x} {fv p.2.v} {fv p.2.x}")
  | none => "bad-op"

def freqStoreAll (segs : List String) : String :=
  match segs.mapM (fun s => (toks s).mapM pv) with
  | some fs =>
    match fs.foldl (fun st f => st.bind fun s => (freqStore s f).map some) (some none) with
    | some _ => "ok"
    | none => "value-error"
  | none => "bad-op"

def pairsOf : List String → List (String × String)
  | a :: b :: r => (a, b) :: pairsOf r
  | _ => []

def mergeOp (segs : List String) : String :=
  match segs with
  | [ex, inc, ren] =>
    let rn := pairsOf (toks ren)
    let rename := fun e => ((rn.find? fun p => p.1 == e).map (·.2)).getD e
    match mergeEvents rename (toks ex) (toks inc) with
    | some ks => " ".intercalate ks
    | none => "value-error"
  | _ => "bad-op"

def calcExtOp (segs : List String) : String :=
  match segs with
  | [mx, mn, cs] =>
    match (toks mx).mapM pv, (toks mn).mapM pv with
    | some mx, some mn =>
      match calcExtRow mx mn (toks cs) with
      | some c => s!"{fv c.hi.v} {c.hi.lab} {fv c.lo.v} {c.lo.lab}"
      | none => "value-error"
    | _, _ => "bad-op"
  | _ => "bad-op"

def statExtOp (k : String) (segs : List String) : String :=
  match pF k, segs with
  | some k, [mx, mn] =>
    match pFs mx, pFs mn with
    | some mx, some mn =>
      let r := statExtRow Float.sqrt k mx mn
      fFs [r.1, r.2]
    | _, _ => "bad-op"
  | _, _ => "bad-op"

/-! ### nested results -/

abbrev CurS := Cur Int (Option Int) String

partial def pTree : List String → Option (Res CurS × List String)
  | "B" :: k :: rest => do
    let k ← k.toNat?
    let rec cats : Nat → List String → Option (List (String × CurS) × List String)
      | 0, r => some ([], r)
      | n + 1, nm :: hv :: hx :: hl :: lv :: lx :: ll :: r => do
        let p ← pT2 [hv, hx, hl, lv, lx, ll]
        let (cs, r') ← cats n r
        pure ((nm, ⟨p.1, p.2⟩) :: cs, r')
      | _, _ => none
    let (cs, r) ← cats k rest
    pure (.base cs, r)
  | "G" :: k :: rest => do
    let k ← k.toNat?
    let rec kids : Nat → List String → Option (List (String × Res CurS) × List String)
      | 0, r => some ([], r)
      | n + 1, nm :: r => do
        let (t, r1) ← pTree r
        let (ks, r2) ← kids n r1
        pure ((nm, t) :: ks, r2)
      | _, _ => none
    let (ks, r) ← kids k rest
    pure (.group ks, r)
  | _ => none

partial def fTree : Res CurS → String
  | .base cs => s!"B {cs.length}" ++ String.join (cs.map fun c => s!" {c.1} {fT c.2.hi} {fT c.2.lo}")
  | .group ks => s!"G {ks.length}" ++ String.join (ks.map fun k => s!" {k.1} {fTree k.2}")

def fPath (p : List String) : String := if p.isEmpty then "." else "/".intercalate p
def fList (p : List String) : String := if p.isEmpty then "." else ",".intercalate p

def treeOp (op : String) (d : Nat) (segs : List String) : String :=
  match segs with
  | [t] =>
    match pTree (toks t) with
    | some (t, []) =>
      match op with
      | "treeform" => fTree (form (combRow d) t)
      | "treedel" => fTree (del t)
      | "treecats" =>
        let l := (allCats t []).map fun c => s!"{c.1} {fPath c.2.2}"
        if l.isEmpty then "." else " , ".intercalate l
      | "treebases" =>
        let l := (allBases t "Top" []).map fun b => s!"{b.1} {fPath b.2.2} {fList (b.2.1.map (·.1))}"
        if l.isEmpty then "." else " , ".intercalate l
      | "treenonbases" =>
        let l := (allNonbases t "Top" []).map fun b => s!"{b.1} {fPath b.2.2} {fList b.2.1}"
        if l.isEmpty then "." else " , ".intercalate l
      | _ => "bad-op"
    | _ => "bad-op"
  | _ => "bad-op"

/-! ### object identity -/

def pPairs {β : Type} (f : String → Option β) : List String → Option (List (β × β))
  | [] => some []
  | a :: b :: r => do pure ((← f a, ← f b) :: (← pPairs f r))
  | _ => none

def pLabArg (s : String) : Option (LabArg String) :=
  if s.startsWith "s:" then some (.str (s.drop 2).toString)
  else if s.startsWith "l:" then (s.drop 2).toString.toNat?.map .list
  else none

def pCall (s : String) : Option (MmRef × LabArg String × Option (LabArg String)) :=
  match toks s with
  | [e, x, a, b] => do
    let e ← e.toNat?
    let x ← if x == "-" then some none else x.toNat?.map some
    let a ← pLabArg a
    let b ← if b == "-" then some none else (pLabArg b).map some
    pure (⟨e, x⟩, a, b)
  | _ => none

def heapOp (copyX : Bool) (segs : List String) : String :=
  match segs with
  | vS :: xS :: lS :: calls =>
    match pPairs pv (toks vS), pPairs pv (toks xS), calls.mapM pCall with
    | some vals, some xs, some hist =>
      let h : Heap Int (Option Int) String := ⟨vals, xs, toks lS⟩
      match run copyX none h none hist with
      | none => "dangling"
      | some (h', cur) =>
        let fv2 := fun (p : Option Int × Option Int) => s!"{fv p.1} {fv p.2}"
        let c := match cur with
          | none => "none"
          | some c => fCur (readCat h' c none)
        " ".intercalate ((h'.vals.take vals.length).map fv2) ++ " | " ++
          " ".intercalate ((h'.xs.take xs.length).map fv2) ++ " | " ++
          " ".intercalate (h'.labs.take (toks lS).length) ++ " | " ++ c
    | _, _, _ => "bad-op"
  | _ => "bad-op"

/-! ### SRS of a response PSD -/

def psdSrsOp (conv q eqs : String) (segs : List String) : String :=
  match pF conv, pF q, segs with
  | some conv, some q, fS :: fnS :: pfS :: rest =>
    match pFs fS, pFs fnS, pFs pfS, pTriples rest with
    | some f, some fns, some pfs, some forces =>
      -- `np.unique(np.hstack((freq, Fn)))`: the harness keeps Fn inside the grid, so the merged grid is `f`
      let grid := PyYetiVerif.Srs.mergeGrid f fns
      if grid.length != f.length then "off-grid" else
      let pts := f.zip (psdRowAcc f.length forces)
      fFs ((fns.zip pfs).map fun (fn, pf) =>
        match PyYetiVerif.Srs.vrsOne q fn pts with
        | some z => psdSrsCase conv pf q (eqs == "1") z
        | none => 0.0 / 0.0)
    | _, _, _, _ => "bad-op"
  | _, _, _ => "bad-op"

/-! ### row labels that differ between the events -/

def pRows : Nat → List String → Option (List (Cur Int (Option Int) String))
  | 0, [] => some []
  | n + 1, hv :: hx :: hl :: lv :: lx :: ll :: rest => do
    let p ← pT2 [hv, hx, hl, lv, lx, ll]
    pure (⟨p.1, p.2⟩ :: (← pRows n rest))
  | _, _ => none

def pEv (s : String) : Option (PyYetiVerif.ExtremaLabels.Ev Int Int String) :=
  match toks s with
  | j :: case :: u :: hx :: hm :: n :: rest => do
    let j ← j.toNat?
    let n ← n.toNat?
    if rest.length != 7 * n then none else
    let rows ← pRows n (rest.drop n)
    let _ := hm  -- (whether the event has per-case members: no longer matters, fix 40cd789)
    pure ⟨j, case, u == "1", ⟨rest.take n, hx == "1", rows⟩⟩
  | _ => none

def fARow (r : PyYetiVerif.ExtremaLabels.ARow Int Int) : String :=
  let fl := fun (l : List (Option Int)) => " ".intercalate (l.map fv)
  s!"{fT r.cur.hi} {fT r.cur.lo} , {fl r.mx} , {fl r.mn} , {fl r.mxx} , {fl r.mnx}"

def labFormOp (d nc : Nat) (body : List String) : String :=
  match body.mapM pEv with
  | none => "bad-op"
  | some evs =>
    match PyYetiVerif.ExtremaLabels.formCat d nc none evs with
    | .error (.value, j) => s!"value-error {j}"
    | .ok none => "none"
    | .ok (some a) =>
      " ".intercalate a.labels ++ " | " ++ (if a.hasX then "1" else "0") ++ " | " ++
        " | ".intercalate (a.rows.map fARow)

def mergeListsOp (a b : String) : String :=
  let r := PyYetiVerif.ExtremaLabels.mergeLists (toks a) (toks b)
  let fn := fun (l : List Nat) => " ".intercalate (l.map toString)
  " ".intercalate r.1 ++ " | " ++ fn r.2.1 ++ " | " ++ fn r.2.2

def splitOp (body : List String) : String :=
  match body.mapM (fun s => match toks s with
      | [c, a, b, x, y] => do
        pure ((if c == "-" then none else some c), (← pv a), (← pv b), (← pv x), (← pv y))
      | _ => none) with
  | none => "bad-op"
  | some cols =>
    match PyYetiVerif.ExtremaSplit.splitRow (cols.map (·.1)) (cols.map (·.2.1)) (cols.map (·.2.2.1))
        (cols.map (·.2.2.2.1)) (cols.map (·.2.2.2.2)) with
    | none => "type-error"
    | some parts => " , ".intercalate (parts.map fun p => s!"{p.1} {fv p.2.mx} {fv p.2.mn} {fv p.2.mxx} {fv p.2.mnx}")

def pUfTuple (s : String) : Option (Option (List (Option Rat))) :=
  match toks s with
  | ["-"] => some none
  | ts => (ts.mapM fun t => if t == "none" then some none else (pRat t).map some).map some

def ufDefOp (a b : String) : String :=
  match pUfTuple a, pUfTuple b with
  | some d, some g => " ".intercalate ((PyYetiVerif.ApplyUfDef.addUfReds d g).map fRat)
  | _, _ => "bad-op"

def answer (line : String) : String :=
  let segs := (line.splitOn ";").map (·.trimAscii.toString)
  match segs with
  | [] => "bad-op"
  | head :: rest =>
    match toks head, rest with
    | "mm" :: vs, [xs] =>
      match vs.mapM pv, (toks xs).mapM pv with
      | some v, some x =>
        match maxminRow v x with
        | some (h, l) => s!"{fTn h} {fTn l}"
        | none => "value-error"
      | _, _ => "bad-op"
    | ["ext2"], cs =>
      match cs.mapM (fun s => pT2 (toks s)) with
      | some cs => fCur (run2 cs)
      | none => "bad-op"
    | ["ext1"], cs =>
      match cs.mapM (fun s => pT (toks s)) with
      | some cs => fCur (run1 cs)
      | none => "bad-op"
    | ["ext1old"], cs =>
      match cs.mapM (fun s => pT (toks s)) with
      | some cs => fCur (run1Old cs)
      | none => "bad-op"
    | ["time"], cs =>
      match pCases cs with
      | some cs => fPipe (timeRow cs)
      | none => "bad-op"
    | ["frf"], cs =>
      match pCases cs with
      | some cs => fPipe (frfRow cs)
      | none => "bad-op"
    | "env" :: vs, [] =>
      match vs.mapM pv with
      | some (f :: r) => fv (srsEnv f r)
      | _ => "bad-op"
    | "envf" :: vs, [] =>
      match vs.mapM pv with
      | some (f :: r) => fv (srsEnvForm f r)
      | _ => "bad-op"
    | ["rec", n], ws =>
      match n.toNat?, ws.mapM (fun s => match toks s with
          | [j, v] => do pure ((← j.toNat?), (← pv v))
          | _ => none) with
      | some n, some ws => " ".intercalate ((record n none ws).map fv)
      | _, _ => "bad-op"
    | ["store", n], ws =>
      match n.toNat?, ws.mapM (fun s => match toks s with
          | [j, l] => do pure ((← j.toNat?), l)
          | _ => none) with
      | some n, some ws =>
        match storeCases n ws with
        | some cs => " ".intercalate (cs.map fun c => c.getD "-")
        | none => "value-error"
      | _, _ => "bad-op"
    | ["lbl", c, l, u, d], [] =>
      match d.toNat? with
      | some d => mkCaseLbl c l (u == "1") d
      | none => "bad-op"
    | ["uf"], body =>
      -- ufs, then an empty segment, then modes
      let ufSegs := body.takeWhile (· ≠ "")
      let modeSegs := (body.dropWhile (· ≠ "")).drop 1
      match ufSegs.mapM (fun s => pUf (toks s)), modeSegs.mapM (fun s => pMode (toks s)) with
      | some ufs, some ms =>
        let modes := ms.map (·.1)
        let sol := ms.map (·.2)
        let outs := applyUfSeq none modes sol ufs
        " | ".intercalate (outs.map fun o =>
          " ; ".intercalate (o.map fun row => " , ".intercalate (row.map fOut)))
      | _, _ => "bad-op"
    | ["uffull", mode], body => ufFull mode body
    | ["psdnum", pf], body => psdNum pf body
    | ["psdext"], body => psdExt body
    | ["freqstore"], body => freqStoreAll body
    | ["merge"], body => mergeOp body
    | ["calcext"], body => calcExtOp body
    | ["statext", k], body => statExtOp k body
    | ["treeform", d], body =>
      match d.toNat? with
      | some d => treeOp "treeform" d body
      | none => "bad-op"
    | ["treedel"], body => treeOp "treedel" 0 body
    | ["treecats"], body => treeOp "treecats" 0 body
    | ["treebases"], body => treeOp "treebases" 0 body
    | ["treenonbases"], body => treeOp "treenonbases" 0 body
    | ["heap", c], body => heapOp (c == "1") body
    | ["mergelists"], [a, b] => mergeListsOp a b
    | ["split"], body => splitOp body
    | ["ufdef"], [a, b] => ufDefOp a b
    | ["labform", d, nc], body =>
      match d.toNat?, nc.toNat? with
      | some d, some nc => labFormOp d nc body
      | _, _ => "bad-op"
    | ["psdsrs", conv, q, eqs], body => psdSrsOp conv q eqs body
    | ["addmm", mx, mn, x1, x2, hasx, mxc, mnc], [] =>
      match pv mx, pv mn, pv x1, pv x2 with
      | some mx, some mn, some x1, some x2 =>
        let c : Cur Int (Option Int) String := addMaxminRow mx mn
          (if hasx == "1" then some (x1, x2) else none) none mxc (if mnc == "-" then none else some mnc)
        fCur (some c)
      | _, _, _, _ => "bad-op"
    | _, _ => "bad-op"

partial def loop (h : IO.FS.Stream) (out : IO.FS.Stream) : IO Unit := do
  let line ← h.getLine
  if line.isEmpty then return ()
  out.putStrLn (answer (line.trimAscii.toString))
  loop h out

def main : IO Unit := do
  loop (← IO.getStdin) (← IO.getStdout)
