import PyYetiVerif.Model.RigidBody
/-! Line protocol for C06.  Floats travel as decimal `UInt64` bit patterns, integers in decimal.
Matrices are sent row-major.

request                                                         reply
`cgmass m(36)`                                                  `mcg(36) d(3) gyr(3)`
`rbgeom ng xyz(3 ng) ref(3)`                                    `rb(36 ng)`
`rbmove nr rb(6 nr) old(3) new(3)`                              `rb(6 nr)`
`rbuset ng u(18 ng) ref(3)`                                     `rb(36 ng)`
`pv lt last nb b…`                                              `pv…` (integers)
`conv drm nr lt lc mc nb b… M(nr lt)`                           `M'(nr lt)`
`cbcheck n nb bseto… bref(6) conv(0 | 1 lc mc) reorder rbnorm(-1|0|1) uref(0 x y z | 1 gridrow)
         u(3 nb) M(n n) K(n n)`
      → `chk m(n n) k(n n) rbs(6 n) rbg(6 nb) ms(36) mg(36) effmass(6 nq) percent(6 nq) frq(nq)
         resid(36)` with `chk` = `pass`/`fail`/`single` (refpoint check; `single` when lb = 6)
anything else → `bad-op` -/
open PyYetiVerif.RigidBody

abbrev P := StateT (List String) Option

def tok : P String := do
  match (← get) with
  | [] => failure
  | t :: ts => set ts; pure t
def pNat : P Nat := do let t ← tok; match t.toNat? with | some n => pure n | none => failure
def pInt : P Int := do let t ← tok; match t.toInt? with | some n => pure n | none => failure
def pF : P Float := do let n ← pNat; pure (Float.ofBits (UInt64.ofNat n))
def pMany {β} (n : Nat) (p : P β) : P (Array β) := do
  let mut a := Array.mkEmpty n
  for _ in [0:n] do a := a.push (← p)
  pure a
def pEnd : P Unit := do match (← get) with | [] => pure () | _ => failure
def pV3 : P (V3 Float) := do let x ← pF; let y ← pF; let z ← pF; pure ⟨x, y, z⟩

def ofArr (a : Array Float) (nc : Nat) : NMat Float := fun i j => a[i * nc + j]!
def tab (nr nc : Nat) (A : NMat Float) : Array Float := Id.run do
  let mut a := Array.mkEmpty (nr * nc)
  for i in [0:nr] do
    for j in [0:nc] do a := a.push (A i j)
  pure a
def fmtF (x : Float) : String := toString x.toBits.toNat
def fmtA (a : Array Float) : String := " ".intercalate (a.toList.map fmtF)
def fmtM (nr nc : Nat) (A : NMat Float) : String := fmtA (tab nr nc A)
def fmtV (v : V3 Float) : String := fmtA #[v.x, v.y, v.z]

/-- Gaussian elimination with partial pivoting: `solve(A, B)`, `A` n×n, `B` n×m -/
def gesolve (n m : Nat) (A B : NMat Float) : Array Float := Id.run do
  let w := n + m
  let mut a : Array Float := Array.mkEmpty (n * w)
  for i in [0:n] do
    for j in [0:n] do a := a.push (A i j)
    for j in [0:m] do a := a.push (B i j)
  for c in [0:n] do
    let mut p := c
    for i in [c+1:n] do
      if (a[i * w + c]!).abs > (a[p * w + c]!).abs then p := i
    if p != c then
      for j in [0:w] do
        let t := a[c * w + j]!
        a := a.set! (c * w + j) a[p * w + j]!
        a := a.set! (p * w + j) t
    let d := a[c * w + c]!
    for i in [c+1:n] do
      let f := a[i * w + c]! / d
      if f != 0 then
        for j in [c:w] do
          a := a.set! (i * w + j) (a[i * w + j]! - f * a[c * w + j]!)
  -- back substitution
  let mut x : Array Float := Array.replicate (n * m) 0
  for ii in [0:n] do
    let i := n - 1 - ii
    for j in [0:m] do
      let mut s := a[i * w + n + j]!
      for k in [i+1:n] do s := s - a[i * w + k]! * x[k * m + j]!
      x := x.set! (i * m + j) (s / a[i * w + i]!)
  pure x

def usetKinds (_ng : Nat) (u : NMat Float) : (Nat → Bool) × (Nat → Bool) :=
  (fun g => u (6 * g + 1) 1 == 2, fun g => u (6 * g + 1) 1 == 3)

def twoPi : Float := 2 * 3.141592653589793

def doCbcheck : P String := do
  let n ← pNat; let nb ← pNat
  let bseto ← pMany nb pNat; let bref0 ← pMany 6 pNat
  let cflag ← pNat
  let (lc, mc) ← (if cflag == 1 then do let a ← pF; let b ← pF; pure (a, b) else pure (1.0, 1.0))
  let reord ← pNat; let rbn ← pInt
  let ukind ← pNat
  let urefV ← (if ukind == 0 then pV3 else pure ⟨0, 0, 0⟩)
  let urefRow ← (if ukind == 1 then pNat else pure 0)
  let ua ← pMany (3 * nb) pF
  let Ma ← pMany (n * n) pF; let Ka ← pMany (n * n) pF
  pEnd
  let bl := bseto.toList
  let nq := n - nb
  -- unit conversion
  let M0 := ofArr Ma n; let K0 := ofArr Ka n; let u0 := ofArr ua 3
  let M1a := if cflag == 1 then tab n n (cbconvert M0 bl lc mc false) else Ma
  let M1 := ofArr M1a n
  let K1a := if cflag == 1 then tab n n (cbconvert K0 bl lc mc false) else Ka
  let K1 := ofArr K1a n
  let u1a := if cflag == 1 then tab nb 3 (usetConvert u0 lc) else ua
  let u1 := ofArr u1a 3
  let urefV1 : V3 Float := if cflag == 1 then ⟨urefV.x * lc, urefV.y * lc, urefV.z * lc⟩ else urefV
  -- reordering
  let pvl := pvList bl n false
  let pvf : Nat → Nat := fun i => pvl[i]!
  let M2a := if reord == 1 then tab n n (reorder M1 pvf) else M1a
  let M2 := ofArr M2a n
  let K2a := if reord == 1 then tab n n (reorder K1 pvf) else K1a
  let K2 := ofArr K2a n
  let rk := usetRank bl
  let u2a := if reord == 1 then tab nb 3 (fun i j => u1 (rk[i]!) j) else u1a
  let u2 := ofArr u2a 3
  let bset : List Nat := if reord == 1 then List.range nb else bl
  -- where the reference DOF are in the new b-set (positions relative to min(bset))
  let brefl := bref0.toList
  let bref : List Nat :=
    if reord == 1 then (List.range nb).filter (fun i => brefl.contains bl[i]!)
    else brefl
  let bmin := bset.foldl min (bset.headD 0)
  let refp := bref.map (· - bmin)
  -- geometry-based modes
  let ng := nb / 6
  let (isC, isS) := usetKinds ng u2
  let uref : V3 Float :=
    if ukind == 1 then
      -- grid id resolved by the harness to the grid's first row in the table it sends
      ⟨u1 urefRow 0, u1 urefRow 1, u1 urefRow 2⟩
    else urefV1
  let rbg_a := tab nb 6 (rbgeomUset u2 isC isS uref)
  let rbg := ofArr rbg_a 6
  let contiguous := (List.range 5).all fun i => bref[i+1]! == bref[i]! + 1
  let rbnorm := if rbn == -1 then !contiguous else rbn == 1
  -- stiffness-based modes (no zero-stiffness trimming: the harness generates none)
  let bfn : Nat → Nat := fun i => bset[i]!
  let kbb_a := tab nb nb (reorder K2 bfn)
  let kbb := ofArr kbb_a nb
  let o := flippv refp nb
  let no := o.length
  let rf : Nat → Nat := fun i => refp[i]!
  let of : Nat → Nat := fun i => o[i]!
  let kor_a := tab no 6 (fun i j => kbb (of i) (rf j))
  let kor := ofArr kor_a 6
  let koo_a := tab no no (fun i j => kbb (of i) (of j))
  let koo := ofArr koo_a no
  let krr_a := tab 6 6 (fun i j => kbb (rf i) (rf j))
  let krr := ofArr krr_a 6
  let Sa := gesolve no 6 koo kor
  let X_a := tab no 6 (fun i j => -(Sa[i * 6 + j]!))
  let X := ofArr X_a 6
  let resid_a := tab 6 6 (schurResid no krr kor X)
  let resid := ofArr resid_a 6
  let kmax := (tab 6 6 krr).foldl (fun a x => if x.abs > a then x.abs else a) 0
  let chk :=
    if no == 0 then "single"
    else
      -- np.allclose(krr, rhs, atol = max|krr| * 1e-8)   (rtol = 1e-5 on |rhs|)
      let ok := (List.range 36).all fun t =>
        let i := t / 6; let j := t % 6
        let rhs := krr i j - resid i j
        (resid i j).abs <= kmax * 1e-8 + 1e-5 * rhs.abs
      if ok then "pass" else "fail"
  let rbsB0_a := tab nb 6 (rbsAssemble refp o X)
  let rbsB0 := ofArr rbsB0_a 6
  let normz_a := tab 6 6 (fun i j => rbg (bref[i]! - bmin) j)
  let normz := ofArr normz_a 6
  let rbsBa := if rbnorm then tab nb 6 (mulN 6 rbsB0 normz) else rbsB0_a
  let rbsB := ofArr rbsBa 6
  -- rows of the full-size modes: b-set rows hold rbsB, modal rows are zero
  let rbs_a := tab n 6 (fun i j => match idxIn bset i with | some k => rbsB k j | none => 0)
  let rbs := ofArr rbs_a 6
  let ms_a := tab 6 6 (mass6 n rbs M2)
  let ms := ofArr ms_a 6
  let mbb_a := tab nb nb (reorder M2 bfn)
  let mbb := ofArr mbb_a nb
  let mg_a := tab 6 6 (mass6 nb rbg mbb)
  let mg := ofArr mg_a 6
  let q := flippv bset n
  let qf : Nat → Nat := fun i => q[i]!
  let mqb_a := tab nq nb (fun i j => M2 (qf i) (bfn j))
  let mqb := ofArr mqb_a nb
  let em_a := tab nq 6 (effmass nb mqb rbg)
  let em := ofArr em_a 6
  let ep_a := tab nq 6 (effmassPercent nb mqb rbg mg 100)
  let ep := ofArr ep_a 6
  let frq := (List.range nq).toArray.map fun i => (K2 (qf i) (qf i)).abs.sqrt / twoPi
  pure (" ".intercalate [chk, fmtM n n M2, fmtM n n K2, fmtM n 6 rbs, fmtM nb 6 rbg, fmtM 6 6 ms,
    fmtM 6 6 mg, fmtM nq 6 em, fmtM nq 6 ep, fmtA frq, fmtM 6 6 resid])

def answerP : P String := do
  let op ← tok
  match op with
  | "cgmass" => do
      let a ← pMany 36 pF; pEnd
      let (mcg, d) := cgmass (ofArr a 6)
      let mcga := tab 6 6 mcg
      let mcg := ofArr mcga 6
      pure (fmtM 6 6 mcg ++ " " ++ fmtV d ++ " " ++ fmtV (gyr mcg))
  | "rbgeom" => do
      let ng ← pNat; let a ← pMany (3 * ng) pF; let r ← pV3; pEnd
      let g : Nat → V3 Float := fun i => ⟨a[3 * i]!, a[3 * i + 1]!, a[3 * i + 2]!⟩
      pure (fmtM (6 * ng) 6 (rbgeom g r))
  | "rbmove" => do
      let nr ← pNat; let a ← pMany (6 * nr) pF; let o ← pV3; let nw ← pV3; pEnd
      pure (fmtM nr 6 (rbmove (ofArr a 6) o nw))
  | "rbuset" => do
      let ng ← pNat; let a ← pMany (18 * ng) pF; let r ← pV3; pEnd
      let u := ofArr a 3
      let (isC, isS) := usetKinds ng u
      pure (fmtM (6 * ng) 6 (rbgeomUset u isC isS r))
  | "pv" => do
      let lt ← pNat; let last ← pNat; let nb ← pNat; let b ← pMany nb pNat; pEnd
      pure (" ".intercalate ((pvList b.toList lt (last == 1)).map toString))
  | "conv" => do
      let drm ← pNat; let nr ← pNat; let lt ← pNat; let lc ← pF; let mc ← pF
      let nb ← pNat; let b ← pMany nb pNat; let a ← pMany (nr * lt) pF; pEnd
      pure (fmtM nr lt (cbconvert (ofArr a lt) b.toList lc mc (drm == 1)))
  | "cbcheck" => doCbcheck
  | _ => failure

def answer (line : String) : String :=
  match (answerP.run ((line.splitOn " ").filter (· ≠ ""))) with
  | some (s, _) => s
  | none => "bad-op"

partial def loop (h : IO.FS.Stream) (out : IO.FS.Stream) : IO Unit := do
  let line ← h.getLine
  if line.isEmpty then return ()
  out.putStrLn (answer (line.trimAscii.toString))
  loop h out

def main : IO Unit := do
  loop (← IO.getStdin) (← IO.getStdout)
