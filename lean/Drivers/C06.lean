import PyYetiVerif.Model.RigidBody
import PyYetiVerif.Model.RigidBodyGuyan
/-! Line protocol for C06.  Floats travel as decimal `UInt64` bit patterns, integers in decimal.
Matrices are sent row-major.

request                                                         reply
`cgmass m(36)`                                                  `mcg(36) d(3) gyr(3)`
`rbgeom ng xyz(3 ng) ref(3)`                                    `rb(36 ng)`
`rbmove nr rb(6 nr) old(3) new(3)`                              `rb(6 nr)`
`rbuset ng u(18 ng) ref(3)`                                     `rb(36 ng)`
`pv lt last nb b…`                                              `pv…` (integers)
`conv drm nr lt lc mc nb b… M(nr lt)`                           `M'(nr lt)`
`cbcheck n nb bseto… bref(6) conv(0 | 1 lc mc) reorder rbnorm(-1|0|1) uref(0 x y z | 1 gridrow)
         u(3 nb) M(n n) K(n n)`
      → `chk m(n n) k(n n) rbs(6 n) rbg(6 nb) ms(36) mg(36) effmass(6 nq) percent(6 nq) frq(nq)
         resid(36) ds(3) dg(3) gyrs(3) gyrg(3) Is(9) Ig(9) rbfs(6 n) Ss(36) rbfg(6 nb) Sg(36)
         rsss(3 ng) rssg(3 ng) rots(3 ng) rotg(3 ng) coords(3 ng) errs(ng) vals(6) ntrim nnull nml null… ml…`
         (`ntrim` zero-stiffness boundary DOF trimmed by `_cbcoordchk`; `null`/`ml` the two `pv` lists `_solve_eig` prints)
         with `chk` = `pass`/`fail`/`single` (refpoint check; `single` when there is no other DOF),
         or `raise-refpoint` when a reference DOF has zero stiffness, `raise-singular` when a node's
         translation block is singular (zero-stiffness translation)
`solveeig n nb p bset… M(n n) K(n n) V(n p)`
      → `n1 nx nzm keep(n1) xs(nx) zs(nzm) bflag(nx) kred(nx nx) mred(nx nx) psi(nzm nx) presid V'(n p)`
         (`V'` = the rows of `V` on the DOF with mass, expanded back by the model)
`rbdisp nn tol rb(3 nn 6)`                                      `coords(3 nn) errs(nn) warn(nn)` | `raise-singular`
`netdrm nb nbi n conv(0 | 1 lc mc) bset… sub… u(3 nb) ref(3) M(n n)`  `drm_sc(6 n) drm_lv(6 n)` (mk_net_drms: `rb.T @ M[bset[sub]]`
         with `rb = rbgeom_uset(uset[sub], ref)`; s/c version converted as a DRM, l/v version from converted M, uset, ref)
`rbmult nr nc nb bset… drm(nr nc) rb(nb 6)`                     `drmrb(nr 6)`
`cbtf0 n nb bset… a(nb) M(n n)`                                 `frc(nb) rhs(nq)`
anything else → `bad-op` -/
open PyYetiVerif.RigidBody

abbrev P := StateT (List String) Option

def tok : P String := do
  match (← get) with
  | [] => failure
  | t :: ts => set ts; pure t
def pNat : P Nat := do let t ← tok; match t.toNat? with | some n => pure n | none => failure
def pInt : P Int := do let t ← tok; match t.toInt? with | some n => pure n | none => failure
def pF : P Float := do let n ← pNat; pure (Float.ofBits (UInt64.ofNat n))
def pMany {β} (n : Nat) (p : P β) : P (Array β) := do
  let mut a := Array.mkEmpty n
  for _ in [0:n] do a := a.push (← p)
  pure a
def pEnd : P Unit := do match (← get) with | [] => pure () | _ => failure
def pV3 : P (V3 Float) := do let x ← pF; let y ← pF; let z ← pF; pure ⟨x, y, z⟩

def ofArr (a : Array Float) (nc : Nat) : NMat Float := fun i j => a[i * nc + j]!
def tab (nr nc : Nat) (A : NMat Float) : Array Float := Id.run do
  let mut a := Array.mkEmpty (nr * nc)
  for i in [0:nr] do
    for j in [0:nc] do a := a.push (A i j)
  pure a
def fmtF (x : Float) : String := toString x.toBits.toNat
def fmtA (a : Array Float) : String := " ".intercalate (a.toList.map fmtF)
def fmtM (nr nc : Nat) (A : NMat Float) : String := fmtA (tab nr nc A)
def fmtV (v : V3 Float) : String := fmtA #[v.x, v.y, v.z]

/-- Gaussian elimination with partial pivoting: `solve(A, B)`, `A` n×n, `B` n×m -/
def gesolve (n m : Nat) (A B : NMat Float) : Array Float := Id.run do
  let w := n + m
  let mut a : Array Float := Array.mkEmpty (n * w)
  for i in [0:n] do
    for j in [0:n] do a := a.push (A i j)
    for j in [0:m] do a := a.push (B i j)
  for c in [0:n] do
    let mut p := c
    for i in [c+1:n] do
      if (a[i * w + c]!).abs > (a[p * w + c]!).abs then p := i
    if p != c then
      for j in [0:w] do
        let t := a[c * w + j]!
        a := a.set! (c * w + j) a[p * w + j]!
        a := a.set! (p * w + j) t
    let d := a[c * w + c]!
    for i in [c+1:n] do
      let f := a[i * w + c]! / d
      if f != 0 then
        for j in [c:w] do
          a := a.set! (i * w + j) (a[i * w + j]! - f * a[c * w + j]!)
  -- back substitution
  let mut x : Array Float := Array.replicate (n * m) 0
  for ii in [0:n] do
    let i := n - 1 - ii
    for j in [0:m] do
      let mut s := a[i * w + n + j]!
      for k in [i+1:n] do s := s - a[i * w + k]! * x[k * m + j]!
      x := x.set! (i * m + j) (s / a[i * w + i]!)
  pure x


def maxAbs (a : Array Float) : Float := a.foldl (fun m x => if x.abs > m then x.abs else m) 0

/-- `_rbdispchk` on the rows `rb[xyz]` (3 per node): coordinates, errors, warning flags; `none` when a
translation block is exactly singular (`linalg.solve` raises) -/
def rbdispAll (nn : Nat) (rb : NMat Float) (tol : Float) : Option (Array Float × Array Float × Array Nat) := Id.run do
  let mut cs : Array Float := #[]
  let mut es : Array Float := #[]
  let mut ws : Array Nat := #[]
  for j in [0:nn] do
    let (T, TR) := rbdispBlocks rb j
    if T.det == 0 then return none
    let d := rbdispNode T TR
    cs := cs ++ #[d.coords.x, d.coords.y, d.coords.z]
    es := es.push (rbdispErr d)
    ws := ws.push (if rbdispWarn d tol then 1 else 0)
  pure (some (cs, es, ws))

/-- the preparation of `_solve_eig`: kept DOF, DOF with / without mass (positions in the trimmed
matrices), b flags, reduced stiffness and mass, psi, max residual of the psi specification -/
structure EigPrep where
  keep : List Nat
  xs : List Nat
  zs : List Nat
  bflag : List Bool
  kred : Array Float
  mred : Array Float
  psi : Array Float
  presid : Float

def eigPrep (n : Nat) (M K : NMat Float) (bset : List Nat) : EigPrep :=
  let keep := eigKeep n M K
  let n1 := keep.length
  let kf : Nat → Nat := fun i => keep[i]!
  let m1a := tab n1 n1 (reorder M kf)
  let m1 := ofArr m1a n1
  let k1a := tab n1 n1 (reorder K kf)
  let k1 := ofArr k1a n1
  let xs := massKeep n1 m1
  let zs := massless n1 m1
  let nx := xs.length
  let nzm := zs.length
  let xf : Nat → Nat := fun i => xs[i]!
  let zf : Nat → Nat := fun i => zs[i]!
  -- psi = solve(-k[zz], k[zx])
  let nkzz_a := tab nzm nzm (fun i j => -(k1 (zf i) (zf j)))
  let kzx_a := tab nzm nx (fun i j => k1 (zf i) (xf j))
  let psi_a := if nzm == 0 then #[] else gesolve nzm nx (ofArr nkzz_a nzm) (ofArr kzx_a nx)
  let psi := ofArr psi_a nx
  let kred := if nzm == 0 then tab nx nx (reorder k1 xf) else tab nx nx (guyanK nzm k1 xf zf psi)
  let mred := tab nx nx (reorder m1 xf)
  let presid := if nzm == 0 then 0 else maxAbs (tab nzm nx (psiResid nzm k1 xf zf psi))
  let bflag := xs.map fun i => bset.contains (keep[i]!)
  { keep := keep, xs := xs, zs := zs, bflag := bflag, kred := kred, mred := mred, psi := psi_a, presid := presid }

/-- eigenvectors of the reduced problem expanded to the full DOF list (`_solve_eig`, cb.py:2342-2352) -/
def eigExpand (n p : Nat) (e : EigPrep) (vred : NMat Float) : Array Float :=
  let nx := e.xs.length
  let n1 := e.keep.length
  let v1a := if e.zs.length == 0 then tab n1 p (nullExpand e.xs vred)
    else tab n1 p (guyanExpand nx e.xs e.zs (ofArr e.psi nx) vred)
  tab n p (nullExpand e.keep (ofArr v1a p))

def fmtNats (l : List Nat) : String := " ".intercalate (l.map toString)

def usetKinds (_ng : Nat) (u : NMat Float) : (Nat → Bool) × (Nat → Bool) :=
  (fun g => u (6 * g + 1) 1 == 2, fun g => u (6 * g + 1) 1 == 3)

def twoPi : Float := 2 * 3.141592653589793

def doCbcheck : P String := do
  let n ← pNat; let nb ← pNat
  let bseto ← pMany nb pNat; let bref0 ← pMany 6 pNat
  let cflag ← pNat
  let (lc, mc) ← (if cflag == 1 then do let a ← pF; let b ← pF; pure (a, b) else pure (1.0, 1.0))
  let reord ← pNat; let rbn ← pInt
  let ukind ← pNat
  let urefV ← (if ukind == 0 then pV3 else pure ⟨0, 0, 0⟩)
  let urefRow ← (if ukind == 1 then pNat else pure 0)
  let ua ← pMany (3 * nb) pF
  let Ma ← pMany (n * n) pF; let Ka ← pMany (n * n) pF
  pEnd
  let bl := bseto.toList
  let nq := n - nb
  -- unit conversion
  let M0 := ofArr Ma n; let K0 := ofArr Ka n; let u0 := ofArr ua 3
  let M1a := if cflag == 1 then tab n n (cbconvert M0 bl lc mc false) else Ma
  let M1 := ofArr M1a n
  let K1a := if cflag == 1 then tab n n (cbconvert K0 bl lc mc false) else Ka
  let K1 := ofArr K1a n
  let u1a := if cflag == 1 then tab nb 3 (usetConvert u0 lc) else ua
  let u1 := ofArr u1a 3
  let urefV1 : V3 Float := if cflag == 1 then ⟨urefV.x * lc, urefV.y * lc, urefV.z * lc⟩ else urefV
  -- reordering
  let pvl := pvList bl n false
  let pvf : Nat → Nat := fun i => pvl[i]!
  let M2a := if reord == 1 then tab n n (reorder M1 pvf) else M1a
  let M2 := ofArr M2a n
  let K2a := if reord == 1 then tab n n (reorder K1 pvf) else K1a
  let K2 := ofArr K2a n
  let rk := usetRank bl
  let u2a := if reord == 1 then tab nb 3 (fun i j => u1 (rk[i]!) j) else u1a
  let u2 := ofArr u2a 3
  let bset : List Nat := if reord == 1 then List.range nb else bl
  -- where the reference DOF are in the new b-set (positions relative to min(bset))
  let brefl := bref0.toList
  let bref : List Nat :=
    if reord == 1 then (List.range nb).filter (fun i => brefl.contains bl[i]!)
    else brefl
  let bmin := bset.foldl min (bset.headD 0)
  let refp := bref.map (· - bmin)
  -- geometry-based modes
  let ng := nb / 6
  let (isC, isS) := usetKinds ng u2
  let uref : V3 Float :=
    if ukind == 1 then
      -- grid id resolved by the harness to the grid's first row in the table it sends
      ⟨u1 urefRow 0, u1 urefRow 1, u1 urefRow 2⟩
    else urefV1
  let rbg_a := tab nb 6 (rbgeomUset u2 isC isS uref)
  let rbg := ofArr rbg_a 6
  let contiguous := (List.range 5).all fun i => bref[i+1]! == bref[i]! + 1
  let rbnorm := if rbn == -1 then !contiguous else rbn == 1
  -- stiffness-based modes, with the zero-stiffness trimming of `_cbcoordchk` (only when lb > 6)
  let bfn : Nat → Nat := fun i => bset[i]!
  let kbb_a := tab nb nb (reorder K2 bfn)
  let kbb := ofArr kbb_a nb
  let keep0 := coordKeep nb kbb
  let trimmed := nb > 6 && keep0.length < nb
  let keep := if trimmed then keep0 else List.range nb
  let lbT := keep.length
  let kpf : Nat → Nat := fun i => keep[i]!
  let kbbT_a := if trimmed then tab lbT lbT (reorder kbb kpf) else kbb_a
  let kbbT := ofArr kbbT_a lbT
  let refT := if trimmed then trimRef keep refp else refp
  if refT.length != 6 then return "raise-refpoint"
  let o := flippv refT lbT
  let no := o.length
  let rf : Nat → Nat := fun i => refT[i]!
  let of : Nat → Nat := fun i => o[i]!
  let kor_a := tab no 6 (fun i j => kbbT (of i) (rf j))
  let kor := ofArr kor_a 6
  let koo_a := tab no no (fun i j => kbbT (of i) (of j))
  let koo := ofArr koo_a no
  let krr_a := tab 6 6 (fun i j => kbbT (rf i) (rf j))
  let krr := ofArr krr_a 6
  let Sa := gesolve no 6 koo kor
  let X_a := tab no 6 (fun i j => -(Sa[i * 6 + j]!))
  let X := ofArr X_a 6
  let resid_a := tab 6 6 (schurResid no krr kor X)
  let resid := ofArr resid_a 6
  let kmax := (tab 6 6 krr).foldl (fun a x => if x.abs > a then x.abs else a) 0
  let chk :=
    if no == 0 then "single"
    else
      -- np.allclose(krr, rhs, atol = max|krr| * 1e-8)   (rtol = 1e-5 on |rhs|)
      let ok := (List.range 36).all fun t =>
        let i := t / 6; let j := t % 6
        let rhs := krr i j - resid i j
        (resid i j).abs <= kmax * 1e-8 + 1e-5 * rhs.abs
      if ok then "pass" else "fail"
  let rbsT_a := tab lbT 6 (rbsAssemble refT o X)
  let rbsB0_a := if trimmed then tab nb 6 (nullExpand keep (ofArr rbsT_a 6)) else rbsT_a
  let rbsB0 := ofArr rbsB0_a 6
  let normz_a := tab 6 6 (fun i j => rbg (bref[i]! - bmin) j)
  let normz := ofArr normz_a 6
  let rbsBa := if rbnorm then tab nb 6 (mulN 6 rbsB0 normz) else rbsB0_a
  let rbsB := ofArr rbsBa 6
  -- coordinates from the translation rows (`rbdispchk(rbmodes[xyz])`)
  let xyz_a := tab (3 * ng) 6 (fun i j => rbsB (6 * (i / 3) + i % 3) j)
  let some (coords, errs, _) := rbdispAll ng (ofArr xyz_a 6) 1.0e-4 | return "raise-singular"
  -- rows of the full-size modes: b-set rows hold rbsB, modal rows are zero
  let rbs_a := tab n 6 (fun i j => match idxIn bset i with | some k => rbsB k j | none => 0)
  let rbs := ofArr rbs_a 6
  let ms_a := tab 6 6 (mass6 n rbs M2)
  let ms := ofArr ms_a 6
  let mbb_a := tab nb nb (reorder M2 bfn)
  let mbb := ofArr mbb_a nb
  let mg_a := tab 6 6 (mass6 nb rbg mbb)
  let mg := ofArr mg_a 6
  let q := flippv bset n
  let qf : Nat → Nat := fun i => q[i]!
  let mqb_a := tab nq nb (fun i j => M2 (qf i) (bfn j))
  let mqb := ofArr mqb_a nb
  let em_a := tab nq 6 (effmass nb mqb rbg)
  let em := ofArr em_a 6
  let ep_a := tab nq 6 (effmassPercent nb mqb rbg mg 100)
  let ep := ofArr ep_a 6
  let frq := (List.range nq).toArray.map fun i => (K2 (qf i) (qf i)).abs.sqrt / twoPi
  -- mass properties at the cg
  let (mcgs0, ds) := cgmass ms
  let mcgs_a := tab 6 6 mcgs0
  let mcgs := ofArr mcgs_a 6
  let (mcgg0, dg) := cgmass mg
  let mcgg_a := tab 6 6 mcgg0
  let mcgg := ofArr mcgg_a 6
  let Is_a := tab 3 3 (fun i j => mcgs (i + 3) (j + 3))
  let Ig_a := tab 3 3 (fun i j => mcgg (i + 3) (j + 3))
  -- grounding
  let rbfs_a := tab n 6 (mulN n K2 rbs)
  let rbfs := ofArr rbfs_a 6
  let Ss_a := tab 6 6 (mulN n (trN rbs) rbfs)
  let rbfg_a := tab nb 6 (mulN nb kbb rbg)
  let rbfg := ofArr rbfg_a 6
  let Sg_a := tab 6 6 (mulN nb (trN rbg) rbfg)
  -- root-sum-square movement checks
  let rss (rb : NMat Float) (off : Nat) : Array Float :=
    tab ng 3 (fun g c =>
      let a0 := rb (6 * g + off) (c + off); let a1 := rb (6 * g + off + 1) (c + off); let a2 := rb (6 * g + off + 2) (c + off)
      (a0 * a0 + a1 * a1 + a2 * a2).sqrt)
  -- matrix value checks on the matrices `_solve_eig` hands back
  let e := eigPrep n M2 K2 bset
  let nx := e.xs.length
  let kr := ofArr e.kred nx; let mr := ofArr e.mred nx
  let bi := (List.range nx).filter fun i => e.bflag[i]!
  let qi := (List.range nx).filter fun i => !(e.bflag[i]!)
  let big : Float := 1.0e308
  let v1 := qi.foldl (fun m i => let x := (mr i i - 1).abs; if x > m then x else m) 0
  let v2 := qi.foldl (fun m i => qi.foldl (fun m2 j => if i != j && (mr i j).abs > m2 then (mr i j).abs else m2) m) 0
  let v3 := bi.foldl (fun m i => bi.foldl (fun m2 j => if (kr i j).abs > m2 then (kr i j).abs else m2) m) 0
  let v4 := bi.foldl (fun m i => qi.foldl (fun m2 j => if (kr i j).abs > m2 then (kr i j).abs else m2) m) 0
  let v5 := qi.foldl (fun m i => qi.foldl (fun m2 j => if i != j && (kr i j).abs > m2 then (kr i j).abs else m2) m) 0
  let v6 := qi.foldl (fun m i => if kr i i < m then kr i i else m) big
  let parts : List String := [chk, fmtM n n M2, fmtM n n K2, fmtM n 6 rbs, fmtM nb 6 rbg, fmtM 6 6 ms,
    fmtM 6 6 mg, fmtM nq 6 em, fmtM nq 6 ep, fmtA frq, fmtM 6 6 resid,
    fmtV ds, fmtV dg, fmtV (gyr mcgs), fmtV (gyr mcgg), fmtA Is_a, fmtA Ig_a,
    fmtA rbfs_a, fmtA Ss_a, fmtA rbfg_a, fmtA Sg_a,
    fmtA (rss rbsB 0), fmtA (rss rbg 0), fmtA (rss rbsB 3), fmtA (rss rbg 3),
    fmtA coords, fmtA errs, fmtA #[v1, v2, v3, v4, v5, v6], toString (nb - lbT),
    toString (n - e.keep.length), toString e.zs.length,
    fmtNats ((List.range n).filter fun i => !e.keep.contains i), fmtNats e.zs]
  pure (" ".intercalate (parts.filter (· ≠ "")))

def doSolveEig : P String := do
  let n ← pNat; let nb ← pNat; let p ← pNat
  let bset ← pMany nb pNat
  let Ma ← pMany (n * n) pF; let Ka ← pMany (n * n) pF; let Va ← pMany (n * p) pF
  pEnd
  let e := eigPrep n (ofArr Ma n) (ofArr Ka n) bset.toList
  let V := ofArr Va p
  -- rows of V on the DOF with mass (positions in the original numbering)
  let vred_a := tab e.xs.length p (fun a c => V (e.keep[e.xs[a]!]!) c)
  let vexp := eigExpand n p e (ofArr vred_a p)
  let parts := [toString e.keep.length, toString e.xs.length, toString e.zs.length, fmtNats e.keep, fmtNats e.xs,
    fmtNats e.zs, fmtNats (e.bflag.map fun b => if b then 1 else 0), fmtA e.kred, fmtA e.mred, fmtA e.psi,
    fmtF e.presid, fmtA vexp]
  pure (" ".intercalate (parts.filter (· ≠ "")))

def doRbdisp : P String := do
  let nn ← pNat; let tol ← pF
  let a ← pMany (3 * nn * 6) pF; pEnd
  match rbdispAll nn (ofArr a 6) tol with
  | none => pure "raise-singular"
  | some (cs, es, ws) => pure (" ".intercalate ([fmtA cs, fmtA es, fmtNats ws.toList].filter (· ≠ "")))

def doNetdrm : P String := do
  let nb ← pNat; let nbi ← pNat; let n ← pNat
  let cflag ← pNat
  let (lc, mc) ← (if cflag == 1 then do let a ← pF; let b ← pF; pure (a, b) else pure (1.0, 1.0))
  let bset ← pMany nb pNat; let sub ← pMany nbi pNat
  let ua ← pMany (3 * nb) pF; let ref ← pV3
  let Ma ← pMany (n * n) pF; pEnd
  let bl := bset.toList
  let M := ofArr Ma n
  let u := ofArr ua 3
  let ngi := nbi / 6
  let bi : Nat → Nat := fun k => bset[sub[k]!]!
  -- rows of the uset of the interface subset (`uset.iloc[bsubset]`)
  let uif (u : NMat Float) : NMat Float := fun i j => u (sub[i]!) j
  -- (arrays are bound by `let` before they are wrapped by `ofArr`: otherwise the table is rebuilt at every access)
  let rbArr (u : NMat Float) (r : V3 Float) : Array Float :=
    let uia := tab nbi 3 (uif u)
    let ui := ofArr uia 3
    let (isC, isS) := usetKinds ngi ui
    tab nbi 6 (rbgeomUset ui isC isS r)
  let rb_a := rbArr u ref
  let rb := ofArr rb_a 6
  let dsc0_a := tab 6 n (netDrm nbi rb M bi)
  let dsc0 := ofArr dsc0_a n
  let dsc := if cflag == 1 then tab 6 n (cbconvert dsc0 bl lc mc true) else dsc0_a
  let M'_a := if cflag == 1 then tab n n (cbconvert M bl lc mc false) else Ma
  let M' := ofArr M'_a n
  let u'_a := if cflag == 1 then tab nb 3 (usetConvert u lc) else ua
  let u' := ofArr u'_a 3
  let rb'_a := rbArr u' ⟨ref.x * lc, ref.y * lc, ref.z * lc⟩
  let rb' := ofArr rb'_a 6
  let dlv := if cflag == 1 then tab 6 n (netDrm nbi rb' M' bi) else dsc0_a
  pure (fmtA dsc ++ " " ++ fmtA dlv)

def doRbmult : P String := do
  let nr ← pNat; let nc ← pNat; let nb ← pNat
  let bset ← pMany nb pNat
  let d ← pMany (nr * nc) pF; let rb ← pMany (nb * 6) pF; pEnd
  pure (fmtM nr 6 (rbmult nb (ofArr d nc) (ofArr rb 6) (fun k => bset[k]!)))

def doCbtf0 : P String := do
  let n ← pNat; let nb ← pNat
  let bset ← pMany nb pNat
  let a ← pMany nb pF; let Ma ← pMany (n * n) pF; pEnd
  let M := ofArr Ma n
  let q := flippv bset.toList n
  let bf : Nat → Nat := fun k => bset[k]!
  let frc := (List.range nb).toArray.map (cbtfStaticFrc nb M bf (fun k => a[k]!))
  let rhs := (List.range q.length).toArray.map (cbtfStaticRhs nb M bf (fun i => q[i]!) (fun k => a[k]!))
  pure (" ".intercalate ([fmtA frc, fmtA rhs].filter (· ≠ "")))

def answerP : P String := do
  let op ← tok
  match op with
  | "cgmass" => do
      let a ← pMany 36 pF; pEnd
      let (mcg, d) := cgmass (ofArr a 6)
      let mcga := tab 6 6 mcg
      let mcg := ofArr mcga 6
      pure (fmtM 6 6 mcg ++ " " ++ fmtV d ++ " " ++ fmtV (gyr mcg))
  | "rbgeom" => do
      let ng ← pNat; let a ← pMany (3 * ng) pF; let r ← pV3; pEnd
      let g : Nat → V3 Float := fun i => ⟨a[3 * i]!, a[3 * i + 1]!, a[3 * i + 2]!⟩
      pure (fmtM (6 * ng) 6 (rbgeom g r))
  | "rbmove" => do
      let nr ← pNat; let a ← pMany (6 * nr) pF; let o ← pV3; let nw ← pV3; pEnd
      pure (fmtM nr 6 (rbmove (ofArr a 6) o nw))
  | "rbuset" => do
      let ng ← pNat; let a ← pMany (18 * ng) pF; let r ← pV3; pEnd
      let u := ofArr a 3
      let (isC, isS) := usetKinds ng u
      pure (fmtM (6 * ng) 6 (rbgeomUset u isC isS r))
  | "pv" => do
      let lt ← pNat; let last ← pNat; let nb ← pNat; let b ← pMany nb pNat; pEnd
      pure (" ".intercalate ((pvList b.toList lt (last == 1)).map toString))
  | "conv" => do
      let drm ← pNat; let nr ← pNat; let lt ← pNat; let lc ← pF; let mc ← pF
      let nb ← pNat; let b ← pMany nb pNat; let a ← pMany (nr * lt) pF; pEnd
      pure (fmtM nr lt (cbconvert (ofArr a lt) b.toList lc mc (drm == 1)))
  | "cbcheck" => doCbcheck
  | "solveeig" => doSolveEig
  | "rbdisp" => doRbdisp
  | "netdrm" => doNetdrm
  | "rbmult" => doRbmult
  | "cbtf0" => doCbtf0
  | _ => failure

def answer (line : String) : String :=
  match (answerP.run ((line.splitOn " ").filter (· ≠ ""))) with
  | some (s, _) => s
  | none => "bad-op"

partial def loop (h : IO.FS.Stream) (out : IO.FS.Stream) : IO Unit := do
  let line ← h.getLine
  if line.isEmpty then return ()
  out.putStrLn (answer (line.trimAscii.toString))
  loop h out

def main : IO Unit := do
  loop (← IO.getStdin) (← IO.getStdout)
