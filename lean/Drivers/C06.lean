import PyYetiVerif.Model.RigidBody
import PyYetiVerif.Model.RigidBodyGuyan
import PyYetiVerif.Model.RigidBodyNet
import PyYetiVerif.Model.RigidBodyPrinc
import PyYetiVerif.Model.RigidBodyMult
import PyYetiVerif.Model.RigidBodyCheck
/-! Line protocol for C06.  Floats travel as decimal `UInt64` bit patterns, integers in decimal.
Matrices are sent row-major.

request                                                         reply
`cgmass m(36)`                                                  `mcg(36) d(3) gyr(3)`
`rbgeom ng xyz(3 ng) ref(3)`                                    `rb(36 ng)`
`rbmove nr rb(6 nr) old(3) new(3)`                              `rb(6 nr)`
`rbuset ng u(18 ng) ref(3)`                                     `rb(36 ng)`
`pv lt last nb b…`                                              `pv…` (integers)
`conv drm nr lt lc mc nb b… M(nr lt)`                           `M'(nr lt)`
`cbcheck n nb bseto… bref(6) conv(0 | 1 lc mc | 2 = 'm2e' | 3 = 'e2m': generated factors) reorder rbnorm(-1|0|1)
         emfilt uref(0 x y z | 1 gridrow) usetN u(3 nb) M(n n) K(n n)`   (dispatch + fields: `Model/RigidBodyCheck.cbcheckWith`)
      → `chk m(n n) k(n n) rbs(6 n) rbg(6 nb) ms(36) mg(36) effmass(6 nq) percent(6 nq) frq(nq)
         resid(36) ds(3) dg(3) gyrs(3) gyrg(3) Is(9) Ig(9) rbfs(6 n) Ss(36) rbfg(6 nb) Sg(36)
         rsss(3 ng) rssg(3 ng) rots(3 ng) rotg(3 ng) coords(3 ng) errs(ng) vals(6) ntrim nnull nml nprinted rbnorm
         null… ml… printed…`
         (`ntrim` zero-stiffness boundary DOF trimmed by `_cbcoordchk`; `null`/`ml` the two `pv` lists `_solve_eig` prints)
         with `chk` = `pass`/`fail`/`single` (refpoint check; `single` when there is no other DOF),
         or `raise-refpoint` when a reference DOF has zero stiffness, `raise-singular` when a node's
         translation block is singular (zero-stiffness translation), `raise-usetrows` / `raise-notascending` (ValueError)
`solveeig n nb p bset… M(n n) K(n n) V(n p)`
      → `n1 nx nzm keep(n1) xs(nx) zs(nzm) bflag(nx) kred(nx nx) mred(nx nx) psi(nzm nx) presid V'(n p)`
         (`V'` = the rows of `V` on the DOF with mass, expanded back by the model)
`rbdisp nn tol rb(3 nn 6)`                                      `coords(3 nn) errs(nn) warn(nn)` | `raise-singular`
`netdrm nb nbi n conv(0 | 1 lc mc) bset… sub… u(3 nb) ref(3) M(n n)`  `drm_sc(6 n) drm_lv(6 n)` (mk_net_drms: `rb.T @ M[bset[sub]]`
         with `rb = rbgeom_uset(uset[sub], ref)`; s/c version converted as a DRM, l/v version from converted M, uset, ref)
`netfull nb nbi n conv(0 | 1 lc mc | 2 | 3) reorder sc(0 | 1 T(9)) g tausc taulv indep(0 | code) bset… sub… u(3 nb)
         ref(3) M(n n) K(n n)`  (the whole `mk_net_drms`: `Model/RigidBodyNet.mkNetDrmsWith`; `tausc`/`taulv` are the tau strings)
      → `ifltma_sc(6 n) ifltmd_sc(6 nb) ifltma_lv(6 n) ifltmd_lv(6 nb) ifatm_sc(6 n) ifatm_lv(6 n) cgatm_sc(6 n) cgatm_lv(6 n)
         cglfa(14 n) cglfd(14 nb) weight_sc height_sc weight_lv height_lv cg_sc(3) cg_lv(3) rb(nbi 6) rb_all(nb 6) rbe3resid
         cgresid axsc axlv replace grounding # label|label|…` (12 + 12 + 14 labels)
`princ m(36)`                                                   `pI(3) pgyr(3) residO residD ascending` (Jacobi eigh of the cg inertia)
`rbchk den spec(first | last | str | vec) nr nc nb [k…] drm(nr nc) rb(nb 6)`  integers / den: `rbmultchkQ`
      → `ok s2 | pv… | x y z ; … | us2 … | mn(3) mx(3) or none | null… | modelscale | drmrb…` (rationals n/d, nan = unset),
        `ok-borderline s2 | null… | drmrb…`, or `err rbCols | bsetString | scale`
`rbmult nr nc nb bset… drm(nr nc) rb(nb 6)`                     `drmrb(nr 6)`
`cbtf0 n nb bset… a(nb) M(n n)`                                 `frc(nb) rhs(nq)`
anything else → `bad-op` -/
open PyYetiVerif.RigidBody
open PyYetiVerif.Xyz (Result)

abbrev P := StateT (List String) Option

def tok : P String := do
  match (← get) with
  | [] => failure
  | t :: ts => set ts; pure t
def pNat : P Nat := do let t ← tok; match t.toNat? with | some n => pure n | none => failure
def pInt : P Int := do let t ← tok; match t.toInt? with | some n => pure n | none => failure
def pF : P Float := do let n ← pNat; pure (Float.ofBits (UInt64.ofNat n))
def pMany {β} (n : Nat) (p : P β) : P (Array β) := do
  let mut a := Array.mkEmpty n
  for _ in [0:n] do a := a.push (← p)
  pure a
def pEnd : P Unit := do match (← get) with | [] => pure () | _ => failure
def pV3 : P (V3 Float) := do let x ← pF; let y ← pF; let z ← pF; pure ⟨x, y, z⟩

def ofArr (a : Array Float) (nc : Nat) : NMat Float := fun i j => a[i * nc + j]!
def tab (nr nc : Nat) (A : NMat Float) : Array Float := Id.run do
  let mut a := Array.mkEmpty (nr * nc)
  for i in [0:nr] do
    for j in [0:nc] do a := a.push (A i j)
  pure a
def fmtF (x : Float) : String := toString x.toBits.toNat
def fmtA (a : Array Float) : String := " ".intercalate (a.toList.map fmtF)
def fmtM (nr nc : Nat) (A : NMat Float) : String := fmtA (tab nr nc A)
def fmtV (v : V3 Float) : String := fmtA #[v.x, v.y, v.z]

/-- Gaussian elimination with partial pivoting: `solve(A, B)`, `A` n×n, `B` n×m -/
def gesolve (n m : Nat) (A B : NMat Float) : Array Float := Id.run do
  let w := n + m
  let mut a : Array Float := Array.mkEmpty (n * w)
  for i in [0:n] do
    for j in [0:n] do a := a.push (A i j)
    for j in [0:m] do a := a.push (B i j)
  for c in [0:n] do
    let mut p := c
    for i in [c+1:n] do
      if (a[i * w + c]!).abs > (a[p * w + c]!).abs then p := i
    if p != c then
      for j in [0:w] do
        let t := a[c * w + j]!
        a := a.set! (c * w + j) a[p * w + j]!
        a := a.set! (p * w + j) t
    let d := a[c * w + c]!
    for i in [c+1:n] do
      let f := a[i * w + c]! / d
      if f != 0 then
        for j in [c:w] do
          a := a.set! (i * w + j) (a[i * w + j]! - f * a[c * w + j]!)
  -- back substitution
  let mut x : Array Float := Array.replicate (n * m) 0
  for ii in [0:n] do
    let i := n - 1 - ii
    for j in [0:m] do
      let mut s := a[i * w + n + j]!
      for k in [i+1:n] do s := s - a[i * w + k]! * x[k * m + j]!
      x := x.set! (i * m + j) (s / a[i * w + i]!)
  pure x


def maxAbs (a : Array Float) : Float := a.foldl (fun m x => if x.abs > m then x.abs else m) 0

/-- `_rbdispchk` on the rows `rb[xyz]` (3 per node): coordinates, errors, warning flags; `none` when a
translation block is exactly singular (`linalg.solve` raises) -/
def rbdispAll (nn : Nat) (rb : NMat Float) (tol : Float) : Option (Array Float × Array Float × Array Nat) := Id.run do
  let mut cs : Array Float := #[]
  let mut es : Array Float := #[]
  let mut ws : Array Nat := #[]
  for j in [0:nn] do
    let (T, TR) := rbdispBlocks rb j
    if T.det == 0 then return none
    let d := rbdispNode T TR
    cs := cs ++ #[d.coords.x, d.coords.y, d.coords.z]
    es := es.push (rbdispErr d)
    ws := ws.push (if rbdispWarn d tol then 1 else 0)
  pure (some (cs, es, ws))

/-- the preparation of `_solve_eig`: kept DOF, DOF with / without mass (positions in the trimmed
matrices), b flags, reduced stiffness and mass, psi, max residual of the psi specification -/
structure EigPrep where
  keep : List Nat
  xs : List Nat
  zs : List Nat
  bflag : List Bool
  kred : Array Float
  mred : Array Float
  psi : Array Float
  presid : Float

def eigPrep (n : Nat) (M K : NMat Float) (bset : List Nat) : EigPrep :=
  let keep := eigKeep n M K
  let n1 := keep.length
  let kf : Nat → Nat := fun i => keep[i]!
  let m1a := tab n1 n1 (reorder M kf)
  let m1 := ofArr m1a n1
  let k1a := tab n1 n1 (reorder K kf)
  let k1 := ofArr k1a n1
  let xs := massKeep n1 m1
  let zs := massless n1 m1
  let nx := xs.length
  let nzm := zs.length
  let xf : Nat → Nat := fun i => xs[i]!
  let zf : Nat → Nat := fun i => zs[i]!
  -- psi = solve(-k[zz], k[zx])
  let nkzz_a := tab nzm nzm (fun i j => -(k1 (zf i) (zf j)))
  let kzx_a := tab nzm nx (fun i j => k1 (zf i) (xf j))
  let psi_a := if nzm == 0 then #[] else gesolve nzm nx (ofArr nkzz_a nzm) (ofArr kzx_a nx)
  let psi := ofArr psi_a nx
  let kred := if nzm == 0 then tab nx nx (reorder k1 xf) else tab nx nx (guyanK nzm k1 xf zf psi)
  let mred := tab nx nx (reorder m1 xf)
  let presid := if nzm == 0 then 0 else maxAbs (tab nzm nx (psiResid nzm k1 xf zf psi))
  let bflag := xs.map fun i => bset.contains (keep[i]!)
  { keep := keep, xs := xs, zs := zs, bflag := bflag, kred := kred, mred := mred, psi := psi_a, presid := presid }

/-- eigenvectors of the reduced problem expanded to the full DOF list (`_solve_eig`, cb.py:2342-2352) -/
def eigExpand (n p : Nat) (e : EigPrep) (vred : NMat Float) : Array Float :=
  let nx := e.xs.length
  let n1 := e.keep.length
  let v1a := if e.zs.length == 0 then tab n1 p (nullExpand e.xs vred)
    else tab n1 p (guyanExpand nx e.xs e.zs (ofArr e.psi nx) vred)
  tab n p (nullExpand e.keep (ofArr v1a p))

def fmtNats (l : List Nat) : String := " ".intercalate (l.map toString)

def usetKinds (_ng : Nat) (u : NMat Float) : (Nat → Bool) × (Nat → Bool) :=
  (fun g => u (6 * g + 1) 1 == 2, fun g => u (6 * g + 1) 1 == 3)

def twoPi : Float := 2 * 3.141592653589793

/-- `_cbcoordchk` on the b-set stiffness `kbb` (rows in `bset` order): zero-stiffness trimming (more than six DOF),
stiffness-based modes with the identity on the reference DOF `refp` (positions inside the b-set), the refpoint check,
optional normalisation, coordinates and pattern errors from the translation rows (`rbdispchk`) -/
structure CoordChkOut where
  chk : String
  rbsB : Array Float
  coords : Array Float
  errs : Array Float
  resid : Array Float
  ntrim : Nat

def coordChk (nb : Nat) (kbb : NMat Float) (refp : List Nat) (normz : Option (NMat Float)) : Except String CoordChkOut := do
  let ng := nb / 6
  let kbb_a := tab nb nb kbb
  let keep0 := coordKeep nb kbb
  let trimmed := nb > PyYetiVerif.Generated.RigidBodyConsts.trimMinRows && keep0.length < nb
  let keep := if trimmed then keep0 else List.range nb
  let lbT := keep.length
  let kpf : Nat → Nat := fun i => keep[i]!
  let kbbT_a := if trimmed then tab lbT lbT (reorder kbb kpf) else kbb_a
  let kbbT := ofArr kbbT_a lbT
  let refT := if trimmed then trimRef keep refp else refp
  if refT.length != 6 then throw "raise-refpoint"
  let o := flippv refT lbT
  let no := o.length
  let rf : Nat → Nat := fun i => refT[i]!
  let of : Nat → Nat := fun i => o[i]!
  let kor_a := tab no 6 (fun i j => kbbT (of i) (rf j))
  let kor := ofArr kor_a 6
  let koo_a := tab no no (fun i j => kbbT (of i) (of j))
  let koo := ofArr koo_a no
  let krr_a := tab 6 6 (fun i j => kbbT (rf i) (rf j))
  let krr := ofArr krr_a 6
  let Sa := gesolve no 6 koo kor
  let X_a := tab no 6 (fun i j => -(Sa[i * 6 + j]!))
  let X := ofArr X_a 6
  let resid_a := tab 6 6 (schurResid no krr kor X)
  let resid := ofArr resid_a 6
  let kmax := (tab 6 6 krr).foldl (fun a x => if x.abs > a then x.abs else a) 0
  let chk :=
    if no == 0 then "single"
    else
      -- np.allclose(krr, rhs, atol = max|krr| * 1e-8)   (rtol = 1e-5 on |rhs|)
      let ok := (List.range 36).all fun t =>
        let i := t / 6; let j := t % 6
        let rhs := krr i j - resid i j
        (resid i j).abs <= kmax * Float.ofBits PyYetiVerif.Generated.RigidBodyConsts.refTolBits + 1e-5 * rhs.abs
      if ok then "pass" else "fail"
  let rbsT_a := tab lbT 6 (rbsAssemble refT o X)
  let rbsB0_a := if trimmed then tab nb 6 (nullExpand keep (ofArr rbsT_a 6)) else rbsT_a
  let rbsB0 := ofArr rbsB0_a 6
  let rbsBa := match normz with
    | some nz => tab nb 6 (mulN 6 rbsB0 nz)
    | none => rbsB0_a
  let rbsB := ofArr rbsBa 6
  -- coordinates from the translation rows (`rbdispchk(rbmodes[xyz])`)
  let xyz_a := tab (3 * ng) 6 (fun i j => rbsB (6 * (i / 3) + i % 3) j)
  match rbdispAll ng (ofArr xyz_a 6) (Float.ofBits PyYetiVerif.Generated.RigidBodyConsts.rbdispTolBits) with
  | none => throw "raise-singular"
  | some (coords, errs, _) =>
    pure { chk := chk, rbsB := rbsBa, coords := coords, errs := errs, resid := resid_a, ntrim := nb - lbT }

/-- `cb.cbcoordchk(K, bset, refpoint, rb_normalizer=…)` called directly: `coordchk n nb bset… ref(6) norm(0 | 1 N(36)) K(n n)`
→ `chk nrows rbmodes(nrows 6) coords(3 ng) errs(ng) ntrim`, or `raise-bset-multiple` / `raise-refpoint` / `raise-singular`.
(`nrows = n`: the modes are scattered to the rows `bset` of a zero matrix, with and - since the fix of finding F67 -
without modal DOF.) -/
def doCoordchk : P String := do
  let n ← pNat; let nb ← pNat
  let bset ← pMany nb pNat; let ref ← pMany 6 pNat
  let nflag ← pNat
  let nza ← (if nflag == 1 then pMany 36 pF else pure #[])
  let Ka ← pMany (n * n) pF; pEnd
  if (nb / 6) * 6 != nb then return "raise-bset-multiple"
  let K := ofArr Ka n
  let bl := bset.toList
  let kbb_a := tab nb nb (reorder K fun i => bset[i]!)
  let refp := ref.toList.filterMap (idxIn bl)
  match coordChk nb (ofArr kbb_a nb) refp (if nflag == 1 then some (ofArr nza 6) else none) with
  | .error e => pure e
  | .ok c =>
    let rbsB := ofArr c.rbsB 6
    let nrows := n
    let rbm := tab n 6 (fun i j => match idxIn bl i with | some k => rbsB k j | none => 0)
    pure (" ".intercalate ([c.chk, toString nrows, fmtA rbm, fmtA c.coords, fmtA c.errs, toString c.ntrim].filter (· ≠ "")))

/-- tabulation of an `nr x nc` block (the `memo` argument of the models): semantically the identity -/
@[noinline] def memoF (nr nc : Nat) (A : NMat Float) : Tbl Float :=
  let a := tab nr nc A
  ⟨fun i j => if i < nr && j < nc then a[i * nc + j]! else A i j, nr⟩

/-- conversion factors: `0` none, `1 lc mc` a tuple, `2` = 'm2e', `3` = 'e2m' (the factors of `_get_conv_factors`,
generated from the source) -/
def pConv : P (Option (Float × Float)) := do
  let cflag ← pNat
  match cflag with
  | 0 => pure none
  | 1 => do let a ← pF; let b ← pF; pure (some (a, b))
  | 2 => pure (some (Float.ofBits PyYetiVerif.Generated.RigidBodyConsts.m2eLenBits,
                     Float.ofBits PyYetiVerif.Generated.RigidBodyConsts.m2eMassBits))
  | 3 => pure (some (Float.ofBits PyYetiVerif.Generated.RigidBodyConsts.e2mLenBits,
                     Float.ofBits PyYetiVerif.Generated.RigidBodyConsts.e2mMassBits))
  | _ => failure

def doCbcheck : P String := do
  let n ← pNat; let nb ← pNat
  let bseto ← pMany nb pNat; let bref0 ← pMany 6 pNat
  let conv ← pConv
  let reord ← pNat; let rbn ← pInt
  let emf ← pF
  let ukind ← pNat
  let urefV ← (if ukind == 0 then pV3 else pure ⟨0, 0, 0⟩)
  let urefRow ← (if ukind == 1 then pNat else pure 0)
  let usetN ← pNat
  let ua ← pMany (3 * usetN) pF
  let Ma ← pMany (n * n) pF; let Ka ← pMany (n * n) pF
  pEnd
  let bl := bseto.toList
  let nq := n - nb
  let M0 := ofArr Ma n; let K0 := ofArr Ka n; let u0 := ofArr ua 3
  let (isC0, isS0) := usetKinds (usetN / 6) u0
  let opts : CbOpts Float := {
    conv := conv, reorder := reord == 1
    rbNorm := if rbn == -1 then none else some (rbn == 1), emFilt := emf
    nFreeFree := PyYetiVerif.Generated.RigidBodyConsts.nFreeFreeDefault }
  let uref : URef Float := if ukind == 1 then .grid urefRow else .loc urefV
  let out ← match cbcheckWith memoF n M0 K0 bl bref0.toList usetN u0 isC0 isS0 uref opts twoPi 100 with
    | .error .usetRows => return "raise-usetrows"
    | .error .notAscending => return "raise-notascending"
    | .ok o => pure o
  let M2 := out.m; let K2 := out.k
  let M2a := tab n n M2; let K2a := tab n n K2
  let bset := out.bset
  let refp := out.brefB
  let ng := nb / 6
  let rbg_a := tab nb 6 out.rbg
  let rbg := ofArr rbg_a 6
  let rbnorm := out.rbNorm
  -- stiffness-based modes (`cbcoordchk`)
  let bfn : Nat → Nat := fun i => bset[i]!
  let kbb_a := tab nb nb (reorder K2 bfn)
  let kbb := ofArr kbb_a nb
  let normz_a := tab 6 6 (fun i j => rbg (refp[i]!) j)
  let cc ← match coordChk nb kbb refp (if rbnorm then some (ofArr normz_a 6) else none) with
    | .error e => return e
    | .ok c => pure c
  let chk := cc.chk
  let rbsB := ofArr cc.rbsB 6
  let coords := cc.coords
  let errs := cc.errs
  let resid := ofArr cc.resid 6
  let lbT := nb - cc.ntrim
  -- rows of the full-size modes: b-set rows hold rbsB, modal rows are zero
  let rbs_a := tab n 6 (fun i j => match idxIn bset i with | some k => rbsB k j | none => 0)
  let rbs := ofArr rbs_a 6
  let ms_a := tab 6 6 (mass6 n rbs M2)
  let ms := ofArr ms_a 6
  let mbb_a := tab nb nb (reorder M2 bfn)
  let mbb := ofArr mbb_a nb
  let mg_a := tab 6 6 (mass6 nb rbg mbb)
  let mg := ofArr mg_a 6
  let em := out.effmass
  let ep := out.percent
  let frq := (List.range nq).toArray.map out.frq
  -- mass properties at the cg
  let (mcgs0, ds) := cgmass ms
  let mcgs_a := tab 6 6 mcgs0
  let mcgs := ofArr mcgs_a 6
  let (mcgg0, dg) := cgmass mg
  let mcgg_a := tab 6 6 mcgg0
  let mcgg := ofArr mcgg_a 6
  let Is_a := tab 3 3 (fun i j => mcgs (i + 3) (j + 3))
  let Ig_a := tab 3 3 (fun i j => mcgg (i + 3) (j + 3))
  -- grounding
  let rbfs_a := tab n 6 (mulN n K2 rbs)
  let rbfs := ofArr rbfs_a 6
  let Ss_a := tab 6 6 (mulN n (trN rbs) rbfs)
  let rbfg_a := tab nb 6 (mulN nb kbb rbg)
  let rbfg := ofArr rbfg_a 6
  let Sg_a := tab 6 6 (mulN nb (trN rbg) rbfg)
  -- root-sum-square movement checks
  let rss (rb : NMat Float) (off : Nat) : Array Float :=
    tab ng 3 (fun g c =>
      let a0 := rb (6 * g + off) (c + off); let a1 := rb (6 * g + off + 1) (c + off); let a2 := rb (6 * g + off + 2) (c + off)
      (a0 * a0 + a1 * a1 + a2 * a2).sqrt)
  -- matrix value checks on the matrices `_solve_eig` hands back
  let e := eigPrep n M2 K2 bset
  let nx := e.xs.length
  let kr := ofArr e.kred nx; let mr := ofArr e.mred nx
  let bi := (List.range nx).filter fun i => e.bflag[i]!
  let qi := (List.range nx).filter fun i => !(e.bflag[i]!)
  let big : Float := 1.0e308
  let v1 := qi.foldl (fun m i => let x := (mr i i - 1).abs; if x > m then x else m) 0
  let v2 := qi.foldl (fun m i => qi.foldl (fun m2 j => if i != j && (mr i j).abs > m2 then (mr i j).abs else m2) m) 0
  let v3 := bi.foldl (fun m i => bi.foldl (fun m2 j => if (kr i j).abs > m2 then (kr i j).abs else m2) m) 0
  let v4 := bi.foldl (fun m i => qi.foldl (fun m2 j => if (kr i j).abs > m2 then (kr i j).abs else m2) m) 0
  let v5 := qi.foldl (fun m i => qi.foldl (fun m2 j => if i != j && (kr i j).abs > m2 then (kr i j).abs else m2) m) 0
  let v6 := qi.foldl (fun m i => if kr i i < m then kr i i else m) big
  let parts : List String := [chk, fmtA M2a, fmtA K2a, fmtM n 6 rbs, fmtM nb 6 rbg, fmtM 6 6 ms,
    fmtM 6 6 mg, fmtM nq 6 em, fmtM nq 6 ep, fmtA frq, fmtM 6 6 resid,
    fmtV ds, fmtV dg, fmtV (gyr mcgs), fmtV (gyr mcgg), fmtA Is_a, fmtA Ig_a,
    fmtA rbfs_a, fmtA Ss_a, fmtA rbfg_a, fmtA Sg_a,
    fmtA (rss rbsB 0), fmtA (rss rbg 0), fmtA (rss rbsB 3), fmtA (rss rbg 3),
    fmtA coords, fmtA errs, fmtA #[v1, v2, v3, v4, v5, v6], toString (nb - lbT),
    toString (n - e.keep.length), toString e.zs.length, toString out.printed.length, (if rbnorm then "1" else "0"),
    fmtNats ((List.range n).filter fun i => !e.keep.contains i), fmtNats e.zs, fmtNats out.printed]
  pure (" ".intercalate (parts.filter (· ≠ "")))

def doSolveEig : P String := do
  let n ← pNat; let nb ← pNat; let p ← pNat
  let bset ← pMany nb pNat
  let Ma ← pMany (n * n) pF; let Ka ← pMany (n * n) pF; let Va ← pMany (n * p) pF
  pEnd
  let e := eigPrep n (ofArr Ma n) (ofArr Ka n) bset.toList
  let V := ofArr Va p
  -- rows of V on the DOF with mass (positions in the original numbering)
  let vred_a := tab e.xs.length p (fun a c => V (e.keep[e.xs[a]!]!) c)
  let vexp := eigExpand n p e (ofArr vred_a p)
  let parts := [toString e.keep.length, toString e.xs.length, toString e.zs.length, fmtNats e.keep, fmtNats e.xs,
    fmtNats e.zs, fmtNats (e.bflag.map fun b => if b then 1 else 0), fmtA e.kred, fmtA e.mred, fmtA e.psi,
    fmtF e.presid, fmtA vexp]
  pure (" ".intercalate (parts.filter (· ≠ "")))

def doRbdisp : P String := do
  let nn ← pNat; let tol ← pF
  let a ← pMany (3 * nn * 6) pF; pEnd
  match rbdispAll nn (ofArr a 6) tol with
  | none => pure "raise-singular"
  | some (cs, es, ws) => pure (" ".intercalate ([fmtA cs, fmtA es, fmtNats ws.toList].filter (· ≠ "")))

def doNetdrm : P String := do
  let nb ← pNat; let nbi ← pNat; let n ← pNat
  let cflag ← pNat
  let (lc, mc) ← (if cflag == 1 then do let a ← pF; let b ← pF; pure (a, b) else pure (1.0, 1.0))
  let bset ← pMany nb pNat; let sub ← pMany nbi pNat
  let ua ← pMany (3 * nb) pF; let ref ← pV3
  let Ma ← pMany (n * n) pF; pEnd
  let bl := bset.toList
  let M := ofArr Ma n
  let u := ofArr ua 3
  let ngi := nbi / 6
  let bi : Nat → Nat := fun k => bset[sub[k]!]!
  -- rows of the uset of the interface subset (`uset.iloc[bsubset]`)
  let uif (u : NMat Float) : NMat Float := fun i j => u (sub[i]!) j
  -- (arrays are bound by `let` before they are wrapped by `ofArr`: otherwise the table is rebuilt at every access)
  let rbArr (u : NMat Float) (r : V3 Float) : Array Float :=
    let uia := tab nbi 3 (uif u)
    let ui := ofArr uia 3
    let (isC, isS) := usetKinds ngi ui
    tab nbi 6 (rbgeomUset ui isC isS r)
  let rb_a := rbArr u ref
  let rb := ofArr rb_a 6
  let dsc0_a := tab 6 n (netDrm nbi rb M bi)
  let dsc0 := ofArr dsc0_a n
  let dsc := if cflag == 1 then tab 6 n (cbconvert dsc0 bl lc mc true) else dsc0_a
  let M'_a := if cflag == 1 then tab n n (cbconvert M bl lc mc false) else Ma
  let M' := ofArr M'_a n
  let u'_a := if cflag == 1 then tab nb 3 (usetConvert u lc) else ua
  let u' := ofArr u'_a 3
  let rb'_a := rbArr u' ⟨ref.x * lc, ref.y * lc, ref.z * lc⟩
  let rb' := ofArr rb'_a 6
  let dlv := if cflag == 1 then tab 6 n (netDrm nbi rb' M' bi) else dsc0_a
  pure (fmtA dsc ++ " " ++ fmtA dlv)

def doRbmult : P String := do
  let nr ← pNat; let nc ← pNat; let nb ← pNat
  let bset ← pMany nb pNat
  let d ← pMany (nr * nc) pF; let rb ← pMany (nb * 6) pF; pEnd
  pure (fmtM nr 6 (rbmult nb (ofArr d nc) (ofArr rb 6) (fun k => bset[k]!)))

def doCbtf0 : P String := do
  let n ← pNat; let nb ← pNat
  let bset ← pMany nb pNat
  let a ← pMany nb pF; let Ma ← pMany (n * n) pF; pEnd
  let M := ofArr Ma n
  let q := flippv bset.toList n
  let bf : Nat → Nat := fun k => bset[k]!
  let frc := (List.range nb).toArray.map (cbtfStaticFrc nb M bf (fun k => a[k]!))
  let rhs := (List.range q.length).toArray.map (cbtfStaticRhs nb M bf (fun i => q[i]!) (fun k => a[k]!))
  pure (" ".intercalate ([fmtA frc, fmtA rhs].filter (· ≠ "")))


/-! ### mk_net_drms as a whole -/

def solve6 (nc : Nat) (A B : NMat Float) : NMat Float :=
  let x := gesolve 6 nc A B
  fun i j => x[i * nc + j]!

def maxAbsA (a : Array Float) : Float := a.foldl (fun m x => if x.abs > m then x.abs else m) 0

def doNetfull : P String := do
  let nb ← pNat; let nbi ← pNat; let n ← pNat
  let conv ← pConv
  let reord ← pNat
  let scflag ← pNat
  let sca ← (if scflag == 1 then pMany 9 pF else pure #[])
  let g ← pF
  let tauSc ← tok; let tauLv ← tok
  let indep ← pNat
  let bset ← pMany nb pNat; let sub ← pMany nbi pNat
  let ua ← pMany (3 * nb) pF; let ref ← pV3
  let Ma ← pMany (n * n) pF; let Ka ← pMany (n * n) pF; pEnd
  let u := ofArr ua 3
  let (isC, isS) := usetKinds (nb / 6) u
  let o : NetOpts Float := {
    conv := conv, sccoord := if scflag == 1 then some (ofArr sca 3) else none, g := g
    tauScG := tauSc == "g", tauLvG := tauLv == "g", reorder := reord == 1
    rbe3Indep := if indep == 0 then none else some indep }
  let r := mkNetDrmsWith memoF n (ofArr Ma n) (ofArr Ka n) bset.toList sub.toList u isC isS ref o solve6
  -- specification residuals of the two kernels: A X = B (RBE3 normal equations), Mcg X = B (cg acceleration)
  let m := r.nxyz
  let res1 := maxAbsA (tab 6 m fun i j => (sumN 6 fun t => r.rbe3A i t * r.rbe3X t j) - r.rbe3B i j)
  let sc1 := maxAbsA (tab 6 m r.rbe3B)
  let res2 := maxAbsA (tab 6 n fun i j => (sumN 6 fun t => r.mcg i t * r.cgX t j) - r.cgB i j)
  let sc2 := maxAbsA (tab 6 n r.cgB)
  let nbi' := (if reord == 1 then (netReorderSub bset.toList sub.toList).length else nbi)
  let fl : List String := [fmtM 6 n r.ifltmaSc, fmtM 6 nb r.ifltmdSc, fmtM 6 n r.ifltmaLv, fmtM 6 nb r.ifltmdLv,
    fmtM 6 n r.ifatmSc, fmtM 6 n r.ifatmLv, fmtM 6 n r.cgatmSc, fmtM 6 n r.cgatmLv, fmtM 14 n r.cglfa, fmtM 14 nb r.cglfd,
    fmtA #[r.weightSc, r.heightSc, r.weightLv, r.heightLv], fmtV r.cgSc, fmtV r.cgLv, fmtM nbi' 6 r.rb, fmtM nb 6 r.rbAll,
    fmtA #[res1 / (if sc1 == 0 then 1 else sc1), res2 / (if sc2 == 0 then 1 else sc2)]]
  let ints : String := s!"{r.axSc} {r.axLv} {if r.replaceLv then 1 else 0} {if r.grounding then 1 else 0}"
  let labels := "|".intercalate (ifltmLabels r.axSc r.axLv ++ ifatmLabels r.axSc r.axLv tauSc tauLv ++ cglfLabels r.replaceLv)
  pure (" ".intercalate (fl.filter (· ≠ "")) ++ " " ++ ints ++ " # " ++ labels)

/-! ### cgmass(all6=True): principal axes -/

/-- cyclic Jacobi iteration for a symmetric 3x3 matrix (the `Float` stand-in for `linalg.eigh`): eigenvalues ascending,
eigenvectors in the columns of `V` -/
def jacobi3 (I : NMat Float) : Array Float × Array Float := Id.run do
  let mut a : Array Float := tab 3 3 I
  let mut v : Array Float := #[1, 0, 0, 0, 1, 0, 0, 0, 1]
  for _ in [0:60] do
    for (p, q) in [(0, 1), (0, 2), (1, 2)] do
      let apq := a[3 * p + q]!
      if apq != 0 then
        let theta := (a[3 * q + q]! - a[3 * p + p]!) / (2 * apq)
        let t := (if theta >= 0 then 1.0 else -1.0) / (theta.abs + (theta * theta + 1).sqrt)
        let c := 1 / (t * t + 1).sqrt
        let s := t * c
        -- A <- Jᵀ A J, V <- V J with J = rotation in the (p, q) plane
        let mut b := a
        for k in [0:3] do
          let akp := a[3 * k + p]!; let akq := a[3 * k + q]!
          b := b.set! (3 * k + p) (c * akp - s * akq)
          b := b.set! (3 * k + q) (s * akp + c * akq)
        let mut d := b
        for k in [0:3] do
          let bpk := b[3 * p + k]!; let bqk := b[3 * q + k]!
          d := d.set! (3 * p + k) (c * bpk - s * bqk)
          d := d.set! (3 * q + k) (s * bpk + c * bqk)
        a := d
        let mut w := v
        for k in [0:3] do
          let vkp := v[3 * k + p]!; let vkq := v[3 * k + q]!
          w := w.set! (3 * k + p) (c * vkp - s * vkq)
          w := w.set! (3 * k + q) (s * vkp + c * vkq)
        v := w
  -- sort ascending
  let idx := [0, 1, 2].mergeSort fun i j => a[3 * i + i]! <= a[3 * j + j]!
  let w := idx.toArray.map fun i => a[3 * i + i]!
  let vs := tab 3 3 fun r c => v[3 * r + idx[c]!]!
  pure (w, vs)

def doPrinc : P String := do
  let a ← pMany 36 pF; pEnd
  let (mcg0, _) := cgmass (ofArr a 6)
  let mcga := tab 6 6 mcg0
  let mcg := ofArr mcga 6
  let Ia := tab 3 3 (inertiaBlock mcg)
  let I := ofArr Ia 3
  let (w, va) := jacobi3 I
  let V := ofArr va 3
  let wf : Nat → Float := fun i => w[i]!
  let pg := (List.range 3).toArray.map (princGyr mcg wf V)
  let sc := maxAbsA Ia
  let rO := maxAbsA (tab 3 3 (eighResidO V))
  let rD := maxAbsA (tab 3 3 (eighResidD I V wf)) / (if sc == 0 then 1 else sc)
  pure (fmtA w ++ " " ++ fmtA pg ++ " " ++ fmtA #[rO, rD] ++ " " ++ (if ascending3 wf then "1" else "0"))

/-! ### rbmultchk on exact rationals -/

def fmtQ (q : Rat) : String := s!"{q.num}/{q.den}"
def fmtOQ : Option Rat → String
  | some q => fmtQ q
  | none => "nan"

def doRbchk : P String := do
  let den ← pNat
  let spectok ← tok
  let nr ← pNat; let nc ← pNat; let nb ← pNat
  let vecl ← (if spectok == "vec" then do let k ← pNat; pMany k pNat else pure #[])
  let d ← pMany (nr * nc) pInt; let rb ← pMany (nb * 6) pInt; pEnd
  let q (x : Int) : Rat := mkRat x den
  let drm : List (List Rat) := (List.range nr).map fun i => (List.range nc).map fun j => q d[i * nc + j]!
  let rbl : List (List Rat) := (List.range nb).map fun i => (List.range 6).map fun j => q rb[i * 6 + j]!
  let spec : BsetSpec := match spectok with
    | "first" => .first
    | "last" => .last
    | "vec" => .vec vecl.toList
    | s => .str s
  match rbmultchkQ drm rbl spec with
  | .error e => pure ("err " ++ (match e with | .rbCols => "rbCols" | .bsetString => "bsetString" | .scale => "scale"))
  | .ok o =>
    let drmrb := " ".intercalate (o.drmrb.map fun r => " ".intercalate (r.map fmtQ))
    let nulls := " ".intercalate (o.nullRows.map toString)
    match o.trips with
    | none => pure (s!"ok-borderline {fmtQ o.rbscale2} | {nulls} | {drmrb}")
    | some t =>
      let pv := " ".intercalate (t.pv.map fun b => if b then "1" else "0")
      let cs := " ; ".intercalate (t.coords.map fun c => match c with
        | some (x, y, z) => s!"{fmtQ x} {fmtQ y} {fmtQ z}"
        | none => "nan nan nan")
      let us := " ".intercalate (o.unitScale2.map fmtOQ)
      let ex := match o.extremes with
        | some ((a, b, c), (x, y, z)) => s!"{fmtQ a} {fmtQ b} {fmtQ c} {fmtQ x} {fmtQ y} {fmtQ z}"
        | none => "none"
      pure (s!"ok {fmtQ o.rbscale2} | {pv} | {cs} | {us} | {ex} | {nulls} | {fmtQ t.modelScale} | {drmrb}")

def answerP : P String := do
  let op ← tok
  match op with
  | "cgmass" => do
      let a ← pMany 36 pF; pEnd
      let (mcg, d) := cgmass (ofArr a 6)
      let mcga := tab 6 6 mcg
      let mcg := ofArr mcga 6
      pure (fmtM 6 6 mcg ++ " " ++ fmtV d ++ " " ++ fmtV (gyr mcg))
  | "rbgeom" => do
      let ng ← pNat; let a ← pMany (3 * ng) pF; let r ← pV3; pEnd
      let g : Nat → V3 Float := fun i => ⟨a[3 * i]!, a[3 * i + 1]!, a[3 * i + 2]!⟩
      pure (fmtM (6 * ng) 6 (rbgeom g r))
  | "rbmove" => do
      let nr ← pNat; let a ← pMany (6 * nr) pF; let o ← pV3; let nw ← pV3; pEnd
      pure (fmtM nr 6 (rbmove (ofArr a 6) o nw))
  | "rbuset" => do
      let ng ← pNat; let a ← pMany (18 * ng) pF; let r ← pV3; pEnd
      let u := ofArr a 3
      let (isC, isS) := usetKinds ng u
      pure (fmtM (6 * ng) 6 (rbgeomUset u isC isS r))
  | "pv" => do
      let lt ← pNat; let last ← pNat; let nb ← pNat; let b ← pMany nb pNat; pEnd
      pure (" ".intercalate ((pvList b.toList lt (last == 1)).map toString))
  | "conv" => do
      let drm ← pNat; let nr ← pNat; let lt ← pNat; let lc ← pF; let mc ← pF
      let nb ← pNat; let b ← pMany nb pNat; let a ← pMany (nr * lt) pF; pEnd
      pure (fmtM nr lt (cbconvert (ofArr a lt) b.toList lc mc (drm == 1)))
  | "cbcheck" => doCbcheck
  | "solveeig" => doSolveEig
  | "rbdisp" => doRbdisp
  | "netdrm" => doNetdrm
  | "netfull" => doNetfull
  | "coordchk" => doCoordchk
  | "princ" => doPrinc
  | "rbchk" => doRbchk
  | "rbmult" => doRbmult
  | "cbtf0" => doCbtf0
  | _ => failure

def answer (line : String) : String :=
  match (answerP.run ((line.splitOn " ").filter (· ≠ ""))) with
  | some (s, _) => s
  | none => "bad-op"

partial def loop (h : IO.FS.Stream) (out : IO.FS.Stream) : IO Unit := do
  let line ← h.getLine
  if line.isEmpty then return ()
  out.putStrLn (answer (line.trimAscii.toString))
  loop h out

def main : IO Unit := do
  loop (← IO.getStdin) (← IO.getStdout)
