import PyYetiVerif.Model.BulkGrid
import PyYetiVerif.Model.BulkDmigX
import PyYetiVerif.Model.BulkMulti
import PyYetiVerif.Model.BulkReal
import PyYetiVerif.Model.BulkUset
import PyYetiVerif.Model.BulkTabDefault
/-! Line protocol for C13 (text travels as lowercase hex of its ASCII bytes; a file is its
lines joined by `0a`).

  findseq <start> v…            → n | value-error
  compress v…                   → items `a` / `a:b`
  nasints <start> v…            → hex text
  csuper <id> v…  | extrn id dof id dof … | spoints v… | set <id> <maxlen> v…   → hex text
  wrap <maxlen> hextoken…       → hex text                (`_wrap_text_lines(tokens, maxlen, "")`)
  tabled1 <0|1 wide> <hexname> <tid> hexfield…   → hex text   (fields t0 d0 t1 d1 …)
  tabled1d <hexname> <tid> bits…   → hex text of wttabled1 with its DEFAULT form (`tabled1LinesDefault`; bit patterns t0 d0 t1 d1 …)
  dmig <hexname> <single 0|1> <mtype> <nr> <nc> rowids(2·nr) colids(2·nc) entries(2·nr·nc, row major re im) → hex text
  rdcards <hexname> <hextext>   → cards `;`-separated, fields `,`-separated: i<n> f<m>e<e> s<hex> b
  rdspoints|rdcsupers|rdextrn|rdsets|rddmig <hextext>,  rdtabled1 <hexname> <hextext>
      rddmig → name|form|mtype|rows|cols|frame  (frame: rows `/`-separated, entries `re@im`)
  rddmigx <expanded 0|1> <square 0|1> <hextext>   → like rddmig (`rddmig(f, expanded=…, square=…)`)
  pye <w> <p> <e|E|D> <bits>    → hex text of `'{:w.pE}'.format(x)` (x = the double with that bit pattern), pyf <w> <p> <bits> likewise
  dmigr <hexname> <single 0|1> <mtype> <nr> <nc> rowids colids entries(2·nr·nc bit patterns, row major re im) → hex text
  usettab <n> (cord)×n <m> (g <id> <cd> <cdtype> hx hy hz | s <id>)×m   → hex text of uset2bulk | error:…
  b2u <hextext>                 → `id.cd.type` per grid of bulk2uset's table | error
  fileok <seg>…                 → ok | bad      (`fileOKb bulkReaders`; <seg> = c<owner>/<hexline>/… | j/<hexline>/…)
  vecw  <arg>…                  → hex text of the rows (`" ".join`) | error:ValueError | error:IndexError
      <arg> = s <int>  |  v <k> <int>×k
  grids <wide 0|1> I <arg> C <arg> X <m> (hx hy hz)×m D <arg> P <oarg> S <oarg>   → hex text | error:…
      <oarg> like <arg> with `-` for the empty string
  cords <n> (hexname cid ref hexfield×9)×n      → hex text
  uset  <n> (cord)×n I <arg> X <m> (hx hy hz)×m D <arg>   → hex text | error:…
  rdgrids <hextext>             → none | error:IndexError | rows `;`-separated
  rdcord2 <hextext>             → error | rows `;`-separated (twelve numbers each)
  rdcardsk <hextext>            → cards of `rdcards(f, r"(cord2[rcs])\b", regex, keep_name, list)`
-/
open PyYetiVerif.Bulk

def hexDigit (n : Nat) : Char := if n < 10 then Char.ofNat (48 + n) else Char.ofNat (87 + n)
def toHex (s : Txt) : String :=
  String.ofList (s.flatMap fun c => [hexDigit (c.toNat / 16), hexDigit (c.toNat % 16)])
def hexVal (c : Char) : Nat :=
  if c.isDigit then c.toNat - 48 else if c.toNat ≥ 97 then c.toNat - 87 else c.toNat - 55
def ofHexAux : List Char → Txt
  | a :: b :: r => Char.ofNat (hexVal a * 16 + hexVal b) :: ofHexAux r
  | _ => []
def ofHex (s : String) : Txt := if s = "-" then [] else ofHexAux s.toList

def fileHex (ls : List Txt) : String :=
  let h := toHex (List.intercalate ['\n'] ls)
  if h.isEmpty then "-" else h
def linesOf (s : String) : List Txt :=
  let t := ofHex s
  let ls := splitOnChar '\n' t
  -- file iteration does not yield an empty last line
  if ls.getLast? = some [] then ls.dropLast else ls

def parseInts (ws : List String) : Option (List Int) := ws.mapM String.toInt?

def fmtVal : Val → String
  | .int n => s!"i{n}"
  | .num m e => s!"f{m}e{e}"
  | .str s => "s" ++ toHex s
  | .blank => "b"

def fmtCard (c : List Val) : String := "[" ++ ",".intercalate (c.map fmtVal) ++ "]"
def fmtPairs (l : List (Val × Val)) : String :=
  ",".intercalate (l.map fun (a, b) => fmtVal a ++ "/" ++ fmtVal b)
def fmtLbl (p : Int × Int) : String := s!"{p.1}.{p.2}"

def pairsOfInts : List Int → List (Int × Int)
  | a :: b :: r => (a, b) :: pairsOfInts r
  | _ => []

/-! token parsers: consume a prefix of the word list -/

def pInt : List String → Option (Int × List String)
  | w :: r => w.toInt?.map (·, r)
  | [] => none

def pOInt : List String → Option (Option Int × List String)
  | "-" :: r => some (none, r)
  | w :: r => w.toInt?.map (fun n => (some n, r))
  | [] => none

def pMany {α : Type} (p : List String → Option (α × List String)) : Nat → List String → Option (List α × List String)
  | 0, ws => some ([], ws)
  | n + 1, ws => match p ws with
      | some (a, r) => (pMany p n r).map fun (l, r') => (a :: l, r')
      | none => none

def pArg {α : Type} (p : List String → Option (α × List String)) : List String → Option (VArg α × List String)
  | "s" :: r => (p r).map fun (a, r') => (.scalar a, r')
  | "v" :: k :: r => match k.toNat? with
      | some k => (pMany p k r).map fun (l, r') => (.vec l, r')
      | none => none
  | _ => none

def pHex : List String → Option (Txt × List String)
  | w :: r => some (ofHex w, r)
  | [] => none

def pXyz : List String → Option ((Txt × Txt × Txt) × List String)
  | a :: b :: c :: r => some ((ofHex a, ofHex b, ofHex c), r)
  | _ => none

def pCord : List String → Option (CordIn × List String)
  | nm :: cid :: ref :: r => match cid.toInt?, ref.toInt?, pMany pHex 9 r with
      | some c, some f, some (abc, r') => some ({ name := ofHex nm, cid := c, ref := f, abc := abc }, r')
      | _, _, _ => none
  | _ => none

def pCount {α : Type} (p : List String → Option (α × List String)) : List String → Option (List α × List String)
  | k :: r => match k.toNat? with
      | some k => pMany p k r
      | none => none
  | [] => none

partial def pArgs (ws : List String) : Option (List (VArg Int)) :=
  if ws.isEmpty then some [] else
  match pArg pInt ws with
  | some (a, r) => (pArgs r).map (a :: ·)
  | none => none

def fmtRes (r : WRes (List Txt)) : String :=
  match r with
  | .ok ls => fileHex ls
  | .valueError => "error:ValueError"
  | .indexError => "error:IndexError"

def fmtRows (rows : List (List Val)) : String := ";".intercalate (rows.map fmtCard)

def answerGrid (ws : List String) : Option String :=
  match ws with
  | "grids" :: w :: "I" :: r => do
      let (ids, r) ← pArg pInt r
      let r ← (match r with | "C" :: r => some r | _ => none)
      let (cp, r) ← pArg pInt r
      let r ← (match r with | "X" :: r => some r | _ => none)
      let (xyz, r) ← pCount pXyz r
      let r ← (match r with | "D" :: r => some r | _ => none)
      let (cd, r) ← pArg pInt r
      let r ← (match r with | "P" :: r => some r | _ => none)
      let (ps, r) ← pArg pOInt r
      let r ← (match r with | "S" :: r => some r | _ => none)
      let (seid, _) ← pArg pOInt r
      let idl := match ids with | .vec l => l | .scalar a => [a]
      some (fmtRes (gridLines { ids := idl, cp := cp, xyz := xyz, cd := cd, ps := ps, seid := seid, wide := w == "1" }))
  | "cords" :: r => do
      let (cs, _) ← pCount pCord r
      some (fileHex (cordLines cs))
  | "uset" :: r => do
      let (cs, r) ← pCount pCord r
      let r ← (match r with | "I" :: r => some r | _ => none)
      let (ids, r) ← pArg pInt r
      let r ← (match r with | "X" :: r => some r | _ => none)
      let (xyz, r) ← pCount pXyz r
      let r ← (match r with | "D" :: r => some r | _ => none)
      let (cd, _) ← pArg pInt r
      let idl := match ids with | .vec l => l | .scalar a => [a]
      let cdl := match cd with | .vec l => l | .scalar a => [a]
      some (fmtRes (usetLines cs idl xyz cdl))
  | "vecw" :: r => do
      let args ← pArgs r
      match vecRows args with
      | .ok rows => some (fileHex (rows.map fun row => (" ".intercalate (row.map toString)).toList))
      | .valueError => some "error:ValueError"
      | .indexError => some "error:IndexError"
  | ["rdgrids", t] => some (match rdGrids (linesOf t) with
      | .none => "none"
      | .indexError => "error:IndexError"
      | .rows rs => fmtRows rs)
  | ["rdcord2", t] => some (match rdCord2 (linesOf t) with
      | none => "error"
      | some rs => fmtRows rs)
  | ["rdcardsk", t] =>
      let cs := rdcardsBy cord2Match true (linesOf t)
      some (if cs.isEmpty then "none" else fmtRows cs)
  | _ => none

def fmtDmigs : Option (List DmigRead) → String
  | some ds => ";".intercalate (ds.map fun d =>
      toHex d.name ++ "|" ++ fmtVal d.form ++ "|" ++ fmtVal d.mtype ++ "|" ++
      " ".intercalate (d.rows.map fmtLbl) ++ "|" ++ " ".intercalate (d.cols.map fmtLbl) ++ "|" ++
      "/".intercalate (d.frame.map fun row => " ".intercalate (row.map fun (x, y) => fmtVal x ++ "@" ++ fmtVal y)))
  | none => "error"

def answer (line : String) : String :=
  match (line.splitOn " ").filter (· ≠ "") with
  | "findseq" :: st :: ws => match st.toNat?, parseInts ws with
      | some s, some xs => match findSeq xs s with
          | some n => toString n
          | none => "value-error"
      | _, _ => "bad-op"
  | "compress" :: ws => match parseInts ws with
      | some xs => " ".intercalate ((compress xs).map fun
          | .one x => toString x
          | .thru a b => s!"{a}:{b}")
      | none => "bad-op"
  | "nasints" :: st :: ws => match st.toNat?, parseInts ws with
      | some s, some xs => fileHex (nasintsText s xs)
      | _, _ => "bad-op"
  | "csuper" :: ws => match parseInts ws with
      | some (i :: xs) => fileHex (csuperLines i xs)
      | _ => "bad-op"
  | "extrn" :: ws => match parseInts ws with
      | some xs => fileHex (extrnLines (pairsOfInts xs))
      | _ => "bad-op"
  | "spoints" :: ws => match parseInts ws with
      | some xs => fileHex (spointLines xs)
      | _ => "bad-op"
  | "set" :: ws => match parseInts ws with
      | some (i :: mx :: xs) => fileHex (setLines i xs mx.toNat)
      | _ => "bad-op"
  | "wrap" :: mx :: ws => match mx.toNat? with
      | some m => fileHex (wrapLines m (ws.map ofHex))
      | none => "bad-op"
  | "tabled1" :: w :: nm :: tid :: ws => match tid.toInt? with
      | some t =>
          let fs := ws.map ofHex
          let rec prs : List Txt → List (Txt × Txt)
            | a :: b :: r => (a, b) :: prs r
            | _ => []
          fileHex (tabled1Lines (w == "1") (ofHex nm) t (prs fs))
      | none => "bad-op"
  | "tabled1d" :: nm :: tid :: ws => match tid.toInt?, ws.mapM String.toNat? with
      | some t, some bs =>
          let rec prsD : List Nat → List (PyYetiVerif.PyFloat.Dbl × PyYetiVerif.PyFloat.Dbl)
            | a :: b :: r => (dblOf a, dblOf b) :: prsD r
            | _ => []
          fileHex (tabled1LinesDefault (ofHex nm) t (prsD bs))
      | _, _ => "bad-op"
  | "dmig" :: nm :: sg :: mt :: nr :: nc :: ws => match mt.toNat?, nr.toNat?, nc.toNat?, parseInts ws with
      | some mt, some nr, some nc, some xs =>
          let rowids := pairsOfInts (xs.take (2 * nr))
          let colids := pairsOfInts ((xs.drop (2 * nr)).take (2 * nc))
          let ents := pairsOfInts (xs.drop (2 * nr + 2 * nc))
          let d : Dmig := { name := ofHex nm, single := sg == "1", mtype := mt, rowids := rowids,
                            colids := colids, m := chunks nc ents }
          fileHex d.lines
      | _, _, _, _ => "bad-op"
  | ["rdcards", nm, t] =>
      let cs := rdcards (ofHex nm) (linesOf t)
      if cs.isEmpty then "none" else ";".intercalate (cs.map fmtCard)
  | ["rdspoints", t] => match rdSpoints (linesOf t) with
      | some l => " ".intercalate (l.map toString)
      | none => "error"
  | ["rdcsupers", t] => ";".intercalate ((rdCsupers (linesOf t)).map fun (k, c) => fmtVal k ++ "=" ++ fmtCard c)
  | ["rdextrn", t] => match rdExtrn (linesOf t) with
      | some l => fmtPairs l
      | none => "error"
  | ["rdtabled1", nm, t] => match rdTabled1 (ofHex nm) (linesOf t) with
      | some d => ";".intercalate (d.map fun (k, ps) => fmtVal k ++ "=" ++ fmtPairs ps)
      | none => "error"
  | ["rdsets", t] => match rdSets (linesOf t) with
      | some d => ";".intercalate (d.map fun (k, v) => fmtVal k ++ "=" ++ " ".intercalate (v.map toString))
      | none => "error"
  | ["pye", w, p, ec, b] => match w.toNat?, p.toNat?, b.toNat? with
      | some w, some p, some b => toHex (pyE w p (ec.toList.headD 'E') (dblOf b))
      | _, _, _ => "bad-op"
  | ["pyf", w, p, b] => match w.toNat?, p.toNat?, b.toNat? with
      | some w, some p, some b => toHex (pyF w p (dblOf b))
      | _, _, _ => "bad-op"
  | "dmigr" :: nm :: sg :: mt :: nr :: nc :: ws => match mt.toNat?, nr.toNat?, nc.toNat?, parseInts ws with
      | some mt, some nr, some nc, some xs =>
          let rowids := pairsOfInts (xs.take (2 * nr))
          let colids := pairsOfInts ((xs.drop (2 * nr)).take (2 * nc))
          let ents := pairsOfInts (xs.drop (2 * nr + 2 * nc))
          let d : Dmig := { name := ofHex nm, single := sg == "1", mtype := mt, rowids := rowids,
                            colids := colids, m := chunks nc ents }
          fileHex d.linesR
      | _, _, _, _ => "bad-op"
  | "usettab" :: r => (do
      let (cs, r) ← pCount pCord r
      let pEnt : List String → Option (UEnt × List String)
        | "g" :: i :: c :: t :: a :: b :: z :: r => match i.toInt?, c.toInt?, t.toInt? with
            | some i, some c, some t => some (UEnt.grid i [] c t (ofHex a, ofHex b, ofHex z), r)
            | _, _, _ => none
        | "s" :: i :: r => i.toInt?.map fun i => (UEnt.spoint i 0, r)
        | _ => none
      let (es, _) ← pCount pEnt r
      some (fmtRes (uset2bulkLines cs es))).getD "bad-op"
  | ["b2u", t] => match bulk2usetGrids (linesOf t) with
      | some gs => " ".intercalate (gs.map fun g => s!"{g.1}.{g.2.1}.{g.2.2}")
      | none => "error"
  | "fileok" :: ws =>
      let segs : List (Option Seg) := ws.map fun w =>
        match w.splitOn "/" with
        | tag :: ls =>
            if tag == "j" then some (Seg.junk (ls.map ofHex))
            else match (tag.drop 1).toNat?, ls with
              | some o, f :: cs => some (Seg.card o (ofHex f) (cs.map ofHex))
              | _, _ => none
        | [] => none
      match segs.mapM id with
      | some ss => if fileOKb bulkReaders ss then "ok" else "bad"
      | none => "bad-op"
  | ["rddmig", t] => fmtDmigs (rdDmig (linesOf t))
  | ["rddmigx", e, q, t] => fmtDmigs (rdDmigX ⟨e == "1", q == "1"⟩ (linesOf t))
  | ws => (answerGrid ws).getD "bad-op"

partial def loop (h : IO.FS.Stream) (out : IO.FS.Stream) : IO Unit := do
  let line ← h.getLine
  if line.isEmpty then return ()
  out.putStrLn (answer (line.trimAscii.toString))
  loop h out

def main : IO Unit := do
  loop (← IO.getStdin) (← IO.getStdout)
