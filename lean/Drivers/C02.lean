import PyYetiVerif.Model.FreqSolve
/-! Line protocol for C02.  Floats travel as decimal `UInt64` bit patterns; a complex number is
two tokens (re im).

case header (shared):
  `<incrb> <rfdisp 0|1> <mNone 0|1> <cplx 0|1> <n> <nf> <rb> <rf> M B K <phi> <eig> freq`
    incrb : `-` (empty string) | letters | `int:<k>` (deprecated integer form)
    rb    : `auto` | `<cnt> idx…`          rf : `<cnt> idx…`
    M B K : n·n complex each (row major; a vector is sent as its diagonal matrix, None as identity)
    phi   : `0` | `1` n·n complex           eig : `0` | `<s> lam(s) <ks> ur_d(ks·s) ur_inv_v(s·ks)`
    freq  : nf real floats (Hz)
requests
  `su <header> <frows> <fcols> F(frows·fcols complex)`   SolveUnc.fsolve
  `fd <header> <frows> <fcols> F`                        FreqDirect.fsolve
  `psd <su|fd> <header> <p> t_frc(n·p complex) forcepsd(p·nf real) <q> <fa fv fd ff> drma(q·n) drmv drmd drmf(q·p) rbduf elduf`
       (a drm whose flag is 0 is absent from the line; rbduf, elduf real floats)
  `state <su|fd> <header>`                                the constructor bookkeeping of a whole problem
  `layout <n> <rf> <rb> <mask n·(0|1)> <eigPath 0|1> <mNone 0|1> <uncReal 0|1>`
       the constructor bookkeeping alone: `mask` is the automatic rigid-body detection result per equation
  `gauss <n> A(n·n) b(n)`                                 the stand-in linear solver
replies
  `ok d(n·nf) v a` (complex, row major) | `ok psd(q·nf real) rms(q real)` | `ok x(n)` | `error <kind>` | `bad-op`
  state: `ok unc | nonrf | rb | el | _rb | _el [| kdof | mRows | state _rb | state _el | imrb | invm | rbMassRows | elRows | rbDampRows]`
  layout: `ok nonrf | rb | el | _rb | _el | kdof | mRows | state _rb | state _el | imrb | invm | rbMassRows | elRows | rbDampRows`
          (index lists separated by `|`, `-` for an absent one) -/
open PyYetiVerif.Freq

abbrev P := StateT (List String) Option

def tok : P String := fun s => match s with
  | [] => none
  | t :: r => some (t, r)
def pNat : P Nat := do let t ← tok; StateT.lift t.toNat?
def pF : P Float := do let n ← pNat; pure (Float.ofBits (UInt64.ofNat n))
def pCx : P Cx := do let a ← pF; let b ← pF; pure ⟨a, b⟩
def pRep {β : Type} (n : Nat) (p : P β) : P (Array β) := do
  let mut out : Array β := Array.mkEmpty n
  for _ in [0:n] do
    out := out.push (← p)
  pure out
def pMat (r c : Nat) : P (Mat Cx) := pRep r (pRep c pCx)
def pIdx : P (Array Nat) := do let k ← pNat; pRep k pNat

def fmtF (x : Float) : String := toString x.toBits.toNat
def fmtCx (z : Cx) : String := fmtF z.re ++ " " ++ fmtF z.im

def cxOps : Ops Cx := ⟨Cx.I, Cx.ofReal (2 * 3.141592653589793), Cx.isZero, Cx.mag⟩
def cxAbsLt (a b : Cx) : Bool := Cx.mag a < Cx.mag b

/-- `Except`-valued so that a `ValueError` of `_process_incrb` is a reply, not a protocol error -/
def pIncrb : P (Option Incrb) := do
  let t ← tok
  if t == "-" then pure (parseIncrb [])
  else if t.startsWith "int:" then
    match (t.drop 4).toString.toInt? with
    | some k => pure (incrbOfInt k)
    | none => StateT.lift none
  else pure (parseIncrb t.toList)

structure Header where
  inc : Option Incrb
  c : Case Cx
  freqR : Array Float

def pHeader : P Header := do
  let inc ← pIncrb
  let rfd ← pNat
  let mNone ← pNat
  let cplx ← pNat
  let n ← pNat
  let nf ← pNat
  let t ← tok
  let rb ← if t == "auto" then pure none else do
    let k ← StateT.lift t.toNat?
    let v ← pRep k pNat
    pure (some v)
  let rf ← pIdx
  let M ← pMat n n
  let B ← pMat n n
  let K ← pMat n n
  let hp ← pNat
  let phi ← if hp == 1 then (do let m ← pMat n n; pure (some m)) else pure none
  let s ← pNat
  let eig ← if s == 0 then pure none else do
    let lam ← pRep s pCx
    let ks ← pNat
    let urd ← pMat ks s
    let urinvv ← pMat s ks
    pure (some (lam, urd, urinvv))
  let freqR ← pRep nf pF
  pure ⟨inc, { n := n, M := M, B := B, K := K, rb := rb, rf := rf, phi := phi, eig := eig,
               freq := freqR.map Cx.ofReal, F := #[], inc := (inc.getD Incrb.all),
               dispOnly := rfd == 1, mNone := mNone == 1, cplx := cplx == 1 }, freqR⟩

def fmtSol (s : Sol Cx) : String :=
  let comp (pick : Dva Cx → Cx) : List String :=
    (s.toList.map fun row => row.toList.map fun x => fmtCx (pick x)).flatten
  " ".intercalate (["ok"] ++ comp (·.d) ++ comp (·.v) ++ comp (·.a))

def runSolve (which : String) (h : Header) (F : Mat Cx) : String :=
  match h.inc with
  | none => "error value-error"
  | some _ =>
    let c := { h.c with F := F }
    let r := if which == "su" then fsolveSU cxOps cxAbsLt c else fsolveFD cxOps cxAbsLt c
    match r with
    | .ok (s, _) => fmtSol s
    | .error e => "error " ++ e

def pSolve (which : String) : P String := do
  let h ← pHeader
  let fr ← pNat
  let fc ← pNat
  let F ← pMat fr fc
  pure (runSolve which h F)

def pPsd : P String := do
  let which ← tok
  let h ← pHeader
  let p ← pNat
  let tfrc ← pMat h.c.n p
  let fpsd ← pRep p (pRep h.freqR.size pF)
  let q ← pNat
  let fa ← pNat; let fv ← pNat; let fd ← pNat; let ff ← pNat
  let opt (flag : Nat) (cols : Nat) : P (Option (Mat Cx)) :=
    if flag == 1 then (do let m ← pMat q cols; pure (some m)) else pure none
  let ra ← opt fa h.c.n
  let rv ← opt fv h.c.n
  let rd ← opt fd h.c.n
  let rff ← opt ff p
  let rbduf ← pF
  let elduf ← pF
  match h.inc with
  | none => pure "error value-error"
  | some _ =>
    let solver : Case Cx → Except String (Sol Cx × Layout) :=
      if which == "su" then fsolveSU cxOps cxAbsLt else fsolveFD cxOps cxAbsLt
    let isOne (z : Cx) : Bool := z.re == 1 && z.im == 0
    match solvePsdCase Cx.normSq isOne solver h.c h.freqR p tfrc fpsd q ra rv rd rff
        (Cx.ofReal rbduf) (Cx.ofReal elduf) with
    | .ok (psd, rms) =>
      pure (" ".intercalate (["ok"] ++ (psd.toList.map fun r => r.toList.map fmtF).flatten
        ++ rms.toList.map fmtF))
    | .error e => pure ("error " ++ e)

def pGauss : P String := do
  let n ← pNat
  let A ← pMat n n
  let b ← pRep n pCx
  let A' : Fin n → Fin n → Cx := fnOfMat A
  let b' : Fin n → Cx := fnOfVec b
  match gaussList Cx.isZero cxAbsLt n (eqnsOfFn A' b') with
  | some x => pure (" ".intercalate ("ok" :: x.map fmtCx))
  | none => pure "error singular"

def fmtIdx (l : List Nat) : String := " ".intercalate (l.map toString)
def fmtOIdx : Option (List Nat) → String
  | some l => fmtIdx l
  | none => "-"

def pLayout : P String := do
  let n ← pNat
  let rf ← pIdx
  let t ← tok
  let rb ← if t == "auto" then pure none else do
    let k ← StateT.lift t.toNat?
    let v ← pRep k pNat
    pure (some v.toList)
  let mask ← pRep n pNat
  let eigPath ← pNat
  let mNone ← pNat
  let uncReal ← pNat
  match mkLayout n rf.toList rb (fun j => mask[j]! == 1) with
  | none => pure "error index-error"
  | some lay =>
    match suInit lay (eigPath == 1) (mNone == 1) with
    | none => pure "error index-error"
    | some st =>
      pure ("ok " ++ " | ".intercalate [fmtIdx lay.nonrf, fmtIdx lay.rb, fmtIdx lay.el, fmtIdx lay.rb_,
        fmtIdx lay.el_, fmtIdx st.kdof, fmtIdx st.mRows, fmtIdx st.rb_, fmtIdx st.el_, fmtOIdx st.imrb,
        fmtOIdx st.invm, fmtOIdx (rbMassRows st (uncReal == 1)), fmtOIdx (elRows st),
        fmtOIdx (rbDampRows st (uncReal == 1))])

/-- constructor bookkeeping of a whole problem: the model's own rigid-body detection, `mkLayout`, and
for `su` the state after `SolveUnc.__init__` -/
def pState (which : String) : P String := do
  let h ← pHeader
  let c := h.c
  let unc := c.unc cxOps
  match c.layout cxOps with
  | .error e => pure ("error " ++ e)
  | .ok lay =>
    let base := [if unc then "1" else "0", fmtIdx lay.nonrf, fmtIdx lay.rb, fmtIdx lay.el, fmtIdx lay.rb_,
      fmtIdx lay.el_]
    if which == "fd" then pure ("ok " ++ " | ".intercalate base)
    else
      let uncReal := unc && !c.cplx
      match suInit lay (!uncReal) c.mNone with
      | none => pure "error index-error"
      | some st =>
        pure ("ok " ++ " | ".intercalate (base ++ [fmtIdx st.kdof, fmtIdx st.mRows, fmtIdx st.rb_,
          fmtIdx st.el_, fmtOIdx st.imrb, fmtOIdx st.invm, fmtOIdx (rbMassRows st uncReal),
          fmtOIdx (elRows st), fmtOIdx (rbDampRows st uncReal)]))

def answer (line : String) : String :=
  let ws := (line.splitOn " ").filter (· ≠ "")
  let run (p : P String) (rest : List String) : String :=
    match p rest with
    | some (r, []) => r
    | _ => "bad-op"
  match ws with
  | "su" :: rest => run (pSolve "su") rest
  | "fd" :: rest => run (pSolve "fd") rest
  | "psd" :: rest => run pPsd rest
  | "gauss" :: rest => run pGauss rest
  | "layout" :: rest => run pLayout rest
  | "state" :: "su" :: rest => run (pState "su") rest
  | "state" :: "fd" :: rest => run (pState "fd") rest
  | _ => "bad-op"

partial def loop (h : IO.FS.Stream) (out : IO.FS.Stream) : IO Unit := do
  let line ← h.getLine
  if line.isEmpty then return ()
  out.putStrLn (answer (line.trimAscii.toString))
  loop h out

def main : IO Unit := do
  loop (← IO.getStdin) (← IO.getStdout)
