import PyYetiVerif.Model.Findap
import PyYetiVerif.Model.Binify
import PyYetiVerif.Model.Fde
import PyYetiVerif.Model.Rainflow
import PyYetiVerif.Model.FdePsd
import PyYetiVerif.Model.FdePsdInf
import PyYetiVerif.Model.FindapFix
import PyYetiVerif.Model.BinifyLabels
import PyYetiVerif.Model.FindapLocate
/-! Line protocol for C10.  Numbers are exact rationals `n` or `n/d`; `|` separates groups,
`;` separates cycles.

  fd  tol | y…                      default findap      → selected indices | `value-error`
  fs  tol | y…                      numba-variant       → selected indices | `value-error`
  nd  tol | y…                      NoSubTolDrift       → `1` | `0`
  gs  n mx mn right                 getbins scalar      → edges
  gv  mx mn right | bins…           getbins vector      → `value-error` | `oob edges…`
  dg  right | xs… | bins…           digitize            → indices
  bf  right ensure | br… | bm… | amp mean cnt ; …       → rows `a b c;d e f` | `index-error`
  bn  right check | s n  or  v b… | s n  or  v b… | amp mean cnt ; …   binify API
                                    → `rows|ampb|aveb` | `value-error` | `index-error`
  sc  tol right | s n or v b… | s n or v b… | y…    sigcount pipeline (findap → rainflow → binify)
  fde nbins | amp cnt ; …           fdepsd bookkeeping  → `amax|levels|count|bincount|df4 df8 df12`
  ab  n right | data…               getbins(n, max(data), min(data), right) and the bin of every datum
                                    → `edges | digitize indices | covered flags` | `value-error` (no data)
  ff  resp Q f T0 nbins tol | x…    per-frequency worker at Float (`Fde.fdeFreq`): every number is the
                                    decimal value of an IEEE-754 bit pattern; `resp` = `a` | `p`
                                    → `srs var amax g2max|levels|count|bincount|df4 df8 df12|18 psd-row values`
                                    | `value-error`
  ft  resp Q f T0 nbins | amp cnt ; …   the same from a cycle table (`Fde.fdeTable`), bit patterns
  bx  right check precision retbins pandas | spec | spec | amp mean cnt ; …    binify, everything returned
                                    → `rows|index;labels|column;labels|names|ampb|aveb` (`-` = absent)
  sx  tol right precision retbins pandas | spec | spec | y…     sigcount, everything returned
  fu  tol | y…                      locate.find_unique  → 0/1 flags | `value-error`
  fdup tol | v…                     locate.find_duplicates → `flags(code model)|flags(documented meaning)`
  xk  tol | y…                      `_unique_kept`'s vectorised test passes (`1`) / the sequential scan runs (`0`)
-/
open PyYetiVerif

def parseRat (s : String) : Option Rat :=
  match s.splitOn "/" with
  | [a] => a.toInt?.map fun n => (n : Rat)
  | [a, b] => do
      let n ← a.toInt?
      let d ← b.toNat?
      if d = 0 then none else some (mkRat n d)
  | _ => none

def parseRats (ws : List String) : Option (List Rat) := ws.mapM parseRat

def fmtRat (r : Rat) : String := if r.den = 1 then s!"{r.num}" else s!"{r.num}/{r.den}"
def fmtRats (l : List Rat) : String := " ".intercalate (l.map fmtRat)
def fmtNats (l : List Nat) : String := " ".intercalate (l.map toString)

def words (s : String) : List String := (s.splitOn " ").filter (· ≠ "")
def groups (s : String) : List (List String) := (s.splitOn "|").map words

def parseBool : String → Option Bool
  | "1" => some true
  | "0" => some false
  | _ => none

def parseCycles (k : Nat) (ws : List String) : Option (List (List Rat)) :=
  let chunks := (" ".intercalate ws).splitOn ";"
  (chunks.filter fun c => words c ≠ []).mapM fun c => do
    let r ← parseRats (words c)
    if r.length = k then some r else none

def parseSpec : List String → Option (Binify.BinSpec Rat)
  | ["s", n] => n.toNat?.map .scalar
  | "v" :: bs => (parseRats bs).map .vector
  | _ => none

def fmtApi : Binify.ApiRes Rat → String
  | .table T a m => s!"{";".intercalate (T.map fmtRats)}|{fmtRats a}|{fmtRats m}"
  | .valueError => "value-error"
  | .indexError => "index-error"

def toCyc3 (cs : List (List Rat)) : List (Rat × Rat × Rat) := cs.filterMap fun
  | [a, m, c] => some (a, m, c)
  | _ => none

/-- `rainflow(sig[findap(sig)])` as `[amp, mean, count]` rows -/
def pipeline (tol : Rat) (y : List Rat) : Option (List (Rat × Rat × Rat)) :=
  match Findap.findapDefFix tol y with
  | none => none
  | some m =>
      let peaks := (Findap.selOf m y 0).map (·.2)
      (Rainflow.rainflowApi peaks).map fun t =>
        t.map fun c => (c.rng / 2, c.sum / 2, if c.full then 1 else 1 / 2)

/-! ### Float instance of the fdepsd model -/

def parseCycles' (ws : List String) : Option (List (Float × Float)) :=
  let chunks := (" ".intercalate ws).splitOn ";"
  (chunks.filter fun c => words c ≠ []).mapM fun c =>
    match words c with
    | [a, b] => do
        let a ← a.toNat?
        let b ← b.toNat?
        some (Float.ofBits a.toUInt64, Float.ofBits b.toUInt64)
    | _ => none


instance : NatCast Float := ⟨Float.ofNat⟩
instance : Zero Float := ⟨Float.ofNat 0⟩
instance : Fde.TransOps Float where
  log := Float.log
  sqrt := Float.sqrt
  pow := Float.pow
  pi := Float.ofBits 0x400921FB54442D18   -- np.pi

def parseF (s : String) : Option Float := s.toNat?.map fun n => Float.ofBits n.toUInt64
def parseFs (ws : List String) : Option (List Float) := ws.mapM parseF
def fmtF (x : Float) : String := toString x.toBits.toNat
def fmtFs (l : List Float) : String := " ".intercalate (l.map fmtF)

def parseResp : String → Option Fde.Resp
  | "a" => some .absacce
  | "p" => some .pvelo
  | _ => none

def fmtTab (t : Fde.TableOut Float) : String :=
  let r := t.row
  let p := t.psd
  s!"{fmtF t.g2max}|{fmtFs r.levels}|{fmtFs r.count}|{fmtFs r.bincount}|{fmtFs [r.df4, r.df8, r.df12]}|" ++
    fmtFs [p.g1, p.g2, p.g4, p.g8, p.g12, p.pk2, p.pk4, p.pk8, p.pk12, p.v4, p.v8, p.v12,
           p.dt4, p.dt8, p.dt12, p.dto4, p.dto8, p.dto12]

def fmtFull : Binify.FullRes → String
  | .valueError => "value-error"
  | .indexError => "index-error"
  | .ok r =>
      let lab := fun (o : Option (List String)) => match o with
        | none => "-"
        | some l => ";".intercalate l
      let nm := match r.names with
        | none => "-"
        | some (a, b) => s!"{a};{b}"
      let bn := match r.bins with
        | none => "-|-"
        | some (a, m) => s!"{fmtRats a}|{fmtRats m}"
      s!"{";".intercalate (r.table.map fmtRats)}|{lab r.index}|{lab r.columns}|{nm}|{bn}"

def fmtMask (m : List Bool) : String := " ".intercalate (m.map fun b => if b then "1" else "0")

def answer (line : String) : String :=
  match groups line with
  | ["bx", r, c, p, rb, up] :: sa :: sm :: [cs] =>
      match parseBool r, parseBool c, p.toNat?, parseBool rb, parseBool up, parseSpec sa, parseSpec sm, parseCycles 3 cs with
      | some r, some c, some p, some rb, some up, some sa, some sm, some cs =>
          fmtFull (Binify.binifyFull r p rb up c sa sm (toCyc3 cs))
      | _, _, _, _, _, _, _, _ => "bad-op"
  | ["sx", t, r, p, rb, up] :: sa :: sm :: [ys] =>
      match parseRat t, parseBool r, p.toNat?, parseBool rb, parseBool up, parseSpec sa, parseSpec sm, parseRats ys with
      | some tol, some r, some p, some rb, some up, some sa, some sm, some y =>
          fmtFull (Binify.sigcountFull tol r p rb up sa sm y)
      | _, _, _, _, _, _, _, _ => "bad-op"
  | ["fu", t] :: [ys] => match parseRat t, parseRats ys with
      | some tol, some y => match Findap.findUnique tol y with
          | some m => fmtMask m
          | none => "value-error"
      | _, _ => "bad-op"
  | ["fdup", t] :: [ys] => match parseRat t, parseRats ys with
      | some tol, some y => s!"{fmtMask (Findap.findDuplicates tol y)}|{fmtMask (Findap.dupSpec tol y)}"
      | _, _ => "bad-op"
  | ["xk", t] :: [ys] => match parseRat t, parseRats ys with
      | some tol, some (a :: r) => if Findap.fastOK (Findap.stol tol (a :: r)) a r then "1" else "0"
      | _, _ => "bad-op"
  | ["ab", n, r] :: [xs] => match n.toNat?, parseBool r, parseRats xs with
      | some n, some r, some xs => match Binify.maxOf xs, Binify.minOf xs with
          | some mx, some mn =>
              let bb := Binify.getbinsScalar n mx mn r
              let idx := xs.map fun x => Binify.digitize r x bb
              -- covered: 1 ≤ idx ≤ n, i.e. the datum lies in one of the n half-open bins
              let cov := idx.map fun d => if 1 ≤ d ∧ d ≤ n then 1 else 0
              s!"{fmtRats bb}|{fmtNats idx}|{fmtNats cov}"
          | _, _ => "value-error"
      | _, _, _ => "bad-op"
  | ["ff", rs, q, f, t0, n, tol] :: [xs] =>
      match parseResp rs, parseF q, parseF f, parseF t0, n.toNat?, parseF tol, parseFs xs with
      | some rs, some q, some f, some t0, some n, some tol, some x =>
          match Fde.fdeFreq rs q f t0 n tol x with
          | some o => s!"{fmtFs [o.srs, o.var, o.tab.row.amax]} {fmtTab o.tab}"
          | none => "value-error"
      | _, _, _, _, _, _, _ => "bad-op"
  | ["g2x", am] :: lv :: [ct] =>
      match parseF am, parseFs lv, parseFs ct with
      | some am, some lv, some ct =>
          match Fde.g2maxX am lv ct with
          | .fin v => s!"fin {fmtF v}"
          | .pinf => "pinf"
          | .ninf => "ninf"
          | .nan => "nan"
      | _, _, _ => "bad-op"
  | ["ft", rs, q, f, t0, n] :: [cs] =>
      match parseResp rs, parseF q, parseF f, parseF t0, n.toNat?,
            (parseCycles' cs) with
      | some rs, some q, some f, some t0, some n, some cyc =>
          match Fde.fdeTable rs q f t0 n cyc with
          | some t => s!"{fmtF t.row.amax} {fmtTab t}"
          | none => "value-error"
      | _, _, _, _, _, _ => "bad-op"
  | ["bn", r, c] :: sa :: sm :: [cs] =>
      match parseBool r, parseBool c, parseSpec sa, parseSpec sm, parseCycles 3 cs with
      | some r, some c, some sa, some sm, some cs => fmtApi (Binify.binifyApi r c sa sm (toCyc3 cs))
      | _, _, _, _, _ => "bad-op"
  | ["sc", t, r] :: sa :: sm :: [ys] =>
      match parseRat t, parseBool r, parseSpec sa, parseSpec sm, parseRats ys with
      | some tol, some r, some sa, some sm, some y => match pipeline tol y with
          | some cyc => fmtApi (Binify.binifyApi r true sa sm cyc)
          | none => "value-error"
      | _, _, _, _, _ => "bad-op"
  | ["fd", t] :: [ys] => match parseRat t, parseRats ys with
      | some tol, some y => match Findap.findapDefFix tol y with
          | some m => fmtNats ((Findap.selOf m y 0).map (·.1))
          | none => "value-error"
      | _, _ => "bad-op"
  | ["fs", t] :: [ys] => match parseRat t, parseRats ys with
      | some tol, some y => match Findap.findapSeqFix tol y with
          | some l => fmtNats (l.map (·.1))
          | none => "value-error"
      | _, _ => "bad-op"
  | ["nd", t] :: [ys] => match parseRat t, parseRats ys with
      | some tol, some y => if Findap.NoSubTolDrift (Findap.stol tol y) y then "1" else "0"
      | _, _ => "bad-op"
  | [["gs", n, mx, mn, r]] => match n.toNat?, parseRat mx, parseRat mn, parseBool r with
      | some n, some mx, some mn, some r => fmtRats (Binify.getbinsScalar n mx mn r)
      | _, _, _, _ => "bad-op"
  | ["gv", mx, mn, r] :: [bs] => match parseRat mx, parseRat mn, parseBool r, parseRats bs with
      | some mx, some mn, some r, some bins => match Binify.getbinsVector bins mx mn r with
          | some (bb, oob) => s!"{if oob then 1 else 0} {fmtRats bb}"
          | none => "value-error"
      | _, _, _, _ => "bad-op"
  | ["dg", r] :: xs :: [bs] => match parseBool r, parseRats xs, parseRats bs with
      | some r, some xs, some bins => fmtNats (xs.map fun x => Binify.digitize r x bins)
      | _, _, _ => "bad-op"
  | ["bf", r, e] :: br :: bm :: [cs] =>
      match parseBool r, parseBool e, parseRats br, parseRats bm, parseCycles 3 cs with
      | some r, some e, some br, some bm, some cs =>
          let cyc : List (Rat × Rat × Rat) := cs.filterMap fun
            | [a, m, c] => some (a, m, c)
            | _ => none
          match Binify.binifyCore r e br bm cyc with
          | some T => ";".intercalate (T.map fmtRats)
          | none => "index-error"
      | _, _, _, _, _ => "bad-op"
  | ["fde", n] :: [cs] => match n.toNat?, parseCycles 2 cs with
      | some n, some cs =>
          let cyc : List (Rat × Rat) := cs.filterMap fun
            | [a, c] => some (a, c)
            | _ => none
          match Fde.row n cyc with
          | some r => s!"{fmtRat r.amax}|{fmtRats r.levels}|{fmtRats r.count}|{fmtRats r.bincount}|{fmtRat r.df4} {fmtRat r.df8} {fmtRat r.df12}"
          | none => "value-error"
      | _, _ => "bad-op"
  | _ => "bad-op"

partial def loop (h : IO.FS.Stream) (out : IO.FS.Stream) : IO Unit := do
  let line ← h.getLine
  if line.isEmpty then return ()
  out.putStrLn (answer (line.trimAscii.toString))
  loop h out

def main : IO Unit := do
  loop (← IO.getStdin) (← IO.getStdout)
