import PyYetiVerif.Model.Findap
import PyYetiVerif.Model.Binify
import PyYetiVerif.Model.Fde
import PyYetiVerif.Model.Rainflow
/-! Line protocol for C10.  Numbers are exact rationals `n` or `n/d`; `|` separates groups,
`;` separates cycles.

  fd  tol | y…                      default findap      → selected indices | `value-error`
  fs  tol | y…                      numba-variant       → selected indices | `unbound` | `value-error`
  nd  tol | y…                      NoSubTolDrift       → `1` | `0`
  gs  n mx mn right                 getbins scalar      → edges
  gv  mx mn right | bins…           getbins vector      → `value-error` | `oob edges…`
  dg  right | xs… | bins…           digitize            → indices
  bf  right ensure | br… | bm… | amp mean cnt ; …       → rows `a b c;d e f` | `index-error`
  bn  right check | s n  or  v b… | s n  or  v b… | amp mean cnt ; …   binify API
                                    → `rows|ampb|aveb` | `value-error` | `index-error`
  sc  tol right | s n or v b… | s n or v b… | y…    sigcount pipeline (findap → rainflow → binify)
  fde nbins | amp cnt ; …           fdepsd bookkeeping  → `amax|levels|count|bincount|df4 df8 df12`
-/
open PyYetiVerif

def parseRat (s : String) : Option Rat :=
  match s.splitOn "/" with
  | [a] => a.toInt?.map fun n => (n : Rat)
  | [a, b] => do
      let n ← a.toInt?
      let d ← b.toNat?
      if d = 0 then none else some (mkRat n d)
  | _ => none

def parseRats (ws : List String) : Option (List Rat) := ws.mapM parseRat

def fmtRat (r : Rat) : String := if r.den = 1 then s!"{r.num}" else s!"{r.num}/{r.den}"
def fmtRats (l : List Rat) : String := " ".intercalate (l.map fmtRat)
def fmtNats (l : List Nat) : String := " ".intercalate (l.map toString)

def words (s : String) : List String := (s.splitOn " ").filter (· ≠ "")
def groups (s : String) : List (List String) := (s.splitOn "|").map words

def parseBool : String → Option Bool
  | "1" => some true
  | "0" => some false
  | _ => none

def parseCycles (k : Nat) (ws : List String) : Option (List (List Rat)) :=
  let chunks := (" ".intercalate ws).splitOn ";"
  (chunks.filter fun c => words c ≠ []).mapM fun c => do
    let r ← parseRats (words c)
    if r.length = k then some r else none

def parseSpec : List String → Option (Binify.BinSpec Rat)
  | ["s", n] => n.toNat?.map .scalar
  | "v" :: bs => (parseRats bs).map .vector
  | _ => none

def fmtApi : Binify.ApiRes Rat → String
  | .table T a m => s!"{";".intercalate (T.map fmtRats)}|{fmtRats a}|{fmtRats m}"
  | .valueError => "value-error"
  | .indexError => "index-error"

def toCyc3 (cs : List (List Rat)) : List (Rat × Rat × Rat) := cs.filterMap fun
  | [a, m, c] => some (a, m, c)
  | _ => none

/-- `rainflow(sig[findap(sig)])` as `[amp, mean, count]` rows -/
def pipeline (tol : Rat) (y : List Rat) : Option (List (Rat × Rat × Rat)) :=
  match Findap.findapDef tol y with
  | none => none
  | some m =>
      let peaks := (Findap.selOf m y 0).map (·.2)
      (Rainflow.rainflowApi peaks).map fun t =>
        t.map fun c => (c.rng / 2, c.sum / 2, if c.full then 1 else 1 / 2)

def answer (line : String) : String :=
  match groups line with
  | ["bn", r, c] :: sa :: sm :: [cs] =>
      match parseBool r, parseBool c, parseSpec sa, parseSpec sm, parseCycles 3 cs with
      | some r, some c, some sa, some sm, some cs => fmtApi (Binify.binifyApi r c sa sm (toCyc3 cs))
      | _, _, _, _, _ => "bad-op"
  | ["sc", t, r] :: sa :: sm :: [ys] =>
      match parseRat t, parseBool r, parseSpec sa, parseSpec sm, parseRats ys with
      | some tol, some r, some sa, some sm, some y => match pipeline tol y with
          | some cyc => fmtApi (Binify.binifyApi r true sa sm cyc)
          | none => "value-error"
      | _, _, _, _, _ => "bad-op"
  | ["fd", t] :: [ys] => match parseRat t, parseRats ys with
      | some tol, some y => match Findap.findapDef tol y with
          | some m => fmtNats ((Findap.selOf m y 0).map (·.1))
          | none => "value-error"
      | _, _ => "bad-op"
  | ["fs", t] :: [ys] => match parseRat t, parseRats ys with
      | some tol, some y => match Findap.findapSeq tol y with
          | .sel l => fmtNats (l.map (·.1))
          | .unbound => "unbound"
          | .empty => "value-error"
      | _, _ => "bad-op"
  | ["nd", t] :: [ys] => match parseRat t, parseRats ys with
      | some tol, some y => if Findap.NoSubTolDrift (Findap.stol tol y) y then "1" else "0"
      | _, _ => "bad-op"
  | [["gs", n, mx, mn, r]] => match n.toNat?, parseRat mx, parseRat mn, parseBool r with
      | some n, some mx, some mn, some r => fmtRats (Binify.getbinsScalar n mx mn r)
      | _, _, _, _ => "bad-op"
  | ["gv", mx, mn, r] :: [bs] => match parseRat mx, parseRat mn, parseBool r, parseRats bs with
      | some mx, some mn, some r, some bins => match Binify.getbinsVector bins mx mn r with
          | some (bb, oob) => s!"{if oob then 1 else 0} {fmtRats bb}"
          | none => "value-error"
      | _, _, _, _ => "bad-op"
  | ["dg", r] :: xs :: [bs] => match parseBool r, parseRats xs, parseRats bs with
      | some r, some xs, some bins => fmtNats (xs.map fun x => Binify.digitize r x bins)
      | _, _, _ => "bad-op"
  | ["bf", r, e] :: br :: bm :: [cs] =>
      match parseBool r, parseBool e, parseRats br, parseRats bm, parseCycles 3 cs with
      | some r, some e, some br, some bm, some cs =>
          let cyc : List (Rat × Rat × Rat) := cs.filterMap fun
            | [a, m, c] => some (a, m, c)
            | _ => none
          match Binify.binifyCore r e br bm cyc with
          | some T => ";".intercalate (T.map fmtRats)
          | none => "index-error"
      | _, _, _, _, _ => "bad-op"
  | ["fde", n] :: [cs] => match n.toNat?, parseCycles 2 cs with
      | some n, some cs =>
          let cyc : List (Rat × Rat) := cs.filterMap fun
            | [a, c] => some (a, c)
            | _ => none
          match Fde.row n cyc with
          | some r => s!"{fmtRat r.amax}|{fmtRats r.levels}|{fmtRats r.count}|{fmtRats r.bincount}|{fmtRat r.df4} {fmtRat r.df8} {fmtRat r.df12}"
          | none => "value-error"
      | _, _ => "bad-op"
  | _ => "bad-op"

partial def loop (h : IO.FS.Stream) (out : IO.FS.Stream) : IO Unit := do
  let line ← h.getLine
  if line.isEmpty then return ()
  out.putStrLn (answer (line.trimAscii.toString))
  loop h out

def main : IO Unit := do
  loop (← IO.getStdin) (← IO.getStdout)
