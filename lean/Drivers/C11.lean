import PyYetiVerif.Model.Op2
import PyYetiVerif.Model.Op2Read
import PyYetiVerif.Model.Op4VariantsRead
import PyYetiVerif.Model.Op4VariantsAscii
import PyYetiVerif.Model.Op2ReadForms
/-! Line protocol for C11 (numbers decimal, byte strings hex).

  encv <l|b> <bit64> <single> <n> vmat…        → hex bytes of an OUTPUT4 binary variant file
     vmat = <namehex|-> <form> <cplx> <rows> <ncols> <d|b|n> <negRows> <npresent>
            { <col> <nstr> { <r0> <nreals> real… } }
  enca <perline> <width> <useD> <lead1P> <fmtD> <lower> <n> amat…   → hex of an OUTPUT4 ASCII variant file
     amat = <namehex|-> <form> <cplx> <single> <rows> <ncols> <d|b|n> <negRows> <npresent>
            { <col> <nstr> { <r0> <nvals> { <neg> <exp> <ndigits> digit… } } }
  op2 <l|b> <bit64> <d1> <d2> <d3> <labelhex> <n> block…            → `<hex> <start:stop,start:stop,…>`
     block = m <namehex> <t1..t7> <single> <ncols> { <nstr> { <row> <nreals> real… } }
           | t <namehex> <t1..t7> <nrec> { <npieces> { <nkeys> key… } }
  rd2 <hex>    → the reader model of Model/Op2Read.lean (transcription of op2.py) run on the bytes:
     `err <class>` when `OP2(file)` raises (struct value index empty exotic), else
     `ok <l|b> <bit64> <d1,d2,d3|-> <labelhex|-> <hasheader> <postpos> <nblocks> block… MATS mats`
     block = B <namehex|-> <start> <stop> <dbtype> <rows>,<cols> <trailer,…|-> <nheaders> { <h1,h2,h3> <reclen> }
             <position after set_position(start); goto_next()>
             then the block read from its start (`rdop2nt` + `rdop2matrix` / `rdop2record` until None):
               M <storedrows> <cplx> <width> <ncols> { <nnz> { <row>:<bits> } } <endpos>
             | T <nrec> { <n> key… } <endpos>  |  E <class>
     mats  = <n> { <namehex|-> M … }  |  E <class>            (`rdop2mats()`)
  rd4 <cut> <mode> <names|-> <hex>   → the binary OUTPUT4 reader model of Model/Op4VariantsRead.lean on the bytes;
     mode d|s|a = `op4.load(file, namelist, into='list', sparse=False|True|None)`, l = `op4.dir(file)`,
     * = `d ;; s ;; a ;; l`; names = comma separated hex names (`-`: no name list); cut = `_rowsCutoff`
     reply `err <class>` or `ok <l|b> <bit64> item|item|…`
     item (load) = <namehex>,<rows>,<cols>,<form>,<mtype>,<layout d|b|n>,<sparse 0|1>,<width>,<data>
       data (dense)  = per column `<nnz> <idx>:<bits> …` over the stored reals (2 per complex element) | huge | put-error:<class>
       data (sparse) = `<r> <c> <bits> [<bits>]` per element, file order | put-error:<class>
     item (dir)  = <namehex>,<abs rows>,<cols>,<form>,<mtype>
  rda <names|-> <hex>   → `op4.load(file, namelist, into='list')` on an ASCII file by the name-list loop of
     Model/Op4VariantsAscii.lean: `err` | `ok item|item|…`, item = <namehex>,<rows>,<cols>,<form>,<mtype>,<nputs>,<nvalues>
  rec2 <l|b> <bit64> <cut> <form i|u|s|d|b> <N> <hex>   → `rdop2record(form, N)` of Model/Op2ReadForms.lean on the bytes
     (positioned at a record): `err <class>` | `none <consumed>` | `ok <consumed> <n> item…` (bit patterns / bytes)
  mats2 <which int|all> <names|-> <hex>   → `rdop2mats(names, which)` on a whole OUTPUT2 file:
     `err <class>` | `ok <n> { <namehex> <k> { M … } }`
-/
open PyYetiVerif.Op4 PyYetiVerif.Op4V PyYetiVerif.Op2 PyYetiVerif.Op2R

abbrev P := StateT (List String) Option

def tok : P String := do
  match (← get) with
  | [] => failure
  | t :: r => set r; pure t

def nat : P Nat := do
  match (← tok).toNat? with
  | some n => pure n
  | none => failure

def int : P Int := do
  match (← tok).toInt? with
  | some n => pure n
  | none => failure

def flag : P Bool := do pure ((← nat) == 1)

def hexVal (c : Char) : Option Nat :=
  if '0' ≤ c ∧ c ≤ '9' then some (c.toNat - 48)
  else if 'a' ≤ c ∧ c ≤ 'f' then some (c.toNat - 87)
  else if 'A' ≤ c ∧ c ≤ 'F' then some (c.toNat - 55) else none

def unhex : List Char → Option (List Nat)
  | [] => some []
  | a :: b :: t => do
    let x ← hexVal a
    let y ← hexVal b
    let r ← unhex t
    some ((x * 16 + y) :: r)
  | _ => none

def hexDigit (n : Nat) : Char := if n < 10 then Char.ofNat (48 + n) else Char.ofNat (87 + n)

def toHex (bs : List Nat) : String :=
  String.ofList (bs.flatMap fun b => [hexDigit (b / 16 % 16), hexDigit (b % 16)])

def hexTok : P (List Nat) := do
  let t ← tok
  if t == "-" then pure [] else
  match unhex t.toList with
  | some b => pure b
  | none => failure

def rep {α} (p : P α) : Nat → P (List α)
  | 0 => pure []
  | n + 1 => do
    let a ← p
    let r ← rep p n
    pure (a :: r)

def counted {α} (p : P α) : P (List α) := do
  let n ← nat
  rep p n

def layP : P Layout := do
  match (← tok) with
  | "d" => pure .dense
  | "b" => pure .bigmat
  | "n" => pure .nonbigmat
  | _ => failure

def endianP : P Endian := do
  match (← tok) with
  | "l" => pure .little
  | "b" => pure .big
  | _ => failure

def vstrP : P VStr := do
  let r0 ← nat
  let xs ← counted nat
  pure (r0, xs)

def vmatP : P VMat := do
  let name ← hexTok
  let form ← nat
  let cplx ← flag
  let rows ← nat
  let ncols ← nat
  let lay ← layP
  let neg ← flag
  let cols ← counted (do
    let c ← nat
    let ss ← counted vstrP
    pure (c, ss))
  pure { name, form, cplx, rows, ncols, lay, negRows := neg, cols }

def adecP : P ADec := do
  let neg ← flag
  let exp ← int
  let ds ← counted nat
  pure { neg, digits := ds, exp }

def amatP : P AMat := do
  let name ← hexTok
  let form ← nat
  let cplx ← flag
  let single ← flag
  let rows ← nat
  let ncols ← nat
  let lay ← layP
  let neg ← flag
  let cols ← counted (do
    let c ← nat
    let ss ← counted (do
      let r0 ← nat
      let xs ← counted adecP
      pure (r0, xs))
    pure (c, ss))
  pure { name, form, cplx, single, rows, ncols, lay, negRows := neg, cols }

def blockP : P Block := do
  match (← tok) with
  | "m" =>
    let name ← hexTok
    let trailer ← rep int 7
    let single ← flag
    let cols ← counted (counted (do
      let r ← nat
      let xs ← counted nat
      pure ((r, xs) : MStr)))
    pure (.mat { name, trailer, single, cols })
  | "t" =>
    let name ← hexTok
    let trailer ← rep int 7
    let recs ← counted (counted (counted int))
    pure (.tab { name, trailer, records := recs })
  | _ => failure


/-! ### the reader model on raw bytes -/

def unhexFast (t : String) : Option (List Nat) :=
  let b := t.toUTF8
  if b.size % 2 ≠ 0 then none else Id.run do
    let mut out : Array Nat := Array.mkEmpty (b.size / 2)
    let mut good := true
    for i in [0:b.size / 2] do
      match hexVal (Char.ofNat (b.get! (2 * i)).toNat), hexVal (Char.ofNat (b.get! (2 * i + 1)).toNat) with
      | some x, some y => out := out.push (x * 16 + y)
      | _, _ => good := false
    if good then some out.toList else none

def errName : Err → String
  | .struct => "struct"
  | .value => "value"
  | .index => "index"
  | .empty => "empty"
  | .exotic => "exotic"
  | .fuel => "fuel"

def hexOrDash (b : List Nat) : String := if b.isEmpty then "-" else toHex b
def intsTok (xs : List Int) : String := if xs.isEmpty then "-" else ",".intercalate (xs.map toString)

def matToks (m : PyYetiVerif.Op2R.Mat) (out : Array String) : Array String := Id.run do
  let mut out := (((((out.push "M").push (toString m.rows)).push (if m.cplx then "1" else "0")).push
    (toString m.width)).push (toString m.cols.length))
  for c in m.cols do
    let mut i := 0
    let mut ent : Array String := #[]
    for x in c do
      if x != 0 then ent := ent.push s!"{i}:{x}"
      i := i + 1
    out := out.push (toString ent.size)
    out := out ++ ent
  return out

def hugeEntry (x : PyYetiVerif.Op2R.Entry) : Bool := x.size.1.natAbs * x.size.2.natAbs > 20000000

def blockToks (v : V2) (f : List Nat) (total : Nat) (dir : List PyYetiVerif.Op2R.Entry) (x : PyYetiVerif.Op2R.Entry) (out : Array String) : Array String := Id.run do
  let mut out := (((((((out.push "B").push (hexOrDash x.name)).push (toString x.start)).push (toString x.stop)).push
    (toString x.dbtype)).push s!"{x.size.1},{x.size.2}").push (intsTok x.trailer)).push (toString x.headers.length)
  for h in x.headers do
    out := (out.push (intsTok h.1)).push (toString h.2)
  out := out.push (match gotoNext dir x.start with | .ok p => toString p | .error e => errName e)
  if x.dbtype > 0 && hugeEntry x then return (out.push "E").push "huge" else
  match rdBlock v (f.drop x.start) with
  | .error e => return (out.push "E").push (errName e)
  | .ok (none, _) => return (out.push "E").push "eof"
  | .ok (some (_, .mat m), s) => return (matToks m out).push (toString (total - s.length))
  | .ok (some (_, .tab rs), s) =>
    out := (out.push "T").push (toString rs.length)
    for r in rs do
      out := out.push (toString r.length)
      for k in r do
        out := out.push (toString k)
    return out.push (toString (total - s.length))

def rd2 (f : List Nat) : String :=
  match openOp2 f with
  | .error e => "err " ++ errName e
  | .ok o => Id.run do
    let total := f.length
    let mut out : Array String := #["ok", (match o.v.e with | .little => "l" | .big => "b"), (if o.v.bit64 then "1" else "0")]
    match o.header with
    | none => out := ((out.push "-").push "-").push "0"
    | some h => out := ((out.push (intsTok h.date)).push (hexOrDash h.label)).push "1"
    out := (out.push (toString o.postpos)).push (toString o.dir.length)
    for x in o.dir do
      out := blockToks o.v f total o.dir x out
    out := out.push "MATS"
    let mats : Array String :=
      if o.dir.any hugeEntry then #["E", "huge"] else
        match rdMats o.v f o.dir with
        | .error e => #["E", errName e]
        | .ok ms => Id.run do
          let mut a : Array String := #[toString ms.length]
          for (n, m) in ms do
            a := matToks m (a.push (hexOrDash n))
          return a
    out := out ++ mats
    return " ".intercalate out.toList

/-! ### the binary OUTPUT4 reader model -/

open PyYetiVerif.Op4VR in
def showDec4 (v : V2) (mode : Char) (d : VDec) : String :=
  let cplx := decide (d.mtype ≥ 3)
  let m := if cplx then 2 else 1
  let rows := d.rows.natAbs
  let cols := d.cols.toNat
  let width := (PyYetiVerif.Op4VR.cfgOf v 0 d.mtype).rb
  let sparse := match mode with
    | 's' => true
    | 'd' => false
    | _ => d.sparseAuto
  let lay := match d.layout with | .dense => "d" | .bigmat => "b" | .nonbigmat => "n"
  let head := s!"{toHex d.name},{d.rows},{d.cols},{d.form},{d.mtype},{lay},{if sparse then 1 else 0},{width},"
  if sparse then
    match PyYetiVerif.Op4VR.cooOfPuts m d.puts with
    | .error e => head ++ "put-error:" ++ errName e
    | .ok trip =>
      -- `coo_matrix((V, (I, J)), shape)` refuses indices outside the shape
      if trip.any (fun t => t.1 ≥ rows ∨ t.2.1 ≥ cols) then head ++ "put-error:value" else
      head ++ " ".intercalate (trip.map fun (r, c, xs) =>
        let xs := if cplx && width == 8 then
            match xs with
            | [a, b] => let e := PyYetiVerif.Op4.cooEntry true (a, b); [e.1, e.2]
            | _ => xs
          else xs
        s!"{r} {c} " ++ " ".intercalate (xs.map toString))
  else
    if rows * cols > 20000000 then head ++ "huge" else
    match PyYetiVerif.Op4VR.applyPuts m rows cols d.puts with
    | .error e => head ++ "put-error:" ++ errName e
    | .ok X => head ++ " ".intercalate (X.map fun col => Id.run do
        let mut i := 0
        let mut ent : Array String := #[]
        for x in col do
          if x != 0 then ent := ent.push s!"{i}:{x}"
          i := i + 1
        return " ".intercalate (toString ent.size :: ent.toList))

open PyYetiVerif.Op4VR in
def rd4 (cut : Int) (mode : Char) (pl : List (List Nat)) (f : List Nat) : String :=
  match PyYetiVerif.Op4VR.detect f with
  | .error e => "err " ++ errName e
  | .ok none => "err ascii"
  | .ok (some v) =>
    let head := s!"ok {match v.e with | .little => "l" | .big => "b"} {if v.bit64 then 1 else 0} "
    let ld := PyYetiVerif.Op4VR.loadLoop v cut pl (f.length + 1) 0 f
    let one := fun (m : Char) => match ld with
      | .error e => "err " ++ errName e
      | .ok ds => head ++ "|".intercalate (ds.map (showDec4 v m))
    let dr := match PyYetiVerif.Op4VR.dirLoop v (f.length + 1) 0 f with
      | .error e => "err " ++ errName e
      | .ok ls => head ++ "|".intercalate (ls.map fun (n, r, c, fo, t) => s!"{toHex n},{r},{c},{fo},{t}")
    match mode with
    | 'l' => dr
    | '*' => " ;; ".intercalate [one 'd', one 's', one 'a', dr]
    | m => one m

/-! ### the ASCII name-list loop, `rdop2record(form, N)`, `rdop2mats(names, which)` -/

def rda (pl : List (List Nat)) (f : List Nat) : String :=
  match PyYetiVerif.Op4VA.loadAsciiNamed pl (f.map Char.ofNat) with
  | none => "err"
  | some l => "ok " ++ "|".intercalate (l.map fun (n, d) =>
      s!"{toHex n},{d.rows},{d.cols},{d.form},{d.mtype},{d.puts.length},{(d.puts.map fun p => p.2.2.length).sum}")

def formOf (t : String) : Option PyYetiVerif.Op2RF.Form :=
  match t with
  | "i" => some .int
  | "u" => some .uint
  | "s" => some .single
  | "d" => some .double
  | "b" => some .bytes
  | _ => none

def rec2 (v : V2) (cut : Int) (fm : PyYetiVerif.Op2RF.Form) (N : Nat) (f : List Nat) : String :=
  match PyYetiVerif.Op2RF.rdRecordF v cut fm N f with
  | .error e => "err " ++ errName e
  | .ok (none, s) => s!"none {f.length - s.length}"
  | .ok (some xs, s) => s!"ok {f.length - s.length} {xs.length} " ++ " ".intercalate (xs.map toString)

def mats2 (w : PyYetiVerif.Op2RF.Which) (names : Option (List (List Nat))) (f : List Nat) : String :=
  match openOp2 f with
  | .error e => "err " ++ errName e
  | .ok o =>
    match PyYetiVerif.Op2RF.rdMatsSel o.v f o.dir names w with
    | .error e => "err " ++ errName e
    | .ok l => Id.run do
      let mut a : Array String := #["ok", toString l.length]
      for (n, ms) in l do
        a := (a.push (hexOrDash n)).push (toString ms.length)
        for m in ms do
          a := matToks m a
      return " ".intercalate a.toList

def namesTok (t : String) : Option (List (List Nat)) :=
  if t == "-" then some [] else (t.splitOn ",").mapM fun x => unhex x.toList

def run (p : P String) (ws : List String) : String :=
  match p.run ws with
  | some (s, []) => s
  | _ => "bad-op"

def answer (line : String) : String :=
  match (line.splitOn " ").filter (· ≠ "") with
  | "encv" :: ws => run (do
      let e ← endianP
      let bit64 ← flag
      let single ← flag
      let ms ← counted vmatP
      pure (toHex (encVFile { e, bit64, single } ms))) ws
  | "enca" :: ws => run (do
      let perline ← nat
      let width ← nat
      let useD ← flag
      let lead1P ← flag
      let fmtD ← flag
      let lower ← flag
      let ms ← counted amatP
      pure (toHex ((encAFile { perline, width, useD, lead1P, fmtD, lower } ms).map Char.toNat))) ws
  | "op2" :: ws => run (do
      let e ← endianP
      let bit64 ← flag
      let date ← rep int 3
      let label ← hexTok
      let bs ← counted blockP
      let v : V2 := { e, bit64 }
      let pos := positions v date label bs
      pure (toHex (encOp2 v date label bs) ++ " " ++
        ",".intercalate (pos.map fun (a, b) => s!"{a}:{b}"))) ws
  | ["rd2", hx] =>
    match unhexFast hx with
    | some f => rd2 f
    | none => "bad-op"
  | ["rd2"] => rd2 []
  | ["rd4", cut, mode, names, hx] =>
    match cut.toInt?, mode.toList, namesTok names, unhexFast hx with
    | some cut, [m], some pl, some f => rd4 cut m pl f
    | _, _, _, _ => "bad-op"
  | ["rda", names, hx] =>
    match namesTok names, unhexFast hx with
    | some pl, some f => rda pl f
    | _, _ => "bad-op"
  | ["rec2", e, b64, cut, fm, n, hx] =>
    match (if e == "l" then some Endian.little else if e == "b" then some Endian.big else none), cut.toInt?, formOf fm,
        n.toNat?, unhexFast hx with
    | some e, some cut, some fm, some n, some f => rec2 ⟨e, b64 == "1"⟩ cut fm n f
    | _, _, _, _, _ => "bad-op"
  | ["mats2", w, names, hx] =>
    match (if w == "all" then some PyYetiVerif.Op2RF.Which.all else w.toInt?.map PyYetiVerif.Op2RF.Which.idx),
        namesTok names, unhexFast hx with
    | some w, some pl, some f => mats2 w (if names == "-" then none else some pl) f
    | _, _, _ => "bad-op"
  | ["rd4", cut, mode, names] =>
    match cut.toInt?, mode.toList, namesTok names with
    | some cut, [m], some pl => rd4 cut m pl []
    | _, _, _ => "bad-op"
  | _ => "bad-op"

partial def loop (h : IO.FS.Stream) (out : IO.FS.Stream) : IO Unit := do
  let line ← h.getLine
  if line.isEmpty then return ()
  out.putStrLn (answer (line.trimAscii.toString))
  loop h out

def main : IO Unit := do
  loop (← IO.getStdin) (← IO.getStdout)
