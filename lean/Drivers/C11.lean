import PyYetiVerif.Model.Op2
/-! Line protocol for C11 (numbers decimal, byte strings hex).

  encv <l|b> <bit64> <single> <n> vmat…        → hex bytes of an OUTPUT4 binary variant file
     vmat = <namehex|-> <form> <cplx> <rows> <ncols> <d|b|n> <negRows> <npresent>
            { <col> <nstr> { <r0> <nreals> real… } }
  enca <perline> <width> <useD> <lead1P> <fmtD> <lower> <n> amat…   → hex of an OUTPUT4 ASCII variant file
     amat = <namehex|-> <form> <cplx> <single> <rows> <ncols> <d|b|n> <negRows> <npresent>
            { <col> <nstr> { <r0> <nvals> { <neg> <exp> <ndigits> digit… } } }
  op2 <l|b> <bit64> <d1> <d2> <d3> <labelhex> <n> block…            → `<hex> <start:stop,start:stop,…>`
     block = m <namehex> <t1..t7> <single> <ncols> { <nstr> { <row> <nreals> real… } }
           | t <namehex> <t1..t7> <nrec> { <npieces> { <nkeys> key… } }
-/
open PyYetiVerif.Op4 PyYetiVerif.Op4V PyYetiVerif.Op2

abbrev P := StateT (List String) Option

def tok : P String := do
  match (← get) with
  | [] => failure
  | t :: r => set r; pure t

def nat : P Nat := do
  match (← tok).toNat? with
  | some n => pure n
  | none => failure

def int : P Int := do
  match (← tok).toInt? with
  | some n => pure n
  | none => failure

def flag : P Bool := do pure ((← nat) == 1)

def hexVal (c : Char) : Option Nat :=
  if '0' ≤ c ∧ c ≤ '9' then some (c.toNat - 48)
  else if 'a' ≤ c ∧ c ≤ 'f' then some (c.toNat - 87)
  else if 'A' ≤ c ∧ c ≤ 'F' then some (c.toNat - 55) else none

def unhex : List Char → Option (List Nat)
  | [] => some []
  | a :: b :: t => do
    let x ← hexVal a
    let y ← hexVal b
    let r ← unhex t
    some ((x * 16 + y) :: r)
  | _ => none

def hexDigit (n : Nat) : Char := if n < 10 then Char.ofNat (48 + n) else Char.ofNat (87 + n)

def toHex (bs : List Nat) : String :=
  String.ofList (bs.flatMap fun b => [hexDigit (b / 16 % 16), hexDigit (b % 16)])

def hexTok : P (List Nat) := do
  let t ← tok
  if t == "-" then pure [] else
  match unhex t.toList with
  | some b => pure b
  | none => failure

def rep {α} (p : P α) : Nat → P (List α)
  | 0 => pure []
  | n + 1 => do
    let a ← p
    let r ← rep p n
    pure (a :: r)

def counted {α} (p : P α) : P (List α) := do
  let n ← nat
  rep p n

def layP : P Layout := do
  match (← tok) with
  | "d" => pure .dense
  | "b" => pure .bigmat
  | "n" => pure .nonbigmat
  | _ => failure

def endianP : P Endian := do
  match (← tok) with
  | "l" => pure .little
  | "b" => pure .big
  | _ => failure

def vstrP : P VStr := do
  let r0 ← nat
  let xs ← counted nat
  pure (r0, xs)

def vmatP : P VMat := do
  let name ← hexTok
  let form ← nat
  let cplx ← flag
  let rows ← nat
  let ncols ← nat
  let lay ← layP
  let neg ← flag
  let cols ← counted (do
    let c ← nat
    let ss ← counted vstrP
    pure (c, ss))
  pure { name, form, cplx, rows, ncols, lay, negRows := neg, cols }

def adecP : P ADec := do
  let neg ← flag
  let exp ← int
  let ds ← counted nat
  pure { neg, digits := ds, exp }

def amatP : P AMat := do
  let name ← hexTok
  let form ← nat
  let cplx ← flag
  let single ← flag
  let rows ← nat
  let ncols ← nat
  let lay ← layP
  let neg ← flag
  let cols ← counted (do
    let c ← nat
    let ss ← counted (do
      let r0 ← nat
      let xs ← counted adecP
      pure (r0, xs))
    pure (c, ss))
  pure { name, form, cplx, single, rows, ncols, lay, negRows := neg, cols }

def blockP : P Block := do
  match (← tok) with
  | "m" =>
    let name ← hexTok
    let trailer ← rep int 7
    let single ← flag
    let cols ← counted (counted (do
      let r ← nat
      let xs ← counted nat
      pure ((r, xs) : MStr)))
    pure (.mat { name, trailer, single, cols })
  | "t" =>
    let name ← hexTok
    let trailer ← rep int 7
    let recs ← counted (counted (counted int))
    pure (.tab { name, trailer, records := recs })
  | _ => failure

def run (p : P String) (ws : List String) : String :=
  match p.run ws with
  | some (s, []) => s
  | _ => "bad-op"

def answer (line : String) : String :=
  match (line.splitOn " ").filter (· ≠ "") with
  | "encv" :: ws => run (do
      let e ← endianP
      let bit64 ← flag
      let single ← flag
      let ms ← counted vmatP
      pure (toHex (encVFile { e, bit64, single } ms))) ws
  | "enca" :: ws => run (do
      let perline ← nat
      let width ← nat
      let useD ← flag
      let lead1P ← flag
      let fmtD ← flag
      let lower ← flag
      let ms ← counted amatP
      pure (toHex ((encAFile { perline, width, useD, lead1P, fmtD, lower } ms).map Char.toNat))) ws
  | "op2" :: ws => run (do
      let e ← endianP
      let bit64 ← flag
      let date ← rep int 3
      let label ← hexTok
      let bs ← counted blockP
      let v : V2 := { e, bit64 }
      let pos := positions v date label bs
      pure (toHex (encOp2 v date label bs) ++ " " ++
        ",".intercalate (pos.map fun (a, b) => s!"{a}:{b}"))) ws
  | _ => "bad-op"

partial def loop (h : IO.FS.Stream) (out : IO.FS.Stream) : IO Unit := do
  let line ← h.getLine
  if line.isEmpty then return ()
  out.putStrLn (answer (line.trimAscii.toString))
  loop h out

def main : IO Unit := do
  loop (← IO.getStdin) (← IO.getStdout)
