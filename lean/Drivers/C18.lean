import PyYetiVerif.Model.Uset
import PyYetiVerif.Model.UsetUp
import PyYetiVerif.Model.Locate
import PyYetiVerif.Model.UsetXyz
import PyYetiVerif.Model.UsetTran
import PyYetiVerif.Model.UsetTranShapes
/-! Line protocol for C18.  A request is `op args | section | section …`; sections hold
space-separated integers (matrix rows are separated by `;`).  Replies: `ok …` with sections
separated by ` | `, or `value-error` / `index-error` / `key-error` / `type-error` /
`recursion-error` (the recursion fuel `selist.length + 1` of upqsetpv is used up), or `bad-op`.

  mask a+o+m                                  -> ok <int>
  setpv <major> <minor> | w…                  -> ok 0 1 …        (set spec: names or #<int>)
  expand 1 <gridsonly> | id…   /  expand 2 | id arg …          -> ok id dof …
  dofpv <strict> <spec> 1 <gridsonly> | id dof word … | id…    (spec: P = literal 'p')
  dofpv <strict> <spec> 2 | id dof word … | id arg …           -> ok pv… | id dof …
  makeuset 1 | id… | nas…   /  makeuset 2 | id arg … | nas…    -> ok id dof word …
  makeusetx 1|2 | id… or id arg … | nas… | x y z …             -> ok id dof word x y z …  (nan = unset)
  upa <seup> | seup sedn … | se : id dof word … ; … | se : dnid … ; … | se : order scale … ; … | se : upid … ; …
                                                               -> ok pv…          (upasetpv)
  upq <sedn> | (the same five sections)                        -> ok 0 1 …        (upqsetpv)
  sep | (the same five sections)                               -> ok 1 / ok 0     (separateB: hypothesis of upqsetpv_spec)
  findse <se> | seup sedn …                                    -> ok row          (_findse)
  nodeids | id dof word …                                      -> ok id …         (_get_node_ids)
  xyz <den> <tn> <td> | k k k k k k ; …   (entries k/den, tol = tn/td)   (find_xyz_triples)
                               -> ok pv… | x y z ; … | scale² … | model_scale   (rationals n/d, nan = unset) / borderline
  dups <tol> | v…              -> ok 0 1 …
  flippv <n> | pv…  /  i2b <n> | pv…
  i2s <strict> | pv…           -> ok slice a b c   (None for an absent field) / ok pv …
  pyslice <n> a b c            -> ok …
  matint <keep> <c1> <c2> | r ; r ; … | r ; r ; …             -> ok pv1 | pv2
  lint | l1 | l2               -> ok pv1 | pv2
  merge | l1 | l2              -> ok merged | pv1 | pv2
  subseq | seq | sub           -> ok pv
  fvals | r ; r ; … | v…       -> ok 0 1 …   (column-major)
  frows <c> | r ; r ; … | row  -> ok 0 1 …
  funique <tn> <td> | y…       -> ok 1 0 …   (tol = tn/td)
  ftran <se> <gset> 1 <g>|2 | (five nas sections) | got | goq | gm | pha | phg | request
                               -> ok nr nc : entries | id dof …            (formtran; a matrix section is `se : nr nc v … ; …`)
  fulvs <seup> <sedn> <keepcset> <shortcut> <gset> | (5) | (5 matrices) | ulvs      -> ok one / ok nr nc : entries   (formulvs)
  fshapes <seup> <sedn> <keepcset> <gset> | (5) | (5 matrices)      -> ok <0|1> | nr nc ; nr nc ; … | wf <0|1>   (wf = wfB: phg / pha rectangular; shapesTest: the levels of
                               the loop of formulvs from seup down to sedn: ShapesAgree, then rows / columns of each level)
  fdrm <seup> <sedn> <gset> 1 <g>|2 | (5) | (5 matrices) | ulvs | request           -> ok nr nc : entries | id dof …  (formdrm)
  qftran / qfulvs / qfdrm                      the same three with rational entries `n/d` (the nas2cam files of pyYeti's tests;
                                               qfulvs, qfdrm without the ulvs section), replies with rational entries
  addulvs <sedn> <keepcset> <shortcut> <gset> | (5) | (5 matrices) | ulvs | se…     -> ok se : one ; se : nr nc : entries ; …
       (ulvs section: `none` = no such key, else `dict se : one ; se : nr nc v …`)
  usetprt | id dof word … | * or names         -> ok names | id dof dof# n … ; …  / ok none      (usetprt: returned table)
Float / mixed inputs are dyadic (k/4) and sent scaled by 4.
-/
open PyYetiVerif PyYetiVerif.Uset PyYetiVerif.Locate

def toks (s : String) : List String := (s.splitOn " ").filter (· ≠ "")
def ints (s : String) : Option (List Int) := (toks s).mapM String.toInt?
def nats (s : String) : Option (List Nat) := (toks s).mapM String.toNat?
def rows (s : String) : Option (List (List Int)) :=
  if (toks s).isEmpty then some [] else (s.splitOn ";").mapM ints

def pairs : List Nat → Option (List (Nat × Nat))
  | [] => some []
  | a :: b :: r => (pairs r).map ((a, b) :: ·)
  | _ => none

def triples : List Nat → Option (List (Nat × Nat × Nat))
  | [] => some []
  | a :: b :: c :: r => (triples r).map ((a, b, c) :: ·)
  | _ => none

def itriples : List Int → Option (List (Int × Int × Int))
  | [] => some []
  | a :: b :: c :: r => (itriples r).map ((a, b, c) :: ·)
  | _ => none

def ipairs : List Int → Option (List (Int × Int))
  | [] => some []
  | a :: b :: r => (ipairs r).map ((a, b) :: ·)
  | _ => none

/-- a dictionary section `se : v … ; se : v …` -/
def dictOf {β} (s : String) (f : String → Option β) : Option (List (Nat × β)) :=
  if (toks s).isEmpty then some []
  else (s.splitOn ";").mapM fun e =>
    match e.splitOn ":" with
    | [k, v] => match (toks k), f v with
        | [k'], some b => k'.toNat?.map (·, b)
        | _, _ => none
    | _ => none

def nasOf (sl us dn mp up : String) : Option Nas := do
  let selist ← (nats sl).bind pairs
  let uset ← dictOf us (fun v => (nats v).bind triples)
  let dnids ← dictOf dn nats
  let maps ← dictOf mp (fun v => (ints v).bind ipairs)
  let upids ← dictOf up ints
  pure { selist, uset, dnids, maps, upids }

/-- `nr nc v …` -/
def matOf (s : String) : Option (M Int) :=
  match ints s with
  | some (nr :: nc :: vals) =>
      if nr < 0 ∨ nc < 0 ∨ vals.length ≠ nr.toNat * nc.toNat then none
      else some ⟨(List.range nr.toNat).map (fun i => (vals.drop (i * nc.toNat)).take nc.toNat), nc.toNat⟩
  | _ => none

/-- a rational `n/d` or an integer -/
def ratOf (t : String) : Option Rat :=
  match t.splitOn "/" with
  | [n] => n.toInt?.map (fun i => (i : Rat))
  | [n, d] => match n.toInt?, d.toNat? with
      | some n, some d => if d = 0 then none else some ((n : Rat) / (d : Rat))
      | _, _ => none
  | _ => none

/-- `nr nc v …` with rational entries -/
def matOfQ (s : String) : Option (M Rat) :=
  match toks s with
  | nr :: nc :: vals =>
      match nr.toNat?, nc.toNat?, vals.mapM ratOf with
      | some nr, some nc, some vs =>
          if vs.length ≠ nr * nc then none
          else some ⟨(List.range nr).map (fun i => (vs.drop (i * nc)).take nc), nc⟩
      | _, _, _ => none
  | _ => none

def nasTOfQ (secs : List String) : Option (NasT Rat) :=
  match secs with
  | [sl, us, dn, mp, up, a, b, c, d, e] => do
      let nas ← nasOf sl us dn mp up
      let got ← dictOf a matOfQ
      let goq ← dictOf b matOfQ
      let gm ← dictOf c matOfQ
      let pha ← dictOf d matOfQ
      let phg ← dictOf e matOfQ
      pure { nas, got, goq, gm, pha, phg }
  | _ => none

def nasTOf (secs : List String) : Option (NasT Int) :=
  match secs with
  | [sl, us, dn, mp, up, a, b, c, d, e] => do
      let nas ← nasOf sl us dn mp up
      let got ← dictOf a matOf
      let goq ← dictOf b matOf
      let gm ← dictOf c matOf
      let pha ← dictOf d matOf
      let phg ← dictOf e matOf
      pure { nas, got, goq, gm, pha, phg }
  | _ => none

def ulvsOf (s : String) : Option (Option (List (Nat × Ulvs Int))) :=
  match toks s with
  | ["none"] => some none
  | "dict" :: _ =>
      let body := (s.splitOn "dict").getD 1 ""
      (dictOf body (fun v => if toks v = ["one"] then some Ulvs.one else (matOf v).map Ulvs.mat)).map some
  | _ => none

def showL {α} [ToString α] (l : List α) : String := " ".intercalate (l.map toString)
def showB (l : List Bool) : String := showL (l.map fun b => if b then 1 else 0)
def errS : Err → String
  | .value => "value-error" | .index => "index-error" | .key => "key-error" | .type => "type-error"
  | .recursion => "recursion-error"
def flat2 (l : List (Nat × Nat)) : List Nat := l.flatMap fun p => [p.1, p.2]

/-- `mkusetmask(str)`: split on '+', every piece must be a key. -/
def maskOfString (s : String) : Except Err Nat :=
  match (s.splitOn "+").mapM SetName.ofString? with
  | some ks => .ok (setsMask Generated.UsetMask.mask ks)
  | none => .error .key

def setSpec (s : String) : Except Err Nat :=
  if s.startsWith "#" then
    match (s.drop 1).toString.toNat? with | some n => .ok n | none => .error .key
  else maskOfString s

def terrS : TErr → String
  | .base e => errS e | .runtime => "runtime-error" | .fuel => "fuel"
def replyT {α} (r : Except TErr α) (f : α → String) : String :=
  match r with | .ok v => "ok " ++ f v | .error e => terrS e
def showM (m : M Int) : String := s!"{m.r.length} {m.c} : " ++ showL m.r.flatten
def showU : Ulvs Int → String | .one => "one" | .mat m => showM m
def mks : Masks := Masks.ofTable Generated.UsetMask.mask
def showQ (x : Rat) : String := if x.den = 1 then toString x.num else s!"{x.num}/{x.den}"
def showMQ (m : M Rat) : String := s!"{m.r.length} {m.c} : " ++ " ".intercalate (m.r.flatten.map showQ)
def showUQ : Ulvs Rat → String | .one => "one" | .mat m => showMQ m
def keyOf (i d : Nat) : List Int := [(i : Int), (d : Int)]

def optI : Option Int → String | some v => toString v | none => "None"
def parseOptI (s : String) : Option (Option Int) :=
  if s = "None" then some none else s.toInt?.map some

def reply {α} (r : Except Err α) (f : α → String) : String :=
  match r with | .ok v => "ok " ++ f v | .error e => errS e

def request (kind : List String) (sec : String) : Option Request :=
  match kind with
  | ["1", g] => (nats sec).map fun l => Request.ids l (g = "1")
  | ["2"] => (nats sec).bind pairs |>.map Request.rows
  | _ => none

def answer (line : String) : String :=
  let secs := (line.splitOn "|")
  match secs with
  | [] => "bad-op"
  | hd :: rest =>
  match toks hd, rest with
  | ["mask", s], [] => reply (maskOfString s) toString
  | ["setpv", mj, mn], [w] =>
      match nats w with
      | some ws => reply (do
          let a ← setSpec mj
          let b ← setSpec mn
          mksetpv ws a b) showB
      | none => "bad-op"
  | "expand" :: kind, [sec] =>
      match request kind sec with
      | some rq => reply (expanddof rq) (fun l => showL (flat2 l))
      | none => "bad-op"
  | "dofpv" :: strict :: spec :: kind, [tb, sec] =>
      match (nats tb).bind triples, request kind sec with
      | some tbl, some rq =>
          reply (do
            let sp ← if spec = "P" then pure SetSpec.p else (setSpec spec).map SetSpec.mask
            mkdofpv (Generated.UsetMask.mask .p) tbl sp rq (strict = "1"))
            (fun r => showL r.1 ++ " | " ++ showL (flat2 r.2))
      | _, _ => "bad-op"
  | "makeuset" :: kind, [sec, ns] =>
      match request (if kind = ["1"] then ["1", "1"] else kind) sec, nats ns with
      | some rq, some nas =>
          reply (makeUset rq nas) (fun l => showL (l.flatMap fun r => [r.1, r.2.1, r.2.2]))
      | _, _ => "bad-op"
  | "makeusetx" :: kind, [sec, ns, xs] =>
      match request (if kind = ["1"] then ["1", "1"] else kind) sec, nats ns, (ints xs).bind itriples with
      | some rq, some nas, some xyz =>
          reply (makeUsetXyz rq nas xyz) (fun l => " ".intercalate (l.map fun (r, c) =>
            s!"{r.1} {r.2.1} {r.2.2} " ++ match c with
              | some (x, y, z) => s!"{x} {y} {z}"
              | none => "nan nan nan"))
      | _, _, _ => "bad-op"
  | ["upa", se], [sl, us, dn, mp, up] =>
      match se.toNat?, nasOf sl us dn mp up with
      | some se, some nas => reply (upasetpv nas se) showL
      | _, _ => "bad-op"
  | ["xyz", den, tn, td], [m] =>
      match den.toNat?, tn.toInt?, td.toNat?, (m.splitOn ";").mapM ints with
      | some den, some tn, some td, some rows =>
          if den = 0 ∨ td = 0 ∨ rows.any (fun r => r.length ≠ 6) then "bad-op"
          else
            let q := fun (k : Int) => (k : Rat) / (den : Rat)
            let mk : List Int → Xyz.Row := fun r =>
              (fun i => q (r.getD i.val 0), fun i => q (r.getD (i.val + 3) 0))
            let showQ := fun (x : Rat) => s!"{x.num}/{x.den}"
            match Xyz.findXyzTriples ((tn : Rat) / (td : Rat)) (rows.map mk) with
            | none => "borderline"
            | some res =>
                "ok " ++ showB res.pv ++ " | " ++
                " ; ".intercalate (res.coords.map fun c => match c with
                  | some (x, y, z) => s!"{showQ x} {showQ y} {showQ z}" | none => "nan") ++ " | " ++
                " ".intercalate (res.scale2.map fun c => match c with | some s => showQ s | none => "nan") ++
                " | " ++ showQ res.modelScale
      | _, _, _, _ => "bad-op"
  | ["findse", se], [sl] =>
      match se.toNat?, (nats sl).bind pairs with
      | some se, some l => reply (findse l se) toString
      | _, _ => "bad-op"
  | ["nodeids"], [tb] =>
      match (nats tb).bind triples with
      | some tbl => "ok " ++ showL (nodeIds tbl)
      | none => "bad-op"
  | ["sep"], [sl, us, dn, mp, up] =>
      match nasOf sl us dn mp up with
      | some nas => "ok " ++ (if separateB (Generated.UsetMask.mask .a) (Generated.UsetMask.mask .q)
          (Generated.UsetMask.mask .p) nas then "1" else "0")
      | none => "bad-op"
  | ["upq", se], [sl, us, dn, mp, up] =>
      match se.toNat?, nasOf sl us dn mp up with
      | some se, some nas =>
          let m := Generated.UsetMask.mask
          reply (upqsetpv (m .a) (m .q) (m .p) nas (nas.selist.length + 1) se) showB
      | _, _ => "bad-op"
  | "ftran" :: se :: gset :: kind, [s1, s2, s3, s4, s5, a, b, c, d, e, rq] =>
      match se.toNat?, nasTOf [s1, s2, s3, s4, s5, a, b, c, d, e], request kind rq with
      | some se, some nt, some rq =>
          replyT (formtran (fun i d => [(i : Int), (d : Int)]) mks nt se rq (gset = "1")) (fun r => showM r.1 ++ " | " ++ showL (flat2 r.2))
      | _, _, _ => "bad-op"
  | ["fulvs", seup, sedn, kc, sc, gset], [s1, s2, s3, s4, s5, a, b, c, d, e, u] =>
      match seup.toNat?, sedn.toNat?, nasTOf [s1, s2, s3, s4, s5, a, b, c, d, e], ulvsOf u with
      | some seup, some sedn, some nt, some ul =>
          replyT (formulvs (fun i d => [(i : Int), (d : Int)]) mks nt ul seup sedn (kc = "1") (sc = "1") (gset = "1")) showU
      | _, _, _, _ => "bad-op"
  | ["fshapes", seup, sedn, kc, gset], [s1, s2, s3, s4, s5, a, b, c, d, e] =>
      match seup.toNat?, sedn.toNat?, nasTOf [s1, s2, s3, s4, s5, a, b, c, d, e] with
      | some seup, some sedn, some nt =>
          replyT (shapesTest (fun i d => [(i : Int), (d : Int)]) mks nt seup sedn (kc = "1") (gset = "1"))
            (fun r => (if r.1 then "1" else "0") ++ " | " ++ " ; ".intercalate (r.2.map fun m => s!"{m.r.length} {m.c}") ++
              " | wf " ++ (if wfB nt then "1" else "0"))
      | _, _, _ => "bad-op"
  | "fdrm" :: seup :: sedn :: gset :: kind, [s1, s2, s3, s4, s5, a, b, c, d, e, u, rq] =>
      match seup.toNat?, sedn.toNat?, nasTOf [s1, s2, s3, s4, s5, a, b, c, d, e], ulvsOf u, request kind rq with
      | some seup, some sedn, some nt, some ul, some rq =>
          replyT (formdrm (fun i d => [(i : Int), (d : Int)]) mks nt ul seup rq sedn (gset = "1")) (fun r => showM r.1 ++ " | " ++ showL (flat2 r.2))
      | _, _, _, _, _ => "bad-op"
  | "qftran" :: se :: gset :: kind, [s1, s2, s3, s4, s5, a, b, c, d, e, rq] =>
      match se.toNat?, nasTOfQ [s1, s2, s3, s4, s5, a, b, c, d, e], request kind rq with
      | some se, some nt, some rq =>
          replyT (formtran keyOf mks nt se rq (gset = "1")) (fun r => showMQ r.1 ++ " | " ++ showL (flat2 r.2))
      | _, _, _ => "bad-op"
  | ["qfulvs", seup, sedn, kc, sc, gset], [s1, s2, s3, s4, s5, a, b, c, d, e] =>
      match seup.toNat?, sedn.toNat?, nasTOfQ [s1, s2, s3, s4, s5, a, b, c, d, e] with
      | some seup, some sedn, some nt =>
          replyT (formulvs keyOf mks nt none seup sedn (kc = "1") (sc = "1") (gset = "1")) showUQ
      | _, _, _ => "bad-op"
  | "qfdrm" :: seup :: sedn :: gset :: kind, [s1, s2, s3, s4, s5, a, b, c, d, e, rq] =>
      match seup.toNat?, sedn.toNat?, nasTOfQ [s1, s2, s3, s4, s5, a, b, c, d, e], request kind rq with
      | some seup, some sedn, some nt, some rq =>
          replyT (formdrm keyOf mks nt none seup rq sedn (gset = "1")) (fun r => showMQ r.1 ++ " | " ++ showL (flat2 r.2))
      | _, _, _, _ => "bad-op"
  | ["addulvs", sedn, kc, sc, gset], [s1, s2, s3, s4, s5, a, b, c, d, e, u, ses] =>
      match sedn.toNat?, nasTOf [s1, s2, s3, s4, s5, a, b, c, d, e], ulvsOf u, nats ses with
      | some sedn, some nt, some ul, some ses =>
          replyT (addulvs (fun i d => [(i : Int), (d : Int)]) mks nt ul ses sedn (kc = "1") (sc = "1") (gset = "1"))
            (fun l => " ; ".intercalate (l.map fun p => s!"{p.1} : " ++ showU p.2))
      | _, _, _, _ => "bad-op"
  | ["usetprt"], [tb, names] =>
      match (nats tb).bind triples with
      | some tbl =>
          let ps : Option (List SetName) :=
            if toks names = ["*"] then none
            else some ((toks names).filterMap SetName.ofString?)
          (match usetprtTable Generated.UsetMask.mask tbl ps with
           | none => "ok none"
           | some (nm, rows) => "ok " ++ " ".intercalate (nm.map SetName.toString) ++ " | " ++
               " ; ".intercalate (rows.map fun r => showL ([r.1, r.2.1, r.2.2.1] ++ r.2.2.2)))
      | none => "bad-op"
  | ["dups", tol], [v] =>
      match tol.toInt?, ints v with
      | some t, some l => "ok " ++ showB (findDuplicates l t)
      | _, _ => "bad-op"
  | ["flippv", n], [pv] =>
      match n.toNat?, ints pv with
      | some n, some l => reply (flippv l n) showL
      | _, _ => "bad-op"
  | ["i2b", n], [pv] =>
      match n.toNat?, ints pv with
      | some n, some l => reply (index2bool l n) showB
      | _, _ => "bad-op"
  | ["i2s", strict], [pv] =>
      match ints pv with
      | some l => reply (index2slice l (strict = "1")) fun
          | .slice a b c => s!"slice {optI a} {optI b} {optI c}"
          | .pv p => "pv " ++ showL p
      | none => "bad-op"
  | ["pyslice", n, a, b, c], [] =>
      match n.toNat?, parseOptI a, parseOptI b, parseOptI c with
      | some n, some a, some b, some c => reply (pySlice a b c n) showL
      | _, _, _, _ => "bad-op"
  | ["matint", keep, c1, c2], [a, b] =>
      match keep.toNat?, c1.toNat?, c2.toNat?, rows a, rows b with
      | some k, some c1, some c2, some d1, some d2 =>
          let r := matIntersect d1 d2 c1 c2 k
          "ok " ++ showL r.1 ++ " | " ++ showL r.2
      | _, _, _, _, _ => "bad-op"
  | ["lint"], [a, b] =>
      match ints a, ints b with
      | some l1, some l2 => let r := listIntersect l1 l2; "ok " ++ showL r.1 ++ " | " ++ showL r.2
      | _, _ => "bad-op"
  | ["merge"], [a, b] =>
      match ints a, ints b with
      | some l1, some l2 =>
          let r := mergeLists l1 l2
          "ok " ++ showL r.1 ++ " | " ++ showL r.2.1 ++ " | " ++ showL r.2.2
      | _, _ => "bad-op"
  | ["subseq"], [a, b] =>
      match ints a, ints b with
      | some l1, some l2 => reply (findSubseq l1 l2) showL
      | _, _ => "bad-op"
  | ["fvals"], [a, b] =>
      match rows a, ints b with
      | some m, some v => "ok " ++ showB (findVals m v)
      | _, _ => "bad-op"
  | ["frows", c], [a, b] =>
      match c.toNat?, rows a, ints b with
      | some c, some m, some r => "ok " ++ showB (findRows m c r)
      | _, _, _ => "bad-op"
  | ["funique", tn, td], [y] =>
      match tn.toInt?, td.toNat?, ints y with
      | some tn, some td, some y => reply (findUnique y tn td) showB
      | _, _, _ => "bad-op"
  | _, _ => "bad-op"

partial def loop (h : IO.FS.Stream) (out : IO.FS.Stream) : IO Unit := do
  let line ← h.getLine
  if line.isEmpty then return ()
  out.putStrLn (answer (line.trimAscii.toString))
  loop h out

def main : IO Unit := do
  loop (← IO.getStdin) (← IO.getStdout)
